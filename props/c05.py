"""C05 — FSQ and LFQ quantize each scalar to the level the papers prescribe."""
import copy, math, os, re, struct, subprocess, time
from fractions import Fraction
from vlib import core
from vlib.core import qlit

OBLIGATIONS = dict(
    prop_file='Properties/C05.v',
    glue=['Glue/ScalarGlue.v', 'Glue/Pin_p_fsq_quantize.v', 'Glue/Pin_k_fsq_offset.v', 'Glue/EinopsGlueBase.v', 'Glue/EinopsGlueScalar.v'] + ['Glue/Pin_fp_C05.v'],
    extra=['Model/Scalar.vo'],
    gen_items=['k_lfq_ste', 'k_fsq_bound', 'k_fsq_sym_bound', 'k_lfq_quantize', 'k_fsq_offset', 'p_fsq_quantize', 'k_fsq_half_width', 'pr_scalar', 'fp_C05'],
)
ASSUMPTIONS = [
    'libm tanh / atanh of torch (float32) are modelled by the real functions within delta = 2e-5 (in units of one level): a sample is accepted iff the real bound lies within [k - 1/2 - delta, k + 1/2 + delta] of the level k the implementation produced; '
    'each such inequality is certified by the `interval` tactic (kernel-checked), with z given as the exact rational value of the float32 input',
    'inputs with |z| > 40 are checked against the saturation theorem (extreme level) instead of an interval goal',
]
DELTA = '(1 / 50000)'
HEAD = '''From Coq Require Import Reals.
From Flocq Require Import Core.
From Interval Require Import Tactic.
From VQ Require Import Model.Scalar.
Open Scope R_scope.
'''
HEADER_Q = '''From Coq Require Import ZArith QArith List Bool.
From VQ Require Import Num Model.Vec.
From VQ.Gen Require Import k_lfq_quantize.
Import ListNotations.
Open Scope Q_scope.
'''


def rlit(x):
    """Coq real literal for the exact value of a float"""
    m, e = core.dyadic(float(x))
    if e >= 0:
        return f'({m * (1 << e)})'
    return f'({m} / {1 << (-e)})'


def ulps(x, k=3):
    b = struct.unpack('<i', struct.pack('<f', x))[0]
    out = []
    for d in range(-k, k + 1):
        bb = b + d if b >= 0 else b - d
        try:
            v = struct.unpack('<f', struct.pack('<i', bb))[0]
            if v == v and abs(v) != float('inf'):
                out.append(v)
        except struct.error:
            pass
    return out


def sweep(L, sym, rng, nrand):
    zs = [0.0, 1e-30, -1e-30, 1e-3, -1e-3, 0.5, -0.5, 3.0, -3.0, 9.0, -9.0, 39.0, -39.0]
    for e in range(-20, 6):
        for mant in (1.0, 1.5, 1.999):
            zs += [mant * 2.0 ** e, -mant * 2.0 ** e]
    if not sym:
        eps = 1e-3
        half_l = (L - 1) * (1 + eps) / 2
        off = 0.5 if L % 2 == 0 else 0.0
        shift = math.atanh(off / half_l)
        for k in range(-(L // 2) - 1, L // 2 + 1):
            y = (k + 0.5 + off) / half_l
            if -1 < y < 1:
                zs += ulps(math.atanh(y) - shift)
    else:
        for k in range(L):
            y = (k + 0.5) * 2 / (L - 1) - 1
            if -1 < y < 1:
                zs += ulps(math.atanh(y))
    zs += [rng.gauss(0, 2.0) for _ in range(nrand)]
    return sorted(set(core.f32(z) for z in zs))


def certify(ctx, name, goals):
    """goals: list of (label, coq proposition).  Returns list of labels whose goal `interval` could not close."""
    bad = []
    name = f'{name}_p{os.getpid()}'
    remaining = list(goals)
    for attempt in range(6):
        if not remaining:
            break
        lines = [HEAD]
        where = {}
        for i, (lab, prop) in enumerate(remaining):
            where[len(lines)] = i
            lines.append(f'Goal {prop}. Proof. unfold fsq_bound, fsq_sym_level, Gen.k_fsq_bound.k_fsq_bound, fsq_offset, th, ath; cbn -[exp ln IZR Rmult Rplus Rminus Rdiv Rinv Zfloor]; interval with (i_prec 60). Qed.')
        path = os.path.join(core.CASES, name + '.v')
        open(path, 'w').write('\n'.join(lines) + '\n')
        p = subprocess.run(['timeout', '900', 'coqc', '-w', '-all', '-Q', '.', 'VQ', os.path.join('Cases', name + '.v')], cwd=core.COQ, capture_output=True, text=True)
        ctx.case_files += 1
        if p.returncode == 0:
            ctx.case_files_ok += 1
            break
        m = re.search(r'line (\d+)', p.stdout + p.stderr)
        if not m:
            bad.append(('?', (p.stdout + p.stderr)[-300:]))
            break
        ln = int(m.group(1))
        # the header occupies several physical lines: map by counting newlines
        hdr = HEAD.count('\n')
        idx = ln - hdr - 1
        if not (0 <= idx < len(remaining)):
            bad.append(('?', (p.stdout + p.stderr)[-300:]))
            break
        bad.append((remaining[idx][0], 'interval could not certify'))
        remaining = remaining[idx + 1:]     # everything before idx is certified
    else:
        # attempts exhausted: whatever was not certified counts as failed (fail-closed)
        bad += [(lab, 'not certified (too many failing goals in this shard)') for lab, _ in remaining]
    return bad


def correspond(ctx, scale):
    import torch
    from vector_quantize_pytorch import FSQ, LFQ, ResidualFSQ
    rng = ctx.rng
    failures, samples = [], []
    ev = nt = 0
    dist = {'fsq_samples': 0, 'fsq_sym_samples': 0, 'saturated_inputs': 0, 'interval_goals': 0, 'lfq_samples': 0, 'metamorphic': 0, 'monotone_pairs': 0, 'module_cast_sweeps': 0}
    Ls = list(range(2, 17)) + ([26, 33] if ctx.thorough else [])
    nrand = (6 if not ctx.thorough else 60) * scale
    goals_by_shard = {}
    meta = {}
    gid = 0
    # PROCESS-GLOBAL state: before anything else, throw-away modules with the same level counts use the public helpers with NON-default arguments
    # (bound(z, eps=0.25) to plot the curve with a wider margin ...) - what another instance did earlier in the process changes nothing here
    for sym in (False, True):
        for L in Ls:
            try:
                tq = FSQ([L], preserve_symmetry=sym)
                with torch.no_grad():
                    tq.bound(torch.linspace(-3, 3, 7).reshape(1, 7, 1), eps=0.25)
                    if hasattr(tq, 'symmetry_preserving_bound'):
                        tq.symmetry_preserving_bound(torch.linspace(-3, 3, 7).reshape(1, 7, 1))
                dist['throwaway_helper_calls'] = dist.get('throwaway_helper_calls', 0) + 1
            except Exception:
                pass
    for sym in (False, True):
        for L in Ls:
            q = FSQ([L], preserve_symmetry=sym)
            q.eval()
            zs = sweep(L, sym, rng, nrand)
            if not ctx.thorough:
                zs = zs[:: max(1, len(zs) // 70)] + zs[-1:]
            zt = torch.tensor(zs, dtype=torch.float32).reshape(1, -1, 1)
            with torch.no_grad():
                out, idx = q(zt)
            # the scalar map is a function of the float32 input alone: a module cast to another precision (its persistent state is integer
            # level data only) must quantize float32 inputs identically
            # ... and a module that was cast to a lower precision AND BACK quantizes exactly as the module that never was (its float buffers were rounded
            # on the way; they are derived constants, the scalar map does not read them)
            for cast in ('half', 'bfloat16'):
                q3 = getattr(copy.deepcopy(q), cast)().float()
                for tr3 in (False, True):
                    q3.train(tr3)
                    with torch.no_grad():
                        out3, idx3 = q3(zt)
                    dist['cast_round_trip_sweeps'] = dist.get('cast_round_trip_sweeps', 0) + 1
                    if not (torch.equal(idx3, idx) and torch.equal(out3, out)):
                        failures.append({'key': f'fsq:cast-round-trip:{cast}', 'what': f'FSQ([{L}], sym={sym}).{cast}().float() (train={tr3}) quantizes {int((out3 != out).sum())} of {out.numel()} inputs to a different value '
                                         f'than the module that was never cast (max abs diff {float((out3 - out).abs().max()):g})', 'case': dict(L=L, sym=sym, cast=cast)})
                        break
            for cast in ('half', 'bfloat16', 'double'):
                q2 = getattr(copy.deepcopy(q), cast)()
                with torch.no_grad():
                    out2, idx2 = q2(zt)
                dist['module_cast_sweeps'] += 1
                if not (torch.equal(idx2, idx) and torch.equal(out2.float(), out.float())):
                    nbad = int((idx2 != idx).sum())
                    failures.append({'key': f'fsq:module-cast:{cast}', 'what': f'FSQ([{L}], sym={sym}).{cast}() quantizes {nbad} of {idx.numel()} float32 inputs to a different level than the float32 module', 'case': dict(L=L, sym=sym, cast=cast)})
            out = out.reshape(-1)
            idx = idx.reshape(-1).tolist()
            hw = L // 2
            prev = None
            for z, o, k_idx in zip(zs, out.tolist(), idx):
                ev += 1
                dist['fsq_sym_samples' if sym else 'fsq_samples'] += 1
                # the emitted value must be the grid value of the returned level index
                want = (k_idx * (2.0 / (L - 1)) - 1.0) if sym else (k_idx - hw) / hw
                if abs(o - want) > 1e-6 or not (0 <= k_idx < L):
                    failures.append({'key': f'fsq:L={L}:sym={sym}:value-not-grid', 'what': f'FSQ([{L}], sym={sym}) z={z!r}: output {o!r} is not the grid value of level {k_idx}', 'case': dict(L=L, sym=sym, z=z)})
                    continue
                if prev is not None and o < prev - 1e-7:
                    failures.append({'key': f'fsq:L={L}:sym={sym}:not-monotone', 'what': f'FSQ([{L}], sym={sym}): output decreases between consecutive inputs near z={z!r}', 'case': dict(L=L, sym=sym, z=z)})
                prev = o
                dist['monotone_pairs'] += 1
                if abs(z) > 40:
                    dist['saturated_inputs'] += 1
                    if k_idx != (L - 1 if z > 0 else 0):
                        failures.append({'key': f'fsq:L={L}:sym={sym}:saturation', 'what': f'FSQ([{L}], sym={sym}) z={z!r}: level {k_idx} is not the extreme level', 'case': dict(L=L, sym=sym, z=z)})
                    continue
                if sym:
                    prop = f'IZR ({k_idx}) - {DELTA} <= (IZR ({L}) - 1) * (th {rlit(z)} + 1) / 2 + / 2 <= IZR ({k_idx}) + 1 + {DELTA}'
                else:
                    k = k_idx - hw
                    prop = f'IZR ({k}) - / 2 - {DELTA} <= fsq_bound (1 / 1000) ({L}) {rlit(z)} <= IZR ({k}) + / 2 + {DELTA}'
                lab = gid
                meta[gid] = dict(L=L, sym=sym, z=z, level=k_idx)
                goals_by_shard.setdefault(gid % core.NPROC, []).append((lab, prop))
                gid += 1
                nt += 1
            if len(samples) < 4:
                samples.append(dict(L=L, sym=sym, n_inputs=len(zs), first=[(zs[i], idx[i]) for i in range(0, len(zs), max(1, len(zs) // 5))][:5]))
    # certify in parallel shards
    import concurrent.futures
    dist['interval_goals'] = gid
    with concurrent.futures.ThreadPoolExecutor(max_workers=core.NPROC) as ex:
        futs = {ex.submit(certify, ctx, f'c05_iv_{s}', g): s for s, g in goals_by_shard.items()}
        for fu in concurrent.futures.as_completed(futs):
            for lab, why in fu.result():
                m = meta.get(lab, {})
                failures.append({'key': f'fsq:L={m.get("L")}:sym={m.get("sym")}:level-not-prescribed',
                                 'what': f'FSQ([{m.get("L")}], sym={m.get("sym")}) z={m.get("z")!r}: the implementation returned level {m.get("level")} but the real-valued bounding function does not round to it ({why})',
                                 'case': m})
    # ---------------- LFQ: sign rule, exact, evaluated at Q by the regenerated kernel
    cases, lmeta = [], []
    for scale_ in (1.0, 0.5, 2.0, 0.25):
        xs = [0.0, -0.0, 1e-30, -1e-30, 1e-38, -1e-38, 1.0, -1.0, 3e4, -3e4] + [rng.gauss(0, 1) for _ in range(20)]
        xs = [core.f32(x) for x in xs]
        q = LFQ(codebook_size=2, dim=1, codebook_scale=scale_)
        q.eval()
        with torch.no_grad():
            out = q(torch.tensor(xs).reshape(1, -1, 1)).quantized.reshape(-1).tolist()
        for x, o in zip(xs, out):
            ev += 1
            dist['lfq_samples'] += 1
            cases.append(f'(if Qeq_bool (k_lfq_quantize Q_ops {qlit(x)} {qlit(scale_)}) {qlit(o)} then 0 else 1)%nat')
            lmeta.append(dict(x=x, scale=scale_, out=o))
        # training mode and every straight-through activation: the FORWARD VALUE is still +-scale (the activation only shapes the gradient),
        # equal to the evaluation-mode value up to the rounding of x + (q - x)
        from torch import nn
        for act_name, act in (('identity', None), ('tanh', nn.Tanh()), ('sigmoid', nn.Sigmoid()), ('relu', nn.ReLU())):
            for sph in (False, True):
                dd = 2
                qa = LFQ(codebook_size=2 ** dd, dim=dd, codebook_scale=scale_, spherical=sph, **({'straight_through_activation': act} if act is not None else {}))
                xa = torch.tensor([core.f32(rng.gauss(0, 1.5)) for _ in range(2 * 5 * dd)]).reshape(2, 5, dd)
                xa[0, 0, 0] = 0.0
                with torch.no_grad():
                    qa.eval()
                    oe = qa(xa).quantized
                    qa.train()
                    ot = qa(xa).quantized
                dist['lfq_train_activation_cases'] = dist.get('lfq_train_activation_cases', 0) + 1
                ev += 1
                if not torch.allclose(ot, oe, atol=2e-6, rtol=1e-6):
                    failures.append({'key': f'lfq:train-value:{act_name}', 'what': f'LFQ(scale={scale_}, spherical={sph}, straight_through_activation={act_name}): the training-mode output differs from the evaluation-mode '
                                     f'+-scale value by {(ot - oe).abs().max().item():g}', 'case': dict(scale=scale_, spherical=sph, activation=act_name)})
        # a caller that accumulates IN PLACE into the tensors a call returned (a logging loop over the loss breakdown) must not be able to move
        # the quantization threshold: the scalar map is a function of the input alone
        qh = LFQ(codebook_size=4, dim=2, codebook_scale=scale_)
        xh = torch.tensor([core.f32(rng.uniform(-3, 3)) for _ in range(2 * 6 * 2)]).reshape(2, 6, 2)
        with torch.no_grad():
            qh.eval()
            ref_q = qh(xh).quantized.clone()
            for tr in (True, False):
                qh.train(tr)
                ret_h, bd_h = qh(xh, return_loss_breakdown=True)
                for tens in list(bd_h) + [ret_h.entropy_aux_loss]:
                    if isinstance(tens, torch.Tensor) and tens.dtype.is_floating_point and not tens.requires_grad:
                        tens.add_(1.5)
            qh.eval()
            after_q = qh(xh).quantized
        dist['lfq_caller_inplace_histories'] = dist.get('lfq_caller_inplace_histories', 0) + 1
        ev += 1
        if not torch.equal(ref_q, after_q):
            failures.append({'key': 'lfq:threshold-moved-by-caller-inplace', 'what': f'LFQ(scale={scale_}): after the caller added in place to the returned loss-breakdown tensors, '
                             f'{int((ref_q != after_q).sum())} of {ref_q.numel()} scalars quantize differently', 'case': dict(scale=scale_)})
        # spherical: the same sign pattern, scaled to the sphere
        d = 3
        qs = LFQ(codebook_size=2 ** d, dim=d, codebook_scale=scale_, spherical=True)
        qs.eval()
        x3 = torch.randn(2, 4, d)
        with torch.no_grad():
            o3 = qs(x3).quantized
        want = torch.where(torch.nn.functional.normalize(x3, dim=-1) * scale_ > 0, 1.0, -1.0) * scale_ / math.sqrt(d)
        if not torch.allclose(o3, want, atol=1e-6):
            failures.append({'key': 'lfq:spherical', 'what': f'LFQ(spherical, scale={scale_}): output is not +-scale/sqrt(d) with the sign of the input', 'case': dict(scale=scale_)})
    bad, broken = core.run_cases(ctx, 'c05_lfq', HEADER_Q, cases, per_file=200)
    for name, out in broken:
        failures.append({'key': f'coq-eval:{name}', 'what': 'case file did not evaluate: ' + out, 'case': {'file': name}})
    for i, code in sorted(bad.items()):
        failures.append({'key': 'lfq:sign', 'what': f'LFQ scale={lmeta[i]["scale"]} x={lmeta[i]["x"]!r}: output {lmeta[i]["out"]!r} differs from the sign rule (+s for x > 0, -s otherwise)', 'case': lmeta[i]})
    # ---------------- FSQ with PROJECTIONS under CPU autocast (round 11, seed C05-k): a float32 caller inside torch.autocast gets bf16 / fp16 out of
    # project_in; the scalar map is still applied in float32 (force_quantization_f32) - plain and symmetric grids alike.  The projected latent is
    # observed with a forward hook, the codes at the input of project_out; reference = the module's own quantize() on the float32 latent outside autocast
    from vector_quantize_pytorch import FSQ as _FSQ
    for ai in range(12 if not ctx.thorough else 36):
        sym_a = ai % 2 == 0
        ncb_a = [1, 2][(ai // 2) % 2]
        lv_a = [[5, 4], [3, 5, 7], [8, 6]][(ai // 4) % 3]
        dt_a = [torch.bfloat16, torch.float16][(ai // 2) % 2] if ai % 3 != 2 else torch.bfloat16
        try:
            torch.manual_seed(9900 + ai)
            fa = _FSQ(lv_a, dim=len(lv_a) * ncb_a + 1, num_codebooks=ncb_a, preserve_symmetry=sym_a).eval()
            seen = {}
            h1 = fa.project_in.register_forward_hook(lambda m_, i_, o_: seen.__setitem__('z', o_.detach().clone()))
            h2 = fa.project_out.register_forward_pre_hook(lambda m_, i_: seen.__setitem__('codes', i_[0].detach().clone()))
            xa = torch.randn(4, 64, len(lv_a) * ncb_a + 1) * 1.5
            try:
                with torch.no_grad(), torch.autocast('cpu', dtype=dt_a):
                    fa(xa)
            finally:
                h1.remove()
                h2.remove()
            za = seen['z'].float().reshape(4, 64, ncb_a, len(lv_a))
            with torch.no_grad():
                want_a = fa.quantize(za)
            got_a = seen['codes'].float().reshape(4, 64, ncb_a, len(lv_a))
            ev += 1
            dist['fsq_projected_autocast_calls'] = dist.get('fsq_projected_autocast_calls', 0) + 1
            bad_a = (got_a - want_a).abs() > 2.0 ** -6
            if bool(bad_a.any()):
                pos_a = tuple(int(v) for v in bad_a.nonzero()[0])
                failures.append({'key': f'fsq-projected-autocast:sym={sym_a}:dtype={str(dt_a).split(".")[-1]}', 'what': f'FSQ({lv_a}, dim={len(lv_a) * ncb_a + 1}, num_codebooks={ncb_a}, preserve_symmetry={sym_a}) under CPU autocast {dt_a}: '
                                 f'{int(bad_a.sum())} of {bad_a.numel()} scalars are not quantized as in float32, e.g. latent {float(za[pos_a]):.7g} (level count {lv_a[pos_a[-1]]}) -> {float(got_a[pos_a]):.5g}, float32 quantization gives {float(want_a[pos_a]):.5g}',
                                 'case': dict(part='fsq-projected-autocast', levels=lv_a, sym=sym_a, ncb=ncb_a)})
        except Exception as ex:
            failures.append({'key': f'fsq-projected-autocast:exception:{type(ex).__name__}', 'what': repr(ex)[:200], 'case': dict(part='fsq-projected-autocast', levels=lv_a, sym=sym_a)})
    # ---------------- position-wise / independent of layout, other dimensions, training flag (no noise dropout)
    for rep in range((6 if not ctx.thorough else 40) * scale):
        levels = [rng.choice([2, 3, 4, 5, 7, 8]) for _ in range(rng.choice([1, 2, 3]))]
        ncb = rng.choice([1, 2])
        sym = rng.random() < 0.3
        q = FSQ(levels, num_codebooks=ncb, preserve_symmetry=sym)
        x = torch.randn(2, 5, len(levels) * ncb) * 1.5
        dist['metamorphic'] += 1
        ev += 1
        with torch.no_grad():
            q.eval()
            o_eval, i_eval = q(x)
            q.train()
            o_train, i_train = q(x)
            # scalar map, one dimension at a time
            for c in range(ncb):
                for di, L in enumerate(levels):
                    s1 = FSQ([L], preserve_symmetry=sym)
                    s1.eval()
                    col = x[..., c * len(levels) + di].reshape(1, -1, 1)
                    o1, _ = s1(col)
                    if not torch.equal(o1.reshape(2, 5), o_eval[..., c * len(levels) + di]):
                        failures.append({'key': 'fsq:not-pointwise', 'what': f'FSQ({levels}, num_codebooks={ncb}, sym={sym}): dimension {di} of codebook {c} differs from the scalar map of that entry alone', 'case': dict(levels=levels)})
            # without noise dropout no random draw may matter: the training output under an ADVERSARIAL generator (every uniform draw exactly 0, or
            # the largest float below 1) is the same; and the module must not keep an alias of the caller's `levels` list
            from vlib import callzoo
            for amode in ('zeros', 'max'):
                with callzoo.adversarial_rng(torch, amode):
                    o_adv, i_adv = q(x)
                dist['adversarial_rng_calls'] = dist.get('adversarial_rng_calls', 0) + 1
                if not (torch.equal(o_adv, o_train) and torch.equal(i_adv, i_train)):
                    failures.append({'key': f'fsq:depends-on-random-draws:{amode}', 'what': f'FSQ({levels}, sym={sym}, noise_dropout=0) in training: with every uniform draw at its extreme ({amode}) '
                                     f'{int((i_adv != i_train).sum())} indices change', 'case': dict(levels=levels)})
            for edit_to in (3, 4, 9):
                lv_alias = list(levels)
                q_alias = FSQ(lv_alias, num_codebooks=ncb, preserve_symmetry=sym)
                q_alias.eval()
                o_a1, i_a1 = q_alias(x)
                for k_ in range(len(lv_alias)):
                    lv_alias[k_] = edit_to          # the caller edits ITS list afterwards: every level odd (3, 9) / every level even (4), whatever it was
                o_a2, i_a2 = q_alias(x)
                dist['constructor_argument_aliasing'] = dist.get('constructor_argument_aliasing', 0) + 1
                if not (torch.equal(o_a1, o_a2) and torch.equal(i_a1, i_a2)):
                    failures.append({'key': 'fsq:aliases-constructor-argument', 'what': f'FSQ({levels}): editing the caller\'s own levels list (every entry set to {edit_to}) after construction changes the module\'s output', 'case': dict(levels=levels)})
                    break
            if not (torch.equal(o_eval, o_train) and torch.equal(i_eval, i_train)):
                failures.append({'key': 'fsq:depends-on-training-flag', 'what': f'FSQ({levels}, sym={sym}) without noise dropout: train and eval outputs differ', 'case': dict(levels=levels)})
            # memory layout of the caller's tensor: the scalar map is a function of the VALUE - the same values stored transposed / strided / at an
            # offset (a time-major activation viewed batch-first, a slice of a larger buffer) quantize identically, in eval and in training
            for vname, xv in callzoo.layout_variants(torch, x) + [('permuted-view', x.transpose(0, 1).contiguous().transpose(0, 1)), ('feature-permuted-view', x.permute(0, 2, 1).contiguous().permute(0, 2, 1))]:
                for tr_ in (False, True):
                    q.train(tr_)
                    o_v, i_v = q(xv)
                    dist['memory_layout_variants'] = dist.get('memory_layout_variants', 0) + 1
                    if not (torch.equal(o_v, o_eval) and torch.equal(i_v, i_eval)):
                        failures.append({'key': f'fsq:depends-on-memory-layout:{vname}', 'what': f'FSQ({levels}, num_codebooks={ncb}, sym={sym}) train={tr_}: the same values stored as {vname} quantize differently '
                                         f'({int((i_v != i_eval).sum())} of {i_eval.numel()} indices)', 'case': dict(levels=levels, variant=vname)})
            q.eval()
            # channel-first sequences '(b, d, n)', with a sequence length EQUAL to the feature dimension (a transposition slip is invisible in the shapes),
            # one less and one more: channel i is quantized with levels[i], whatever n is
            dd_ = len(levels) * ncb
            q_cf = FSQ(levels, num_codebooks=ncb, preserve_symmetry=sym, channel_first=True)
            q_cf.eval()
            for n_cf in (dd_, max(1, dd_ - 1), dd_ + 1):
                x_cl = torch.randn(2, n_cf, dd_) * 1.5
                o_ref, i_ref = q(x_cl)
                o_cf, i_cf = q_cf(x_cl.transpose(1, 2).contiguous())
                dist['channel_first_square_cases'] = dist.get('channel_first_square_cases', 0) + 1
                if o_cf.shape != (2, dd_, n_cf) or not torch.equal(o_cf.transpose(1, 2), o_ref) or not torch.equal(i_cf.reshape(i_ref.shape) if i_cf.shape != i_ref.shape and i_cf.numel() == i_ref.numel() else i_cf, i_ref):
                    failures.append({'key': 'fsq:channel-first-sequence', 'what': f'FSQ({levels}, num_codebooks={ncb}, channel_first=True) on a (2, {dd_}, {n_cf}) input differs from the channel-last module on the transposed input '
                                     '(a channel is quantized with another channel\'s level count)', 'case': dict(levels=levels, n=n_cf)})
                    break
            # layouts: image layout = flattened sequence
            xi = x.reshape(2, 5, 1, -1).permute(0, 3, 1, 2)       # b d h w with h=5, w=1
            oi, ii = q.eval()(xi)
            if not torch.equal(oi.permute(0, 2, 3, 1).reshape(2, 5, -1), o_eval):
                failures.append({'key': 'fsq:layout', 'what': f'FSQ({levels}): image layout differs from the flattened sequence', 'case': dict(levels=levels)})
    return {'evaluations': ev, 'distinct_nontrivial': nt,
            'rule': 'per level count L in 2..16 (thorough: + larger L) and both modes: every exponent with structured mantissas, all plateau boundaries +- 3 ulps, random inputs; the level returned by the implementation is certified against the real bounding function '
                    'by one `interval` goal per sample (kernel-checked), monotonicity and grid values checked on the sweep, saturation on |z| > 40; LFQ sign rule evaluated at Q by the regenerated kernel; '
                    'multi-dimensional tensors / codebooks / layouts / training flag compared with the scalar map; non-trivial = sample carries an interval certificate',
            'samples': samples, 'failures': failures, 'distribution': dist}


def replay_case(ctx, case):
    import torch
    from vector_quantize_pytorch import FSQ
    if 'L' in case and 'z' in case:
        q = FSQ([case['L']], preserve_symmetry=case.get('sym', False))
        q.eval()
        with torch.no_grad():
            out, idx = q(torch.tensor([[[case['z']]]], dtype=torch.float32))
        k_idx = int(idx.reshape(-1)[0])
        L, z, sym = case['L'], case['z'], case.get('sym', False)
        if sym:
            prop = f'IZR ({k_idx}) - {DELTA} <= (IZR ({L}) - 1) * (th {rlit(z)} + 1) / 2 + / 2 <= IZR ({k_idx}) + 1 + {DELTA}'
        else:
            prop = f'IZR ({k_idx - L // 2}) - / 2 - {DELTA} <= fsq_bound (1 / 1000) ({L}) {rlit(z)} <= IZR ({k_idx - L // 2}) + / 2 + {DELTA}'
        bad = certify(ctx, 'c05_replay', [(0, prop)])
        return bool(bad), f'FSQ([{L}], sym={sym}) z={z!r} -> level {k_idx}; interval certificate {"FAILS" if bad else "holds"}'
    return True, 're-run the check: %s' % (case,)

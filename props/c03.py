"""C03 — EMA codebook update follows the moving-average law."""
import random, copy
from fractions import Fraction
from vlib import core, vqrec
from vlib.core import qlit, qvec, qmat, coqbool, natlist, blist

OBLIGATIONS = dict(
    prop_file='Properties/C03.v',
    glue=['Glue/CoreGlue.v'] + ['Glue/Pin_fp_C03.v', 'Glue/Pin_p_rvq_flags.v'],
    extra=['Model/CoreCheck.vo'],
    gen_items=['k_ema_inplace', 'k_laplace', 'k_update_ema_denom', 'g_euclid_ema', 'g_euclid_update_ema', 'g_cosine_ema',
               'g_cosine_update_ema', 'g_euclid_mask_onehot', 'g_cosine_mask_onehot', 'g_rvq_shared_update', 'o_euclid_collectives',
               'o_cosine_collectives', 'fp_C03', 'p_rvq_flags'],
)
ASSUMPTIONS = [
    'float32 rounding of the EMA arithmetic is modelled by a tolerance: exact (tol 0) on the first step from a hand-set dyadic state with dyadic decay, 2^-20 relative on later steps and non-dyadic decay, 1e-5 relative on the normalised codebook',
    'the assignment used by the step is the implementation\'s own (checked to be a nearest code under C01); the model recomputes the statistics from it',
]
HEADER = '''From Coq Require Import ZArith QArith List Bool.
From VQ Require Import Num Model.Vec Model.Core Model.CoreCheck Model.Blocks.
Import ListNotations.
Open Scope Q_scope.
'''
TOL_E = Fraction(1, 50000)
TOL_S = Fraction(1, 2 ** 20)


def coq_cfg(cb, cosine):
    dec = qlit(Fraction(repr(float(cb.decay))))
    eps = qlit(Fraction(repr(float(cb.eps))))
    return (f'(mkcfg {coqbool(cosine)} {dec} {eps} {qlit(Fraction(repr(float(cb.threshold_ema_dead_code))))} '
            f'{qlit(Fraction(repr(float(cb.reset_cluster_size))))} {coqbool(cb.ema_update)} {coqbool(cb.manual_ema_update)} '
            f'{int(cb.kmeans_iters)}%nat false {qlit(Fraction(1, 10 ** 6))})')


def _conditioned_tol(rec, h, cb, cosine, tolE):
    """The cosine codebook is l2norm(embed_avg / smoothed count) with the floor eps = 1e-6 on the norm: when the running sum of a code CANCELS
    (say 0.8 * (-0.5) + 0.2 * 2 = 0 exactly, float32 keeps a residue of 7e-9) the float32 rounding residue is amplified by 1 / max(|v|, 1e-6),
    i.e. the map is ill-conditioned there and the exact model cannot be compared at a fixed tolerance.  The tolerance follows the conditioning:
    tol + (float32 rounding of the running sum) / (count * max(|v|, eps)); for a well-conditioned row (|v| ~ 1) it is unchanged."""
    if not cosine or tolE == 0:
        return tolE
    try:
        avg, cs, before = rec.after['embed_avg'][h], rec.after['cluster_size'][h], rec.before['embed_avg'][h]
        K, eps = len(cs), float(cb.eps)
        tot = sum(cs)
        valid = rec.mask[h] if rec.mask is not None else [True] * len(rec.xs[h])
        dec = float(cb.decay)
        worst = 0.0
        for k, (row, c) in enumerate(zip(avg, cs)):
            # float32 rounding only arises from the summands that actually enter this row (an untouched all-zero row is exact)
            mag = dec * max([abs(float(v)) for v in before[k]] + [0.0]) + (1 - dec) * sum(
                abs(float(v)) for x, i, ok in zip(rec.xs[h], rec.idx[h], valid) if ok and i == k for v in x)
            sm = (float(c) + eps) / (tot + K * eps) * tot if tot > 0 else 0.0
            sm = max(sm, 1e-30)
            nv = sum((float(v) / sm) ** 2 for v in row) ** 0.5
            worst = max(worst, (2.0 ** -21) * mag / sm / max(nv, 1e-6))
        if worst > float(tolE) / 4:
            return min(Fraction(2), tolE + Fraction(repr(worst)))
    except Exception:
        pass
    return tolE


def update_term(rec, h, cb, cosine, tolE, tolS, pool=None):
    valid = rec.mask[h] if rec.mask is not None else [True] * len(rec.xs[h])
    pool = rec.xs[h] if pool is None else pool
    tolE = _conditioned_tol(rec, h, cb, cosine, tolE)
    return (f'update_check {qlit(tolE)} {qlit(tolS)} {qlit(tolE)} {coq_cfg(cb, cosine)} {coqbool(rec.training)} {coqbool(rec.freeze)} '
            f'{coqbool(rec.mask is not None)} {vqrec.coq_state(rec.before, h)} {qmat(rec.xs[h])} {blist(valid)} {natlist(rec.idx[h])} '
            f'{qmat(pool)} {vqrec.coq_state(rec.after, h)}')


CODES = {1: 'codebook (embed) differs from embed_avg / smoothed count', 2: 'running sum (embed_avg) differs from decay*old + (1-decay)*batch sums',
         3: 'usage count (cluster_size) differs from decay*old + (1-decay)*batch counts', 4: 'initted flag differs', 5: 'a revived code is not a vector of the batch'}


def gen_config(rng, thorough, ci=0):
    """stratified: the cross product metric x head mode x decay class is cycled deterministically, the rest is random"""
    import torch
    from vector_quantize_pytorch import VectorQuantize
    combos = [(cos, hm) for cos in (False, True) for hm in ((1, False), (2, False), (3, False), (2, True))]
    cosine, (heads, sep) = combos[ci % len(combos)]
    d = rng.choice([1, 2, 3, 4])
    K = rng.choice([1, 2, 3, 5, 8, 12])
    decay = [0.5, 0.25, 0.8, 0.0, 0.75, 1.0, 0.875][(ci // len(combos)) % 7]
    kw = dict(dim=d * heads, codebook_size=K, heads=heads, separate_codebook_per_head=sep, codebook_dim=d, use_cosine_sim=cosine,
              decay=decay, threshold_ema_dead_code=0)
    eps_pick = [None, 1e-3, 0.5][(ci // len(combos)) % 3]          # cycled (not sampled): every metric x head-mode combination meets a non-default eps
    if eps_pick is not None:
        kw['eps'] = eps_pick
    if rng.random() < 0.15:
        kw['manual_ema_update'] = True
    if ci % 4 == 0 and heads == 1:
        kw['orthogonal_reg_weight'] = 0.5        # the codebook is an nn.Parameter AND maintained by the EMA
    vq = VectorQuantize(**kw)
    return vq, kw, d, heads, cosine, K


def correspond(ctx, scale):
    import torch
    from vlib import impl
    rng = ctx.rng
    ncfg = (48 if not ctx.thorough else 400) * scale
    cases, meta, failures, samples = [], [], [], []
    evaluations = 0
    nontrivial = set()
    dist = {'euclid': 0, 'cosine': 0, 'masked': 0, 'eval_or_frozen': 0, 'decay1': 0, 'decay0': 0, 'multihead': 0, 'exact_tol0': 0, 'rvq_layers': 0, 'rvq_shared': 0}
    for ci in range(ncfg):
        vq, kw, d, heads, cosine, K = gen_config(rng, ctx.thorough, ci)
        cb = vq._codebook
        vqrec.set_codebook_grid(vq, rng, dup=rng.random() < 0.2, zero=rng.random() < 0.2)
        dyadic_decay = kw['decay'] != 0.8
        steps = rng.choice([2, 3, 4, 6]) if not ctx.thorough else rng.choice([2, 4, 8, 30])
        for t in range(steps):
            b, n = rng.choice([(1, 1), (2, 3), (1, 6), (3, 4), (2, 8), (2, 5)])
            x = vqrec.grid(rng, (b, n, d * heads))
            kwargs = {}
            mode = rng.choice(['train', 'train', 'train', 'train', 'eval', 'frozen']) if t > 0 else 'train'
            if (t % 2 == ci % 2) and n > 1:
                # ragged mask: rows differ (lengths differ per sample), padding carries large values
                lens = [rng.randrange(1, n + 1) for _ in range(b)]
                if b > 1 and len(set(lens)) == 1:
                    lens[0] = 1 + (lens[0] % n)
                m = torch.tensor([[j < lens[i] for j in range(n)] for i in range(b)])
                if rng.random() < 0.3:
                    m = torch.tensor([[rng.random() < 0.7 for _ in range(n)] for _ in range(b)])
                    m[:, 0] = True
                kwargs['mask'] = m
                dist['masked'] += 1
            if mode == 'frozen':
                kwargs['freeze_codebook'] = True
            if 'mask' not in kwargs and (t + ci) % 4 == 3:
                # per-call option: target codes for the cross-entropy loss (`indices=`); the codebook statistics must follow the same law
                kwargs['indices'] = torch.randint(0, K, (b, n, heads) if heads > 1 else (b, n))
                dist['with_target_indices'] = dist.get('with_target_indices', 0) + 1
            if t == 1 and ('orthogonal_reg_weight' in kw or ci % 7 == 2) and any(True for _ in vq.parameters()):
                # parameters frozen by the caller (requires_grad_(False) on the whole module, a Parameter-backed EMA codebook included): it is still a
                # training step with EMA updates enabled, the law holds
                vq.requires_grad_(False)
                dist['frozen_parameter_steps'] = dist.get('frozen_parameter_steps', 0) + 1
            if t > 0 and (t + ci) % 6 == 5:
                # AGED state: one code as it is after a long run without being selected (running sum and count decayed by 2^-40; a legal state that
                # short histories never reach) - the law for the next step is the same law
                with torch.no_grad():
                    k_old = rng.randrange(K)
                    cb.embed_avg[:, k_old] *= 2.0 ** -40
                    cb.cluster_size[:, k_old] *= 2.0 ** -40
                dist['aged_code_states'] = dist.get('aged_code_states', 0) + 1
            if t > 0 and (t + ci) % 5 == 4:
                # decay SCHEDULE: the public attribute is changed on the live codebook; the next step follows the decay the module has now
                cb.decay = rng.choice([0.5, 0.25, 0.75, 0.0, 1.0, 0.9])
                dist['live_decay_changes'] = dist.get('live_decay_changes', 0) + 1
            vq.train(mode != 'eval')
            if rng.random() < 0.3:
                x = x.clone().requires_grad_(False)
            try:
                ret, recs = vqrec.record_call(vq, x, **kwargs)
            except Exception as ex:
                failures.append({'key': f'vq:exception:{type(ex).__name__}', 'what': f'VectorQuantize({kw}) raised {ex!r}', 'case': dict(kw=kw, step=t)})
                break
            evaluations += 1
            rec = recs[0]
            exact = (t == 0 and dyadic_decay and not cosine)
            for h in range(rec.H):
                tolS = Fraction(0) if exact else TOL_S
                cases.append(update_term(rec, h, cb, cosine, TOL_E, tolS))
                meta.append(dict(kind='vq', kw=kw, step=t, head=h, mode=mode, masked='mask' in kwargs, seed_case=ci))
                hit = set(i for i, v in zip(rec.idx[h], rec.mask[h] if rec.mask else [True] * len(rec.idx[h])) if v)
                if mode == 'train' and 0 < len(hit) < K:
                    nontrivial.add((ci, t, h))
            dist['cosine' if cosine else 'euclid'] += 1
            dist['eval_or_frozen'] += mode != 'train'
            dist['decay1'] += kw['decay'] == 1.0
            dist['decay0'] += kw['decay'] == 0.0
            dist['multihead'] += heads > 1
            dist['exact_tol0'] += exact
            if len(samples) < 3 and mode == 'train':
                samples.append(dict(kw={k: v for k, v in kw.items()}, step=t, cluster_size_before=rec.before['cluster_size'][0], idx=rec.idx[0][:8],
                                    cluster_size_after=rec.after['cluster_size'][0]))
    # ResidualVQ: every layer's codebook follows the same law (per-layer), shared codebook: all layers accumulate, one normalisation
    rv_cases, rv_meta, n_rvq = residual_cases(ctx, rng, scale, dist, failures)
    evaluations += n_rvq
    # run-length ("block") calls: the same token repeated n times; the model's block formula is proved equal to the model on the expanded
    # batch for every n (Proofs/BlockProofs.v), so multiplicities far beyond what a list literal can carry are decided exactly
    bl_cases, bl_meta, n_bl = block_cases(ctx, rng, scale, dist, failures)
    evaluations += n_bl
    rv_cases, rv_meta = rv_cases + bl_cases, rv_meta + bl_meta
    cases_extra, meta_extra = [], []
    from vector_quantize_pytorch import VectorQuantize
    cc_cases, cc_meta, n_cc = cross_config_cases(ctx, rng, scale, dist, failures, TOL_E, TOL_S)
    evaluations += n_cc
    # state reached through something OTHER than the module's own attribute: (a) two modules whose codebook buffers are TIED (the same tensor objects
    # registered in both, the usual PyTorch way of sharing) - a training step of one is visible through the other, for all four buffers alike;
    # (b) torch.func.functional_call with the caller's own buffer tensors substituted - the step lands in the substituted tensors
    from torch.func import functional_call as _fcall
    for ci in range(4 if not ctx.thorough else 16):
        cos_t = ci % 2 == 1
        try:
            kw_t = dict(dim=2, codebook_size=5, decay=0.5, use_cosine_sim=cos_t)
            v1, v2 = VectorQuantize(**kw_t), VectorQuantize(**kw_t)
            vqrec.set_codebook_grid(v1, rng)
            for bn in ('embed', 'embed_avg', 'cluster_size', 'initted'):
                setattr(v2._codebook, bn, getattr(v1._codebook, bn))
            v1.train(); v2.train()
            for t in range(2):
                stepper, other = (v1, v2) if t == 0 else (v2, v1)
                ret, recs = vqrec.record_call(stepper, vqrec.grid(rng, (2, 3, 2)))
                evaluations += 1
                dist['tied_codebook_steps'] = dist.get('tied_codebook_steps', 0) + 1
                st_o = vqrec.cb_state(other._codebook)
                if st_o != recs[0].after:
                    failures.append({'key': f'vq-tied-codebooks:state-untied:cos={cos_t}', 'what': f'two VectorQuantize({kw_t}) modules with tied codebook buffers: after a training step of one, the other sees '
                                     'different statistics (some buffers were rebound instead of updated in place)', 'case': dict(kw=kw_t, step=t)})
                    break
                cases_extra.append(update_term(recs[0], 0, stepper._codebook, cos_t, TOL_E, TOL_S))
                meta_extra.append(dict(kind='vq-tied-codebooks', kw=kw_t, step=t, head=0, mode='train'))
            v3 = VectorQuantize(**kw_t)
            vqrec.set_codebook_grid(v3, rng)
            v3.train()
            subs = {k_: v_.detach().clone() for k_, v_ in list(v3.named_parameters()) + list(v3.named_buffers())}
            before_f = {k_: v_.clone() for k_, v_ in subs.items()}
            own_before = vqrec.cb_state(v3._codebook)
            xf = vqrec.grid(rng, (2, 3, 2))
            _fcall(v3, subs, (xf,))
            dist['functional_call_steps'] = dist.get('functional_call_steps', 0) + 1
            evaluations += 1
            moved = [k_ for k_ in ('_codebook.cluster_size', '_codebook.embed_avg', '_codebook.embed') if not torch.equal(subs[k_], before_f[k_])]
            if vqrec.cb_state(v3._codebook) != own_before:
                failures.append({'key': f'vq-functional-call:own-state-changed:cos={cos_t}', 'what': f'VectorQuantize({kw_t}) called through torch.func.functional_call with substituted buffers changed its OWN buffers', 'case': dict(kw=kw_t)})
            elif len(moved) not in (0, 3):
                failures.append({'key': f'vq-functional-call:partial-update:cos={cos_t}', 'what': f'VectorQuantize({kw_t}) through torch.func.functional_call: only {moved} of the substituted statistics moved '
                                 '(the codebook no longer equals running sum / smoothed count of the same store)', 'case': dict(kw=kw_t)})
        except Exception as ex:
            failures.append({'key': f'vq-tied-codebooks:exception:{type(ex).__name__}', 'what': repr(ex), 'case': dict(cos=cos_t)})
    # the TRAINING call that k-means-initialises the codebook (round 11, seed C03-k): it is an ordinary EMA step FROM the k-means state - counts and sums
    # move by (1 - decay) toward the batch's own assignment counts / assigned-vector sums (k-means that has not converged leaves them different), the
    # codebook is renormalised.  The state right after the initialisation is observed by wrapping init_embed_ for the duration of the call.
    import copy as _copy
    for ki in range((12 if not ctx.thorough else 48) * scale):
        cos_k = ki % 2 == 1
        iters_k = [1, 2, 10][(ki // 2) % 3]
        decay_k = [0.8, 0.5, 0.0, 0.25][(ki // 6) % 4]
        heads_k = [1, 2][(ki // 3) % 2]
        kw_k = dict(dim=2 * heads_k, codebook_dim=2, heads=heads_k, separate_codebook_per_head=(heads_k == 2), codebook_size=[4, 6][ki % 2], kmeans_init=True, kmeans_iters=iters_k,
                    decay=decay_k, use_cosine_sim=cos_k, threshold_ema_dead_code=0)
        try:
            torch.manual_seed(5100 + ki)
            vq_k = VectorQuantize(**kw_k)
            vq_k.train()
            x_k = torch.randn(2, 24, 2 * heads_k)
            ret_k, recs_k = vqrec.record_call(vq_k, x_k)
            evaluations += 1
            dist['kmeans_first_training_calls'] = dist.get('kmeans_first_training_calls', 0) + 1
            r0 = recs_k[0]
            if r0.before['initted'] or r0.after_init is None or not r0.after_init['initted']:
                failures.append({'key': 'vq-kmeans-first-train:not-initialised-in-call', 'what': f'VectorQuantize({kw_k}): the first training call did not initialise the codebook', 'case': dict(kw=kw_k)})
                continue
            r1 = _copy.copy(r0)
            r1.before = r0.after_init
            for h_ in range(r1.H):
                cases_extra.append(update_term(r1, h_, vq_k._codebook, cos_k, Fraction(1, 10 ** 4), Fraction(1, 10 ** 4)))
                meta_extra.append(dict(kind='vq-kmeans-first-training-call', kw=kw_k, step=0, head=h_, mode='train'))
        except Exception as ex:
            failures.append({'key': f'vq-kmeans-first-train:exception:{type(ex).__name__}', 'what': repr(ex)[:300], 'case': dict(kw=kw_k)})
    rv_cases, rv_meta = rv_cases + cases_extra, rv_meta + meta_extra
    rv_cases, rv_meta = rv_cases + cc_cases, rv_meta + cc_meta
    bad, broken = core.run_cases(ctx, 'c03', HEADER, cases + rv_cases, per_file=40)
    allmeta = meta + rv_meta
    for name, out in broken:
        failures.append({'key': f'coq-eval:{name}', 'what': 'case file did not evaluate: ' + out, 'case': {'file': name}})
    for i, code in sorted(bad.items()):
        m = allmeta[i]
        failures.append({'key': f'{m["kind"]}:code{code}:decay={m["kw"].get("decay")}:cos={m["kw"].get("use_cosine_sim", False)}:mode={m.get("mode")}',
                         'what': f'{m["kind"]} {m["kw"]} step {m["step"]} head/layer {m.get("head")}: {CODES.get(code, code)}',
                         'case': dict(m, code=code, term=(cases + rv_cases)[i][:20000])})
    return {'evaluations': evaluations, 'distinct_nontrivial': len(nontrivial),
            'rule': 'one case = one recorded codebook call (state before, tokens after projection, own indices, mask, state after) stepped through the model inside Coq; '
                    'non-trivial = a training step whose batch hits at least one and misses at least one code',
            'samples': samples, 'failures': failures, 'distribution': dist}


def block_cases(ctx, rng, scale, dist, failures):
    """one training call whose batch is a few tokens repeated many times (optionally with padded runs).  Quick: multiplicities up to 2^16; thorough:
    additionally one call that sends 2^24 + 2^22 tokens to a single code (a float32 accumulation of ones stops at 2^24)."""
    import torch
    from vector_quantize_pytorch import VectorQuantize
    cases, meta = [], []
    n = 0
    plans = []
    for ci in range((6 if not ctx.thorough else 24) * scale):
        plans.append(dict(cosine=ci % 3 == 2, d=rng.choice([1, 2]), K=rng.choice([2, 3, 4]), decay=[0.5, 0.75, 0.25, 0.0][ci % 4],
                          mults=[rng.choice([1, 3, 2 ** rng.randrange(4, 17), 2 ** rng.randrange(4, 17) + 1]) for _ in range(rng.choice([2, 3, 5]))], masked=ci % 2 == 1))
    if ctx.thorough:
        plans.append(dict(cosine=False, d=2, K=2, decay=0.5, mults=[1000, 2 ** 24 + 2 ** 22], masked=False, massive=True))
        plans.append(dict(cosine=True, d=2, K=2, decay=0.5, mults=[2 ** 24 + 2 ** 20, 700, 300], masked=True, massive=True))
        # dim 1, single-threaded: torch's einsum takes a sequential float32 path and the vector SUM of a code saturates at 2^24 (known finding D25)
        plans.append(dict(cosine=False, d=1, K=2, decay=0.5, mults=[1000, 2 ** 24 + 2 ** 22], masked=False, massive=True, kind='vq-block-massive-d1'))
    for pi, pl in enumerate(plans):
        d, K = pl['d'], pl['K']
        kw = dict(dim=d, codebook_size=K, decay=pl['decay'], use_cosine_sim=pl['cosine'], threshold_ema_dead_code=0)
        try:
            vq = VectorQuantize(**kw)
            cb = vq._codebook
            vqrec.set_codebook_grid(vq, rng)
            if pl.get('massive'):
                with torch.no_grad():
                    cb.embed.data.copy_(torch.stack([torch.ones(d), -torch.ones(d)])[None])
                    cb.embed_avg.data.copy_(cb.embed.data * cb.cluster_size.data[..., None])
            vq.train()
            toks = vqrec.grid(rng, (len(pl['mults']), d))
            if pl.get('massive'):
                sg = [(-1.0 if bi % 2 == 0 else 1.0) if pl['mults'][0] < pl['mults'][1] else (1.0 if bi % 2 == 0 else -1.0) for bi in range(len(pl['mults']))]
                toks = torch.tensor(sg)[:, None].expand(len(sg), d).contiguous()
            valid = [not (pl['masked'] and bi % 2 == 1 and bi > 0) for bi in range(len(pl['mults']))]
            x = torch.cat([toks[bi:bi + 1].expand(m, d) for bi, m in enumerate(pl['mults'])], dim=0)[None].contiguous()
            mask = None
            if pl['masked']:
                mask = torch.cat([torch.full((m,), v) for m, v in zip(pl['mults'], valid)])[None]
            before = vqrec.cb_state(cb)
            with torch.no_grad():
                _, idx, _ = vq(x, mask=mask) if mask is not None else vq(x)
            after = vqrec.cb_state(cb)
            xin = cb.transform_input(x) if hasattr(cb, 'transform_input') else x
        except Exception as ex:
            failures.append({'key': f'vq-block:exception:{type(ex).__name__}', 'what': f'VectorQuantize({kw}) on a run-length batch {pl["mults"]} raised {ex!r}', 'case': dict(kw=kw, mults=pl['mults'])})
            continue
        n += 1
        dist['block_calls'] = dist.get('block_calls', 0) + 1
        dist['block_max_multiplicity'] = max(dist.get('block_max_multiplicity', 0), max(pl['mults']))
        blocks, off, uniform = [], 0, True
        flat_idx = idx.reshape(-1)
        for bi, m in enumerate(pl['mults']):
            seg = flat_idx[off:off + m]
            if valid[bi] and not bool((seg == seg[0]).all()):
                uniform = False
            tok = xin[0, off].detach().double().tolist()
            # the index the call itself used for a padded run is not observable (-1 is returned); padded runs do not count whatever it was
            blocks.append(f'(mkblock {qvec(tok)} {max(int(seg[0]), 0)}%nat {coqbool(valid[bi])} (inject_Z ({m})))')
            off += m
        if not uniform:
            failures.append({'key': 'vq-block:identical-tokens-different-codes', 'what': f'VectorQuantize({kw}): identical tokens of one run received different indices', 'case': dict(kw=kw, mults=pl['mults'])})
            continue
        tolE = Fraction(1, 10 ** 4) if pl.get('massive') or pl['cosine'] else TOL_E
        tolS = Fraction(1, 10 ** 5)      # float32 accumulation over many equal summands; a saturating or dropped-token count is off by percents
        if pl.get('massive') and pl['cosine']:
            # 2^24 + 2^20 copies of the non-dyadic value 1/sqrt(2): float32 partial sums above 2^22 round every addend (measured 5e-4 relative)
            tolE = tolS = Fraction(1, 500)
        cases.append(f'block_check {qlit(tolE)} {qlit(tolS)} {coq_cfg(cb, pl["cosine"])} {d}%nat {vqrec.coq_state(before, 0)} [{"; ".join(blocks)}] {vqrec.coq_state(after, 0)}')
        meta.append(dict(kind=pl.get('kind', 'vq-block'), kw=kw, step=0, head=0, mode='train', mults=pl['mults'], masked=pl['masked']))
        del x, idx, flat_idx
    return cases, meta, n


def cross_config_cases(ctx, rng, scale, dist, failures, TOL_E_, TOL_S_):
    """hyper-parameters are constructor arguments, not state: a module built with threshold T' / decay d' that LOADS the state_dict of a module
    built with other values keeps following its own T' and d' (pre-train without expiry, fine-tune with it).  The model's configuration is
    taken from the constructor arguments of the loading module, not from attributes of the loaded one."""
    import torch, types
    from vector_quantize_pytorch import VectorQuantize
    cases, meta = [], []
    evaluations = 0
    TOL_E, TOL_S = TOL_E_, TOL_S_
    for ci in range((12 if not ctx.thorough else 80) * scale):
        d, K = rng.choice([1, 2]), rng.choice([3, 5, 8])
        cosine = ci % 3 == 2
        thr_a, thr_b = [(0, 2), (2, 0), (1, 2.5), (2.5, 1), (0, 1), (2, 0.5)][ci % 6]
        dec_a, dec_b = [(0.5, 0.75), (0.8, 0.25), (0.25, 0.5)][ci % 3]
        kwa = dict(dim=d, codebook_size=K, use_cosine_sim=cosine, decay=dec_a, threshold_ema_dead_code=thr_a)
        eps_b = [1e-5, 1e-3][ci % 2]
        kwb = dict(kwa, decay=dec_b, threshold_ema_dead_code=thr_b, eps=eps_b)
        try:
            va, vb = VectorQuantize(**kwa), VectorQuantize(**kwb)
            vqrec.set_codebook_grid(va, rng)
            va.train()
            for _ in range(rng.choice([0, 1, 3])):
                va(vqrec.grid(rng, (2, 3, d)))
            how = ['strict', 'assign', 'copy-buffers'][ci % 3]
            if how == 'strict':
                vb.load_state_dict(va.state_dict())
            elif how == 'assign':
                vb.load_state_dict({k: v.clone() for k, v in va.state_dict().items()}, assign=True)
            else:
                with torch.no_grad():
                    for k_, v_ in va.state_dict().items():
                        vb.state_dict()[k_].copy_(v_)
            vb.train()
            for t in range(2):
                ret, recs = vqrec.record_call(vb, vqrec.grid(rng, (2, 3, d)))
                evaluations += 1
                shim = types.SimpleNamespace(decay=dec_b, eps=eps_b, threshold_ema_dead_code=thr_b, reset_cluster_size=thr_b, ema_update=True, manual_ema_update=False, kmeans_iters=10)
                cases.append(update_term(recs[0], 0, shim, cosine, TOL_E, TOL_S))
                meta.append(dict(kind='vq-cross-config-reload', kw=kwb, step=t, head=0, mode='train', reset=float(thr_b), loaded_from=kwa, how=how))
                dist['cross_config_reload_steps'] = dist.get('cross_config_reload_steps', 0) + 1
        except Exception as ex:
            failures.append({'key': f'vq-cross-config-reload:exception:{type(ex).__name__}', 'what': f'VectorQuantize({kwb}) loading the state of VectorQuantize({kwa}) raised {ex!r}', 'case': dict(kwa=kwa, kwb=kwb)})
    return cases, meta, evaluations


def residual_cases(ctx, rng, scale, dist, failures):
    import torch
    from vector_quantize_pytorch import ResidualVQ
    cases, meta = [], []
    n = 0
    for ci in range((10 if not ctx.thorough else 80) * scale):
        shared = rng.random() < 0.5
        d = rng.choice([2, 3])
        K = rng.choice([2, 4, 6])
        nq = rng.choice([2, 3, 4])
        if ci % 5 == 0:
            nq, shared = 1, True          # a ONE-layer stack with a shared codebook is still a shared codebook (accumulate, one renormalisation per step)
        decay = rng.choice([0.5, 0.25, 0.75, 0.8, 1.0])
        kw = dict(dim=d, num_quantizers=nq, codebook_size=K, shared_codebook=shared, decay=decay, threshold_ema_dead_code=0)
        rvq = ResidualVQ(**kw)
        for layer in (rvq.layers[:1] if shared else rvq.layers):
            vqrec.set_codebook_grid(layer, rng)
        rvq.train()
        for t in range(rng.choice([1, 2, 3])):
            x = vqrec.grid(rng, (2, 4, d))
            recs = []
            # wrap every layer's codebook forward (shared: the same codebook object is wrapped once)
            cbs = []
            for li, layer in enumerate(rvq.layers):
                if layer._codebook not in cbs:
                    cbs.append(layer._codebook)
            origs = [cb.forward for cb in cbs]
            log = []

            def mk(cb, orig):
                def wrapped(xin, *a, **k):
                    before = vqrec.cb_state(cb)
                    out = orig(xin, *a, **k)
                    log.append((cb, before, xin.detach().double().reshape(-1, xin.shape[-1]).tolist(), out[1].reshape(-1).tolist(), vqrec.cb_state(cb)))
                    return out
                return wrapped
            for cb, orig in zip(cbs, origs):
                cb.forward = mk(cb, orig)
            try:
                state0 = vqrec.cb_state(cbs[0])
                if (t + ci) % 2 == 1:
                    rvq(x, indices=torch.randint(0, K, (2, 4, nq)))       # cross-entropy-to-target-codes call: the EMA / end-of-forward update still applies
                    dist['with_target_indices'] = dist.get('with_target_indices', 0) + 1
                else:
                    rvq(x)
            except Exception as ex:
                failures.append({'key': f'rvq:exception:{type(ex).__name__}', 'what': f'ResidualVQ({kw}) raised {ex!r}', 'case': dict(kw=kw)})
                break
            finally:
                for cb in cbs:
                    del cb.forward
            n += 1
            if not shared:
                dist['rvq_layers'] += 1
                for li, (cb, before, xs, idx, after) in enumerate(log):
                    r = vqrec.Rec()
                    r.before, r.after, r.xs, r.idx, r.mask, r.training, r.freeze = before, after, [xs], [idx], None, True, False
                    cases.append(update_term(r, 0, cb, False, TOL_E, TOL_S))
                    meta.append(dict(kind='rvq-layer', kw=kw, step=t, head=li, mode='train'))
            else:
                dist['rvq_shared'] += 1
                cb = cbs[0]
                final = vqrec.cb_state(cb)
                layers = '[' + '; '.join(f'({qmat(xs)}, {natlist(idx)})' for (_, _, xs, idx, _) in log) + ']'
                cases.append(f'shared_check {qlit(TOL_E)} {qlit(TOL_S)} {coq_cfg(cb, False)} {vqrec.coq_state(state0, 0)} {layers} {vqrec.coq_state(final, 0)}')
                meta.append(dict(kind='rvq-shared', kw=kw, step=t, head='all', mode='train'))
    return cases, meta, n


def replay_case(ctx, case):
    term = case.get('term')
    if not term:
        return True, 'no recorded term; re-run the check'
    bad, broken = core.run_cases(ctx, 'c03_replay', HEADER, [term], per_file=1)
    if broken:
        return True, 'replay term did not evaluate: ' + broken[0][1]
    return (0 in bad), f'recorded transition re-evaluated against the current model: code {bad.get(0, 0)} (the recorded implementation values are replayed, not re-run)'

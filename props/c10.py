"""C10 — quantization is position-wise; layouts are equivalent."""
import random
from vlib import core, srcgen
from vlib.core import natlist

OBLIGATIONS = dict(
    prop_file='Properties/C10.v',
    glue=[f'Glue/Pin_{n}.v' for n in ('pat_vq_forward', 'pat_vq_split', 'pat_vq_decode', 'pat_euclid_forward', 'pat_cosine_forward', 'pat_fsq_forward', 'pat_fsq_decode',
                                      'pat_lfq_forward', 'pat_lfq_decode', 'pat_rvq_decode', 'pat_simvq_forward')] + ['Glue/EinopsGlueBase.v', 'Glue/EinopsGlueHeads.v', 'Glue/EinopsGlueLayout.v', 'Glue/EinopsGlueScalar.v', 'Glue/EinopsGlueMore.v'] + ['Glue/Pin_fp_C10.v'],
    extra=['Model/Layout.vo', 'Model/Forward.vo', 'Model/EinopsCheck.vo'],
    gen_items=['pat_vq_forward', 'pat_vq_split', 'pat_vq_decode', 'pat_euclid_forward', 'pat_cosine_forward', 'pat_fsq_forward', 'pat_fsq_decode', 'pat_lfq_forward',
               'pat_lfq_decode', 'pat_rvq_decode', 'pat_simvq_forward', 'pr_vq', 'pr_scalar', 'pr_more', 'fp_C10'],
)
ASSUMPTIONS = [
    'einops rearrange / repeat semantics = Model/Einops.v (row-major grouped axes, `...` as one flattened axis): the pattern strings regenerated from the source are interpreted in Coq and proved equal to the index maps of Model/Layout.v; '
    'the interpreter is compared with einops itself on index-labelled tensors for EVERY collected pattern on 3-8 random extents per run (a test of the trusted semantics, not a proof about einops)',
    'nn.Linear / LayerNorm / SiLU act on the last axis (position-wise); BLAS may reassociate sums when the batch shape changes, so projected outputs are compared within 1e-6 and indices exactly away from near-ties',
]
HEADER = '''From Coq Require Import ZArith QArith Arith List Bool.
From VQ Require Import Num Model.Vec Model.Core Model.CoreCheck Model.Layout Model.Forward.
Import ListNotations.
'''


EINOPS_HEADER = '''From Coq Require Import ZArith String List Arith Bool.
From VQ Require Import Model.Einops Model.EinopsCheck.
Import ListNotations.
Open Scope string_scope.
'''


def einops_cases(ctx, rng, failures):
    """the Coq einops interpreter (Model/Einops.v) against einops itself, on index-labelled tensors, for EVERY rearrange / repeat pattern
    the translator finds at the anchored sites (the same role tables Gen/pr_*.v that the glue lemmas consume)"""
    import torch, einops
    from vlib.gen_items import VQ, FSQF, LFQF, RVQ, RFSQ, RLFQ, RSVQ, SIMVQ, LQ
    specs = [(VQ, 'VectorQuantize.forward'), (VQ, 'VectorQuantize.maybe_split_heads_from_input'), (VQ, 'VectorQuantize.get_codes_from_indices'),
             (FSQF, 'FSQ.forward'), (FSQF, 'FSQ.indices_to_codes'), (LFQF, 'LFQ.forward'), (LFQF, 'LFQ.indices_to_codes'),
             (RVQ, 'ResidualVQ.get_codes_from_indices'), (RFSQ, 'ResidualFSQ.get_codes_from_indices'), (RFSQ, 'ResidualFSQ.forward'),
             (RLFQ, 'ResidualLFQ.get_codes_from_indices'), (RSVQ, 'ResidualSimVQ.get_codes_from_indices'),
             (SIMVQ, 'SimVQ.forward'), (SIMVQ, 'SimVQ.indices_to_codes'), (LQ, 'LatentQuantize.forward'), (LQ, 'LatentQuantize.indices_to_codes')]
    pats = []
    for fname, qual in specs:
        try:
            for t, call, pat in srcgen.collect_pattern_roles(fname, qual):
                if (call, pat) not in pats:
                    pats.append((call, pat))
        except Exception as ex:
            failures.append({'key': f'einops:roles:{qual}', 'what': f'pattern roles of {qual} could not be collected: {ex!r}', 'case': dict(qual=qual)})

    def groups(side):
        out, cur = [], None
        for tok in side.replace('(', ' ( ').replace(')', ' ) ').split():
            if tok == '(':
                cur = []
            elif tok == ')':
                out.append(cur)
                cur = None
            elif cur is not None:
                cur.append(tok)
            else:
                out.append([tok])
        return out
    cases, meta = [], []
    for call, pat in pats:
        lhs, rhs = [groups(x) for x in pat.split('->')]
        names_l = [a for g in lhs for a in g if a != '1']
        names = list(dict.fromkeys(names_l + [a for g in rhs for a in g if a != '1']))
        for rep in range(3 if not ctx.thorough else 8):
            sizes = {n: rng.choice([1, 2, 3]) for n in names}
            shape_l = []
            for g in lhs:
                k = 1
                for a in g:
                    k *= sizes.get(a, 1)
                shape_l.append(k)
            tot = 1
            for k in shape_l:
                tot *= k
            x = torch.arange(tot).reshape(shape_l)
            kwargs = {n: sizes[n] for n in names if n != '...' and (n not in names_l or any(n in g and len(g) > 1 for g in lhs))}
            try:
                y = (einops.repeat if call == 'repeat' else einops.rearrange)(x, pat, **kwargs)
            except Exception as ex:
                failures.append({'key': f'einops:{pat}:einops-raises', 'what': f'einops.{call}({pat!r}, {kwargs}) on shape {shape_l}: {ex!r}', 'case': dict(pattern=pat)})
                break
            env = '[' + '; '.join(f'("{n}", {sizes[n]}%nat)' for n in names) + ']'
            cases.append(f'einops_check {"true" if call == "repeat" else "false"} "{pat}" {env} {natlist(y.reshape(-1).tolist())}')
            meta.append(dict(pat=pat, call=call, sizes=sizes))
    return cases, meta


def pattern_cases(ctx, failures):
    """einops on index-labelled tensors vs the model's index maps, for the patterns actually present in the source"""
    import torch
    from einops import rearrange
    from vlib.gen_items import VQ, FSQF
    have = {}
    for name, fname, qual in (('vq', VQ, 'VectorQuantize.forward'), ('split', VQ, 'VectorQuantize.maybe_split_heads_from_input'), ('fsq', FSQF, 'FSQ.forward')):
        have[name] = [p for _, p in srcgen.collect_patterns(fname, qual)]
    cases, meta = [], []

    def need(group, pat):
        if pat not in have[group]:
            failures.append({'key': f'pattern-missing:{pat}', 'what': f'the einops pattern {pat!r} is no longer present at its site ({group})', 'case': dict(pattern=pat)})
            return False
        return True

    def lab(*shape):
        n = 1
        for s in shape:
            n *= s
        return torch.arange(n).reshape(*shape)

    def add(term, got, m):
        cases.append(f'(if list_eq_dec Nat.eq_dec ({term}) {natlist(got.reshape(-1).tolist())} then 0 else 1)%nat')
        meta.append(m)

    for (B, C, Hh, W) in ((1, 1, 1, 1), (2, 3, 2, 4), (1, 2, 3, 1), (2, 1, 1, 5)):
        if need('vq', 'b c h w -> b (h w) c'):
            add(f'tab3 {B} {Hh * W} {C} (img_in {W} (lab4 {C} {Hh} {W}))', rearrange(lab(B, C, Hh, W), 'b c h w -> b (h w) c'), dict(pat='b c h w -> b (h w) c', shape=(B, C, Hh, W)))
        if need('vq', 'b (h w) c -> b c h w'):
            add(f'tab4 {B} {C} {Hh} {W} (img_out {W} (lab3 {Hh * W} {C}))', rearrange(lab(B, Hh * W, C), 'b (h w) c -> b c h w', h=Hh, w=W), dict(pat='b (h w) c -> b c h w', shape=(B, Hh * W, C)))
        if need('vq', 'b (h w) ... -> b h w ...'):
            add(f'tab3 {B} {Hh} {W} (img_idx_out {W} (lab2 {Hh * W}))', rearrange(lab(B, Hh * W), 'b (h w) ... -> b h w ...', h=Hh, w=W), dict(pat='b (h w) ... -> b h w ...', shape=(B, Hh * W)))
    for (B, N, D) in ((1, 1, 1), (2, 3, 4), (3, 1, 2)):
        if need('vq', 'b d n -> b n d'):
            add(f'tab3 {B} {N} {D} (cfirst_in (lab3 {D} {N}))', rearrange(lab(B, D, N), 'b d n -> b n d'), dict(pat='b d n -> b n d', shape=(B, D, N)))
        if need('vq', 'b n d -> b d n'):
            add(f'tab3 {B} {D} {N} (cfirst_out (lab3 {N} {D}))', rearrange(lab(B, N, D), 'b n d -> b d n'), dict(pat='b n d -> b d n', shape=(B, N, D)))
    if need('split', "f'b n (h d) -> {ein_rhs_eq}'"):
        for (B, N, H, D) in ((1, 1, 1, 1), (2, 3, 2, 2), (3, 2, 3, 1), (2, 1, 2, 3)):
            add(f'tab4 {H} {B} {N} {D} (heads_sep_in {D} (lab3 {N} {H * D}))', rearrange(lab(B, N, H * D), 'b n (h d) -> h b n d', h=H), dict(pat='b n (h d) -> h b n d', shape=(B, N, H, D)))
            add(f'tab3 {B * H} {N} {D} (heads_shared_in {H} {D} (lab3 {N} {H * D}))', rearrange(lab(B, N, H * D), 'b n (h d) -> 1 (b h) n d', h=H)[0], dict(pat='b n (h d) -> 1 (b h) n d', shape=(B, N, H, D)))
            if need('vq', 'h b n d -> b n (h d)'):
                add(f'tab3 {B} {N} {H * D} (heads_sep_out {D} (lab4 {B} {N} {D}))', rearrange(lab(H, B, N, D), 'h b n d -> b n (h d)', h=H), dict(pat='h b n d -> b n (h d)', shape=(H, B, N, D)))
            if need('vq', '1 (b h) n d -> b n (h d)'):
                add(f'tab3 {B} {N} {H * D} (heads_shared_out {H} {D} (lab3 {N} {D}))', rearrange(lab(1, B * H, N, D), '1 (b h) n d -> b n (h d)', h=H), dict(pat='1 (b h) n d -> b n (h d)', shape=(B * H, N, D)))
            if need('vq', 'h b n -> b n h'):
                add(f'tab3 {B} {N} {H} (heads_sep_idx (lab3 {B} {N}))', rearrange(lab(H, B, N), 'h b n -> b n h', h=H), dict(pat='h b n -> b n h', shape=(H, B, N)))
            if need('vq', '1 (b h) n -> b n h'):
                add(f'tab3 {B} {N} {H} (heads_shared_idx {H} (lab2 {N}))', rearrange(lab(1, B * H, N), '1 (b h) n -> b n h', h=H), dict(pat='1 (b h) n -> b n h', shape=(B * H, N)))
    for (B, N, Cn, D) in ((1, 1, 1, 1), (2, 2, 2, 3), (1, 3, 3, 2)):
        if need('fsq', 'b n (c d) -> b n c d'):
            add(f'tab4 {B} {N} {Cn} {D} (cb_split {D} (lab3 {N} {Cn * D}))', rearrange(lab(B, N, Cn * D), 'b n (c d) -> b n c d', c=Cn), dict(pat='b n (c d) -> b n c d', shape=(B, N, Cn, D)))
        if need('fsq', 'b n c d -> b n (c d)'):
            add(f'tab3 {B} {N} {Cn * D} (cb_merge {D} (lab4 {N} {Cn} {D}))', rearrange(lab(B, N, Cn, D), 'b n c d -> b n (c d)'), dict(pat='b n c d -> b n (c d)', shape=(B, N, Cn, D)))
    return cases, meta


def forward_model_cases(ctx, rng, failures):
    """the executable end-to-end model (Model/Forward.v: layout index maps + assignment) run over Q on the implementation's own inputs and
    codebooks: indices must be equal, quantized values equal within 1e-6 (evaluation mode, no projection)"""
    import torch
    from vlib.core import qlit, qmat
    from vector_quantize_pytorch import VectorQuantize
    cases, meta = [], []

    def nested(t):
        return t.double().tolist()

    def q3(l):
        return '[' + '; '.join(qmat(m) for m in l) + ']'

    def q4(l):
        return '[' + '; '.join(q3(m) for m in l) + ']'
    combos = [(lay, hm, cos) for lay in ('seq', 'cfirst', 'image') for hm in ('OneHead', 'SharedHeads', 'SeparateHeads') for cos in (False, True)]
    n = len(combos) if not ctx.thorough else 3 * len(combos)
    for ci in range(n):
        lay, hm, cos = combos[ci % len(combos)]
        H = 1 if hm == 'OneHead' else rng.choice([2, 3])
        D = rng.choice([1, 2])
        K = rng.choice([2, 4])
        vq = VectorQuantize(dim=H * D, codebook_dim=D, heads=H, separate_codebook_per_head=(hm == 'SeparateHeads'), codebook_size=K, use_cosine_sim=cos,
                            channel_last=(lay != 'cfirst'), accept_image_fmap=(lay == 'image'))
        vq.eval()
        B, N = 2, 3
        Hh, W = 3, 2
        if lay == 'seq':
            x = torch.randn(B, N, H * D)
        elif lay == 'cfirst':
            x = torch.randn(B, H * D, N)
        else:
            x = torch.randn(B, H * D, Hh, W)
        if cos:
            # the model scores the vectors it is given: hand it unit-norm head slices so that the module's own normalisation is the identity up to rounding
            xs = x if lay == 'seq' else x.movedim(1, -1)
            shp = xs.shape
            xs = torch.nn.functional.normalize(xs.reshape(*shp[:-1], H, D), dim=-1).reshape(shp)
            x = xs if lay == 'seq' else xs.movedim(-1, 1).contiguous()
        with torch.no_grad():
            out, idx, _ = vq(x)
        cbs = [vq._codebook.embed[h].double().tolist() for h in range(vq._codebook.embed.shape[0])]
        cb_term = '[' + '; '.join(qmat(c) for c in cbs) + ']'
        ii = idx.reshape(-1).tolist()
        oo = out.reshape(-1).double().tolist()
        cosb = 'true' if cos else 'false'
        if lay == 'seq':
            mi = f'fwd_seq_indices {cosb} {hm} {B} {N} {H} {D} {cb_term} {q3(nested(x))}'
            mq = f'fwd_seq_quantized {cosb} {hm} {B} {N} {H} {D} {cb_term} {q3(nested(x))}'
        elif lay == 'cfirst':
            mi = f'fwd_cfirst_indices {cosb} {hm} {B} {N} {H} {D} {cb_term} {q3(nested(x))}'
            mq = f'fwd_cfirst_quantized {cosb} {hm} {B} {N} {H} {D} {cb_term} {q3(nested(x))}'
        else:
            mi = f'fwd_image_indices {cosb} {hm} {B} {Hh} {W} {H} {D} {cb_term} {q4(nested(x))}'
            mq = f'fwd_image_quantized {cosb} {hm} {B} {Hh} {W} {H} {D} {cb_term} {q4(nested(x))}'
        cases.append(f'fwd_check {qlit(1e-6)} ({mi}) {natlist(ii)} ({mq}) [{"; ".join(qlit(v) for v in oo)}]')
        meta.append(dict(pat='forward-model', shape=(lay, hm, cos, H, D, K), layout=lay, heads=hm, cosine=cos))
    return cases, meta


def modules(rng):
    import torch
    from torch import nn
    from vector_quantize_pytorch import (VectorQuantize, ResidualVQ, GroupedResidualVQ, FSQ, LFQ, SimVQ, ResidualSimVQ, ResidualFSQ, ResidualLFQ, LatentQuantize, RandomProjectionQuantizer)
    M = []

    def add(name, mk, dim, layouts=('seq',), frozen=False):
        M.append(dict(name=name, mk=mk, dim=dim, layouts=layouts, frozen=frozen))
    add('vq', lambda lay: VectorQuantize(dim=4, codebook_size=7, channel_last=(lay != 'cfirst'), accept_image_fmap=(lay == 'image')), 4, ('seq', 'cfirst', 'image'), True)
    add('vq-heads-shared', lambda lay: VectorQuantize(dim=4, codebook_size=7, heads=2, codebook_dim=2, channel_last=(lay != 'cfirst'), accept_image_fmap=(lay == 'image')), 4, ('seq', 'cfirst', 'image'), True)
    add('vq-heads-sep', lambda lay: VectorQuantize(dim=6, codebook_size=5, heads=3, codebook_dim=2, separate_codebook_per_head=True, accept_image_fmap=(lay == 'image')), 6, ('seq', 'image'), True)
    add('vq-cosine-proj', lambda lay: VectorQuantize(dim=5, codebook_size=7, codebook_dim=3, use_cosine_sim=True, channel_last=(lay != 'cfirst')), 5, ('seq', 'cfirst'), True)
    add('rvq', lambda lay: ResidualVQ(dim=3, num_quantizers=3, codebook_size=5, accept_image_fmap=(lay == 'image')), 3, ('seq', 'image'), True)
    add('rvq-implicit', lambda lay: ResidualVQ(dim=3, num_quantizers=2, codebook_size=4, implicit_neural_codebook=True, mlp_kwargs=dict(dim_hidden=4, depth=1)), 3, ('seq',), True)
    add('grvq', lambda lay: GroupedResidualVQ(dim=4, groups=2, num_quantizers=2, codebook_size=5), 4, ('seq',), True)
    add('fsq', lambda lay: FSQ([5, 4, 3], channel_first=(lay == 'cfirst')), 3, ('seq', 'cfirst', 'image', 'video'))
    add('fsq-codebooks', lambda lay: FSQ([3, 4], num_codebooks=2, dim=5), 5, ('seq', 'image'))
    add('lfq', lambda lay: LFQ(dim=3, codebook_size=8), 3, ('seq', 'image'))
    add('lfq-codebooks', lambda lay: LFQ(codebook_size=4, num_codebooks=3, dim=6, spherical=True), 6, ('seq', 'image'))
    add('rfsq', lambda lay: ResidualFSQ(levels=[4, 3], num_quantizers=2, dim=2, is_channel_first=(lay != 'seq')), 2, ('seq', 'cfirst', 'image'))
    add('rlfq', lambda lay: ResidualLFQ(dim=3, codebook_size=8, num_quantizers=2), 3, ('seq',))
    add('simvq', lambda lay: SimVQ(dim=3, codebook_size=6, channel_first=(lay != 'seq')), 3, ('seq', 'cfirst', 'image'))
    add('rsimvq', lambda lay: ResidualSimVQ(dim=3, num_quantizers=2, codebook_size=6, channel_first=(lay != 'seq')), 3, ('seq', 'cfirst'))
    add('latent', lambda lay: LatentQuantize(levels=[3, 4], dim=2), 2, ('cfirst', 'image'))
    add('rpq', lambda lay: RandomProjectionQuantizer(dim=4, codebook_size=5, codebook_dim=2, num_codebooks=2), 4, ('seq',))
    # OPTIONAL configurations: combinations the library currently rejects (affine_param raises on every forward, cosine + learnable is refused at
    # construction).  They are tried on every run and skipped while they are rejected - if a change makes one of them run, it is checked like the rest
    M_opt = [('vq-affine', lambda lay: VectorQuantize(dim=3, codebook_size=6, affine_param=True, decay=0.5), 3, ('seq',), True),
             ('vq-affine-sync', lambda lay: VectorQuantize(dim=3, codebook_size=6, affine_param=True, sync_affine_param=True, decay=0.5), 3, ('seq',), True),
             ('vq-cosine-learnable', lambda lay: VectorQuantize(dim=3, codebook_size=6, use_cosine_sim=True, learnable_codebook=True, ema_update=False), 3, ('seq',), True)]
    for name, mk, dim, layouts, frozen in M_opt:
        try:
            probe = mk('seq')
            probe.train()
            probe(torch.randn(2, 4, dim))
            probe.eval()
            probe(torch.randn(2, 4, dim))
        except Exception:
            continue
        add(name, mk, dim, layouts, frozen)
    return M


def to_layout(xs, lay, hw=None):
    """xs: (b, n, d) channel-last sequence -> the layout the module accepts"""
    if lay == 'seq':
        return xs
    if lay == 'cfirst':
        return xs.movedim(-1, 1)
    b, n, d = xs.shape
    if lay == 'image':
        h, w = hw
        return xs.reshape(b, h, w, d).permute(0, 3, 1, 2)
    if lay == 'video':
        t, h, w = hw
        return xs.reshape(b, t, h, w, d).permute(0, 4, 1, 2, 3)


def from_layout(out, idx, lay, mod_name):
    """outputs / indices back to (b, n, d) and (b, n, ...)"""
    import torch
    if lay == 'seq':
        return out, idx
    if lay == 'cfirst':
        o = out.movedim(1, -1)
        i = idx
        if idx is not None and mod_name in ('rfsq',) and idx.ndim == 3:
            i = idx.movedim(1, -1)
        return o, i
    b, d = out.shape[0], out.shape[1]
    o = out.reshape(b, d, -1).movedim(1, -1)
    i = idx
    if idx is not None:
        if mod_name in ('rfsq',):
            i = idx.reshape(b, idx.shape[1], -1).movedim(1, -1)
        else:
            sp = out.shape[2:]
            i = idx.reshape(b, o.shape[1], *idx.shape[1 + len(sp):])
    return o, i


def run(mod, m, x, frozen):
    import torch
    kw = {}
    if frozen and m['frozen']:
        mod.train(True)
        kw['freeze_codebook'] = True
    else:
        mod.train(False)
    with torch.no_grad():
        ret = mod(x, **kw)
    if isinstance(ret, torch.Tensor):
        return None, ret
    idx = ret[1]
    if isinstance(idx, (tuple, list)):
        idx = torch.stack(list(idx))
    return ret[0], idx


def correspond(ctx, scale):
    import torch
    rng = ctx.rng
    failures, samples = [], []
    cases, meta = pattern_cases(ctx, failures)
    fc, fm = forward_model_cases(ctx, rng, failures)
    n_pattern = len(cases)
    cases, meta = cases + fc, meta + fm
    ec, em = einops_cases(ctx, rng, failures)
    ebad, ebroken = core.run_cases(ctx, 'c10_einops', EINOPS_HEADER, ec, per_file=60)
    for name, out in ebroken:
        failures.append({'key': f'coq-eval:{name}', 'what': 'case file did not evaluate: ' + out, 'case': {'file': name}})
    for i, code in sorted(ebad.items()):
        why = {1: 'differs from einops', 2: 'does not parse', 3: 'is not a well-formed rearrange / repeat (axis sets differ or an axis is repeated)'}.get(code, str(code))
        failures.append({'key': f'einops-model:{em[i]["pat"]}', 'what': f'the Coq einops interpreter on pattern {em[i]["pat"]!r} with sizes {em[i]["sizes"]} {why}', 'case': dict(em[i], term=ec[i][:5000])})
    ev = nt = 0
    dist = {'einops_interpreter_cases': len(ec), 'pattern_cases': n_pattern, 'forward_model_cases': len(fc), 'permute': 0, 'split_concat': 0, 'single_vs_batch': 0, 'layout_equiv': 0}
    reps = (2 if not ctx.thorough else 10) * scale

    def same(a, b, what, key, info, exact_idx=True):
        if a is None and b is None:
            return
        if a.shape != b.shape:
            failures.append({'key': key + ':shape', 'what': f'{info}: {what} shapes differ {tuple(a.shape)} vs {tuple(b.shape)}', 'case': dict(info=info)})
            return
        if a.dtype.is_floating_point:
            if not torch.allclose(a, b, atol=1e-5, rtol=1e-5):
                failures.append({'key': key + ':' + what, 'what': f'{info}: {what} differ by {(a - b).abs().max().item():g}', 'case': dict(info=info)})
        else:
            bad = (a != b).float().mean().item()
            if bad > 0:
                failures.append({'key': key + ':' + what, 'what': f'{info}: {what} differ at {bad * 100:.1f}% of the positions', 'case': dict(info=info)})

    for m in modules(rng):
        for lay in m['layouts']:
            for rep in range(reps):
                try:
                    mod = m['mk'](lay)
                except Exception as ex:
                    failures.append({'key': f'{m["name"]}:construct', 'what': repr(ex), 'case': dict(name=m['name'], layout=lay)})
                    break
                if m['frozen'] and rep % 2 == 1:
                    mod.train()
                    for _ in range(2):
                        mod(to_layout(torch.randn(2, 6, m['dim']), lay, (2, 3) if lay == 'image' else (1, 2, 3)))
                frozen = rep % 2 == 1
                b, n = 3, 6
                hw = (2, 3) if lay == 'image' else (1, 2, 3)
                if lay == 'cfirst' and rep % 2 == 0:
                    n = m['dim']          # square case: sequence length = feature dimension (a transposition slip is invisible in the shapes)
                xs = torch.randn(b, n, m['dim'])
                mixed = rep % 2 == 0
                if mixed:
                    # tokens of very different magnitude side by side: a per-call statistic (max / mean over the batch) leaking into a token's
                    # result shows up as a dependence on which other tokens share the call
                    sc = torch.tensor([[rng.choice([1e-8, 1e-4, 1.0, 1.0, 30.0]) for _ in range(n)] for _ in range(b)])
                    sc[0, 0], sc[-1, -1] = 1e-8, 30.0
                    xs = xs * sc[..., None]
                    dist['mixed_magnitude_batches'] = dist.get('mixed_magnitude_batches', 0) + 1
                key = f'{m["name"]}:{lay}'
                grouped = m['name'] == 'grvq'
                try:
                    o0, i0 = run(mod, m, to_layout(xs, lay, hw), frozen)
                    if o0 is not None:
                        o0, i0 = from_layout(o0, i0 if not grouped else None, lay, m['name']) if not grouped else (o0, i0)
                    # (1) token permutation (within each sequence and across the batch)
                    perm = torch.randperm(b * n)
                    xp = xs.reshape(b * n, -1)[perm].reshape(b, n, -1)
                    o1, i1 = run(mod, m, to_layout(xp, lay, hw), frozen)
                    if o1 is not None and not grouped:
                        o1, i1 = from_layout(o1, i1, lay, m['name'])
                    ev += 1
                    dist['permute'] += 1
                    if o0 is not None:
                        same(o0.reshape(b * n, -1)[perm], o1.reshape(b * n, -1), 'outputs', key + ':permute', f'{m["name"]} ({lay}) token permutation')
                    if i0 is not None and not grouped:
                        ii0 = i0.reshape(b * n, -1) if i0.ndim >= 2 else i0
                        ii1 = i1.reshape(b * n, -1) if i1.ndim >= 2 else i1
                        same(ii0[perm], ii1, 'indices', key + ':permute', f'{m["name"]} ({lay}) token permutation')
                    # (2) batch split / concatenation
                    oa, ia = run(mod, m, to_layout(xs[:1], lay, hw), frozen)
                    ob, ib = run(mod, m, to_layout(xs[1:], lay, hw), frozen)
                    dist['split_concat'] += 1
                    if oa is not None:
                        oc = torch.cat([oa, ob], dim=0)
                        oc = from_layout(oc, None, lay, m['name'])[0] if not grouped else oc
                        same(o0, oc, 'outputs', key + ':split', f'{m["name"]} ({lay}) batch split/concat')
                    if ia is not None:
                        ic = torch.cat([ia, ib], dim=(1 if grouped else 0))
                        if not grouped:
                            ic = from_layout(torch.cat([oa, ob], dim=0), ic, lay, m['name'])[1] if oa is not None else ic
                        same(i0, ic, 'indices', key + ':split', f'{m["name"]} ({lay}) batch split/concat')
                    # (3) a single vector alone vs inside the batch (sequence layout)
                    if lay == 'seq':
                        bi, ti = (0, 0) if mixed else (rng.randrange(b), rng.randrange(n))
                        os_, is_ = run(mod, m, xs[bi:bi + 1, ti:ti + 1], frozen)
                        dist['single_vs_batch'] += 1
                        if os_ is not None:
                            same(o0[bi:bi + 1, ti:ti + 1], os_, 'outputs', key + ':single', f'{m["name"]} single vector vs in batch')
                        if is_ is not None:
                            same((i0[:, bi:bi + 1, ti:ti + 1] if grouped else i0[bi:bi + 1, ti:ti + 1]), is_, 'indices', key + ':single', f'{m["name"]} single vector vs in batch')
                    # (3b) ON-CODE tokens (exact fixpoints: a first-layer code, a quantized output fed back, the zero vector) alone, batched only with
                    # each other, and inside a batch of generic tokens: a shortcut keyed on a whole-call statistic ("the residual of the call is
                    # exactly zero", "nothing left to quantize") is invisible to random tokens and makes the result depend on the company
                    if lay == 'seq' and not grouped and rep < 4:
                        specials = [torch.zeros(m['dim'])]
                        first = getattr(mod, 'layers', [mod])[0]
                        cbk = getattr(first, '_codebook', None)
                        emb = getattr(cbk, 'embed', None)
                        if emb is not None and emb.ndim == 3 and emb.shape[-1] == m['dim'] and emb.shape[0] == 1:
                            specials += [emb[0, k].detach().clone() for k in range(min(3, emb.shape[1]))]
                        if o0 is not None and o0.shape[-1] == m['dim']:
                            specials += [o0[0, 0].detach().clone(), o0[-1, -1].detach().clone()]
                        sp = torch.stack(specials)[None]                     # 1 x s x d : on-code tokens only
                        osp, isp = run(mod, m, sp, frozen)
                        mix = torch.cat([sp, xs[:1]], dim=1)                 # the same tokens next to generic ones
                        omx, imx = run(mod, m, mix, frozen)
                        dist['on_code_tokens_vs_batch'] = dist.get('on_code_tokens_vs_batch', 0) + 1
                        ns = sp.shape[1]
                        if osp is not None:
                            same(omx[:, :ns], osp, 'outputs', key + ':on-code', f'{m["name"]} on-code tokens alone vs next to generic tokens')
                        if isp is not None:
                            same(imx[:, :ns], isp, 'indices', key + ':on-code', f'{m["name"]} on-code tokens alone vs next to generic tokens')
                        for si in range(ns):
                            o1s, i1s = run(mod, m, sp[:, si:si + 1], frozen)
                            if o1s is not None:
                                same(omx[:, si:si + 1], o1s, 'outputs', key + ':on-code-single', f'{m["name"]} one on-code token alone vs in batch')
                            if i1s is not None:
                                same(imx[:, si:si + 1], i1s, 'indices', key + ':on-code-single', f'{m["name"]} one on-code token alone vs in batch')
                    # (3c) memory layout of the input: the same values in non-contiguous / strided / offset / channels-last / expanded storage give the same
                    # results, and the caller's tensor is left untouched (a token's result depends on its value, not on where it lives)
                    if rep < 3:
                        from vlib import callzoo
                        xin = to_layout(xs, lay, hw)
                        cands = callzoo.layout_variants(torch, xin)
                        xrep = to_layout(xs[:1].expand(*xs.shape).contiguous(), lay, hw)
                        cands += [(nm + '/equal-rows', v) for nm, v in callzoo.layout_variants(torch, xrep) if nm == 'expanded-batch']
                        for vname, xv in cands:
                            base = xin if '/equal-rows' not in vname else xrep
                            keep = xv.clone()
                            ob_, ib_ = run(mod, m, base, frozen)
                            ov_, iv_ = run(mod, m, xv, frozen)
                            dist['memory_layout_variants'] = dist.get('memory_layout_variants', 0) + 1
                            if ob_ is not None:
                                same(ob_, ov_, 'outputs', key + ':memory-layout:' + vname.split('/')[0], f'{m["name"]} ({lay}) input as {vname}')
                            if ib_ is not None and not grouped:
                                same(ib_, iv_, 'indices', key + ':memory-layout:' + vname.split('/')[0], f'{m["name"]} ({lay}) input as {vname}')
                            if not torch.equal(torch.nan_to_num(xv, nan=7.0), torch.nan_to_num(keep, nan=7.0)):
                                failures.append({'key': key + ':input-modified-in-place', 'what': f'{m["name"]} ({lay}): the caller\'s input tensor ({vname}) was modified by the call', 'case': dict(name=m['name'], layout=lay)})
                    # (3d) RE-ENTRANCY: a read-only forward hook on a sub-module (monitoring, visualisation) calls the module itself on another input - a
                    # differently shaped one where the layout allows - while the outer call is in flight; the outer call returns what it returns alone
                    if rep < 2 and not grouped:
                        subs_ = [sm for sm in mod.modules() if sm is not mod and len(list(sm.children())) == 0][:1] or [sm for sm in mod.modules() if sm is not mod][:1]
                        if subs_:
                            xin = to_layout(xs, lay, hw)
                            if lay == 'image':
                                x_other = torch.randn(*xin.shape[:2], xin.shape[3], xin.shape[2])     # same h * w, transposed feature map
                            elif lay == 'video':
                                x_other = torch.randn(*xin.shape[:2], *reversed(xin.shape[2:]))
                            else:
                                x_other = torch.randn(1, *xin.shape[1:])
                            state_h = {'busy': False, 'n': 0}

                            def hook_(_m, _inp, _out):
                                if not state_h['busy']:
                                    state_h['busy'] = True
                                    try:
                                        with torch.no_grad():
                                            run(mod, m, x_other, True)
                                        state_h['n'] += 1
                                    finally:
                                        state_h['busy'] = False
                            ob_, ib_ = run(mod, m, xin, True)
                            hh_ = subs_[0].register_forward_hook(hook_)
                            try:
                                oh_, ih_ = run(mod, m, xin, True)
                            finally:
                                hh_.remove()
                            dist['reentrant_hook_calls'] = dist.get('reentrant_hook_calls', 0) + int(state_h['n'] > 0)
                            if ob_ is not None:
                                same(ob_, oh_, 'outputs', key + ':reentrant-hook', f'{m["name"]} ({lay}) with a forward hook that calls the module on another input')
                            if ib_ is not None:
                                same(ib_, ih_, 'indices', key + ':reentrant-hook', f'{m["name"]} ({lay}) with a forward hook that calls the module on another input')
                    # (4) layout equivalence: the same per-vector results as the flattened channel-last sequence
                    if lay != 'seq' and 'seq' in m['layouts']:
                        ref = m['mk']('seq')
                        ref.load_state_dict(mod.state_dict())
                        orf, irf = run(ref, m, xs, frozen)
                        dist['layout_equiv'] += 1
                        if orf is not None:
                            same(orf, o0, 'outputs', key + ':layout', f'{m["name"]} {lay} vs flattened channel-last')
                        if irf is not None:
                            same(irf.reshape(b, n, -1), i0.reshape(b, n, -1), 'indices', key + ':layout', f'{m["name"]} {lay} vs flattened channel-last')
                    nt += 1
                except Exception as ex:
                    import traceback
                    failures.append({'key': f'{key}:exception:{type(ex).__name__}', 'what': f'{m["name"]} ({lay}): {ex!r}', 'case': dict(name=m['name'], layout=lay, tb=traceback.format_exc()[-800:])})
        if len(samples) < 4:
            samples.append(dict(module=m['name'], layouts=list(m['layouts'])))
    from vector_quantize_pytorch import VectorQuantize
    # (4b) position-wise under a MASK: with ragged padding in the batch, every VALID position still gets the result of that vector passed alone
    # (whatever the other rows' padding is) - heads x projection x layernorm-after-projection x cosine
    for mi in range(8 if not ctx.thorough else 32):
        heads_m, sep_m = [(1, False), (4, False), (2, True), (2, False)][mi % 4]
        ln_m = (mi // 4) % 2 == 1
        cos_m = (mi // 2) % 3 == 1
        kw_m = dict(dim=6, codebook_dim=2, heads=heads_m, separate_codebook_per_head=sep_m, codebook_size=16, layernorm_after_project_in=ln_m, use_cosine_sim=cos_m)
        try:
            torch.manual_seed(rng.randrange(10 ** 6))
            vm = VectorQuantize(**kw_m)
            vm.eval()
            bm, nm = 3, 6
            lens_m = [nm, rng.randrange(1, nm), rng.randrange(1, nm)]
            mm = torch.arange(nm)[None, :] < torch.tensor(lens_m)[:, None]
            xm = torch.randn(bm, nm, 6)
            with torch.no_grad():
                xpad = torch.where(mm[..., None], xm, torch.full_like(xm, 50.0))
                if mi % 2 == 1:
                    # the padded batch handed over as a dense PERMUTED VIEW (conv features viewed channel-last / a time-major batch viewed batch-first)
                    xpad = xpad.permute(2, 0, 1).contiguous().permute(1, 2, 0) if mi % 4 == 1 else xpad.transpose(0, 1).contiguous().transpose(0, 1)
                    dist['masked_permuted_view_batches'] = dist.get('masked_permuted_view_batches', 0) + 1
                om, im, _ = vm(xpad, mask=mm)
                bad_pos = []
                for bi in range(bm):
                    for ti in range(lens_m[bi]):
                        oa, ia, _ = vm(xm[bi:bi + 1, ti:ti + 1])
                        if not (torch.equal(ia.reshape(-1), im[bi, ti].reshape(-1)) and torch.allclose(oa.reshape(-1), om[bi, ti].reshape(-1), atol=1e-5, rtol=1e-4)):
                            bad_pos.append((bi, ti))
            ev += 1
            dist['masked_batch_vs_alone'] = dist.get('masked_batch_vs_alone', 0) + 1
            if bad_pos:
                failures.append({'key': f'vq-masked:valid-position-depends-on-batch:heads={heads_m}:sep={sep_m}:ln={ln_m}', 'what': f'VectorQuantize({kw_m}) with lens {lens_m}: valid positions {bad_pos[:6]} get a different result in the padded batch than alone',
                                 'case': dict(kw=kw_m, lens=lens_m)})
        except Exception as ex:
            failures.append({'key': f'vq-masked:exception:{type(ex).__name__}', 'what': f'VectorQuantize({kw_m}): {ex!r}', 'case': dict(kw=kw_m)})
    # (5) LARGE calls: (tokens x codes) beyond 2^24 pairs in one call vs the same tokens in small chunks - a size-dependent code path (chunking,
    # an alternative distance formula above a memory threshold ...) must give every token the same result
    from vector_quantize_pytorch import SimVQ, ResidualSimVQ, VectorQuantize, LFQ
    big = [('simvq-16k', lambda: SimVQ(dim=3, codebook_size=16384), 3, 1300), ('rsimvq-16k', lambda: ResidualSimVQ(dim=3, num_quantizers=2, codebook_size=16384), 3, 1100),
           ('vq-8k', lambda: VectorQuantize(dim=3, codebook_size=8192), 3, 2200), ('lfq-4k', lambda: LFQ(codebook_size=4096, dim=12), 12, 4200)]
    for bname, bmk, bdim, ntok in (big if not ctx.thorough else big + [('simvq-1k', lambda: SimVQ(dim=4, codebook_size=1024), 4, 17000)]):
        try:
            torch.manual_seed(rng.randrange(10 ** 6))
            mod = bmk()
            mod.eval()
            xb = torch.randn(1, ntok, bdim)
            with torch.no_grad():
                rf = mod(xb)
                parts = [mod(xb[:, i:i + 300]) for i in range(0, ntok, 300)]
            of, jf = rf[0], rf[1]
            oc = torch.cat([p_[0] for p_ in parts], dim=1)
            jc = torch.cat([p_[1] for p_ in parts], dim=1)
            ev += 1
            dist['large_calls'] = dist.get('large_calls', 0) + 1
            frac = (jf != jc).float().mean().item()
            if frac > 0.01:
                failures.append({'key': f'{bname}:large-call:indices', 'what': f'{bname}: {frac * 100:.1f}% of {ntok} tokens get a different index in one large call than in chunks of 300 (size-dependent behaviour)', 'case': dict(name=bname, tokens=ntok)})
            elif not torch.allclose(of[(jf == jc).reshape(1, ntok, -1).all(dim=-1)], oc[(jf == jc).reshape(1, ntok, -1).all(dim=-1)], atol=1e-5, rtol=1e-4):
                failures.append({'key': f'{bname}:large-call:outputs', 'what': f'{bname}: outputs of a large call differ from the chunked calls at tokens with equal indices', 'case': dict(name=bname, tokens=ntok)})
        except Exception as ex:
            failures.append({'key': f'{bname}:large-call:exception:{type(ex).__name__}', 'what': f'{bname}: {ex!r}', 'case': dict(name=bname)})
    # COMMON-OFFSET batches with near-tied codes (round 10, seed C10-j): tokens around 4e3 .. 6e4 whose codes lie 0.5 apart - below the float32 resolution
    # of |x|^2, so the winner is decided by rounding.  Whatever that rounding gives, it is a function of the token and the codebook: the same token
    # alone, in a batch of its neighbours, in halves of that batch and next to an outlier gets the same index and vector (a per-call centring /
    # rescaling "for numerical stability" changes the winners with the company).  Every other coordinate is exactly zero, so the sums are order-free.
    from vector_quantize_pytorch import VectorQuantize as _VQ, ResidualVQ as _RVQ
    for oi, offset in enumerate([4096.0, 4096.0, 30000.0, 60000.0, -4096.0, 1024.0]):
        d = [1, 2, 1, 3, 2, 1][oi]
        K = 4
        for kind in ('vq', 'rvq'):
            try:
                torch.manual_seed(880 + oi)
                mod = _VQ(dim=d, codebook_size=K) if kind == 'vq' else _RVQ(dim=d, num_quantizers=2, codebook_size=K)
                cbk = torch.zeros(K, d)
                cbk[:, 0] = offset + 0.5 * torch.arange(K)
                (mod if kind == 'vq' else mod.layers[0]).codebook = cbk
                mod.eval()
                nt_ = 8
                xs = torch.zeros(1, nt_, d)
                xs[0, :, 0] = offset + torch.tensor([0.02, 0.5, 1.01, 1.5, 0.6, 1.6, 0.9, -0.1])
                with torch.no_grad():
                    o_b, i_b = mod(xs)[:2]
                    variants_ = [('alone', [(t_, xs[:, t_:t_ + 1]) for t_ in range(nt_)]), ('halves', [(0, xs[:, :4]), (4, xs[:, 4:])]),
                                 ('next-to-an-outlier', [(0, torch.cat([xs, torch.full((1, 1, d), -7.0 * offset)], dim=1))]),
                                 ('next-to-zeros', [(0, torch.cat([xs, torch.zeros(1, 3, d)], dim=1))])]
                    for vname, parts in variants_:
                        for start, xpart in parts:
                            o_p, i_p = mod(xpart)[:2]
                            ln = min(xpart.shape[1], nt_ - start)
                            ev += 1
                            dist['common_offset_near_tie_calls'] = dist.get('common_offset_near_tie_calls', 0) + 1
                            if not torch.equal(i_p[:, :ln], i_b[:, start:start + ln]) or not torch.equal(o_p[:, :ln], o_b[:, start:start + ln]):
                                failures.append({'key': f'{kind}:common-offset-near-ties:{vname}', 'what': f'{kind} dim={d}, codes {offset} + 0.5k, tokens near them: tokens {start}..{start + ln - 1} get indices '
                                                 f'{i_p[:, :ln].reshape(-1).tolist()} {vname} but {i_b[:, start:start + ln].reshape(-1).tolist()} inside the batch of eight (the result depends on the other tokens of the call)',
                                                 'case': dict(kind=kind, offset=offset, dim=d, variant=vname)})
                                break
            except Exception as ex:
                failures.append({'key': f'{kind}:common-offset-near-ties:exception:{type(ex).__name__}', 'what': repr(ex)[:200], 'case': dict(kind=kind, offset=offset)})
    bad, broken = core.run_cases(ctx, 'c10', HEADER, cases, per_file=30)
    for name, out in broken:
        failures.append({'key': f'coq-eval:{name}', 'what': 'case file did not evaluate: ' + out, 'case': {'file': name}})
    for i, code in sorted(bad.items()):
        if meta[i]['pat'] == 'forward-model':
            failures.append({'key': f'forward-model:{meta[i]["layout"]}:{meta[i]["heads"]}:code{code}', 'what': f'VectorQuantize eval forward ({meta[i]["layout"]}, {meta[i]["heads"]}, cosine={meta[i]["cosine"]}): '
                             + ('returned indices' if code == 1 else 'quantized values') + ' differ from the end-to-end model (layout index maps + nearest code) evaluated in Coq', 'case': dict(meta[i], term=cases[i][:30000])})
            continue
        failures.append({'key': f'pattern:{meta[i]["pat"]}', 'what': f'the model\'s index map for {meta[i]["pat"]!r} differs from einops on shape {meta[i]["shape"]}', 'case': meta[i]})
    return {'evaluations': ev + len(cases), 'distinct_nontrivial': nt,
            'rule': 'einops on index-labelled tensors vs the model\'s index maps (evaluated in Coq) for every pattern at the anchored sites x several extents; metamorphic pairs on 17 module configurations x layouts in eval / frozen mode: '
                    'token permutations, batch split/concat, single vector vs in batch, every accepted layout vs the flattened channel-last sequence (same weights)',
            'samples': samples, 'failures': failures, 'distribution': dist}


def replay_case(ctx, case):
    return True, 're-run the check: %s' % ({k: v for k, v in case.items() if k != "tb"},)

"""C15 — checkpoint round trip preserves behaviour."""
import random, copy
from functools import partial
from vlib import core
from props import c20

OBLIGATIONS = dict(
    prop_file='Properties/C15.v',
    glue=['Glue/InventoryFacts.v'] + [f'Glue/Pin_{n}.v' for n in ('inv_euclid', 'inv_cosine', 'inv_vq', 'inv_fsq', 'inv_lfq', 'inv_simvq', 'inv_rpq', 'inv_rfsq', 'inv_lq',
                                                                 'npinit_vq', 'npinit_fsq', 'npinit_lfq', 'npinit_rfsq', 'npinit_lq')] + ['Glue/Pin_fp_C15.v'],
    extra=['Model/Params.vo'],
    gen_items=['inv_euclid', 'inv_cosine', 'inv_vq', 'inv_fsq', 'inv_lfq', 'inv_simvq', 'inv_rpq', 'inv_rfsq', 'inv_lq', 'inv_rvq', 'inv_rlfq', 'inv_rsvq',
               'npinit_vq', 'npinit_fsq', 'npinit_lfq', 'npinit_rfsq', 'npinit_lq', 'w_euclid', 'w_cosine', 'fp_C15'],
)
ASSUMPTIONS = [
    'torch state_dict / load_state_dict save and restore exactly the persistent buffers and parameters (modelled by persist / rebuild on a named store; validated by the live-registry comparison and by the behavioural round trip)',
    'both modules are driven with the same inputs and the same torch / python RNG seeds after the reload',
]
HEADER = c20.HEADER


def factories():
    from torch.optim import SGD, Adam
    from torch import nn
    from vector_quantize_pytorch import (VectorQuantize, ResidualVQ, GroupedResidualVQ, FSQ, LFQ, SimVQ, ResidualSimVQ, RandomProjectionQuantizer,
                                         ResidualFSQ, ResidualLFQ, LatentQuantize, GroupedResidualFSQ, GroupedResidualLFQ)
    F = []

    def add(name, mk, dim, mask=False, image=False, fwd_kw=None, mkx=None, manual=None):
        F.append(dict(name=name, mk=mk, dim=dim, mask=mask, image=image, fwd_kw=fwd_kw or {}, mkx=mkx, manual=manual))
    # MANUAL EMA mode (round 10, seed C15-j): forward only accumulates the statistics, the caller applies them with `_codebook.update_ema()`.  The
    # checkpoint is taken with an update still PENDING; applying it on the restored copy and on the original must give the same codebook
    add('vq-manual-ema', lambda: VectorQuantize(dim=3, codebook_size=5, decay=0.5, manual_ema_update=True), 3, mask=True, manual=lambda m: m._codebook.update_ema())
    add('vq-manual-ema-cosine-expiry', lambda: VectorQuantize(dim=3, codebook_size=5, decay=0.5, use_cosine_sim=True, threshold_ema_dead_code=2, manual_ema_update=True), 3, manual=lambda m: m._codebook.update_ema())
    add('vq-manual-ema-heads', lambda: VectorQuantize(dim=4, codebook_size=5, heads=2, codebook_dim=2, separate_codebook_per_head=True, decay=0.25, manual_ema_update=True), 4, manual=lambda m: m._codebook.update_ema())
    add('vq-ema', lambda: VectorQuantize(dim=4, codebook_size=6, decay=0.5), 4, mask=True)
    add('vq-cosine-expiry', lambda: VectorQuantize(dim=4, codebook_size=6, use_cosine_sim=True, decay=0.5, threshold_ema_dead_code=2), 4, mask=True)
    add('vq-heads-sep-expiry', lambda: VectorQuantize(dim=4, codebook_size=5, heads=2, codebook_dim=2, separate_codebook_per_head=True, threshold_ema_dead_code=1, decay=0.25), 4)
    add('vq-kmeans', lambda: VectorQuantize(dim=3, codebook_size=4, kmeans_init=True, kmeans_iters=3, threshold_ema_dead_code=1), 3, mask=True)
    add('vq-kmeans-cosine', lambda: VectorQuantize(dim=3, codebook_size=4, kmeans_init=True, kmeans_iters=3, use_cosine_sim=True), 3)
    add('vq-projection', lambda: VectorQuantize(dim=5, codebook_size=6, codebook_dim=3, layernorm_after_project_in=True), 5)
    add('vq-stochastic', lambda: VectorQuantize(dim=3, codebook_size=5, stochastic_sample_codes=True, sample_codebook_temp=0.5), 3)
    add('vq-learnable-sgd', lambda: VectorQuantize(dim=3, codebook_size=5, learnable_codebook=True, ema_update=False, in_place_codebook_optimizer=partial(SGD, lr=0.5)), 3)
    add('vq-learnable-adam', lambda: VectorQuantize(dim=3, codebook_size=5, learnable_codebook=True, ema_update=False, in_place_codebook_optimizer=partial(Adam, lr=0.1)), 3)
    add('vq-orth-ema', lambda: VectorQuantize(dim=3, codebook_size=5, orthogonal_reg_weight=1., decay=0.5), 3)
    # LONG histories (more than a thousand updates before the checkpoint): whatever a module counts or schedules on the side must be in the state_dict
    add('vq-expiry-long-history', lambda: VectorQuantize(dim=2, codebook_size=12, threshold_ema_dead_code=2, decay=0.5), 2)
    add('vq-cosine-expiry-long-history', lambda: VectorQuantize(dim=2, codebook_size=12, use_cosine_sim=True, threshold_ema_dead_code=2, decay=0.5), 2)
    add('vq-orth-cosine-expiry', lambda: VectorQuantize(dim=3, codebook_size=6, use_cosine_sim=True, orthogonal_reg_weight=0.5, orthogonal_reg_max_codes=4, decay=0.5, threshold_ema_dead_code=2), 3)
    add('vq-diversity', lambda: VectorQuantize(dim=3, codebook_size=5, codebook_diversity_loss_weight=0.5, decay=0.5), 3)
    add('vq-ce-commit-rotation', lambda: VectorQuantize(dim=3, codebook_size=5, commitment_use_cross_entropy_loss=True, rotation_trick=False, decay=0.5), 3)
    add('vq-image', lambda: VectorQuantize(dim=3, codebook_size=5, accept_image_fmap=True, decay=0.5), 3, image=True)
    add('rvq-dropout', lambda: ResidualVQ(dim=3, num_quantizers=3, codebook_size=5, quantize_dropout=True, decay=0.5, threshold_ema_dead_code=1), 3, mask=True)
    add('rvq-shared-learnable-inplace', lambda: ResidualVQ(dim=3, num_quantizers=2, codebook_size=5, shared_codebook=True, learnable_codebook=True, ema_update=False, in_place_codebook_optimizer=partial(SGD, lr=0.2)), 3)
    add('rvq-learnable-inplace', lambda: ResidualVQ(dim=3, num_quantizers=2, codebook_size=5, learnable_codebook=True, ema_update=False, in_place_codebook_optimizer=partial(SGD, lr=0.2)), 3)
    add('rvq-shared-expiry', lambda: ResidualVQ(dim=3, num_quantizers=3, codebook_size=6, shared_codebook=True, decay=0.5, threshold_ema_dead_code=2), 3)
    add('rvq-kmeans', lambda: ResidualVQ(dim=3, num_quantizers=2, codebook_size=4, kmeans_init=True, kmeans_iters=2), 3)
    add('rvq-implicit', lambda: ResidualVQ(dim=3, num_quantizers=2, codebook_size=4, implicit_neural_codebook=True, mlp_kwargs=dict(dim_hidden=4, depth=1)), 3)
    add('grvq', lambda: GroupedResidualVQ(dim=4, groups=2, num_quantizers=2, codebook_size=5, decay=0.5, quantize_dropout=True), 4)
    add('fsq', lambda: FSQ([5, 4, 3], dim=5), 5)
    add('fsq-sym-noise', lambda: FSQ([5, 3], preserve_symmetry=True, noise_dropout=0.5), 2)
    add('lfq', lambda: LFQ(dim=5, codebook_size=8, commitment_loss_weight=0.25), 5)
    add('lfq-spherical', lambda: LFQ(codebook_size=16, num_codebooks=2, spherical=True, dim=8), 8)
    add('rfsq', lambda: ResidualFSQ(levels=[4, 3], num_quantizers=3, dim=4, quantize_dropout=True), 4)
    add('rlfq', lambda: ResidualLFQ(dim=4, codebook_size=8, num_quantizers=2, quantize_dropout=True), 4)
    add('grfsq', lambda: GroupedResidualFSQ(dim=4, groups=2, levels=[3, 3], num_quantizers=2), 4)
    add('grlfq', lambda: GroupedResidualLFQ(dim=6, groups=2, codebook_size=8, num_quantizers=2), 6)
    add('simvq', lambda: SimVQ(dim=3, codebook_size=6), 3)
    add('simvq-mlp', lambda: SimVQ(dim=3, codebook_size=6, codebook_transform=nn.Sequential(nn.Linear(4, 6), nn.ReLU(), nn.Linear(6, 3)), frozen_codebook_dim=4), 3)
    add('rsimvq', lambda: ResidualSimVQ(dim=3, num_quantizers=2, codebook_size=6, quantize_dropout=True), 3)
    add('rpq', lambda: RandomProjectionQuantizer(dim=4, codebook_size=5, codebook_dim=2, num_codebooks=2), 4)
    add('latent', lambda: LatentQuantize(levels=[3, 4], dim=2), 2, image=True)
    add('latent-proj', lambda: LatentQuantize(levels=[5, 3], dim=4, optimize_values=False), 4, image=True)
    from vlib import zoo
    for zname, zc, zkw in zoo.configs():
        add(zname, (lambda zkw=zkw: VectorQuantize(**zkw())), zkw()['dim'])
    import torch
    for kind in ('fsq', 'lfq', 'res'):
        for zname, zc, zmk in zoo.class_configs(kind):
            add(zname, zmk, zoo.zoo_dim(kind, zc), mkx=(lambda kind=kind, zc=zc: zoo.zoo_input(kind, zc, torch)))
    return F


def step(f, mod, x, train, seed, mask=None, outer_opt=None, apply_manual=True):
    import torch
    mod.train(train)
    torch.manual_seed(seed)
    random.seed(seed)
    kw = dict(f['fwd_kw'])
    if mask is not None:
        kw['mask'] = mask
    ret = mod(x, **kw)
    if train and f.get('manual') and apply_manual:
        f['manual'](mod)
    if outer_opt is not None and train:
        outs = [t for t in (ret if isinstance(ret, tuple) else (ret,)) if isinstance(t, torch.Tensor) and t.dtype.is_floating_point and t.requires_grad]
        if outs:
            sum(o.sum() for o in outs).backward()
            outer_opt.step()
            outer_opt.zero_grad()
    return ret


def correspond(ctx, scale):
    import torch
    from torch.optim import SGD
    from vlib import impl
    from props.c08 import flat_out, outs_equal
    rng = ctx.rng
    failures, samples = [], []
    ev = nt = 0
    dist = {'histories': 0, 'reload': 0, 'deepcopy': 0, 'double_reload': 0, 'reload_assign': 0, 'rollback_into_used': 0, 'post_steps': 0, 'with_outer_optimizer': 0}
    reps = (2 if not ctx.thorough else 10) * scale
    for f in factories():
        for rep in range(reps):
            try:
                a = f['mk']()
            except Exception as ex:
                failures.append({'key': f'{f["name"]}:construct', 'what': repr(ex), 'case': dict(name=f['name'])})
                break
            def make_x():
                if f.get('mkx'):
                    return f['mkx']()
                if f['image']:
                    return torch.randn(2, f['dim'], 3) if 'latent' in f['name'] else torch.randn(2, f['dim'], 2, 3)
                return torch.randn(2, 4, f['dim'])
            def make_mask():
                if not f['mask'] or rng.random() < 0.5:
                    return None
                m = torch.tensor([[j < L for j in range(4)] for L in (rng.randrange(1, 5), rng.randrange(1, 5))])
                return m
            n_pre = [0, 1, 3, 6][(rep + len(f['name'])) % 4]
            if f['name'].endswith('-long-history'):
                if rep > 0:
                    break
                n_pre = 1030
            use_outer = rep % 2 == 1 and any(True for _ in a.parameters()) and 'inplace' not in f['name'] and 'learnable' not in f['name']
            opt_a = SGD(a.parameters(), lr=0.05) if use_outer else None
            try:
                for t in range(n_pre):
                    step(f, a, make_x(), True, rng.randrange(10 ** 6), make_mask(), opt_a, apply_manual=(t != n_pre - 1))
                    if t == n_pre - 1 and n_pre >= 1 and not f['image'] and not f.get('mkx'):
                        # the LAST call before the checkpoint asks for the cross-entropy loss to target indices (indices=) in training mode, where the class
                        # offers it: whatever such a call leaves pending (gradients of an in-place optimiser ...) must not be needed after a restore
                        try:
                            a.train(False)
                            with torch.no_grad():
                                probe_i = a(make_x())[1]
                            a.train(True)
                            if isinstance(probe_i, torch.Tensor) and probe_i.dtype in (torch.int32, torch.int64) and int(probe_i.min()) >= 0:
                                a(make_x(), indices=probe_i)
                                dist['indices_call_before_checkpoint'] = dist.get('indices_call_before_checkpoint', 0) + 1
                        except (TypeError, AssertionError, RuntimeError, ValueError, IndexError):
                            pass
            except Exception as ex:
                failures.append({'key': f'{f["name"]}:history-exception:{type(ex).__name__}', 'what': f'{f["name"]}: {ex!r}', 'case': dict(name=f['name'])})
                continue
            dist['histories'] += 1
            dist['with_outer_optimizer'] += use_outer
            sd = copy.deepcopy(a.state_dict())
            variants = []
            try:
                b = f['mk']()
                b.load_state_dict(sd)
                variants.append(('reload', b))
                c = copy.deepcopy(a)
                variants.append(('deepcopy', c))
                d2 = f['mk']()
                d2.load_state_dict(copy.deepcopy(b.state_dict()))
                variants.append(('double_reload', d2))
                e2 = f['mk']()
                e2.load_state_dict(copy.deepcopy(sd), assign=True)       # replaces the tensor objects instead of copying into them
                variants.append(('reload_assign', e2))
                # the checkpoint as a PLAIN mapping of tensors (safetensors, re-keyed / filtered dicts): no `_metadata` version information travels with it
                p2 = f['mk']()
                p2.load_state_dict({k_: v_.clone() for k_, v_ in sd.items()})
                variants.append(('reload_plain_dict', p2))
                # the whole module through torch.save / torch.load (pickle): where the library supports it, the copy is the module
                try:
                    import io as _io
                    buf_ = _io.BytesIO()
                    torch.save(a, buf_)
                    buf_.seek(0)
                    variants.append(('pickle_roundtrip', torch.load(buf_, weights_only=False)))
                except Exception:
                    pass      # local lambdas (spherical LFQ) do not pickle: a loud failure, not a silent difference
                # roll-back: the checkpoint is loaded into a USED module (another instance that already went through its own training steps, k-means
                # initialisation included) - everything the module knows must come from the named store, not from host-side mirrors of it
                u2 = f['mk']()
                for _ in range(2):
                    step(f, u2, make_x(), True, rng.randrange(10 ** 6), None, None)
                u2.zero_grad(set_to_none=True)
                u2.load_state_dict(copy.deepcopy(sd))
                variants.append(('rollback_into_used', u2))
            except Exception as ex:
                failures.append({'key': f'{f["name"]}:reload-exception:{type(ex).__name__}', 'what': f'{f["name"]}: load_state_dict / deepcopy raised {ex!r}', 'case': dict(name=f['name'])})
                continue
            # identical subsequent trajectory: eval output, then m training steps, comparing outputs and state_dict after each
            post = [(make_x(), False, rng.randrange(10 ** 6), None)] + [(make_x(), True, rng.randrange(10 ** 6), make_mask()) for _ in range(3)] + [(make_x(), False, rng.randrange(10 ** 6), None)]
            opts = {}
            if use_outer:
                # optimiser state itself is the caller's to checkpoint: plain SGD has none
                opts = {id(v): SGD(v.parameters(), lr=0.05) for _, v in variants}
            for vname, v in variants:
                dist[vname] = dist.get(vname, 0) + 1
            ref_mod = a
            if f.get('manual'):
                # the update that was pending at the checkpoint is applied now, on the original and on every restored copy
                f['manual'](a)
                sa0 = {k: t.clone() for k, t in a.state_dict().items()}
                dist['pending_manual_updates_applied'] = dist.get('pending_manual_updates_applied', 0) + 1
                for vname, v in list(variants):
                    f['manual'](v)
                    ok, why = impl.blobs_equal(sa0, {k: t.clone() for k, t in v.state_dict().items()})
                    if not ok:
                        failures.append({'key': f'{f["name"]}:{vname}:pending-manual-update-differs', 'what': f'{f["name"]}: checkpoint taken after {n_pre} accumulating forwards with the manual EMA update pending, {vname}: '
                                         f'applying the update gives a different state than on the original: {why}', 'case': dict(name=f['name'], variant=vname, n_pre=n_pre)})
                        variants.remove((vname, v))
            for si, (x, train, seed, m) in enumerate(post):
                try:
                    ra = flat_out(step(f, ref_mod, x, train, seed, m, opt_a))
                except Exception as ex:
                    failures.append({'key': f'{f["name"]}:post-exception:{type(ex).__name__}', 'what': f'{f["name"]}: {ex!r}', 'case': dict(name=f['name'])})
                    break
                sa = {k: t.clone() for k, t in ref_mod.state_dict().items()}
                ev += 1
                dist['post_steps'] += 1
                for vname, v in list(variants):
                    try:
                        rv = flat_out(step(f, v, x, train, seed, m, opts.get(id(v))))
                    except Exception as ex:
                        failures.append({'key': f'{f["name"]}:{vname}:post-exception:{type(ex).__name__}', 'what': f'{f["name"]} ({vname}): {ex!r}', 'case': dict(name=f['name'], variant=vname)})
                        variants.remove((vname, v))
                        continue
                    # the decode helpers read the same persistent state: indices returned by the original decode identically on the restored copy
                    if not train:
                        ints = [t for t in ra if isinstance(t, torch.Tensor) and t.dtype in (torch.int32, torch.int64) and t.numel() and int(t.min()) >= 0]
                        if ints:
                            for meth in ('get_output_from_indices', 'get_codes_from_indices', 'indices_to_codes'):
                                if not hasattr(ref_mod, meth):
                                    continue
                                try:
                                    with torch.no_grad():
                                        da, dv = getattr(ref_mod, meth)(ints[0]), getattr(v, meth)(ints[0])
                                except Exception:
                                    continue
                                dist['decode_after_restore'] = dist.get('decode_after_restore', 0) + 1
                                if not outs_equal(flat_out(da), flat_out(dv)):
                                    failures.append({'key': f'{f["name"]}:{vname}:decode-differs:{meth}', 'what': f'{f["name"]}: after {n_pre} training steps, {vname}: {meth}(indices) differs from the original module on the same indices',
                                                     'case': dict(name=f['name'], variant=vname, n_pre=n_pre, post_step=si)})
                    if not outs_equal(ra, rv):
                        failures.append({'key': f'{f["name"]}:{vname}:outputs-differ', 'what': f'{f["name"]}: after {n_pre} training steps, {vname}: outputs/indices differ from the original at post step {si} (train={train})',
                                         'case': dict(name=f['name'], variant=vname, n_pre=n_pre, post_step=si)})
                        variants.remove((vname, v))
                        continue
                    ok, why = impl.blobs_equal(sa, {k: t.clone() for k, t in v.state_dict().items()})
                    if not ok:
                        failures.append({'key': f'{f["name"]}:{vname}:trajectory-differs', 'what': f'{f["name"]}: after {n_pre} training steps, {vname}: state diverges from the original at post step {si}: {why}',
                                         'case': dict(name=f['name'], variant=vname, n_pre=n_pre, post_step=si)})
                        variants.remove((vname, v))
            nt += n_pre >= 1
            if len(samples) < 4:
                samples.append(dict(module=f['name'], training_steps_before_save=n_pre, outer_optimizer=use_outer))
    # live registries vs generated inventories (shared with C20), evaluated in Coq
    res20 = c20.correspond.__globals__['own_registry']
    from vector_quantize_pytorch import VectorQuantize, FSQ, LFQ, SimVQ, RandomProjectionQuantizer, ResidualFSQ, LatentQuantize
    live = [('inv_simvq', SimVQ(dim=4, codebook_size=5), []), ('inv_rpq', RandomProjectionQuantizer(dim=4, codebook_size=5, codebook_dim=2), []), ('inv_fsq', FSQ([3, 4]), []),
            ('inv_lfq', LFQ(dim=3, codebook_size=8), []), ('inv_rfsq', ResidualFSQ(levels=[3, 3], num_quantizers=2), []), ('inv_lq', LatentQuantize(levels=[3, 4], dim=2), []),
            ('inv_vq', VectorQuantize(dim=4, codebook_size=5), []),
            ('inv_euclid', VectorQuantize(dim=4, codebook_size=5)._codebook, ['batch_mean', 'batch_variance', 'codebook_mean', 'codebook_mean_needs_init', 'codebook_variance', 'codebook_variance_needs_init']),
            ('inv_cosine', VectorQuantize(dim=4, codebook_size=5, use_cosine_sim=True)._codebook, [])]
    cases, meta = [], []
    for invname, m, optn in live:
        pb, nb, pr = res20(m)
        cases.append(f'(if inv_runtime_ok {invname} {c20.strl(optn)} {c20.strl(pb)} {c20.strl(nb)} {c20.strl(pr)} then 0 else 1)%nat')
        meta.append(dict(inv=invname, persistent=pb, nonpersistent=nb, params=pr))
    bad, broken = core.run_cases(ctx, 'c15', HEADER, cases, per_file=50)
    for name, out in broken:
        failures.append({'key': f'coq-eval:{name}', 'what': 'case file did not evaluate: ' + out, 'case': {'file': name}})
    for i, code in sorted(bad.items()):
        failures.append({'key': f'inventory:{meta[i]["inv"]}', 'what': f'live module registry {meta[i]} disagrees with the inventory regenerated from the source', 'case': meta[i]})
    return {'evaluations': ev, 'distinct_nontrivial': nt,
            'rule': 'for 29 module configurations: 0..6 training steps (masks, expiry, k-means, dropout, optionally an outer SGD) -> state_dict -> fresh module + load_state_dict / deepcopy / reload-of-reload -> same inputs and seeds: '
                    'outputs and indices bit-equal and the state_dict trajectory bit-equal over 5 further steps (eval, 3 x train, eval); live registries vs generated inventories in Coq; non-trivial = at least one training step before the save',
            'samples': samples, 'failures': failures, 'distribution': dist}


def replay_case(ctx, case):
    return True, 're-run the check: %s' % (case,)

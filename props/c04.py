"""C04 — scalar-quantizer index codec is a bijection onto a fully reachable grid."""
import itertools, math, struct
from vlib import core
from vlib.core import zlist, zlit, sflit, qlit

OBLIGATIONS = dict(
    prop_file='Properties/C04.v',
    glue=['Glue/CodecGlue.v'] + ['Glue/Pin_fp_C04.v', 'Glue/CastBitsGlue.v'],
    extra=['Model/C04Check.vo'],
    gen_items=['k_fsq_half_width', 'k_fsq_scale_and_shift', 'k_fsq_scale_and_shift_inverse', 'k_fsq_level_indices',
               'p_fsq_codec', 'k_lfq_bits_to_codes', 'k_lfq_quantize', 'p_lfq_codec', 'k_lq_scale_and_shift',
               'k_lq_scale_and_shift_inverse', 'p_lq_codec', 'fp_C04'],
)
ASSUMPTIONS = [
    'float32 + - * / and round-half-even of torch (CPU) are IEEE-754 binary32 operations, modelled by Coq.Floats.SpecFloat (prec 24, emax 128)',
    'int32 index arithmetic does not overflow (prod(levels) < 2^31); the theorem bounds each level by 128 (exhaustive vm_compute), not the list',
    'reachability of every level is observed on the implementation (dense sweeps across every rounding boundary), the real-valued argument is in C05',
]
TRUSTED = ['Coq.Floats.SpecFloat as the meaning of float32 arithmetic (stdlib, axiom-free)']
HEADER = '''From Coq Require Import ZArith QArith List Bool SpecFloat.
From VQ Require Import Num Model.Vec Model.Codec Model.B32 Model.C04Check.
Import ListNotations.
Open Scope Z_scope.
'''


def sfrow(v):
    return '[' + '; '.join(sflit(x) for x in v) + ']'


def qrow(v):
    return '[' + '; '.join(qlit(float(x)) for x in v) + ']'


def level_family(ctx, scale):
    fam = [[L] for L in range(2, 129)]
    maxprod = 160 if not ctx.thorough else 1024
    base = [2, 3, 4, 5, 6, 7, 8] if not ctx.thorough else [2, 3, 4, 5, 6, 7, 8, 9, 11, 16]
    for n in (2, 3):
        for t in itertools.product(base, repeat=n):
            if math.prod(t) <= maxprod:
                fam.append(list(t))
    fam += [[8, 5, 5, 5], [2, 2, 2, 2, 2, 2], [3, 3, 3, 3], [5, 4, 3, 2], [26, 3], [3, 26], [2, 3, 4, 5, 2]]
    if ctx.thorough or scale > 1:
        fam += [[7, 5, 5, 5, 5], [8, 8, 8, 6, 5], [4, 4, 4, 4, 4, 4], [27, 38], [128, 128], [100, 3, 43], [2] * 12]
    return fam


def ulp_neighbours(x, k=4):
    b = struct.unpack('<i', struct.pack('<f', x))[0]
    out = []
    for d in range(-k, k + 1):
        bb = b + d if b >= 0 else b - d
        try:
            out.append(struct.unpack('<f', struct.pack('<i', bb))[0])
        except struct.error:
            pass
    return [v for v in out if v == v and abs(v) != float('inf')]


def fsq_sweep(L, sym, rng, n_rand):
    """inputs around every rounding boundary of an L-level FSQ dimension"""
    zs = [0.0, -0.0, 1e-30, -1e-30, 40.0, -40.0, 1e4, -1e4]
    if not sym:
        eps = 1e-3
        half_l = (L - 1) * (1 + eps) / 2
        offset = 0.5 if L % 2 == 0 else 0.0
        shift = math.atanh(offset / half_l)
        for k in range(-(L // 2) - 1, L // 2 + 1):
            y = (k + 0.5 + offset) / half_l
            if -1 < y < 1:
                zs += ulp_neighbours(math.atanh(y) - shift)
    else:
        for k in range(0, L):
            y = (k + 0.5) * 2 / (L - 1) - 1
            if -1 < y < 1:
                zs += ulp_neighbours(math.atanh(y))
    zs += [rng.gauss(0, 2.5) for _ in range(n_rand)]
    return [core.f32(z) for z in zs]


def correspond(ctx, scale):
    from vlib import impl
    import torch
    from vector_quantize_pytorch import FSQ, LFQ, LatentQuantize
    rng = ctx.rng
    files, meta, failures, samples = [], {}, [], []
    evaluations = 0
    distinct = set()
    dist = {'fsq_tables': 0, 'fsq_sym_tables': 0, 'lq_tables': 0, 'fsq_forward': 0, 'lfq_tables': 0, 'lfq_forward': 0}

    # ---------------- 1. whole-codebook tables, exhaustive over the family
    shard, shard_sz, shard_id = [], 0, 0

    def flush():
        nonlocal shard, shard_sz, shard_id
        if not shard:
            return
        body = HEADER + 'Definition cases : list (nat * bool) := [\n' + ';\n'.join(shard) + '].\n'
        body += 'Eval vm_compute in map fst (filter (fun c => negb (snd c)) cases).\n'
        files.append((f'c04_tab_{shard_id}', body))
        shard, shard_sz = [], 0
        shard_id += 1

    cid = 0
    fam = level_family(ctx, scale)
    for levels in fam:
        for kind, mk in ((0, lambda: FSQ(levels)), (1, lambda: FSQ(levels, preserve_symmetry=True)),
                         (2, lambda: LatentQuantize(levels=levels, dim=len(levels)))):
            n = math.prod(levels)
            if kind == 2 and (len(levels) == 1 and levels[0] > 64 and not ctx.thorough):
                continue
            try:
                q = mk()
                idx = torch.arange(n)
                if kind == 2:
                    codes = q.indices_to_codes(idx[None], project_out=False)[0].T.contiguous() if len(levels) > 0 else None
                    back = q.codes_to_indices(codes)
                    table = q.implicit_codebook
                    # implicit_codebook is laid out 'd n' after the trailing rearrange on a 1-D arange: compare the decode above
                else:
                    codes = q.implicit_codebook
                    back = q.codes_to_indices(codes)
                    again = q._indices_to_codes(idx)
                    if not torch.equal(again, codes):
                        raise AssertionError('implicit_codebook differs from _indices_to_codes(arange)')
                if len(set(map(tuple, codes.tolist()))) != n:
                    raise AssertionError('codes not pairwise distinct')
            except Exception as ex:
                failures.append({'key': f'table:{["fsq", "fsq_sym", "lq"][kind]}:{levels}', 'what': f'{type(ex).__name__}: {ex}',
                                 'case': {'part': 'table', 'kind': kind, 'levels': levels}})
                continue
            rows = '[' + '; '.join(sfrow(r) for r in codes.tolist()) + ']'
            shard.append(f'({cid}%nat, table_ok {kind} {zlist(levels)} {rows} {zlist(back.tolist())})')
            meta[('tab', cid)] = {'part': 'table', 'kind': kind, 'levels': levels}
            cid += 1
            shard_sz += n * len(levels)
            evaluations += n
            distinct.add((kind, tuple(levels)))
            dist[['fsq_tables', 'fsq_sym_tables', 'lq_tables'][kind]] += 1
            if shard_sz > 2500:
                flush()
    flush()
    if samples == [] and fam:
        samples.append({'table': 'FSQ', 'levels': [8, 5, 5, 5], 'indices': 'all 1000', 'checked': 'codebook rows == B32 model rows; codes_to_indices(row) == index'})

    # ---------------- 2. forward: index decodes to exactly the emitted vector; all levels reached
    fwd_cases = []
    fwd_fam = [[2], [3], [4], [5], [6], [7], [8], [16], [26], [8, 5, 5, 5], [3, 4], [5, 2, 3], [7, 6], [2, 2, 2]]
    if ctx.thorough or scale > 1:
        fwd_fam += [[L] for L in (9, 10, 11, 12, 13, 15, 27, 38, 64, 128)] + [[8, 8, 8, 6, 5], [4, 9, 3]]
    fid = 0
    for levels in fwd_fam:
        for sym in (False, True):
            for ncb in ((1, 2, 3, 4) if len(levels) <= 2 else (1, 2)):
                for train in (False, True):
                    if train and ncb > 1:
                        continue
                    d = len(levels)
                    cols = []
                    for c in range(ncb):
                        for L in levels:
                            col = fsq_sweep(L, sym, rng, 24 * scale)
                            rng.shuffle(col)
                            cols.append(col)
                    n = max(len(c) for c in cols)
                    cols = [c + [rng.gauss(0, 2) for _ in range(n - len(c))] for c in cols]
                    z = torch.tensor(cols, dtype=torch.float32).T.reshape(1, n, ncb * d)
                    try:
                        q = FSQ(levels, num_codebooks=ncb, preserve_symmetry=sym)
                        if (fid + len(levels)) % 3 == 1:
                            # the module went through a low-precision cast and back (.half() / .bfloat16() then .float()): its non-learned float buffers
                            # were rounded on the way - codes and the codec must still be those of the declared grid
                            q = (q.bfloat16() if fid % 2 == 0 else q.half()).float()
                            dist['cast_round_trips'] = dist.get('cast_round_trips', 0) + 1
                        q.train(train)
                        out, idx = q(z)
                        # the same values as a dense permuted view of the caller's tensor: same codes, same indices
                        if z.ndim == 3:
                            for zv in (z.transpose(0, 1).contiguous().transpose(0, 1), z.permute(2, 0, 1).contiguous().permute(1, 2, 0)):
                                out_v, idx_v = q(zv)
                                if not (torch.equal(out_v, out) and torch.equal(idx_v, idx)):
                                    raise AssertionError(f'a permuted view of the same input values quantizes differently ({int((idx_v != idx).sum())} of {idx.numel()} indices)')
                            dist['fsq_permuted_views'] = dist.get('fsq_permuted_views', 0) + 1
                        dec_out = q.indices_to_codes(idx)
                        if not torch.equal(dec_out, out):
                            raise AssertionError('indices_to_codes(indices) != forward output (bit-exact)')
                        # the integer index arithmetic does not depend on the ambient autocast mode (CPU mixed precision): same indices, same codes
                        with torch.autocast('cpu', dtype=torch.bfloat16):
                            out_ac, idx_ac = q(z)
                            all_ix = torch.arange(min(q.codebook_size, 4096))
                            rt_ac = q.codes_to_indices(q.indices_to_codes(all_ix)) if ncb == 1 else all_ix
                        dist['fsq_autocast'] = dist.get('fsq_autocast', 0) + 1
                        if train:
                            # noise dropout is 0: no random draw may matter, not even an extreme one (every uniform exactly 0 / just below 1)
                            from vlib import callzoo
                            for amode in ('zeros', 'max'):
                                with callzoo.adversarial_rng(torch, amode):
                                    out_ad, idx_ad = q(z)
                                if not (torch.equal(idx_ad, idx) and torch.equal(out_ad, out)):
                                    raise AssertionError(f'training-mode output depends on the random draws although noise_dropout = 0 (all uniforms at {amode}: {int((idx_ad != idx).sum())} indices differ)')
                            dist['fsq_adversarial_rng'] = dist.get('fsq_adversarial_rng', 0) + 1
                        if not torch.equal(idx_ac, idx):
                            raise AssertionError(f'under torch.autocast(cpu, bfloat16) {int((idx_ac != idx).sum())} of {idx.numel()} indices differ from the plain float32 call')
                        if not torch.equal(rt_ac.reshape(-1), all_ix.to(rt_ac.dtype)):
                            raise AssertionError('under torch.autocast(cpu, bfloat16) codes_to_indices(indices_to_codes(i)) != i')
                    except Exception as ex:
                        failures.append({'key': f'forward:fsq:{levels}:sym={sym}:ncb={ncb}:train={train}', 'what': f'{type(ex).__name__}: {ex}',
                                         'case': {'part': 'forward', 'levels': levels, 'sym': sym, 'ncb': ncb, 'train': train, 'z': z.tolist()}})
                        continue
                    outs = out.reshape(n * ncb, d).tolist()
                    idxs = idx.reshape(n * ncb).tolist()
                    kind = 1 if sym else 0
                    rows = '[' + '; '.join(sfrow(r) for r in outs) + ']'
                    fwd_cases.append(f'({fid}%nat, forward_ok {kind} {zlist(levels)} {rows} {zlist(idxs)} && levels_covered {zlist(levels)} {zlist(idxs)})')
                    meta[('fwd', fid)] = {'part': 'forward', 'levels': levels, 'sym': sym, 'ncb': ncb, 'train': train, 'z': z.tolist()}
                    if len(samples) < 3:
                        samples.append({'forward': 'FSQ', 'levels': levels, 'sym': sym, 'num_codebooks': ncb, 'tokens': n,
                                        'first_inputs': z[0, :3].tolist(), 'first_indices': idx.reshape(-1)[:3].tolist()})
                    fid += 1
                    evaluations += n * ncb
                    dist['fsq_forward'] += 1
                    distinct.add(('fwd', tuple(levels), sym, ncb, train))
    for k in range(0, len(fwd_cases), 8):
        body = HEADER + 'Definition cases : list (nat * bool) := [\n' + ';\n'.join(fwd_cases[k:k + 8]) + '].\n'
        body += 'Eval vm_compute in map fst (filter (fun c => negb (snd c)) cases).\n'
        files.append((f'c04_fwd_{k // 8}', body))

    # ---------------- 2b. INSTANCE independence: a first module of a class is built, every parameter and buffer it owns is overwritten in place (a fine-tuned
    # checkpoint loaded, nn.init.* applied), then a SECOND module with the same arguments is built: it starts from the declared grid, not from whatever the
    # first one was turned into (no storage shared through module-level caches)
    from vector_quantize_pytorch import LatentQuantize as _LQ
    indep = [('latent-int-levels', lambda: _LQ(levels=4, dim=2, codebook_dim=2), 2, 'cf'), ('latent-int-levels-5', lambda: _LQ(levels=5, dim=3, codebook_dim=3), 3, 'cf'),
             ('latent-list-levels', lambda: _LQ(levels=[4, 3], dim=2), 2, 'cf'), ('fsq', lambda: FSQ([4, 3]), 2, 'seq'), ('fsq-sym', lambda: FSQ([4, 5], preserve_symmetry=True), 2, 'seq'),
             ('lfq', lambda: LFQ(codebook_size=8, dim=3), 3, 'seq')]
    for iname, imk, idim, ilay in indep:
        try:
            torch.manual_seed(4321)
            ref_sd = {k_: v_.clone() for k_, v_ in imk().state_dict().items()}
            ref_buf = {k_: v_.clone() for k_, v_ in imk().named_buffers()}
            torch.manual_seed(4321)
            first = imk()
            with torch.no_grad():
                for t_ in list(first.parameters()) + list(first.buffers()):
                    if t_.dtype.is_floating_point:
                        t_.mul_(0.6).add_(0.15)
                    elif t_.dtype in (torch.int32, torch.int64):
                        t_.add_(1)
            torch.manual_seed(4321)
            second = imk()
            dist['instance_independence'] = dist.get('instance_independence', 0) + 1
            evaluations += 1
            got_sd = dict(second.state_dict())
            got_buf = dict(second.named_buffers())
            changed = [k_ for k_ in ref_sd if not torch.equal(ref_sd[k_], got_sd[k_])] + [k_ for k_ in ref_buf if not torch.equal(ref_buf[k_], got_buf[k_])]
            if changed:
                failures.append({'key': f'independence:{iname}', 'what': f'{iname}: a second module built after the first one\'s tensors were overwritten in place starts from different values in {changed[:3]} '
                                 '(storage shared between instances)', 'case': {'part': 'independence', 'name': iname}})
                continue
            second.eval()
            xi = torch.randn(2, idim, 5) if ilay == 'cf' else torch.randn(2, 5, idim)
            with torch.no_grad():
                r_ = second(xi)
                dec_ = second.indices_to_codes(r_[1])
            if not torch.allclose(dec_.reshape(-1), r_[0].reshape(-1), atol=1e-6) and dec_.numel() == r_[0].numel():
                failures.append({'key': f'independence:{iname}:decode', 'what': f'{iname}: on the second module indices_to_codes(indices) differs from the emitted vector', 'case': {'part': 'independence', 'name': iname}})
        except Exception as ex:
            failures.append({'key': f'independence:{iname}:exception:{type(ex).__name__}', 'what': repr(ex), 'case': {'part': 'independence', 'name': iname}})
    # ---------------- 3. LFQ tables and forward
    lfq_cases = []
    lid = 0
    dmax = 10 if not ctx.thorough else 13
    for d in range(1, dmax + 1):
        for sc in (1.0, 0.5, 2.0, 0.25):
            for sph in (False, True):
                if d > 8 and (sc != 1.0):
                    continue
                try:
                    q = LFQ(codebook_size=2 ** d, codebook_scale=sc, spherical=sph)
                    cb = q.codebook
                    codes = q.indices_to_codes(torch.arange(2 ** d)[None])[0]
                    if sph:
                        cb_eff = torch.nn.functional.normalize(cb, dim=-1) * sc
                    else:
                        cb_eff = cb
                    if not torch.equal(codes, cb_eff):
                        raise AssertionError('indices_to_codes(arange) != codebook buffer')
                    if len(set(map(tuple, cb.tolist()))) != 2 ** d:
                        raise AssertionError('codes not pairwise distinct')
                except Exception as ex:
                    failures.append({'key': f'table:lfq:d={d}:scale={sc}:spherical={sph}', 'what': f'{type(ex).__name__}: {ex}',
                                     'case': {'part': 'lfq_table', 'd': d, 'scale': sc, 'spherical': sph}})
                    continue
                rows = '[' + '; '.join(qrow(r) for r in codes.tolist()) + ']'
                if sph:
                    lfq_cases.append((2 ** d * d, f'({lid}%nat, lfq_table_spherical_ok (1#100000) {qlit(sc)} {d}%nat {rows})'))
                else:
                    lfq_cases.append((2 ** d * d, f'({lid}%nat, lfq_table_ok {qlit(sc)} {d}%nat {rows})'))
                meta[('lfq', lid)] = {'part': 'lfq_table', 'd': d, 'scale': sc, 'spherical': sph}
                lid += 1
                evaluations += 2 ** d
                dist['lfq_tables'] += 1
                distinct.add(('lfq', d, sc, sph))
    # forward
    for d in (1, 2, 3, 5, 8, 10):
        for sc in (1.0, 0.5):
            for sph in (False, True):
                for ncb in (1, 2, 4):
                    n = 48 * scale
                    x = torch.randn(2, n, d * ncb)
                    x[0, 0] = 0.0
                    x[0, 1] = -0.0
                    x[0, 2] = 1e-38
                    x[0, 3] = -1e-38
                    if (d + ncb) % 2 == 1:
                        # the same values as a dense permuted view of the caller's tensor (time-major / channel-first activations viewed batch-first, channel-last)
                        x = x.transpose(0, 1).contiguous().transpose(0, 1) if sph else x.permute(2, 0, 1).contiguous().permute(1, 2, 0)
                        dist['permuted_view_inputs'] = dist.get('permuted_view_inputs', 0) + 1
                    try:
                        q = LFQ(codebook_size=2 ** d, codebook_scale=sc, spherical=sph, num_codebooks=ncb, dim=d * ncb).eval()
                        out, idx, _ = q(x)
                        if idx.dtype not in (torch.int32, torch.int64):
                            raise AssertionError(f'index dtype {idx.dtype}')
                        if int(idx.min()) < 0 or int(idx.max()) >= 2 ** d:
                            raise AssertionError('index out of range')
                        dec_out = q.indices_to_codes(idx)
                        if not torch.equal(dec_out, out):
                            raise AssertionError('indices_to_codes(indices) != forward output (bit-exact)')
                    except Exception as ex:
                        failures.append({'key': f'forward:lfq:d={d}:scale={sc}:spherical={sph}:ncb={ncb}', 'what': f'{type(ex).__name__}: {ex}',
                                         'case': {'part': 'lfq_forward', 'd': d, 'scale': sc, 'spherical': sph, 'ncb': ncb, 'x': x.tolist()}})
                        continue
                    xs = x.reshape(-1, d).tolist()
                    outs = out.reshape(-1, d).tolist()
                    idxs = idx.reshape(-1).tolist()
                    trip = '[' + '; '.join(f'({qrow(a)}, {qrow(b)}, {zlit(i)})' for a, b, i in zip(xs, outs, idxs)) + ']'
                    if sph:
                        lfq_cases.append((len(xs) * d, f'({lid}%nat, lfq_forward_spherical_ok {trip})'))
                    else:
                        lfq_cases.append((len(xs) * d, f'({lid}%nat, lfq_forward_ok {qlit(sc)} {trip})'))
                    meta[('lfq', lid)] = {'part': 'lfq_forward', 'd': d, 'scale': sc, 'spherical': sph, 'ncb': ncb, 'x': x.tolist()}
                    lid += 1
                    evaluations += len(xs)
                    dist['lfq_forward'] += 1
                    distinct.add(('lfqf', d, sc, sph, ncb))
    # float64 callers (round 10, seed C04-j): detail far below what float32 can hold (1e-60, 1e-300, float64 subnormals, both signs) next to ordinary
    # values - whatever precision the layer quantizes in, the index it returns decodes to the code it emitted
    for d in (1, 2, 3, 5, 8):
        for sph in (False, True):
            for ncb in (1, 2):
                for f32 in (True, False):
                    try:
                        q = LFQ(codebook_size=2 ** d, spherical=sph, num_codebooks=ncb, dim=d * ncb, force_quantization_f32=f32).eval()
                        x = torch.randn(2, 12, d * ncb, dtype=torch.float64)
                        tiny = [1e-60, -1e-60, 1e-300, -1e-300, 5e-324, -5e-324, 1e-46, -1e-46, 2e-45, -2e-45]
                        for ti, tv in enumerate(tiny):
                            x[0, ti % 12, ti % (d * ncb)] = tv
                        x[1, 0] = torch.tensor(tiny[: d * ncb] * (1 + d * ncb // len(tiny)))[: d * ncb]
                        q = q.double() if not f32 else q
                        out, idx, _ = q(x)
                        evaluations += x.shape[0] * x.shape[1]
                        dist['lfq_float64_underflow_calls'] = dist.get('lfq_float64_underflow_calls', 0) + 1
                        if int(idx.min()) < 0 or int(idx.max()) >= 2 ** d:
                            raise AssertionError('index out of range')
                        dec_out = q.indices_to_codes(idx)
                        if not torch.equal(dec_out.double(), out.double()):
                            bad = (dec_out.double() != out.double()).nonzero()[0].tolist()
                            raise AssertionError(f'indices_to_codes(indices) != forward output at {bad}: input {float(x[tuple(bad)]):.3e} emitted {float(out[tuple(bad)])} decoded {float(dec_out[tuple(bad)])}')
                    except AssertionError as ex:
                        failures.append({'key': f'forward:lfq-float64-underflow:d={d}:spherical={sph}:ncb={ncb}:f32={f32}', 'what': f'LFQ(codebook_size={2 ** d}, spherical={sph}, num_codebooks={ncb}, force_quantization_f32={f32}) on a float64 input: {ex}',
                                         'case': {'part': 'lfq_float64', 'd': d, 'spherical': sph, 'ncb': ncb}})
                    except Exception:
                        dist['lfq_float64_rejected'] = dist.get('lfq_float64_rejected', 0) + 1
    cur, sz, k = [], 0, 0
    for s, c in lfq_cases + [(10 ** 9, None)]:
        if c is None or sz + s > 12000:
            if cur:
                body = HEADER + 'Definition cases : list (nat * bool) := [\n' + ';\n'.join(cur) + '].\n'
                body += 'Eval vm_compute in map fst (filter (fun c => negb (snd c)) cases).\n'
                files.append((f'c04_lfq_{k}', body))
                k += 1
            cur, sz = [], 0
        if c is not None:
            cur.append(c)
            sz += s

    # ---------------- evaluate in Coq
    res = ctx.coq_eval_many(files)
    for name, (rc, out) in sorted(res.items()):
        kind = 'tab' if '_tab_' in name else ('fwd' if '_fwd_' in name else 'lfq')
        if rc != 0:
            failures.append({'key': f'coq-eval:{name}', 'what': 'case file did not evaluate: ' + out[-400:], 'case': {'file': name}})
            continue
        lists = core.parse_eval_lists(out)
        bad = core.parse_natlist(lists[0]) if lists else []
        for b in bad:
            m = meta[(kind, b)]
            key = ':'.join(str(m.get(x)) for x in ('part', 'kind', 'levels', 'sym', 'ncb', 'd', 'scale', 'spherical') if x in m)
            failures.append({'key': key, 'what': 'implementation and Coq model disagree (' + m['part'] + ')', 'case': m})
    return {'evaluations': evaluations, 'distinct_nontrivial': len(distinct),
            'rule': 'exhaustive over every index of every codebook in the family (single levels 2..128, level tuples, LFQ 2^1..2^%d, '
                    'num_codebooks 1..4, symmetry/spherical on/off, 4 scales) + forward sweeps across every rounding boundary +-4 ulp; '
                    'distinct = distinct (class, levels/size, options); all are non-trivial (enumeration)' % dmax,
            'samples': samples, 'failures': failures, 'exhaustive': True, 'distribution': dist}


def replay_case(ctx, case):
    """re-run exactly one family member on the current tree"""
    import torch
    from vector_quantize_pytorch import FSQ, LFQ, LatentQuantize
    part = case.get('part')
    try:
        if part == 'table':
            levels, kind = case['levels'], case['kind']
            q = [lambda: FSQ(levels), lambda: FSQ(levels, preserve_symmetry=True), lambda: LatentQuantize(levels=levels, dim=len(levels))][kind]()
            n = math.prod(levels)
            idx = torch.arange(n)
            if kind == 2:
                codes = q.indices_to_codes(idx[None], project_out=False)[0].T.contiguous()
            else:
                codes = q._indices_to_codes(idx)
            back = q.codes_to_indices(codes).long()
            bad = (back != idx).nonzero().flatten().tolist()
            if bad:
                return True, f'levels={levels}: index {bad[0]} decodes to {codes[bad[0]].tolist()} and re-encodes as {int(back[bad[0]])}'
            rows = '[' + '; '.join(sfrow(r) for r in codes.tolist()) + ']'
            rc, out = ctx.coq_eval('c04_replay', HEADER + f'Eval vm_compute in table_ok {kind} {zlist(levels)} {rows} {zlist(back.tolist())}.\n')
            ok = rc == 0 and '= true' in out
            return (not ok), f'levels={levels}: table {"matches" if ok else "differs from"} the B32 model'
        if part == 'forward':
            q = FSQ(case['levels'], num_codebooks=case['ncb'], preserve_symmetry=case['sym'])
            q.train(case['train'])
            z = torch.tensor(case['z'])
            out, idx = q(z)
            L = math.prod(case['levels'])
            if int(idx.min()) < 0 or int(idx.max()) >= L:
                return True, f'index out of range: min {int(idx.min())} max {int(idx.max())} codebook {L}'
            if not torch.equal(q.indices_to_codes(idx), out):
                return True, 'indices_to_codes(indices) != forward output'
            d = len(case['levels'])
            outs = out.reshape(-1, d).tolist()
            idxs = idx.reshape(-1).tolist()
            rows = '[' + '; '.join(sfrow(r) for r in outs) + ']'
            kind = 1 if case['sym'] else 0
            rc, o = ctx.coq_eval('c04_replay', HEADER + f'Eval vm_compute in (forward_ok {kind} {zlist(case["levels"])} {rows} {zlist(idxs)}, levels_covered {zlist(case["levels"])} {zlist(idxs)}).\n')
            ok = rc == 0 and '(true, true)' in o
            return (not ok), 'forward ' + ('agrees with' if ok else 'disagrees with') + ' the model: ' + o.strip()[-120:]
        if part in ('lfq_table', 'lfq_forward'):
            d, sc, sph = case['d'], case['scale'], case['spherical']
            q = LFQ(codebook_size=2 ** d, codebook_scale=sc, spherical=sph, num_codebooks=case.get('ncb', 1), dim=d * case.get('ncb', 1)).eval()
            if part == 'lfq_table':
                codes = q.indices_to_codes(torch.arange(2 ** d)[None])[0]
                rows = '[' + '; '.join(qrow(r) for r in codes.tolist()) + ']'
                fn = f'lfq_table_spherical_ok (1#100000) {qlit(sc)} {d}%nat {rows}' if sph else f'lfq_table_ok {qlit(sc)} {d}%nat {rows}'
            else:
                x = torch.tensor(case['x'])
                out, idx, _ = q(x)
                if not torch.equal(q.indices_to_codes(idx), out):
                    return True, 'indices_to_codes(indices) != forward output'
                trip = '[' + '; '.join(f'({qrow(a)}, {qrow(b)}, {zlit(i)})' for a, b, i in zip(x.reshape(-1, d).tolist(), out.reshape(-1, d).tolist(), idx.reshape(-1).tolist())) + ']'
                fn = f'lfq_forward_spherical_ok {trip}' if sph else f'lfq_forward_ok {qlit(sc)} {trip}'
            rc, o = ctx.coq_eval('c04_replay', HEADER + f'Eval vm_compute in {fn}.\n')
            ok = rc == 0 and '= true' in o
            return (not ok), 'LFQ ' + part + (' agrees' if ok else ' disagrees') + ' with the model'
    except Exception as ex:
        return True, f'{type(ex).__name__}: {ex}'
    return True, 'unknown replay part'

"""C13 — output shapes, dtypes and index ranges match the documentation."""
import itertools
from vlib import core
from vlib.core import natlist

OBLIGATIONS = dict(
    prop_file='Properties/C13.v',
    glue=['Glue/ShapesGlue.v', 'Glue/Pin_p_shapes.v'] + ['Glue/Pin_fp_C13.v', 'Glue/MaskGuardsGlue.v'],
    extra=['Model/ShapesDoc.vo'],
    gen_items=['p_shapes', 'pat_vq_forward', 'pat_fsq_forward', 'pat_lfq_forward', 'g_vq_zero_padded_input', 'g_vq_mask_output', 'g_vq_mask_indices', 'fp_C13'],
)
ASSUMPTIONS = [
    'torch shape semantics of rearrange with grouped axes, squeeze(), squeeze(dim), right-aligned broadcasting, stack / cat are modelled in Model/Shapes.v',
    'the documented index shape (input without its feature axis, + trailing heads / codebooks / layers axis, + leading groups axis) is computed by the Coq model for every case and compared with the observed shape',
]
HEADER = '''From Coq Require Import ZArith Arith List Bool.
From VQ Require Import Model.Shapes Model.ShapesDoc.
Import ListNotations.
'''


def nl(v):
    return '[' + '; '.join(str(int(x)) for x in v) + ']'


def specs():
    """(name, constructor, input-shape maker, feature axis, trailing axes [..], groups or None, codebook size, loss shape or None, train modes)"""
    import torch
    from torch import nn
    from vector_quantize_pytorch import (VectorQuantize, ResidualVQ, GroupedResidualVQ, FSQ, LFQ, SimVQ, ResidualSimVQ, ResidualFSQ, ResidualLFQ, LatentQuantize,
                                         RandomProjectionQuantizer, GroupedResidualFSQ, GroupedResidualLFQ)
    S = []
    # VectorQuantize: constructor options x layouts x degenerate extents
    for heads, sep in ((1, False), (2, False), (2, True), (4, False)):
        for cd in (1, 2):
            for K in (1, 5):
                for cosine in (False, True):
                    for rot in (True, False):
                        for layout in ('seq', 'cfirst', 'image', 'single', 'single_cf'):
                            for proj in (False, True):
                                dim = cd * heads + (1 if proj else 0)
                                kw = dict(dim=dim, codebook_dim=cd, heads=heads, separate_codebook_per_head=sep, codebook_size=K, use_cosine_sim=cosine, rotation_trick=rot,
                                          channel_last=(layout not in ('cfirst', 'single_cf')), accept_image_fmap=(layout == 'image'))
                                S.append(dict(name='vq', kw=kw, mk=(lambda kw=kw: VectorQuantize(**kw)), layout=layout, dim=dim, trailing=[heads] if heads > 1 else [], groups=None, K=K, loss=[1]))
                                if rot and not proj and K > 1 and cd == 2:
                                    kw2 = dict(kw, commitment_use_cross_entropy_loss=True)
                                    S.append(dict(name='vq', kw=kw2, mk=(lambda kw=kw2: VectorQuantize(**kw)), layout=layout, dim=dim, trailing=[heads] if heads > 1 else [], groups=None, K=K, loss=[1]))
    for nq in (1, 3):
        for layout in ('seq', 'image'):
            for shared in (False, True):
                kw = dict(dim=3, num_quantizers=nq, codebook_size=4, accept_image_fmap=(layout == 'image'), shared_codebook=shared)
                S.append(dict(name='rvq', kw=kw, mk=(lambda kw=kw: ResidualVQ(**kw)), layout=layout, dim=3, trailing=[nq], groups=None, K=4, loss=[1, nq]))
            for g in (1, 2):
                kw = dict(dim=2 * g, groups=g, num_quantizers=nq, codebook_size=4, accept_image_fmap=(layout == 'image'))
                S.append(dict(name='grvq', kw=kw, mk=(lambda kw=kw: GroupedResidualVQ(**kw)), layout=layout, dim=2 * g, trailing=[nq], groups=g, K=4, loss=[g, 1, nq]))
    for levels in ([3], [5, 4], [2, 2, 2]):
        for ncb in (1, 2):
            for layout in ('seq', 'cfirst', 'image', 'video'):
                for proj in (False, True):
                    dim = len(levels) * ncb + (1 if proj else 0)
                    kw = dict(levels=levels, num_codebooks=ncb, dim=dim, channel_first=(layout == 'cfirst'))
                    import math
                    S.append(dict(name='fsq', kw=kw, mk=(lambda kw=kw: FSQ(**kw)), layout=layout, dim=dim, trailing=[ncb] if ncb > 1 else [], groups=None, K=math.prod(levels), loss=None))
    for cd in (1, 3):
        for ncb in (1, 2):
            for layout in ('seq', 'image'):
                for sph in (False, True):
                    kw = dict(codebook_size=2 ** cd, num_codebooks=ncb, dim=cd * ncb, spherical=sph)
                    S.append(dict(name='lfq', kw=kw, mk=(lambda kw=kw: LFQ(**kw)), layout=layout, dim=cd * ncb, trailing=[ncb] if ncb > 1 else [], groups=None, K=2 ** cd, loss=[]))
    for nq in (1, 3):
        for layout in ('seq', 'cfirst', 'image'):
            kw = dict(levels=[3, 4], num_quantizers=nq, dim=2, is_channel_first=(layout != 'seq'))
            S.append(dict(name='rfsq', kw=kw, mk=(lambda kw=kw: ResidualFSQ(**kw)), layout=layout, dim=2, trailing=[nq], groups=None, K=12, loss=None, layers_axis_second=(layout != 'seq')))
        kw = dict(dim=3, codebook_size=8, num_quantizers=nq)
        S.append(dict(name='rlfq', kw=kw, mk=(lambda kw=kw: ResidualLFQ(**kw)), layout='seq', dim=3, trailing=[nq], groups=None, K=8, loss=[nq]))
        for layout in ('seq', 'cfirst'):
            kw = dict(dim=3, num_quantizers=nq, codebook_size=5, channel_first=(layout != 'seq'))
            S.append(dict(name='rsimvq', kw=kw, mk=(lambda kw=kw: ResidualSimVQ(**kw)), layout=layout, dim=3, trailing=[nq], groups=None, K=5, loss=[nq]))
        for g in (1, 2):
            kw = dict(dim=2 * g, groups=g, levels=[3, 3], num_quantizers=nq)
            S.append(dict(name='grfsq', kw=kw, mk=(lambda kw=kw: GroupedResidualFSQ(**kw)), layout='seq', dim=2 * g, trailing=[nq], groups=g, K=9, loss=None))
            kw = dict(dim=3 * g, groups=g, codebook_size=8, num_quantizers=nq)
            S.append(dict(name='grlfq', kw=kw, mk=(lambda kw=kw: GroupedResidualLFQ(**kw)), layout='seq', dim=3 * g, trailing=[nq], groups=g, K=8, loss=[g, nq]))
    for layout in ('seq', 'cfirst', 'image'):
        for K in (1, 6):
            kw = dict(dim=3, codebook_size=K, channel_first=(layout != 'seq'))
            S.append(dict(name='simvq', kw=kw, mk=(lambda kw=kw: SimVQ(**kw)), layout=layout, dim=3, trailing=[], groups=None, K=K, loss=[]))
    for levels in ([3], [4, 3]):
        for layout in ('cfirst', 'image'):
            kw = dict(levels=levels, dim=len(levels))
            import math
            S.append(dict(name='latent', kw=kw, mk=(lambda kw=kw: LatentQuantize(**kw)), layout=layout, dim=len(levels), trailing=[], groups=None, K=math.prod(levels), loss=[]))
    for H in (1, 3):
        kw = dict(dim=4, codebook_size=5, codebook_dim=2, num_codebooks=H)
        S.append(dict(name='rpq', kw=kw, mk=(lambda kw=kw: RandomProjectionQuantizer(**kw)), layout='seq', dim=4, trailing=[H] if H > 1 else [], groups=None, K=5, loss=None, indices_only=True))
    return S


def in_shape(layout, dim, b, n):
    return {'seq': (b, n, dim), 'cfirst': (b, dim, n), 'image': (b, dim, n, 2 if n > 1 else 1), 'video': (b, dim, 1, n, 2), 'single': (b, dim), 'single_cf': (b, dim)}[layout]


FEATURE_AXIS = {'seq': 2, 'cfirst': 1, 'image': 1, 'video': 1, 'single': 1, 'single_cf': 1}


def correspond(ctx, scale):
    import torch
    rng = ctx.rng
    failures, samples, cases, meta = [], [], [], []
    ev = nt = 0
    dist = {}
    S = specs()
    if not ctx.thorough:
        # keep every class, layout and degenerate corner; thin the VectorQuantize option product deterministically
        S = [s for i, s in enumerate(S) if s['name'] != 'vq' or i % 3 == 0 or s['kw']['codebook_dim'] == 1 and s['kw']['rotation_trick'] and i % 2 == 0]
    for sp in S:
        try:
            mod = sp['mk']()
        except Exception as ex:
            failures.append({'key': f'{sp["name"]}:construct:{type(ex).__name__}', 'what': f'{sp["name"]}({sp["kw"]}): {ex!r}', 'case': dict(kw=sp['kw'])})
            continue
        for (b, n) in ((1, 1), (2, 3), (1, 4), (3, 1)):
            if sp['layout'] in ('single', 'single_cf') and n != 1:
                continue
            shp = in_shape(sp['layout'], sp['dim'], b, n)
            for train in (False, True):
                for rg in ((False, True) if sp['name'] in ('vq', 'simvq', 'rvq') else (False,)):
                    x = torch.randn(*shp)
                    if rg:
                        x.requires_grad_(True)
                    mod.train(train)
                    ev += 1
                    dist[sp['name']] = dist.get(sp['name'], 0) + 1
                    key = f'{sp["name"]}:{sp["layout"]}'
                    info = f'{sp["name"]}({sp["kw"]}) input {shp} train={train} requires_grad={rg}'
                    try:
                        ret = mod(x)
                    except Exception as ex:
                        failures.append({'key': f'{key}:exception:{type(ex).__name__}', 'what': f'{info}: raised {type(ex).__name__}: {str(ex)[:120]}', 'case': dict(kw=sp['kw'], shape=shp, train=train)})
                        continue
                    if sp.get('indices_only'):
                        out, idx, loss = None, ret, None
                    else:
                        out, idx = ret[0], ret[1]
                        loss = ret[2] if len(ret) > 2 else None
                    if isinstance(idx, (tuple, list)):
                        idx = torch.stack(list(idx))
                    degenerate = b == 1 or n == 1 or sp['dim'] == 1 or sp['K'] == 1 or sp['kw'].get('codebook_dim') == 1
                    nt += degenerate
                    if out is not None and tuple(out.shape) != tuple(shp):
                        failures.append({'key': f'{key}:output-shape', 'what': f'{info}: output shape {tuple(out.shape)} != input shape', 'case': dict(kw=sp['kw'], shape=shp, train=train, requires_grad=rg)})
                    # documented index shape, computed by the Coq model
                    obs = list(idx.shape)
                    if sp.get('layers_axis_second'):
                        obs = [obs[0]] + obs[2:] + [obs[1]]     # ResidualFSQ channel-first returns 'b q ...'
                    grp = f'(Some {sp["groups"]})' if sp['groups'] is not None else 'None'
                    cases.append(f'(if list_eq_dec Nat.eq_dec (idx_shape_doc {FEATURE_AXIS[sp["layout"]]} {nl(shp)} {nl(sp["trailing"])} {grp}) {nl(obs)} then 0 else 1)')
                    meta.append(dict(name=sp['name'], kw=sp['kw'], shape=shp, observed=list(idx.shape), train=train))
                    if idx.dtype not in (torch.int32, torch.int64):
                        failures.append({'key': f'{key}:index-dtype', 'what': f'{info}: indices are {idx.dtype}, not integer-typed', 'case': dict(kw=sp['kw'])})
                    lo, hi = int(idx.min()), int(idx.max())
                    if lo < 0 or hi >= sp['K']:
                        failures.append({'key': f'{key}:index-range', 'what': f'{info}: indices span [{lo}, {hi}], outside [0, {sp["K"]})', 'case': dict(kw=sp['kw'], shape=shp)})
                    if loss is not None and sp['loss'] is not None and list(loss.shape) != list(sp['loss']):
                        failures.append({'key': f'{key}:loss-shape', 'what': f'{info}: loss shape {tuple(loss.shape)} != documented {sp["loss"]}', 'case': dict(kw=sp['kw'])})
                    # shapes do not depend on the VALUES: on-code inputs (the quantized output fed back, a one-layer prefix decode, zeros) - where a
                    # residual becomes exactly zero and "nothing is left to quantize" - give the same output / index / loss shapes as a generic input
                    if not rg and out is not None:
                        specials = [('fed-back', out.detach().clone()), ('zeros', torch.zeros(*shp))]
                        xd_ = x.detach()
                        specials.append(('permuted-view', xd_.transpose(0, -1).contiguous().transpose(0, -1) if xd_.ndim >= 2 else xd_))
                        if hasattr(mod, 'get_output_from_indices') and not isinstance(ret[1], (tuple, list)) and not sp.get('layers_axis_second'):
                            try:
                                with torch.no_grad():
                                    pre = mod.get_output_from_indices(ret[1][..., :1])
                                if tuple(pre.shape) == tuple(shp):
                                    specials.append(('prefix-decode', pre.detach().clone()))
                            except Exception:
                                pass
                        for sname, xs_ in specials:
                            try:
                                with torch.no_grad():
                                    ret2 = mod(xs_)
                            except Exception as ex:
                                failures.append({'key': f'{key}:on-code:{sname}:exception:{type(ex).__name__}', 'what': f'{info}: {sname} input raised {ex!r}', 'case': dict(kw=sp['kw'], shape=shp, train=train)})
                                continue
                            ev += 1
                            dist['on_code_inputs'] = dist.get('on_code_inputs', 0) + 1
                            idx2 = ret2[1]
                            if isinstance(idx2, (tuple, list)):
                                idx2 = torch.stack(list(idx2))
                            loss2 = ret2[2] if len(ret2) > 2 else None
                            probs_ = []
                            if tuple(ret2[0].shape) != tuple(out.shape):
                                probs_.append(f'output shape {tuple(ret2[0].shape)} != {tuple(out.shape)}')
                            if tuple(idx2.shape) != tuple(idx.shape):
                                probs_.append(f'indices shape {tuple(idx2.shape)} != {tuple(idx.shape)}')
                            if loss is not None and loss2 is not None and tuple(loss2.shape) != tuple(loss.shape):
                                probs_.append(f'loss shape {tuple(loss2.shape)} != {tuple(loss.shape)}')
                            if probs_:
                                failures.append({'key': f'{key}:on-code:{sname}:shape', 'what': f'{info}: for the {sname} input ' + '; '.join(probs_) + ' (shapes depend on the values)',
                                                 'case': dict(kw=sp['kw'], shape=shp, train=train, special=sname)})
        if len(samples) < 5 and sp['name'] != 'vq':
            samples.append(dict(cls=sp['name'], kw={k: (v if not callable(v) else str(v)) for k, v in sp['kw'].items()}, layout=sp['layout']))
    # index RANGE at the edges of the arithmetic: level counts in the hundreds (the flat index passes what bfloat16 / float16 can count exactly) x every
    # input precision and module cast x saturated tokens (the outermost level of every dimension)
    from vector_quantize_pytorch import FSQ as _FSQ, LFQ as _LFQ
    for lv in ([512], [300, 3], [640, 2, 5], [1000], [257, 2], [33, 31]):
        for dt in (torch.float32, torch.bfloat16, torch.float16, torch.float64):
            for how in ('input', 'module-cast', 'autocast'):
                if how == 'autocast' and dt != torch.bfloat16:
                    continue
                try:
                    q_ = _FSQ(lv, dim=(len(lv) + 1 if how == 'autocast' else None))
                    q_.eval()
                    dd = len(lv) + 1 if how == 'autocast' else len(lv)
                    x_ = torch.randn(2, 6, dd) * 3.0
                    x_[0, 0], x_[0, 1] = 60.0, -60.0                  # saturated: the extreme level of every dimension
                    x_[1, 0, 0] = 60.0
                    with torch.no_grad():
                        if how == 'input':
                            o_, i_ = q_(x_.to(dt))
                        elif how == 'module-cast':
                            o_, i_ = q_.to(dt)(x_.to(dt))
                        else:
                            with torch.autocast('cpu', dtype=torch.bfloat16):
                                o_, i_ = q_(x_)
                except (RuntimeError, TypeError, AssertionError):
                    continue              # a precision the class rejects is not this property's subject
                ev += 1
                dist['large_levels_low_precision'] = dist.get('large_levels_low_precision', 0) + 1
                K_ = 1
                for l_ in lv:
                    K_ *= l_
                if i_.dtype not in (torch.int32, torch.int64) or int(i_.min()) < 0 or int(i_.max()) >= K_ or tuple(i_.shape) != (2, 6) or tuple(o_.shape) != (2, 6, dd):
                    failures.append({'key': f'fsq:large-levels:{str(dt).split(".")[-1]}:{how}:index-range', 'what': f'FSQ({lv}) with {dt} via {how}: indices {i_.dtype} span [{int(i_.min())}, {int(i_.max())}] '
                                     f'(codebook size {K_}), shapes {tuple(o_.shape)} / {tuple(i_.shape)}', 'case': dict(levels=lv, dtype=str(dt), how=how)})
    # implicit codebooks with MORE THAN 2^24 entries while every level count stays ordinary (thorough tier: the codebook itself takes a few hundred MB): the
    # flat index is exact integer arithmetic - the saturated corners are 0 and codebook_size - 1, every index decodes to the emitted vector
    if ctx.thorough:
        try:
            big_lv = [257, 256, 256]
            qb = _FSQ(big_lv)
            qb.eval()
            Kb = 257 * 256 * 256
            xb_ = torch.randn(2, 64, 3) * 2.0
            xb_[0, 0], xb_[0, 1] = 60.0, -60.0
            with torch.no_grad():
                ob_, ib_ = qb(xb_)
                db_ = qb.indices_to_codes(ib_)
            ev += 1
            dist['huge_implicit_codebook'] = dist.get('huge_implicit_codebook', 0) + 1
            if int(ib_.max()) >= Kb or int(ib_.min()) < 0 or int(ib_[0, 0]) != Kb - 1 or int(ib_[0, 1]) != 0 or not torch.equal(db_, ob_):
                failures.append({'key': 'fsq:huge-codebook:index-range', 'what': f'FSQ({big_lv}) (codebook size {Kb} > 2^24): indices span [{int(ib_.min())}, {int(ib_.max())}], saturated corners give '
                                 f'{int(ib_[0, 0])} / {int(ib_[0, 1])} (expected {Kb - 1} / 0), decode == output: {bool(torch.equal(db_, ob_))}', 'case': dict(levels=big_lv)})
            del qb
        except Exception as ex:
            failures.append({'key': f'fsq:huge-codebook:exception:{type(ex).__name__}', 'what': repr(ex), 'case': dict(levels=[257, 256, 256])})
    # BLANKET casts: nn.Module.type(dtype) casts EVERY buffer, integer ones included (so does loading a checkpoint converted with {k: v.float()} under
    # assign=True) - indices stay integer-typed, in range and of the documented shape whatever dtype the bookkeeping buffers have
    for sp in S:
        if sp['name'] == 'vq' and sp['kw'].get('heads', 1) != 1:
            continue
        for how in ('type-float32', 'type-float64-float32', 'assign-float-checkpoint'):
            try:
                mod = sp['mk']()
                if how == 'type-float32':
                    mod = mod.type(torch.float32)
                elif how == 'type-float64-float32':
                    mod = mod.type(torch.float64).type(torch.float32)
                else:
                    mod.load_state_dict({k_: (v_.float() if v_.dtype != torch.bool else v_) for k_, v_ in mod.state_dict().items()}, assign=True)
                mod.eval()
                shp = in_shape(sp['layout'], sp['dim'], 2, 1 if sp['layout'] in ('single', 'single_cf') else 3)
                with torch.no_grad():
                    ret = mod(torch.randn(*shp))
            except Exception:
                continue          # a cast the class cannot run under is a loud failure, not a silent change of the index type
            idx = ret if sp.get('indices_only') else ret[1]
            if isinstance(idx, (tuple, list)):
                idx = torch.stack(list(idx))
            ev += 1
            dist['blanket_cast_modules'] = dist.get('blanket_cast_modules', 0) + 1
            if idx.dtype not in (torch.int32, torch.int64) or float(idx.min()) < 0 or float(idx.max()) >= sp['K']:
                failures.append({'key': f'{sp["name"]}:{sp["layout"]}:blanket-cast:{how}:index-dtype', 'what': f'{sp["name"]}({sp["kw"]}) after {how}: indices are {idx.dtype} spanning [{float(idx.min())}, {float(idx.max())}] '
                                 f'(integer-typed indices in [0, {sp["K"]}) are documented)', 'case': dict(kw={k: str(v) for k, v in sp['kw'].items()}, how=how)})
                break
    # quantize-dropout in training: dropped layers report -1 but indices stay integer-typed and keep the documented shape
    from vector_quantize_pytorch import ResidualVQ, GroupedResidualVQ, ResidualFSQ, ResidualLFQ, ResidualSimVQ
    import random as _r
    for mk, dim, grouped in ((lambda: ResidualVQ(dim=3, num_quantizers=4, codebook_size=5, quantize_dropout=True), 3, False),
                             (lambda: ResidualVQ(dim=3, num_quantizers=4, codebook_size=5, quantize_dropout=True, accept_image_fmap=True), 3, False),
                             (lambda: GroupedResidualVQ(dim=4, groups=2, num_quantizers=3, codebook_size=5, quantize_dropout=True), 4, True),
                             (lambda: ResidualFSQ(levels=[3, 3], num_quantizers=4, dim=2, quantize_dropout=True), 2, False),
                             (lambda: ResidualLFQ(dim=3, codebook_size=8, num_quantizers=4, quantize_dropout=True), 3, False),
                             (lambda: ResidualSimVQ(dim=3, num_quantizers=4, codebook_size=5, quantize_dropout=True), 3, False),
                             # quantize_dropout_multiple_of that does NOT divide the number of layers (the rounded-up depth may pass the last layer)
                             (lambda: ResidualVQ(dim=3, num_quantizers=4, codebook_size=5, quantize_dropout=True, quantize_dropout_multiple_of=3), 3, False),
                             (lambda: ResidualFSQ(levels=[3, 3], num_quantizers=4, dim=2, quantize_dropout=True, quantize_dropout_multiple_of=3), 2, False),
                             (lambda: ResidualFSQ(levels=[3, 3], num_quantizers=5, dim=2, quantize_dropout=True, quantize_dropout_multiple_of=2), 2, False),
                             (lambda: ResidualLFQ(dim=3, codebook_size=8, num_quantizers=6, quantize_dropout=True, quantize_dropout_multiple_of=4), 3, False),
                             (lambda: ResidualSimVQ(dim=3, num_quantizers=5, codebook_size=5, quantize_dropout=True, quantize_dropout_multiple_of=3), 3, False)):
        q = mk()
        q.train()
        image = getattr(q, 'accept_image_fmap', False) and not grouped
        for seed in range(12):
            x = torch.randn(2, dim, 2, 3) if image else torch.randn(2, 3, dim)
            ev += 1
            dist['dropout'] = dist.get('dropout', 0) + 1
            try:
                if grouped:
                    import vector_quantize_pytorch.residual_vq as _m
                    old = _m.get_maybe_sync_seed
                    _m.get_maybe_sync_seed = lambda device, max_size=10000: seed
                    try:
                        ret = q(x)
                    finally:
                        _m.get_maybe_sync_seed = old
                else:
                    ret = q(x, rand_quantize_dropout_fixed_seed=seed)
            except Exception as ex:
                failures.append({'key': f'{type(q).__name__}:dropout:exception', 'what': f'{type(q).__name__} with quantize_dropout (seed {seed}): {ex!r}', 'case': dict(cls=type(q).__name__, seed=seed)})
                continue
            idx = ret[1]
            # the same seed with return_all_codes=True must mark the same dropped entries with -1, and the decode helpers must not write
            # into the index tensor they are given
            if not grouped:
                try:
                    ret2 = q(x, rand_quantize_dropout_fixed_seed=seed, return_all_codes=True)
                    if not torch.equal(ret2[1] == -1, idx == -1):
                        failures.append({'key': f'{type(q).__name__}:dropout:minus-one-pattern-with-all-codes', 'what': f'{type(q).__name__} with quantize_dropout (seed {seed}): return_all_codes=True reports a different set of -1 (dropped) entries '
                                         f'({int((ret2[1] == -1).sum())} vs {int((idx == -1).sum())})', 'case': dict(cls=type(q).__name__, seed=seed)})
                    keep = idx.clone()
                    q.get_codes_from_indices(idx)
                    q.get_output_from_indices(idx)
                    if not torch.equal(keep, idx):
                        failures.append({'key': f'{type(q).__name__}:dropout:decode-mutates-indices', 'what': f'{type(q).__name__}: get_codes_from_indices / get_output_from_indices modified the index tensor passed in', 'case': dict(cls=type(q).__name__, seed=seed)})
                        idx = keep
                except Exception as ex:
                    failures.append({'key': f'{type(q).__name__}:dropout:all-codes-exception', 'what': f'{type(q).__name__} (seed {seed}) return_all_codes / decode: {ex!r}', 'case': dict(cls=type(q).__name__, seed=seed)})
            if not grouped:
                want_shape = (2, 2, 3, q.num_quantizers) if image else (2, 3, q.num_quantizers)
                if tuple(idx.shape) != want_shape:
                    failures.append({'key': f'{type(q).__name__}:dropout:index-shape', 'what': f'{type(q).__name__}(num_quantizers={q.num_quantizers}, multiple_of={getattr(q, "quantize_dropout_multiple_of", 1)}) with quantize_dropout '
                                     f'(seed {seed}): indices have shape {tuple(idx.shape)}, documented {want_shape}', 'case': dict(cls=type(q).__name__, seed=seed)})
            if idx.dtype not in (torch.int32, torch.int64):
                failures.append({'key': f'{type(q).__name__}:dropout:index-dtype', 'what': f'{type(q).__name__} with quantize_dropout (seed {seed}): indices are {idx.dtype}, not integer-typed', 'case': dict(cls=type(q).__name__, seed=seed)})
            if tuple(ret[0].shape) != tuple(x.shape):
                failures.append({'key': f'{type(q).__name__}:dropout:output-shape', 'what': f'{type(q).__name__} with quantize_dropout: output shape {tuple(ret[0].shape)}', 'case': dict(cls=type(q).__name__, seed=seed)})
            if int(idx.min()) < -1:
                failures.append({'key': f'{type(q).__name__}:dropout:index-range', 'what': f'{type(q).__name__} with quantize_dropout: index below -1', 'case': dict(cls=type(q).__name__, seed=seed)})
    # padded entries: -1 EXACTLY at the padded positions, [0, K) at the valid ones, same shapes and dtypes - with mask= and lens=,
    # on long-lived modules whose `lens` / `mask` argument is one preallocated buffer refilled in place between calls
    from vector_quantize_pytorch import VectorQuantize
    pad_mk = [('vq', lambda: VectorQuantize(dim=4, codebook_size=7), 4, 7, 0, True),
              ('vq-heads', lambda: VectorQuantize(dim=4, codebook_size=5, heads=2, codebook_dim=2), 4, 5, 1, True),
              ('vq-heads-sep-cosine', lambda: VectorQuantize(dim=4, codebook_size=5, heads=2, codebook_dim=2, separate_codebook_per_head=True, use_cosine_sim=True), 4, 5, 1, True),
              ('rvq', lambda: ResidualVQ(dim=3, num_quantizers=3, codebook_size=6), 3, 6, 1, False),
              ('grvq', lambda: GroupedResidualVQ(dim=4, groups=2, num_quantizers=2, codebook_size=5), 4, 5, 2, False)]
    # live hyper-parameter SCHEDULES on the long-lived module (round 11, seed C13-k): a commitment weight warmed up from 0 (cross-entropy and MSE
    # commitment), a temperature annealed to 0 - what the returned tensors look like does not depend on the history of these attributes
    def _warm(attr, values):
        def sched(q_, step_):
            setattr(q_, attr, values[min(step_, len(values) - 1)])
        return sched
    pad_mk += [('vq-ce-commit-warmup', lambda: VectorQuantize(dim=4, codebook_size=5, commitment_use_cross_entropy_loss=True, commitment_weight=0.), 4, 5, 0, True, _warm('commitment_weight', [0., 0., 0.25, 0.25, 1.0, 1.0])),
               ('vq-heads-ce-commit-warmup', lambda: VectorQuantize(dim=4, codebook_size=5, heads=2, codebook_dim=2, commitment_use_cross_entropy_loss=True, commitment_weight=0.), 4, 5, 1, True, _warm('commitment_weight', [0., 0.5, 0.5, 0., 0.25, 0.25])),
               ('vq-heads-sep-ce-commit-cooldown', lambda: VectorQuantize(dim=4, codebook_size=5, heads=2, codebook_dim=2, separate_codebook_per_head=True, commitment_use_cross_entropy_loss=True, commitment_weight=1.), 4, 5, 1, True, _warm('commitment_weight', [1., 1., 0., 0., 0.25, 0.])),
               ('vq-mse-commit-warmup', lambda: VectorQuantize(dim=4, codebook_size=5, commitment_weight=0.), 4, 5, 0, True, _warm('commitment_weight', [0., 0., 0.25, 0.25, 1.0, 1.0]))]
    idx_shape_ref = {}
    for pad_entry in pad_mk:
        pname, mk, dim, K, extra_axes, has_lens = pad_entry[:6]
        sched_p = pad_entry[6] if len(pad_entry) > 6 else None
        q = mk()
        b, n = 3, 6
        lens_buf = torch.zeros(b, dtype=torch.long)
        mask_buf = torch.zeros(b, n, dtype=torch.bool)
        for step in range(6):
            q.train(step % 2 == 0)
            if sched_p is not None:
                sched_p(q, step)
            lens_now = torch.tensor([_r.Random(1000 * step + i + len(pname)).randint(1, n) for i in range(b)])
            if step >= 4:
                lens_now = torch.zeros(b, dtype=torch.long)        # degenerate: the whole batch is padding (training step 4, evaluation step 5)
            lens_buf.copy_(lens_now)
            mask_buf.copy_(torch.arange(n)[None, :] < lens_now[:, None])
            use_lens = has_lens and step % 3 != 2
            x = torch.randn(b, n, dim)
            ev += 1
            dist['padded'] = dist.get('padded', 0) + 1
            try:
                ret = q(x, **({'lens': lens_buf} if use_lens else {'mask': mask_buf}))
            except Exception as ex:
                failures.append({'key': f'{pname}:padded:exception', 'what': f'{pname} step {step} ({"lens" if use_lens else "mask"}): {ex!r}', 'case': dict(name=pname, step=step)})
                break
            out, idx = ret[0], ret[1]
            valid = torch.arange(n)[None, :] < lens_now[:, None]
            vm = valid if pname != 'grvq' else valid[None]
            vm = vm.reshape(*vm.shape, *([1] * (idx.ndim - vm.ndim))).expand_as(idx)
            info = f'{pname} step {step} ({"lens" if use_lens else "mask"} buffer refilled in place, lens={lens_now.tolist()})'
            want_ishape = idx_shape_ref.get(pname)
            if want_ishape is None:
                with torch.no_grad():
                    idx_shape_ref[pname] = want_ishape = tuple(mk()(x)[1].shape)
            if tuple(idx.shape) != want_ishape:
                failures.append({'key': f'{pname}:padded:index-shape', 'what': f'{info}: indices have shape {tuple(idx.shape)}, the documented shape (as without a mask) is {want_ishape}', 'case': dict(name=pname, step=step)})
                continue
            if tuple(out.shape) != tuple(x.shape) or idx.dtype not in (torch.int32, torch.int64):
                failures.append({'key': f'{pname}:padded:shape-dtype', 'what': f'{info}: output shape {tuple(out.shape)} / index dtype {idx.dtype}', 'case': dict(name=pname, step=step)})
                continue
            if not bool((idx[~vm] == -1).all()):
                failures.append({'key': f'{pname}:padded:not-minus-one', 'what': f'{info}: a padded entry carries an index other than -1', 'case': dict(name=pname, step=step)})
            if not bool(((idx[vm] >= 0) & (idx[vm] < K)).all()):
                failures.append({'key': f'{pname}:padded:valid-out-of-range', 'what': f'{info}: a valid entry carries an index outside [0, {K}) (min {int(idx[vm].min())})', 'case': dict(name=pname, step=step)})
    # all-pairs sweep over per-call options and the ambient context of the call (vlib/callzoo.py): whatever the options, the quantized output has
    # the shape of the input, indices the documented shape / an integer dtype / -1 exactly at padded entries, the loss its documented shape
    from vlib import callzoo
    cz_cfgs = [('vq', dict(dim=4, codebook_size=6), 4, 1, None), ('vq-heads', dict(dim=4, codebook_size=6, heads=2, codebook_dim=2), 4, 2, None),
               ('vq-heads-sep', dict(dim=4, codebook_size=6, heads=2, codebook_dim=2, separate_codebook_per_head=True), 4, 2, None),
               ('vq-proj-cosine', dict(dim=5, codebook_size=6, codebook_dim=2, use_cosine_sim=True), 5, 1, None),
               ('vq-stochastic', dict(dim=3, codebook_size=6, stochastic_sample_codes=True, sample_codebook_temp=0.5), 3, 1, None),
               ('rvq', dict(dim=3, num_quantizers=3, codebook_size=6), 3, 1, 3)]
    for cname, ckw, cdim, cheads, cnq in cz_cfgs:
        for v in callzoo.variants():
            for train in (False, True):
                mod = (ResidualVQ if cnq else VectorQuantize)(**ckw)
                mod.train(train)
                x, kw_c, cm, valid = callzoo.build_call(v, torch, cdim, heads=cheads, K=6, nq=cnq)
                info = f'{cname} train={train} {callzoo.label(v)}'
                ev += 1
                dist['call_option_sweep'] = dist.get('call_option_sweep', 0) + 1
                try:
                    with torch.no_grad():
                        ref = mod(torch.randn_like(x.detach()))
                    with cm():
                        ret = mod(x, **kw_c)
                except Exception as ex:
                    dist['call_option_rejected'] = dist.get('call_option_rejected', 0) + 1     # a combination the library refuses loudly is not a silent shape change
                    continue
                out = ret[0]
                if tuple(out.shape) != tuple(x.shape):
                    failures.append({'key': f'{cname}:call-options:output-shape:target={v["target"]}', 'what': f'{info}: quantized output has shape {tuple(out.shape)}, the input {tuple(x.shape)}', 'case': dict(name=cname, variant=v, train=train)})
                    continue
                if 'indices' in kw_c:
                    continue
                idx = ret[1]
                if tuple(idx.shape) != tuple(ref[1].shape) or idx.dtype not in (torch.int32, torch.int64):
                    failures.append({'key': f'{cname}:call-options:index-shape', 'what': f'{info}: indices {tuple(idx.shape)} / {idx.dtype}, documented {tuple(ref[1].shape)} integer', 'case': dict(name=cname, variant=v, train=train)})
                    continue
                vm = torch.ones(x.shape[:2], dtype=torch.bool) if valid is None else valid
                vmx = vm.reshape(*vm.shape, *([1] * (idx.ndim - 2))).expand_as(idx)
                if not bool((idx[~vmx] == -1).all()) or not bool(((idx[vmx] >= 0) & (idx[vmx] < 6)).all()):
                    failures.append({'key': f'{cname}:call-options:index-values', 'what': f'{info}: indices are not -1 exactly at the padded entries / in [0, 6) at the valid ones', 'case': dict(name=cname, variant=v, train=train)})
                if tuple(ret[2].shape) != tuple(ref[2].shape):
                    failures.append({'key': f'{cname}:call-options:loss-shape', 'what': f'{info}: loss shape {tuple(ret[2].shape)}, documented {tuple(ref[2].shape)}', 'case': dict(name=cname, variant=v, train=train)})
    # the same idea for the residual stacks: per-call options (return_all_codes, an explicit dropout seed, autograd context) x train / eval x shapes
    import itertools as _it
    res_mk = [('ResidualFSQ', lambda: ResidualFSQ(levels=[4, 3], num_quantizers=3, dim=2, quantize_dropout=True), 2, 12),
              ('ResidualLFQ', lambda: ResidualLFQ(dim=3, codebook_size=8, num_quantizers=3, quantize_dropout=True), 3, 8),
              ('ResidualSimVQ', lambda: ResidualSimVQ(dim=3, num_quantizers=3, codebook_size=6, quantize_dropout=True), 3, 6),
              ('ResidualVQ', lambda: ResidualVQ(dim=3, num_quantizers=3, codebook_size=6, quantize_dropout=True), 3, 6),
              ('GroupedResidualVQ', lambda: GroupedResidualVQ(dim=4, groups=2, num_quantizers=3, codebook_size=6, quantize_dropout=True), 4, 6)]
    for rname, rmk, rdim, rK in res_mk:
        for all_codes, rseed, train, genv, (bb, nn2) in _it.product((False, True), (None, 3), (False, True), ('no_grad', 'requires_grad'), ((2, 5), (1, 1), (3, 2))):
            q = rmk()
            q.train(train)
            x = torch.randn(bb, nn2, rdim, requires_grad=(genv == 'requires_grad'))
            kw_r = {}
            if all_codes:
                kw_r['return_all_codes'] = True
            if rseed is not None and rname != 'GroupedResidualVQ':
                kw_r['rand_quantize_dropout_fixed_seed'] = rseed
            info = f'{rname} train={train} {kw_r} grad={genv} shape=({bb},{nn2})'
            ev += 1
            dist['residual_call_option_sweep'] = dist.get('residual_call_option_sweep', 0) + 1
            try:
                import contextlib as _cl
                with (torch.no_grad() if genv == 'no_grad' else _cl.nullcontext()):
                    ret = q(x, **kw_r)
            except Exception as ex:
                failures.append({'key': f'{rname}:call-options:exception:{type(ex).__name__}', 'what': f'{info}: {ex!r}', 'case': dict(cls=rname)})
                continue
            out, idx = ret[0], ret[1]
            want_idx = (2, bb, nn2, 3) if rname == 'GroupedResidualVQ' else (bb, nn2, 3)
            probs = []
            if tuple(out.shape) != tuple(x.shape):
                probs.append(f'output shape {tuple(out.shape)}')
            if tuple(idx.shape) != want_idx or idx.dtype not in (torch.int32, torch.int64):
                probs.append(f'indices {tuple(idx.shape)} {idx.dtype}, documented {want_idx} integer')
            elif int(idx.min()) < -1 or int(idx.max()) >= rK or (not train and int(idx.min()) < 0):
                probs.append(f'index values in [{int(idx.min())}, {int(idx.max())}] (codebook size {rK}, train={train})')
            if all_codes:
                ac = ret[-1]
                if isinstance(ac, (tuple, list)):
                    ac = torch.stack(list(ac))
                want_ac = (2, 3, bb, nn2, rdim // 2) if rname == 'GroupedResidualVQ' else (3, bb, nn2, rdim)
                if tuple(ac.shape) != want_ac:
                    probs.append(f'all_codes shape {tuple(ac.shape)}, documented {want_ac}')
            for pr in probs:
                failures.append({'key': f'{rname}:call-options:{pr.split(" ")[0]}', 'what': f'{info}: {pr}', 'case': dict(cls=rname, kw={k: str(v) for k, v in kw_r.items()}, train=train)})
    bad, broken = core.run_cases(ctx, 'c13', HEADER, cases, per_file=400)
    for name, out in broken:
        failures.append({'key': f'coq-eval:{name}', 'what': 'case file did not evaluate: ' + out, 'case': {'file': name}})
    for i, code in sorted(bad.items()):
        m = meta[i]
        failures.append({'key': f'{m["name"]}:index-shape', 'what': f'{m["name"]}({m["kw"]}) input {m["shape"]}: indices have shape {m["observed"]}, not the documented one', 'case': m})
    return {'evaluations': ev, 'distinct_nontrivial': nt,
            'rule': 'cross product of constructor options x accepted layouts x extents incl. batch 1, one token, dim 1, codebook_dim 1, one code, heads = dim, one layer; train and eval; requires_grad on/off: '
                    'output shape = input shape, index shape = the documented one computed by the Coq model, integer dtype, range [0, K), loss shape; mask= / lens= buffers refilled in place on long-lived modules: -1 exactly at padded entries; non-trivial = a degenerate extent is present',
            'samples': samples, 'failures': failures, 'distribution': dist}


def replay_case(ctx, case):
    import torch
    return True, 're-run the check: %s' % (case,)

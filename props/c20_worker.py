"""worker of the C20 multi-process stratum: modules built from PER-RANK random states inside a real gloo process group (no DDP wrapper, no broadcast by
the caller): what is never learned stays what the module was built with, on every rank"""
import os


def worker(rank, world, initfile, outdir, seed):
    import torch
    import torch.distributed as dist
    torch.set_num_threads(1)
    dist.init_process_group('gloo', init_method='file://' + initfile, rank=rank, world_size=world)
    from vector_quantize_pytorch import RandomProjectionQuantizer, SimVQ, FSQ, LFQ
    out = {}
    mks = {'rpq': lambda: RandomProjectionQuantizer(dim=5, codebook_size=6, codebook_dim=3, num_codebooks=2),
           'rpq-nonorm': lambda: RandomProjectionQuantizer(dim=5, codebook_size=6, codebook_dim=3, num_codebooks=1, norm=False),
           'simvq': lambda: SimVQ(dim=4, codebook_size=7), 'fsq': lambda: FSQ([5, 4]), 'lfq': lambda: LFQ(dim=3, codebook_size=8)}
    for name, mk in mks.items():
        torch.manual_seed(seed + 1000 * rank + len(name))          # every rank builds ITS OWN module
        mod = mk()
        dim = {'rpq': 5, 'rpq-nonorm': 5, 'simvq': 4, 'fsq': 2, 'lfq': 3}[name]
        before = {k: v.detach().clone() for k, v in mod.named_buffers()}
        changed = []
        try:
            for t, train in enumerate((False, True, True, False)):
                mod.train(train)
                with torch.no_grad():
                    mod(torch.randn(2, 4, dim))
                now = dict(mod.named_buffers())
                bad = [k for k in before if k in now and not torch.equal(before[k], now[k])]
                if bad:
                    changed.append((t, bad[:3]))
                    break
        except Exception as ex:
            changed.append(('exception', repr(ex)))
        out[name] = changed
        dist.barrier()
    torch.save(out, os.path.join(outdir, f'c20_rank{rank}.pt'))
    dist.barrier()
    dist.destroy_process_group()

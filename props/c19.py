"""C19 — stochastic code sampling follows the softmax-temperature law."""
import math, os, re, subprocess
from fractions import Fraction
from vlib import core
from vlib.core import qlit, qvec, natlist
from props.c05 import rlit

OBLIGATIONS = dict(
    prop_file='Properties/C19.v',
    glue=['Glue/CoreGlue.v', 'Glue/Pin_p_gumbel.v'] + ['Glue/Pin_fp_C19.v'],
    extra=['Model/Gumbel.vo'],
    gen_items=['g_gumbel_noise', 'p_gumbel', 'p_select', 'fp_C19'],
)
ASSUMPTIONS = [
    'the probability space is definitional: torch.Tensor.uniform_ delivers independent uniforms per logit entry (one noise entry per position and code: the captured noise tensor has the shape of the logits) and P(j wins) is the race integral; no measure theory is developed',
    'the drawn uniforms are an oracle, captured from the harness by replaying the RNG state around the module\'s own gumbel_noise call (and cross-checked against its output); draws within 1e-6 of 0 or 1 (where the log clamps matter) are discarded and counted',
    'libm log of torch (float32) is modelled by the real logarithm within delta = 1e-4 on the sampling logits; each pairwise race inequality of the selected index is certified by the `interval` tactic',
    'empirical frequencies are SUPPORT, not proof: chi-square against the proven closed form with a false-alarm rate below 1e-9 per case',
]
HEAD = '''From Coq Require Import Reals.
From Interval Require Import Tactic.
Open Scope R_scope.
'''
HEADER_Q = '''From Coq Require Import ZArith QArith List Bool.
From VQ Require Import Num Model.Vec.
Import ListNotations.
Open Scope Q_scope.
'''
DELTA = '(1 / 10000)'


def certify(ctx, name, goals):
    bad = []
    name = f'{name}_p{os.getpid()}'
    remaining = list(goals)
    for attempt in range(8):
        if not remaining:
            return bad
        lines = [HEAD] + [f'Goal {prop}. Proof. interval with (i_prec 60). Qed.' for _, prop in remaining]
        path = os.path.join(core.CASES, name + '.v')
        open(path, 'w').write('\n'.join(lines) + '\n')
        p = subprocess.run(['timeout', '900', 'coqc', '-w', '-all', '-Q', '.', 'VQ', os.path.join('Cases', name + '.v')], cwd=core.COQ, capture_output=True, text=True)
        ctx.case_files += 1
        if p.returncode == 0:
            ctx.case_files_ok += 1
            return bad
        m = re.search(r'line (\d+)', p.stdout + p.stderr)
        idx = int(m.group(1)) - HEAD.count('\n') - 1 if m else -1
        if not (0 <= idx < len(remaining)):
            return bad + [(lab, 'case file did not compile: ' + (p.stdout + p.stderr)[-200:]) for lab, _ in remaining]
        bad.append((remaining[idx][0], 'interval could not certify the race inequality'))
        remaining = remaining[idx + 1:]
    return bad + [(lab, 'not certified (too many failing goals)') for lab, _ in remaining]


def capture(vq_codebooks):
    """wrap gumbel_noise (module level) and each codebook's gumbel_sample; returns (log, restore)"""
    import torch
    import vector_quantize_pytorch.vector_quantize_pytorch as vqm
    log = []
    orig_noise = vqm.gumbel_noise

    def noise_wrap(t):
        st = torch.get_rng_state()
        out = orig_noise(t)
        after = torch.get_rng_state()
        torch.set_rng_state(st)
        u = torch.zeros_like(t).uniform_(0, 1)
        torch.set_rng_state(after)
        log.append(('noise', u.detach().clone(), out.detach().clone()))
        return out
    vqm.gumbel_noise = noise_wrap
    origs = []
    for cb in vq_codebooks:
        og = cb.gumbel_sample

        def gs_wrap(logits, og=og, cb=cb, **kw):
            n0 = len(log)
            ind, onehot = og(logits, **kw)
            log.append(('sample', logits.detach().clone(), dict(kw), ind.detach().clone(), n0, cb))
            return ind, onehot
        cb.gumbel_sample = gs_wrap
        origs.append((cb, og))

    def restore():
        vqm.gumbel_noise = orig_noise
        for cb, og in origs:
            cb.gumbel_sample = og
    return log, restore


def correspond(ctx, scale):
    import torch
    from vector_quantize_pytorch import VectorQuantize, ResidualVQ
    rng = ctx.rng
    failures, samples = [], []
    ev = nt = 0
    nt_seen = set()      # distinct (logits, uniforms) tokens on which the noise changed the winner
    dist = {'stochastic_calls': 0, 'tokens_checked': 0, 'race_goals': 0, 'discarded_extreme_u': 0, 'fallback_cases': 0, 'noise_changed_winner': 0, 'frequency_cases': 0, 'draws': 0}
    goals, gmeta = {}, {}
    gid = 0
    qcases, qmeta = [], []
    n = (28 if not ctx.thorough else 160) * scale
    for ci in range(n):
        cosine = ci % 3 == 1
        K = rng.choice([2, 3, 4])
        d = rng.choice([1, 2, 3])
        Tcfg = [0.5, 1.0, 2.0, 0.1][ci % 4]
        Tcall = [None, 0.1, 0.5, 1.0, 2.0, 0.0, -1.0][ci % 7]
        residual = ci % 5 == 4
        train = ci % 6 != 5
        stochastic = ci % 8 != 7
        kw = dict(codebook_size=K, use_cosine_sim=cosine, stochastic_sample_codes=stochastic, sample_codebook_temp=Tcfg)
        if (ci // 2) % 3 == 1:
            kw.update(straight_through=True, rotation_trick=False)        # straight-through (soft one-hot) estimator: the SAMPLING law must be the same
            dist['straight_through_configs'] = dist.get('straight_through_configs', 0) + 1
        inplace = ci % 7 == 3 and not cosine and train
        if inplace:
            # learnable codebook with the in-place optimiser: a training call quantizes TWICE (again after the optimiser step); both draws follow the
            # temperature in force for the call
            from functools import partial as _partial
            from torch.optim import SGD as _SGD
            kw.update(learnable_codebook=True, ema_update=False, in_place_codebook_optimizer=_partial(_SGD, lr=0.01))
            dist['in_place_optimizer_configs'] = dist.get('in_place_optimizer_configs', 0) + 1
        hm = (ci // 4) % 3          # heads: 1 | 2 with separate codebooks | 2 sharing one codebook - the noise is independent per head, position and code
        if residual:
            mod = ResidualVQ(dim=d, num_quantizers=2, **kw)
            cbs = [l._codebook for l in mod.layers]
        elif hm == 0:
            mod = VectorQuantize(dim=d, **kw)
            cbs = [mod._codebook]
        else:
            mod = VectorQuantize(dim=2 * d, heads=2, codebook_dim=d, separate_codebook_per_head=(hm == 1), **kw)
            cbs = [mod._codebook]
            d = 2 * d
            dist['multi_head_configs'] = dist.get('multi_head_configs', 0) + 1
        if residual and ci % 2 == 0:
            # per-stage annealing on the live stack: every layer has ITS OWN configured temperature
            for li_, layer_ in enumerate(mod.layers):
                layer_._codebook.sample_codebook_temp = [Tcfg, 0.1, 0.0][li_ % 3] if li_ else Tcfg
            dist['per_layer_temperatures'] = dist.get('per_layer_temperatures', 0) + 1
        cfg_temp = {id(cb_): float(cb_.sample_codebook_temp) for cb_ in cbs}          # the CONFIGURED temperature of every layer, recorded now (a per-call value must not stick to it)
        mod.train(train)
        # a HISTORY of calls on this one layer object: the temperature in force at each call is the per-call one if given, else the CONFIGURED one
        # (a per-call temperature must not stick to later calls)
        call_temps = [Tcall, (None if Tcall is not None else [0.5, 0.0][ci % 2]), None]
        for call_no, Tcall in enumerate(call_temps):
            x = torch.randn(2, 3, d)
            log, restore = capture(cbs)
            # ambient DEFAULT DTYPE of the process around the call (a float32 layer used inside bf16 / float64 code): the noise has the dtype of the
            # logits, the sampling law does not depend on torch.get_default_dtype()
            amb = [None, None, torch.bfloat16, torch.float64, None][(ci + call_no) % 5]
            old_default = torch.get_default_dtype()
            try:
                if amb is not None:
                    torch.set_default_dtype(amb)
                    dist['calls_under_other_default_dtype'] = dist.get('calls_under_other_default_dtype', 0) + 1
                if inplace:
                    mod(x, **({'sample_codebook_temp': Tcall} if Tcall is not None else {}))          # not frozen, gradients on: the optimiser path runs
                else:
                    with torch.no_grad():
                        mod(x, freeze_codebook=True, **({'sample_codebook_temp': Tcall} if Tcall is not None else {}))
            except Exception as ex:
                failures.append({'key': f'exception:{type(ex).__name__}', 'what': f'{kw} T={Tcall} default dtype {amb}: {ex!r}', 'case': dict(kw=kw)})
                break
            finally:
                torch.set_default_dtype(old_default)
                restore()
            dist['module_calls'] = dist.get('module_calls', 0) + 1
            for pos, ent in [(i, e) for i, e in enumerate(log) if e[0] == 'sample']:
                _, logits, skw, ind, n0, cb_e = ent
                # the temperature in force for THIS layer: the per-call one if given, else the one configured on this layer's codebook (layers may differ)
                Teff = Tcall if Tcall is not None else cfg_temp[id(cb_e)]
                noises = [e for e in log[n0:pos] if e[0] == 'noise']
                T_seen = skw.get('temperature')
                if T_seen != Teff:
                    failures.append({'key': 'temperature-resolution', 'what': f'{kw}: call #{call_no} of the history {call_temps}: per-call temperature {Tcall} / configured {Tcfg} but gumbel_sample received {T_seen}', 'case': dict(kw=kw, Tcall=Tcall, history=call_temps, call_no=call_no)})
                active = train and stochastic and Teff > 0
                L2 = logits.reshape(-1, logits.shape[-1])
                I2 = ind.reshape(-1)
                if not active:
                    dist['fallback_cases'] += 1
                    if noises:
                        failures.append({'key': 'noise-in-deterministic-mode', 'what': f'{kw} train={train} T={Teff}: gumbel noise was drawn although selection must be deterministic', 'case': dict(kw=kw, T=Teff, train=train)})
                    ev += L2.shape[0]          # one evaluation = one token whose selection is checked
                    for t in range(L2.shape[0]):
                        qcases.append(f'(if Nat.eqb (argmax_first Q_ops {qvec(L2[t].double().tolist())}) {int(I2[t])} then 0 else 1)%nat')
                        qmeta.append(dict(kw=kw, T=Teff, train=train, token=t, logits=L2[t].tolist(), idx=int(I2[t])))
                    continue
                dist['stochastic_calls'] += 1
                if len(noises) != 1 or noises[0][1].shape != logits.shape:
                    failures.append({'key': 'noise-shape', 'what': f'{kw}: expected one noise tensor of the shape of the logits (independent noise per position and code), got {[tuple(e[1].shape) for e in noises]}', 'case': dict(kw=kw)})
                    continue
                u, gout = noises[0][1], noises[0][2]
                if gout.dtype != logits.dtype:
                    failures.append({'key': 'noise-dtype', 'what': f'{kw}: the Gumbel noise has dtype {gout.dtype}, the logits {logits.dtype} (uniforms drawn on a coarser / other grid than the logits: ambient default dtype {amb})', 'case': dict(kw=kw)})
                    continue
                # cross-check of the capture: -log(-log(u)) recomputed equals what the module used
                if not torch.allclose(-torch.log((-torch.log(u.float().clamp(min=1e-20))).clamp(min=1e-20)), gout.float(), atol=1e-5, rtol=1e-5):
                    failures.append({'key': 'noise-capture', 'what': 'captured uniforms do not reproduce the module\'s gumbel noise', 'case': dict(kw=kw)})
                    continue
                U2 = u.reshape(-1, u.shape[-1])
                for t in range(L2.shape[0]):
                    us = U2[t].double().tolist()
                    ls = L2[t].double().tolist()
                    j = int(I2[t])
                    if min(us) < 1e-6 or max(us) > 1 - 1e-6:
                        dist['discarded_extreme_u'] += 1
                        continue
                    dist['tokens_checked'] += 1
                    ev += 1
                    det = max(range(K), key=lambda i: ls[i])
                    changed = det != j
                    dist['noise_changed_winner'] += changed
                    if changed:
                        nt_seen.add((tuple(ls), tuple(us), j))
                        nt = len(nt_seen)
                    if not (0 <= j < K):
                        failures.append({'key': 'index-range', 'what': f'sampled index {j} out of range', 'case': dict(kw=kw)})
                        continue
                    Tl = rlit(Teff)
                    for i in range(K):
                        if i == j:
                            continue
                        prop = f'{rlit(ls[i])} / {Tl} - ln (- ln {rlit(us[i])}) <= {rlit(ls[j])} / {Tl} - ln (- ln {rlit(us[j])}) + {DELTA}'
                        goals.setdefault(gid % core.NPROC, []).append((gid, prop))
                        gmeta[gid] = dict(kw=kw, T=Teff, logits=ls, u=us, selected=j, rival=i)
                        gid += 1
        if len(samples) < 4:
            samples.append(dict(kw=kw, T=Teff, train=train, history=call_temps))
    dist['race_goals'] = gid
    import concurrent.futures
    with concurrent.futures.ThreadPoolExecutor(max_workers=core.NPROC) as ex:
        for res in ex.map(lambda kv: certify(ctx, f'c19_iv_{kv[0]}', kv[1]), goals.items()):
            for lab, why in res:
                m = gmeta.get(lab, {})
                failures.append({'key': f'race-lost:T={m.get("T")}', 'what': f'{m.get("kw")} T={m.get("T")}: the selected code {m.get("selected")} does not win the Gumbel race against code {m.get("rival")} for the captured noise ({why})', 'case': m})
    bad, broken = core.run_cases(ctx, 'c19_det', HEADER_Q, qcases, per_file=300)
    for name, out in broken:
        failures.append({'key': f'coq-eval:{name}', 'what': 'case file did not evaluate: ' + out, 'case': {'file': name}})
    for i, code in sorted(bad.items()):
        m = qmeta[i]
        failures.append({'key': f'fallback-not-argmax:train={m["train"]}:T={m["T"]}', 'what': f'{m["kw"]} train={m["train"]} T={m["T"]}: deterministic selection returned {m["idx"]}, not the first maximal logit of {m["logits"]}', 'case': m})
    # ---------------- empirical frequencies vs the proven closed form (support)
    nfreq = (8 if not ctx.thorough else 16) * scale
    for fi in range(nfreq):
        cosine = fi % 2 == 1
        K = 3 if fi % 4 < 2 else 4
        T = [0.5, 1.0, 2.0, 0.1][fi % 4]
        vq = VectorQuantize(dim=2, codebook_size=K, use_cosine_sim=cosine, stochastic_sample_codes=True, sample_codebook_temp=T)
        vq.train()
        x1 = torch.randn(1, 1, 2)
        N = 100000
        xb = x1.expand(50, 2000, 2).contiguous()
        # every other pair of cases: the call passes `codebook_transform_fn` (the hook of implicit neural codebooks) - a FIXED linear map of the codes,
        # repeated per position; the nearness scores are then those of the TRANSFORMED codes (cosine: after l2norm), the law is softmax(score / T) all the same
        with_fn = (fi // 2) % 2 == 1
        Wt = torch.tensor([[0.9, -0.4], [0.3, 1.1]])
        ckw = {}
        if with_fn:
            from einops import repeat as _repeat
            ckw['codebook_transform_fn'] = lambda e: _repeat(e @ Wt, 'h c d -> h b n c d', b=50, n=2000)
            dist['frequency_cases_with_code_transform'] = dist.get('frequency_cases_with_code_transform', 0) + 1
        Tcall_f = None
        if fi % 4 == 3:
            Tcall_f = T = [0.7, 0.3][(fi // 4) % 2]          # per-call temperature on top of the configured one
            ckw['sample_codebook_temp'] = Tcall_f
        with torch.no_grad():
            _, idx, _ = vq(xb, freeze_codebook=True, **ckw)
            # exact categorical law from the module's own logits
            xin = vq._codebook.transform_input(vq.project_in(x1))
            cbm = vq._codebook.embed[0]
            if with_fn:
                cbm = cbm @ Wt
                if cosine:
                    cbm = torch.nn.functional.normalize(cbm, dim=-1)
            logits = (xin[0] @ cbm.T) if cosine else -torch.cdist(xin[0], cbm)
            p = torch.softmax(logits.double() / T, dim=-1).reshape(-1)
        cnt = torch.bincount(idx.reshape(-1), minlength=K).double()
        exp = p * N
        mask = exp > 5
        chi2 = float((((cnt - exp) ** 2) / exp)[mask].sum()) + float(cnt[~mask].sum() > 50) * 1e9
        dist['frequency_cases'] += 1
        dist['draws'] += N
        ev += 1
        if chi2 > 60.0:
            failures.append({'key': f'frequencies:T={T}:cosine={cosine}:code_transform={with_fn}', 'what': f'K={K} T={T} cosine={cosine} codebook_transform_fn={with_fn}: empirical frequencies {cnt.tolist()} over {N} draws deviate from softmax(logits/T) = {p.tolist()} (chi2 = {chi2:.1f})',
                             'case': dict(K=K, T=T, cosine=cosine, counts=cnt.tolist(), p=p.tolist())})
    return {'evaluations': ev, 'distinct_nontrivial': nt,
            'rule': 'VectorQuantize and ResidualVQ layers, Euclidean / cosine, configured and per-call temperatures {0.1, 0.5, 1, 2, 0, -1}, train / eval, flag on / off: for every token the selected index must win every pairwise Gumbel race for the captured uniforms '
                    '(one `interval`-certified inequality per rival), deterministic configurations must return the first maximal logit (evaluated in Coq over Q); 1e5 draws per frequency case vs the closed form; one evaluation = one token whose selected index is checked (or one frequency case); non-trivial = a distinct (logits, uniforms) token on which the noise changed the winner',
            'samples': samples, 'failures': failures, 'distribution': dist}


def replay_case(ctx, case):
    if 'selected' in case:
        ls, us, j, i, T = case['logits'], case['u'], case['selected'], case['rival'], case['T']
        prop = f'{rlit(ls[i])} / {rlit(T)} - ln (- ln {rlit(us[i])}) <= {rlit(ls[j])} / {rlit(T)} - ln (- ln {rlit(us[j])}) + {DELTA}'
        bad = certify(ctx, 'c19_replay', [(0, prop)])
        return bool(bad), 'recorded race inequality ' + ('does NOT hold' if bad else 'holds')
    return True, 're-run the check: %s' % (case,)

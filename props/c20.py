"""C20 — non-learned codebooks stay fixed."""
import random
from functools import partial
from vlib import core, srcgen
from vlib.core import coqbool

OBLIGATIONS = dict(
    prop_file='Properties/C20.v',
    glue=['Glue/CoreGlue.v', 'Glue/InventoryFacts.v'] + [f'Glue/Pin_{n}.v' for n in ('w_simvq', 'w_rpq', 'w_fsq', 'w_lfq', 'w_rfsq', 'w_rlfq', 'w_rsvq', 'o_rpq_eval', 'p_simvq_codebook')] + ['Glue/Pin_fp_C20.v'],
    extra=['Model/Params.vo'],
    gen_items=['inv_simvq', 'inv_rpq', 'inv_fsq', 'inv_lfq', 'inv_rfsq', 'inv_rlfq', 'inv_rsvq', 'inv_cosine', 'w_simvq', 'w_rpq', 'w_fsq', 'w_lfq', 'w_rfsq', 'w_rlfq', 'w_rsvq',
               'o_rpq_eval', 'p_simvq_codebook', 'g_cosine_embed_is_param', 'g_cosine_ema', 'g_cosine_update_ema', 'g_cosine_expire', 'g_cosine_kmeans', 'fp_C20'],
)
ASSUMPTIONS = [
    'torch optimisers write parameters only (modelled as "an optimiser step may put ANY value into any nn.Parameter and nothing else"); validated by the bit-exact buffer comparison around real SGD/Adam(+weight decay) steps',
    'nn.Module.named_buffers / named_parameters / state_dict classify entries as the generated inventory says (checked on live modules on every run)',
]
HEADER = '''From Coq Require Import ZArith String List Bool.
From VQ Require Import Model.Inventory.
From VQ.Gen Require Import inv_simvq inv_rpq inv_fsq inv_lfq inv_rfsq inv_lq inv_vq inv_euclid inv_cosine.
Import ListNotations.
Open Scope string_scope.
'''


def own_registry(mod):
    """(persistent buffers, non-persistent buffers, params) registered directly on this module (not on children)"""
    sd = set(k for k in mod.state_dict().keys() if '.' not in k)
    bufs = [n for n, _ in mod.named_buffers(recurse=False)]
    pars = [n for n, _ in mod.named_parameters(recurse=False)]
    # ParameterList children registered on the module (LatentQuantize.values_per_latent)
    for cn, child in mod.named_children():
        if type(child).__name__ == 'ParameterList':
            pars.append(cn)
    return [b for b in bufs if b in sd], [b for b in bufs if b not in sd], pars


def strl(v):
    return '[' + '; '.join('"%s"' % x for x in v) + ']'


DESIGNATED = {'simvq': ['frozen_codebook'], 'rsimvq': [f'layers.{i}.frozen_codebook' for i in range(3)], 'rpq': ['rand_projs', 'vq._codebook.embed', 'vq._codebook.cluster_size', 'vq._codebook.embed_avg'],
              'fsq': ['implicit_codebook', '_levels', '_basis'], 'lfq': ['codebook', 'mask'], 'rfsq': ['scales', 'layers.0.implicit_codebook'], 'rlfq': ['layers.0.codebook', 'layers.1.mask']}


def snapshot_buffers(mod, kind=None):
    out = {n: b.detach().clone() for n, b in mod.named_buffers()}
    # the tensors the property names, fetched by attribute path whatever registry they live in
    for path in DESIGNATED.get(kind, []):
        o = mod
        for part in path.split('.'):
            o = o[int(part)] if part.isdigit() else getattr(o, part)
        out['attr:' + path] = o.detach().clone()
    return out


def correspond(ctx, scale):
    import torch
    from torch import nn
    from torch.optim import SGD, Adam
    from vlib import impl
    from vector_quantize_pytorch import (RandomProjectionQuantizer, SimVQ, ResidualSimVQ, FSQ, LFQ, ResidualFSQ, ResidualLFQ, LatentQuantize, VectorQuantize)
    rng = ctx.rng
    failures, samples, cases, meta = [], [], [], []
    evaluations = nontrivial = 0
    dist = {'rpq': 0, 'simvq': 0, 'rsimvq': 0, 'fsq': 0, 'lfq': 0, 'rfsq': 0, 'rlfq': 0, 'opt_steps': 0, 'forwards': 0, 'backwards': 0, 'inventory_cases': 0}

    def mk_list():
        L = []
        for H in (1, 2, 3):
            for norm in (True, False):
                L.append(('rpq', lambda H=H, norm=norm: RandomProjectionQuantizer(dim=5, codebook_size=6, codebook_dim=3, num_codebooks=H, norm=norm), 5, None))
        L.append(('simvq', lambda: SimVQ(dim=4, codebook_size=7), 4, None))
        L.append(('simvq', lambda: SimVQ(dim=4, codebook_size=7, frozen_codebook_dim=6, rotation_trick=False), 4, None))
        L.append(('simvq', lambda: SimVQ(dim=4, codebook_size=7, codebook_transform=nn.Sequential(nn.Linear(4, 8), nn.ReLU(), nn.Linear(8, 4))), 4, None))
        L.append(('rsimvq', lambda: ResidualSimVQ(dim=4, num_quantizers=3, codebook_size=6), 4, None))
        L.append(('fsq', lambda: FSQ([5, 4, 3], dim=6), 6, None))
        L.append(('fsq', lambda: FSQ([3, 3], num_codebooks=2, dim=5, preserve_symmetry=True), 5, None))
        L.append(('lfq', lambda: LFQ(dim=6, codebook_size=16, commitment_loss_weight=0.25), 6, None))
        L.append(('lfq', lambda: LFQ(codebook_size=8, dim=3, spherical=True), 3, None))
        L.append(('rfsq', lambda: ResidualFSQ(levels=[4, 3], num_quantizers=3, dim=5), 5, None))
        L.append(('rlfq', lambda: ResidualLFQ(dim=5, codebook_size=8, num_quantizers=2), 5, None))
        # without projections: these accept half / bfloat16 inputs (mixed-precision histories must not touch the non-learned buffers either)
        L.append(('rfsq', lambda: ResidualFSQ(levels=[8, 5, 5, 3], num_quantizers=3, dim=4), 4, None))
        L.append(('rfsq', lambda: ResidualFSQ(levels=[4, 3], num_quantizers=3, dim=2, quantize_dropout=True), 2, None))
        L.append(('rlfq', lambda: ResidualLFQ(dim=3, codebook_size=8, num_quantizers=3, quantize_dropout=True), 3, None))
        L.append(('rsimvq', lambda: ResidualSimVQ(dim=4, num_quantizers=3, codebook_size=6, quantize_dropout=True), 4, None))
        L.append(('fsq', lambda: FSQ([8, 5, 3]), 3, None))
        L.append(('lfq', lambda: LFQ(codebook_size=8, dim=3), 3, None))
        # degenerate extents: ONE bit per code (a [2, 1] codebook: transposes and size-1 axes are 'contiguous' views of the buffer itself), sub-sampled entropy
        L.append(('lfq', lambda: LFQ(codebook_size=2, dim=3, frac_per_sample_entropy=0.5), 3, None))
        L.append(('lfq', lambda: LFQ(codebook_size=2, num_codebooks=2, dim=2, frac_per_sample_entropy=0.25), 2, None))
        L.append(('rlfq', lambda: ResidualLFQ(dim=1, codebook_size=2, num_quantizers=2, frac_per_sample_entropy=0.5), 1, None))
        L.append(('fsq', lambda: FSQ([2]), 1, None))
        return L

    reps = (2 if not ctx.thorough else 10) * scale
    for kind, mk, dim, _ in mk_list():
        for rep in range(reps):
            mod = mk()
            ref = snapshot_buffers(mod, kind)
            params = [p for p in mod.parameters()]
            opt = None
            if params:
                opt = rng.choice([lambda ps: SGD(ps, lr=0.5, weight_decay=0.1, momentum=0.5), lambda ps: Adam(ps, lr=0.1, weight_decay=0.1)])(params)
            fixed_x = torch.randn(2, 5, dim)
            fixed_idx = None
            trace = []
            eff0 = mod.codebook.detach().clone() if kind == 'simvq' else None
            stepped = False
            for oi in range(rng.choice([6, 10, 16])):
                op = rng.choice(['train_fwd', 'eval_fwd', 'backward', 'opt', 'fixed', 'toggle_sub'] + (['loss_fwd', 'loss_fwd', 'toggle_sub'] if kind == 'rpq' else []) + (['lowp_fwd', 'lowp_fwd'] if not params else [])
                                + (['decode', 'decode_coarse'] if kind in ('rfsq', 'rlfq', 'rsimvq', 'fsq', 'lfq', 'simvq') else []))
                if kind == 'rpq' and oi == 0 and rep % 2 == 0:
                    op = 'loss_fwd'            # the loss path as the very first call of a fresh module
                trace.append(op)
                evaluations += 1
                try:
                    if op in ('decode', 'decode_coarse'):
                        # decoding (all layers, or a coarse prefix of the residual layers) only reads the non-learned tensors
                        mod.eval()
                        with torch.no_grad():
                            r_ = mod(torch.randn(2, 5, dim))
                            ix = r_[1] if isinstance(r_, tuple) else getattr(r_, 'indices', None)
                            if ix is not None:
                                try:
                                    if hasattr(mod, 'get_output_from_indices'):
                                        k_ = ix.shape[-1] if op == 'decode' else max(1, ix.shape[-1] - 1 - (oi % 2))
                                        mod.get_output_from_indices(ix[..., :k_])
                                        mod.get_codes_from_indices(ix[..., :k_])
                                    elif hasattr(mod, 'indices_to_codes'):
                                        mod.indices_to_codes(ix)
                                    dist['decode_ops'] = dist.get('decode_ops', 0) + 1
                                except (AssertionError, RuntimeError, TypeError):
                                    pass
                    if op == 'toggle_sub':
                        # train() / eval() called on ONE sub-module only (a "freeze everything but X" helper, a swapped-in pretrained part): the parent's
                        # own flag then says nothing about its children - what is never learned stays untouched whatever the flags are
                        subs = [sm for sm in mod.modules() if sm is not mod]
                        if subs:
                            rng.choice(subs).train(rng.random() < 0.7)
                            dist['submodule_mode_toggles'] = dist.get('submodule_mode_toggles', 0) + 1
                            fixed_idx = None if kind != 'rpq' else fixed_idx
                            # followed by a forward that keeps the parent's current flag (no top-level train() / eval() call in between)
                            mod(torch.randn(2, 5, dim))
                            dist['forwards'] += 1
                    if op == 'lowp_fwd':
                        # a low-precision call (autocast-style): legal for the projection-free scalar quantizers; a dtype error is not our subject
                        mod.train(rng.random() < 0.5)
                        try:
                            with torch.no_grad():
                                mod((torch.randn(2, 5, dim) * 0.7).to(rng.choice([torch.bfloat16, torch.float16])))
                            dist['low_precision_calls'] = dist.get('low_precision_calls', 0) + 1
                        except (RuntimeError, TypeError, AssertionError):
                            pass
                    if op == 'loss_fwd':
                        # RandomProjectionQuantizer(x, indices=...) returns the cross-entropy loss; it must not touch the random codebook either
                        mod.train(rng.random() < 0.8)
                        H_ = mod.vq.heads
                        tgt = torch.randint(0, 6, (2, 5, H_) if H_ > 1 else (2, 5))
                        mod(torch.randn(2, 5, dim), indices=tgt)
                        dist['forwards'] += 1
                        dist['rpq_loss_path'] = dist.get('rpq_loss_path', 0) + 1
                    if op in ('train_fwd', 'eval_fwd', 'fixed', 'backward'):
                        mod.train(op != 'eval_fwd' and (op != 'fixed' or rng.random() < 0.5))
                        x = fixed_x if op == 'fixed' else torch.randn(2, 5, dim) * rng.choice([0.1, 1.0, 5.0])
                        if op == 'backward':
                            x = x.clone().requires_grad_(True)
                        ret = mod(x)
                        dist['forwards'] += 1
                        if op == 'fixed' and kind == 'rpq':
                            if fixed_idx is None:
                                fixed_idx = ret.clone()
                            elif not stepped and not torch.equal(fixed_idx, ret):   # the claim for RPQ is about forward calls (its inner VQ owns a trainable projection)
                                failures.append({'key': 'rpq:indices-changed', 'what': f'RandomProjectionQuantizer: equal inputs gave different indices after history {trace}', 'case': dict(kind=kind, ops=trace)})
                        if op == 'backward' and kind != 'rpq':
                            outs = [t for t in (ret if isinstance(ret, tuple) else (ret,)) if isinstance(t, torch.Tensor) and t.dtype.is_floating_point and t.requires_grad]
                            if outs:
                                sum(o.sum() for o in outs).backward()
                                dist['backwards'] += 1
                    elif op == 'opt' and opt is not None:
                        for p in params:     # make sure every parameter has some gradient so the optimiser really moves it
                            if p.grad is None:
                                p.grad = torch.randn_like(p)
                        opt.step()
                        opt.zero_grad()
                        dist['opt_steps'] += 1
                        stepped = True
                except Exception as ex:
                    failures.append({'key': f'{kind}:{op}:exception:{type(ex).__name__}', 'what': f'{kind} op {op} after {trace}: {ex!r}', 'case': dict(kind=kind, ops=trace)})
                    break
                ok, why = impl.blobs_equal(ref, snapshot_buffers(mod, kind))
                if not ok:
                    failures.append({'key': f'{kind}:{op}:buffer-changed:{why.split(":")[0]}', 'what': f'{kind}: a non-learned buffer changed after {trace}: {why}', 'case': dict(kind=kind, ops=trace)})
                    break
                if kind == 'simvq' and not stepped and not torch.equal(eff0, mod.codebook.detach()):
                    failures.append({'key': 'simvq:effective-codebook-moved', 'what': f'SimVQ: effective codebook changed without any optimiser step ({trace})', 'case': dict(kind=kind, ops=trace)})
                    break
            # two objects: a deep copy (an EMA / teacher copy) is a module of its own - training the ORIGINAL afterwards must not move the copy's
            # effective codebook, outputs or state (a closure or tensor handle shared through deepcopy is invisible on a single module)
            if params and rep % 2 == 0:
                try:
                    import copy as _copy
                    cp = _copy.deepcopy(mod)
                    cp.eval()
                    with torch.no_grad():
                        o_before = [t.clone() for t in (cp(fixed_x) if isinstance(cp(fixed_x), tuple) else (cp(fixed_x),)) if isinstance(t, torch.Tensor)]
                    sd_before = {k: v.clone() for k, v in cp.state_dict().items()}
                    eff_before = cp.codebook.detach().clone() if kind == 'simvq' else None
                    opt2 = Adam(params, lr=0.1)
                    mod.train()
                    for _ in range(3):
                        xg = torch.randn(2, 5, dim)
                        ret = mod(xg)
                        outs = [t for t in (ret if isinstance(ret, tuple) else (ret,)) if isinstance(t, torch.Tensor) and t.dtype.is_floating_point and t.requires_grad]
                        if outs:
                            opt2.zero_grad()
                            sum((o ** 2).sum() for o in outs).backward()
                            opt2.step()
                    with torch.no_grad():
                        o_after = [t.clone() for t in (cp(fixed_x) if isinstance(cp(fixed_x), tuple) else (cp(fixed_x),)) if isinstance(t, torch.Tensor)]
                    evaluations += 1
                    dist['copy_independence'] = dist.get('copy_independence', 0) + 1
                    moved = [i for i, (a_, b_) in enumerate(zip(o_before, o_after)) if a_.shape != b_.shape or not torch.equal(a_, b_)]
                    sd_after = cp.state_dict()
                    moved_sd = [k for k in sd_before if not torch.equal(sd_before[k], sd_after[k])]
                    if moved or moved_sd or (eff_before is not None and not torch.equal(eff_before, cp.codebook.detach())):
                        failures.append({'key': f'{kind}:deepcopy-follows-original', 'what': f'{kind}: after training the ORIGINAL for 3 optimiser steps, its deep copy returns different results for the same input '
                                         f'(outputs {moved}, state {moved_sd[:3]}): the copy shares something with the original', 'case': dict(kind=kind, ops=trace)})
                except Exception as ex:
                    failures.append({'key': f'{kind}:deepcopy-independence:exception:{type(ex).__name__}', 'what': f'{kind}: {ex!r}', 'case': dict(kind=kind, ops=trace)})
            nontrivial += stepped or kind == 'rpq'
            dist[kind] += 1
            if len(samples) < 4:
                samples.append(dict(kind=kind, ops=trace))
    # modules built from PER-RANK random states inside a real 2-process gloo group (props/c20_worker.py): no collective of the library's own may overwrite
    # what a module was built with
    import tempfile, shutil, time, os as _os
    import torch.multiprocessing as _mp
    from props import c20_worker
    dtmp = tempfile.mkdtemp(dir='/dev/shm', prefix='vq_c20_')
    try:
        pc = _mp.spawn(c20_worker.worker, args=(2, _os.path.join(dtmp, 'init'), dtmp, rng.randrange(10 ** 6)), nprocs=2, join=False)
        deadline = time.time() + 180
        while not pc.join(timeout=5):
            if time.time() > deadline:
                for p_ in pc.processes:
                    if p_.is_alive():
                        p_.kill()
                raise TimeoutError('the worker processes did not finish within the deadline')
        for r_ in range(2):
            res_r = torch.load(_os.path.join(dtmp, f'c20_rank{r_}.pt'))
            for name_, changed_ in res_r.items():
                evaluations += 1
                dist['per_rank_modules_in_process_group'] = dist.get('per_rank_modules_in_process_group', 0) + 1
                if changed_:
                    failures.append({'key': f'{name_}:process-group:buffer-changed', 'what': f'{name_} built from a per-rank random state inside a 2-process group, rank {r_}: non-learned buffers changed during a forward: {changed_}',
                                     'case': dict(kind=name_, rank=r_, distributed=True)})
    except Exception as ex:
        failures.append({'key': f'process-group:spawn:{type(ex).__name__}', 'what': f'2-process gloo run failed: {str(ex)[:300]}', 'case': dict(distributed=True)})
    finally:
        shutil.rmtree(dtmp, ignore_errors=True)
    # RandomProjectionQuantizer with PASS-THROUGH keyword arguments of the inner VectorQuantize (round 10, seed C20-j): whatever the inner layer is configured
    # to do in training (dead-code expiry, stochastic sampling, orthogonal regularisation - which makes the cosine codebook a Parameter -, an in-place
    # codebook optimiser, decay, commitment settings), forward calls of the wrapper in either mode leave projection and codebook bit-identical
    from functools import partial as _partial
    from torch.optim import SGD as _SGD, Adam as _Adam
    rpq_opts = dict(
        expiry=[{}, dict(threshold_ema_dead_code=2)],
        sampling=[{}, dict(stochastic_sample_codes=True, sample_codebook_temp=0.5)],
        orth=[{}, dict(orthogonal_reg_weight=0.5), dict(orthogonal_reg_weight=0.5, orthogonal_reg_max_codes=3)],
        inplace=[{}, dict(in_place_codebook_optimizer=_partial(_SGD, lr=1.0)), dict(in_place_codebook_optimizer=_partial(_Adam, lr=0.1))],
        misc=[{}, dict(decay=0.5, commitment_weight=0.25), dict(commitment_use_cross_entropy_loss=True), dict(ema_update=False)],
    )
    combos = []
    names_ = list(rpq_opts)
    for ci_ in range(36):
        # mixed radix over the option lists, cycled so that every pair of values occurs
        c_ = {}
        r_ = ci_
        for nm_ in names_:
            c_[nm_] = rpq_opts[nm_][(r_ + (ci_ // 7 if nm_ in ('orth', 'misc') else 0)) % len(rpq_opts[nm_])]
            r_ //= len(rpq_opts[nm_])
        combos.append(c_)
    dist['rpq_passthrough_kwargs'] = 0
    dist['rpq_passthrough_rejected'] = 0
    for ci_, c_ in enumerate(combos):
        kw_ = {}
        for v_ in c_.values():
            kw_.update(v_)
        H_ = 1 + ci_ % 2
        try:
            torch.manual_seed(7700 + ci_)
            rpq_ = RandomProjectionQuantizer(dim=5, codebook_size=6, codebook_dim=3, num_codebooks=H_, norm=(ci_ % 3 != 0), **kw_)
            probe_ = torch.randn(2, 7, 5)
            rpq_.eval()
            first_ = rpq_(probe_).clone()
        except Exception:
            dist['rpq_passthrough_rejected'] += 1
            continue
        snap_ = {k_: v_.detach().clone() for k_, v_ in list(rpq_.named_buffers()) + list(rpq_.named_parameters())}
        desc_ = {k_: (v_ if not callable(v_) else getattr(getattr(v_, 'func', v_), '__name__', 'opt')) for k_, v_ in kw_.items()}
        hist_ = []
        try:
            for step_ in range(8):
                mode_train = (step_ % 3 != 2)
                rpq_.train(mode_train)
                xb_ = torch.randn(3, 6, 5) * [1.0, 30.0, 0.01][step_ % 3]
                if step_ % 2 == 0:
                    rpq_(xb_)
                    hist_.append(('train' if mode_train else 'eval') + '-lookup')
                else:
                    tgt_ = torch.randint(0, 6, (3, 6, H_) if H_ > 1 else (3, 6))
                    rpq_(xb_, indices=tgt_)
                    hist_.append(('train' if mode_train else 'eval') + '-loss-call')
                evaluations += 1
                changed_ = [k_ for k_, v_ in list(rpq_.named_buffers()) + list(rpq_.named_parameters()) if k_ in snap_ and not torch.equal(torch.nan_to_num(v_.detach()), torch.nan_to_num(snap_[k_]))]
                again_ = rpq_(probe_)
                if changed_ or not torch.equal(again_, first_):
                    failures.append({'key': f'rpq-passthrough:{"+".join(sorted(desc_)) or "default"}:changed', 'what': f'RandomProjectionQuantizer(num_codebooks={H_}, {desc_}) after forward calls {hist_}: '
                                     f'tensors changed {changed_}; equal input gets equal indices: {bool(torch.equal(again_, first_))}', 'case': dict(kind='rpq', kwargs=str(desc_), ops=hist_)})
                    break
            dist['rpq_passthrough_kwargs'] += 1
            nontrivial += 1
        except Exception as ex:
            failures.append({'key': f'rpq-passthrough:{"+".join(sorted(desc_)) or "default"}:exception:{type(ex).__name__}', 'what': f'RandomProjectionQuantizer({desc_}) history {hist_}: {ex!r}', 'case': dict(kind='rpq', kwargs=str(desc_), ops=hist_)})
    # inventory tie: live registries vs the generated inventories, evaluated in Coq
    live = [('inv_simvq', SimVQ(dim=4, codebook_size=5)), ('inv_rpq', RandomProjectionQuantizer(dim=4, codebook_size=5, codebook_dim=2)),
            ('inv_fsq', FSQ([3, 4])), ('inv_lfq', LFQ(dim=3, codebook_size=8)), ('inv_rfsq', ResidualFSQ(levels=[3, 3], num_quantizers=2)),
            ('inv_lq', LatentQuantize(levels=[3, 4], dim=2)), ('inv_vq', VectorQuantize(dim=4, codebook_size=5)),
            ('inv_euclid', VectorQuantize(dim=4, codebook_size=5)._codebook), ('inv_euclid', VectorQuantize(dim=4, codebook_size=5, learnable_codebook=True, ema_update=False)._codebook),
            ('inv_cosine', VectorQuantize(dim=4, codebook_size=5, use_cosine_sim=True)._codebook)]
    for invname, m in live:
        pb, nb, pr = own_registry(m)
        opt_names = ['batch_mean', 'batch_variance', 'codebook_mean', 'codebook_mean_needs_init', 'codebook_variance', 'codebook_variance_needs_init'] if invname == 'inv_euclid' else []
        cases.append(f'(if inv_runtime_ok {invname} {strl(opt_names)} {strl(pb)} {strl(nb)} {strl(pr)} then 0 else 1)%nat')
        meta.append(dict(inv=invname, persistent=pb, nonpersistent=nb, params=pr))
        dist['inventory_cases'] += 1
    bad, broken = core.run_cases(ctx, 'c20', HEADER, cases, per_file=50)
    for name, out in broken:
        failures.append({'key': f'coq-eval:{name}', 'what': 'case file did not evaluate: ' + out, 'case': {'file': name}})
    for i, code in sorted(bad.items()):
        failures.append({'key': f'inventory:{meta[i]["inv"]}', 'what': f'live module registry {meta[i]} disagrees with the inventory regenerated from the source', 'case': meta[i]})
    return {'evaluations': evaluations, 'distinct_nontrivial': nontrivial,
            'rule': 'random loops of train/eval forwards, backward passes and SGD(momentum, weight decay)/Adam(weight decay) steps over module.parameters(); every buffer compared bit-exactly with its initial value after every operation; '
                    'RPQ: equal inputs give equal indices at any two points; SimVQ: effective codebook constant until an optimiser step; live registries vs generated inventory in Coq; non-trivial = the history contains an optimiser step (or RPQ)',
            'samples': samples, 'failures': failures, 'distribution': dist}


def replay_case(ctx, case):
    return True, 're-run the check (random loop); recorded history: %s' % (case.get('ops'),)

"""C11 — dead codes are revived from the batch; live codes are untouched."""
import random
from fractions import Fraction
from vlib import core, vqrec
from vlib.core import qlit, qvec, qmat, coqbool, natlist, blist
from props import c03

OBLIGATIONS = dict(
    prop_file='Properties/C11.v',
    glue=['Glue/CoreGlue.v', 'Glue/Pin_p_expire.v'] + ['Glue/Pin_fp_C11.v', 'Glue/Pin_p_rvq_flags.v'],
    extra=['Model/CoreCheck.vo'],
    gen_items=['k_expire_cmp', 'g_euclid_expire', 'g_cosine_expire', 'g_euclid_replace', 'g_cosine_replace', 'g_rvq_shared_expire', 'p_expire',
               'o_euclid_collectives', 'o_cosine_collectives', 'fp_C11', 'p_rvq_flags'],
)
ASSUMPTIONS = [
    'which batch vector revives a dead code is an oracle (torch.randperm / randint): the theorems hold for every pick list drawn from the pool; the correspondence reads the picks off the post-state and checks membership in the pool',
    'the pool is the set of tokens the codebook received in this call (all layers\' residuals for a shared ResidualVQ codebook); validity of pool members under a mask is C09\'s subject',
]
HEADER = c03.HEADER
TOL_E, TOL_S = c03.TOL_E, c03.TOL_S
CODES = c03.CODES


def correspond(ctx, scale):
    import torch
    from vector_quantize_pytorch import VectorQuantize, ResidualVQ
    rng = ctx.rng
    cases, meta, failures, samples = [], [], [], []
    nontrivial = 0
    evaluations = 0
    dist = {'euclid': 0, 'cosine': 0, 'thr0': 0, 'fractional_thr': 0, 'reset_set': 0, 'K_gt_batch': 0, 'heads': 0, 'steps_with_expiry': 0, 'rvq_shared': 0, 'rvq_layers': 0, 'eval_frozen': 0, 'rvq_cosine': 0}
    ncfg = (40 if not ctx.thorough else 400) * scale
    for ci in range(ncfg):
        d = rng.choice([1, 2, 3])
        heads = rng.choice([1, 1, 2])
        sep = heads > 1 and rng.random() < 0.5
        cosine = rng.random() < 0.3
        K = rng.choice([2, 3, 5, 8, 16])
        thr = rng.choice([0, 1, 2, 0.5, 2.5, 1, 2])
        decay = rng.choice([0.0, 0.25, 0.5, 0.75, 0.8])
        kw = dict(dim=d * heads, codebook_size=K, heads=heads, separate_codebook_per_head=sep, codebook_dim=d, use_cosine_sim=cosine,
                  decay=decay, threshold_ema_dead_code=thr)
        vq = VectorQuantize(**kw)
        cb = vq._codebook
        if rng.random() < 0.4:
            cb.reset_cluster_size = rng.choice([thr, thr + 1, 3.0, 0.25])   # constructor passes None; the attribute is the documented knob
            dist['reset_set'] += 1
        vqrec.set_codebook_grid(vq, rng)
        for t in range(rng.choice([1, 2, 4])):
            b, n = rng.choice([(1, 1), (1, 3), (2, 3), (2, 6)])
            x = vqrec.grid(rng, (b, n, d * heads))
            if t > 0 and (t + ci) % 4 == 3:
                # threshold SCHEDULE on the live codebook (expiry switched on after a warm-up, or off): the step follows the threshold the module has now
                cb.threshold_ema_dead_code = rng.choice([0, 1, 2, 0.5])
                dist['live_threshold_changes'] = dist.get('live_threshold_changes', 0) + 1
            mode = rng.choice(['train'] * 5 + ['eval', 'frozen'])
            vq.train(mode != 'eval')
            ckw = {'freeze_codebook': True} if mode == 'frozen' else {}
            if (t + ci) % 3 == 2:
                ckw['indices'] = torch.randint(0, K, (b, n, heads) if heads > 1 else (b, n))
                dist['with_target_indices'] = dist.get('with_target_indices', 0) + 1
            if (t + 2 * ci) % 5 == 1 and heads == 1 and 'indices' not in ckw:
                # per-call option `codebook_transform_fn` (the hook of implicit neural codebooks) with the IDENTITY transform: codes are matched as
                # they are, the statistics and the dead-code revival follow the same law as without it
                from einops import repeat as _repeat
                ckw['codebook_transform_fn'] = lambda e, b_=b, n_=n: _repeat(e, 'h c d -> h b n c d', b=b_, n=n_)
                dist['with_identity_transform_fn'] = dist.get('with_identity_transform_fn', 0) + 1
            if (t + ci) % 3 == 1 and not cosine and 'indices' not in ckw and mode == 'train':
                # the caller's input in ANOTHER dtype (uint8 / int8 pixel-like data, float16 / bfloat16 activations, float64): the codebook is float32,
                # revived codes and their running sums are the batch vectors as float32 numbers
                dt_in = [torch.float16, torch.int8, torch.bfloat16, torch.uint8, torch.float64][(ci // 3 + t) % 5]
                # integer data at pixel-like magnitudes (twice a value no longer fits the narrow type), float data as it is
                x = ((x * 80).abs().round().clamp(0, 255) if dt_in == torch.uint8 else (x * 40).round().clamp(-120, 120) if dt_in == torch.int8 else x).to(dt_in)
                dist['input_dtype_' + str(dt_in).split('.')[-1]] = dist.get('input_dtype_' + str(dt_in).split('.')[-1], 0) + 1
            try:
                ret, recs = vqrec.record_call(vq, x, **ckw)
            except Exception as ex:
                failures.append({'key': f'vq:exception:{type(ex).__name__}', 'what': f'VectorQuantize({kw}) raised {ex!r}', 'case': dict(kw=kw, step=t)})
                break
            evaluations += 1
            rec = recs[0]
            for h in range(rec.H):
                cases.append(c03.update_term(rec, h, cb, cosine, TOL_E, TOL_S))
                meta.append(dict(kind='vq', kw=kw, step=t, head=h, mode=mode, reset=float(cb.reset_cluster_size)))
                # estimate of what expired (evidence only)
                cs0 = rec.before['cluster_size'][h]
                cnt = [0] * K
                for i in rec.idx[h]:
                    cnt[i] += 1
                cs1 = [decay * a + (1 - decay) * c for a, c in zip(cs0, cnt)]
                dead = sum(1 for v in cs1 if v < thr)
                if mode == 'train' and thr > 0 and 0 < dead < K:
                    nontrivial += 1
                    dist['steps_with_expiry'] += 1
                    if len(samples) < 3:
                        samples.append(dict(kw=kw, step=t, cluster_size_after_ema=cs1, cluster_size_after=rec.after['cluster_size'][h], threshold=thr))
            dist['cosine' if cosine else 'euclid'] += 1
            dist['thr0'] += thr == 0
            dist['fractional_thr'] += thr in (0.5, 2.5)
            dist['K_gt_batch'] += K > b * n * (1 if sep else heads)
            dist['heads'] += heads > 1
            dist['eval_frozen'] += mode != 'train'
    # separate codebooks per head with a PRESCRIBED pattern of which heads have dead codes this step (usage counts written directly: a reachable state):
    # a head without dead codes next to later heads with some, and the other way round - every head's revival concerns that head alone
    for pi, pattern in enumerate(([False, True], [True, False], [False, True, True], [True, False, True], [False, False, True])):
        for cos_p in (False, True):
            try:
                H = len(pattern)
                thr_p = 2 if pi % 2 == 1 else 1
                kw_p = dict(dim=2 * H, codebook_dim=2, heads=H, separate_codebook_per_head=True, codebook_size=5, decay=0.5, threshold_ema_dead_code=thr_p, use_cosine_sim=cos_p)
                vq_p = VectorQuantize(**kw_p)
                vqrec.set_codebook_grid(vq_p, rng)
                with torch.no_grad():
                    for h_, has_dead in enumerate(pattern):
                        vq_p._codebook.cluster_size[h_] = 8.0                      # all live after the step (8 * 0.5 = 4 >= 1)
                        if has_dead:
                            vq_p._codebook.cluster_size[h_, (h_ + pi) % 5] = 0.25      # dead unless the batch hits it hard
                            vq_p._codebook.cluster_size[h_, (h_ + pi + 2) % 5] = 0.5
                            # BOUNDARY usages (decay 0.5, threshold 1): 2 * (1 - 5e-7) decays to just BELOW the threshold (dead: strictly below is below),
                            # exactly 2 decays to exactly the threshold (live)
                            vq_p._codebook.cluster_size[h_, (h_ + pi + 1) % 5] = 2.0 * thr_p * (1.0 - 5e-7)
                            vq_p._codebook.cluster_size[h_, (h_ + pi + 3) % 5] = 2.0 * thr_p
                    vq_p._codebook.embed_avg.copy_(vq_p._codebook.embed * vq_p._codebook.cluster_size[..., None])
                vq_p.train()
                x_p = vqrec.grid(rng, (1, 2, 2 * H))
                if not cos_p and pi % 2 == 1:
                    # pixel-like integer / half inputs (twice a value no longer fits int8 / uint8): the revived code and its running sum are float32 numbers
                    dt_p = [torch.int8, torch.uint8, torch.float16][pi % 3]
                    x_p = ((x_p * 40).round().clamp(-120, 120) if dt_p == torch.int8 else (x_p * 80).abs().round().clamp(0, 255) if dt_p == torch.uint8 else x_p * 1.1).to(dt_p)
                    dist['prescribed_patterns_with_' + str(dt_p).split('.')[-1]] = dist.get('prescribed_patterns_with_' + str(dt_p).split('.')[-1], 0) + 1
                ret, recs = vqrec.record_call(vq_p, x_p)
                evaluations += 1
                dist['prescribed_dead_head_patterns'] = dist.get('prescribed_dead_head_patterns', 0) + 1
                for h_ in range(recs[0].H):
                    cases.append(c03.update_term(recs[0], h_, vq_p._codebook, cos_p, TOL_E, TOL_S))
                    meta.append(dict(kind='vq-dead-head-pattern', kw=kw_p, step=0, head=h_, mode='train', reset=float(thr_p), pattern=pattern))
            except Exception as ex:
                failures.append({'key': f'vq-dead-head-pattern:exception:{type(ex).__name__}', 'what': repr(ex), 'case': dict(pattern=pattern)})
    # hyper-parameters are constructor arguments, not state (c03.cross_config_cases): a module that LOADS the state of a differently configured one
    cc, cm, n_cc = c03.cross_config_cases(ctx, rng, scale, dist, failures, TOL_E, TOL_S)
    cases += cc
    meta += cm
    evaluations += n_cc
    # cosine codebooks: after ANY training step with the EMA update every code - revived ones included - has unit norm (the selection metric is the
    # dot product with the stored code, which is the cosine only on the unit sphere).  Two routes hand `replace` samples that are not unit vectors:
    # the public multi-head expire_codes_ (vectors are normalised before the head split) and batches of norm below the l2norm eps
    for ki in range(8 if not ctx.thorough else 40):
        heads_c = [1, 2, 2, 3][ki % 4]
        sep_c = ki % 4 == 2
        manual = ki % 2 == 1
        kw_c = dict(dim=2 * heads_c, codebook_dim=2, heads=heads_c, separate_codebook_per_head=sep_c, codebook_size=8, use_cosine_sim=True, threshold_ema_dead_code=2, decay=0.5,
                    manual_ema_update=manual)
        vq_c = VectorQuantize(**kw_c)
        vq_c.train()
        try:
            for t in range(3):
                xc = torch.randn(2, 3, 2 * heads_c) * [1.0, 1e-8, 3.0][(t + ki) % 3]
                with torch.no_grad():
                    vq_c(xc)
                    if manual:
                        vq_c._codebook.update_ema()
                        vq_c.expire_codes_(xc)
                evaluations += 1
                dist['cosine_unit_norm_steps'] = dist.get('cosine_unit_norm_steps', 0) + 1
                nrm = vq_c._codebook.embed.norm(dim=-1)
                if not torch.allclose(nrm, torch.ones_like(nrm), atol=1e-3):
                    failures.append({'key': f'cosine:codes-not-unit-norm:manual={manual}:heads={heads_c}', 'what': f'VectorQuantize({kw_c}) step {t} (input scale {[1.0, 1e-8, 3.0][(t + ki) % 3]}): after the update some codes are not unit vectors '
                                     f'(norms from {float(nrm.min()):.3g} to {float(nrm.max()):.3g})', 'case': dict(kw=kw_c, step=t)})
                    break
        except Exception as ex:
            failures.append({'key': f'cosine-unit-norm:exception:{type(ex).__name__}', 'what': f'VectorQuantize({kw_c}): {ex!r}', 'case': dict(kw=kw_c)})
    # ResidualVQ: per-layer expiry from that layer's residual; shared codebook: replacement drawn from all layers' residuals
    for ci in range((12 if not ctx.thorough else 100) * scale):
        shared = rng.random() < 0.6
        d, K, nq = rng.choice([2, 3]), rng.choice([3, 6, 10]), rng.choice([2, 3])
        thr = rng.choice([1, 2, 0.5])
        decay = rng.choice([0.25, 0.5, 0.0])
        rcos = ci % 3 == 1
        if ci % 4 == 2:
            nq, shared = 1, True          # a one-layer stack with a shared codebook: the end-of-step update and revival still happen
        kw = dict(dim=d, num_quantizers=nq, codebook_size=K, shared_codebook=shared, decay=decay, threshold_ema_dead_code=thr, use_cosine_sim=rcos)
        rvq = ResidualVQ(**kw)
        for layer in (rvq.layers[:1] if shared else rvq.layers):
            vqrec.set_codebook_grid(layer, rng)
        rvq.train()
        cbs = []
        for layer in rvq.layers:
            if layer._codebook not in cbs:
                cbs.append(layer._codebook)
        for t in range(rng.choice([1, 2])):
            x = vqrec.grid(rng, (2, 3, d))
            log = []
            origs = [cb.forward for cb in cbs]

            def mk(cb, orig):
                def wrapped(xin, *a, **k):
                    before = vqrec.cb_state(cb)
                    out = orig(xin, *a, **k)
                    log.append((cb, before, xin.detach().double().reshape(-1, xin.shape[-1]).tolist(), out[1].reshape(-1).tolist(), vqrec.cb_state(cb)))
                    return out
                return wrapped
            for cb, orig in zip(cbs, origs):
                cb.forward = mk(cb, orig)
            try:
                state0 = vqrec.cb_state(cbs[0])
                if (t + ci) % 2 == 1:
                    rvq(x, indices=torch.randint(0, K, (2, 3, nq)))     # cross-entropy-to-target-codes call: usage update and dead-code revival still apply
                    dist['with_target_indices'] = dist.get('with_target_indices', 0) + 1
                else:
                    rvq(x)
            except Exception as ex:
                failures.append({'key': f'rvq:exception:{type(ex).__name__}', 'what': f'ResidualVQ({kw}) raised {ex!r}', 'case': dict(kw=kw)})
                break
            finally:
                for cb in cbs:
                    del cb.forward
            evaluations += 1
            if not shared:
                dist['rvq_layers'] += 1
                for li, (cb, before, xs, idx, after) in enumerate(log):
                    r = vqrec.Rec()
                    r.before, r.after, r.xs, r.idx, r.mask, r.training, r.freeze = before, after, [xs], [idx], None, True, False
                    cases.append(c03.update_term(r, 0, cb, rcos, TOL_E, TOL_S))
                    meta.append(dict(kind='rvq-layer', kw=kw, step=t, head=li, mode='train'))
            else:
                dist['rvq_shared'] += 1
                dist['rvq_cosine'] += rcos
                cb = cbs[0]
                final = vqrec.cb_state(cb)
                layers = '[' + '; '.join(f'({qmat(xs)}, {natlist(idx)})' for (_, _, xs, idx, _) in log) + ']'
                pool = [v for (_, _, xs, _, _) in log for v in xs]
                cases.append(f'shared_expire_check {qlit(TOL_E)} {qlit(TOL_S)} {c03.coq_cfg(cb, rcos)} {vqrec.coq_state(state0, 0)} {layers} {qmat(pool)} {vqrec.coq_state(final, 0)}')
                meta.append(dict(kind='rvq-shared', kw=kw, step=t, head='all', mode='train'))
                nontrivial += 1
    # shared codebook + quantize DROPOUT + dead-code revival (round 11, seed C11-k): the layers a step drops receive nothing, so the pool the end-of-step
    # revival draws from is the input of the layers that RAN - the residual left after the last active layer is nobody's input.  Explicit dropout seeds
    # chosen so that at least one layer is dropped; enumerated, not sampled.
    import random as _pyr
    for fi in range(8 if not ctx.thorough else 32):
        d_f, K_f, nq_f = [2, 3][fi % 2], [6, 10][(fi // 2) % 2], [3, 4][(fi // 4) % 2]
        rcos_f = fi % 4 == 3
        kw_f = dict(dim=d_f, num_quantizers=nq_f, codebook_size=K_f, shared_codebook=True, decay=[0.5, 0.0][fi % 2], threshold_ema_dead_code=[1, 2][(fi // 2) % 2], use_cosine_sim=rcos_f, quantize_dropout=True)
        try:
            frng = _pyr.Random(31 + fi)
            rvq_f = ResidualVQ(**kw_f)
            vqrec.set_codebook_grid(rvq_f.layers[0], frng)
            rvq_f.train()
            cb_f = rvq_f.layers[0]._codebook
            seed_f = next(s_ for s_ in range(1000) if _pyr.Random(s_).randrange(0, nq_f) == fi % (nq_f - 1))      # keeps layers 0..r, r < nq - 1
            x_f = vqrec.grid(frng, (2, 3, d_f))
            log_f = []
            orig_f = cb_f.forward

            def wrapped_f(xin, *a, **k):
                out_ = orig_f(xin, *a, **k)
                log_f.append((xin.detach().double().reshape(-1, xin.shape[-1]).tolist(), out_[1].reshape(-1).tolist()))
                return out_
            cb_f.forward = wrapped_f
            try:
                state0_f = vqrec.cb_state(cb_f)
                ret_f = rvq_f(x_f, rand_quantize_dropout_fixed_seed=seed_f)
            finally:
                del cb_f.forward
            evaluations += 1
            dist['rvq_shared_with_dropout'] = dist.get('rvq_shared_with_dropout', 0) + 1
            n_ran = len(log_f)
            if not (1 <= n_ran < nq_f):
                failures.append({'key': 'rvq-shared-dropout:setup', 'what': f'ResidualVQ({kw_f}) seed {seed_f}: {n_ran} layers ran (expected fewer than {nq_f})', 'case': dict(kw=kw_f)})
                continue
            final_f = vqrec.cb_state(cb_f)
            layers_f = '[' + '; '.join(f'({qmat(xs_)}, {natlist(idx_)})' for xs_, idx_ in log_f) + ']'
            pool_f = [v_ for xs_, _ in log_f for v_ in xs_]
            cases.append(f'shared_expire_check {qlit(TOL_E)} {qlit(TOL_S)} {c03.coq_cfg(cb_f, rcos_f)} {vqrec.coq_state(state0_f, 0)} {layers_f} {qmat(pool_f)} {vqrec.coq_state(final_f, 0)}')
            meta.append(dict(kind='rvq-shared-dropout', kw=kw_f, step=0, head='all', mode='train'))
            nontrivial += 1
        except Exception as ex:
            failures.append({'key': f'rvq-shared-dropout:exception:{type(ex).__name__}', 'what': f'ResidualVQ({kw_f}): {ex!r}'[:300], 'case': dict(kw=kw_f)})
    bad, broken = core.run_cases(ctx, 'c11', HEADER, cases, per_file=40)
    for name, out in broken:
        failures.append({'key': f'coq-eval:{name}', 'what': 'case file did not evaluate: ' + out, 'case': {'file': name}})
    for i, code in sorted(bad.items()):
        m = meta[i]
        failures.append({'key': f'{m["kind"]}:code{code}:thr={m["kw"].get("threshold_ema_dead_code")}:cos={m["kw"].get("use_cosine_sim", False)}:mode={m.get("mode")}',
                         'what': f'{m["kind"]} {m["kw"]} step {m["step"]} head/layer {m.get("head")} ({m.get("mode")}): {CODES.get(code, code)}',
                         'case': dict(m, code=code, term=cases[i][:30000])})
    return {'evaluations': evaluations, 'distinct_nontrivial': nontrivial,
            'rule': 'one case = one recorded codebook call stepped through EMA -> normalise -> expiry inside Coq; the replacements are read off the post-state at the positions the model marks dead and must be pool members; '
                    'non-trivial = at least one code below and one at/above the threshold after the EMA',
            'samples': samples, 'failures': failures, 'distribution': dist}


def replay_case(ctx, case):
    return c03.replay_case(ctx, case)

"""C14 — k-means initialisation happens exactly once, from the data."""
import random, copy
from fractions import Fraction
from vlib import core, vqrec
from vlib.core import qlit, qvec, qmat, coqbool, natlist, blist
from props import c03

OBLIGATIONS = dict(
    prop_file='Properties/C14.v',
    glue=['Glue/CoreGlue.v', 'Glue/Pin_p_kmeans.v', 'Glue/Pin_inv_euclid.v', 'Glue/Pin_inv_cosine.v'] + ['Glue/Pin_fp_C14.v'],
    extra=['Model/CoreCheck.vo'],
    gen_items=['g_euclid_kmeans', 'g_cosine_kmeans', 'p_kmeans', 'o_kmeans_collectives', 'inv_euclid', 'inv_cosine', 'fp_C14'],
)
ASSUMPTIONS = [
    'the initial means are an oracle (torch.randperm / randint inside sample_vectors): contract = each seed is a row of the valid-token data; the harness captures them by wrapping the module instance\'s sample_fn from outside',
    'one k-means iteration of the implementation is compared with the model on inputs without near-tie assignments (cases with a relative distance gap below 1e-4 are discarded and counted); the loop itself is checked implementation-vs-implementation bit-exactly',
]
HEADER = c03.HEADER
CODES = {1: 'cluster sizes do not add up to the number of valid tokens', 2: 'running sums differ from code * count', 3: 'count-weighted sum of codes differs from the sum of the data',
         4: 'an initial mean is not a row of the (valid) data', 5: 'initted flag not set after the first call', 6: 'a cluster size is negative or fractional', 7: 'a code lies outside the bounding box of the data',
         11: 'one k-means iteration: bins differ from the model', 12: 'one k-means iteration: new means differ from the model'}


def near_tie(data, means, cosine):
    """True if some point has two candidate means whose scores are relatively closer than 1e-4 (exact rational arithmetic)"""
    for x in data:
        sc = []
        for m in means:
            if cosine:
                sc.append(-sum(Fraction(a) * Fraction(b) for a, b in zip(x, m)))
            else:
                sc.append(sum((Fraction(a) - Fraction(b)) ** 2 for a, b in zip(x, m)))
        s = sorted(sc)
        if len(s) > 1:
            gap = s[1] - s[0]
            scale = max(abs(s[0]), abs(s[1]), Fraction(1, 1000))
            if gap < scale / 10 ** 4:
                return True
    return False


def correspond(ctx, scale):
    import torch
    import vector_quantize_pytorch.vector_quantize_pytorch as vqm
    from vector_quantize_pytorch import VectorQuantize, ResidualVQ
    rng = ctx.rng
    cases, meta, failures, samples = [], [], [], []
    evaluations = nontrivial = 0
    dist = {'iter_cases': 0, 'iter_discarded_near_tie': 0, 'init_eval_first': 0, 'big_first_batch': 0, 'init_train_first': 0, 'masked': 0, 'cosine': 0, 'more_codes_than_tokens': 0, 'empty_cluster': 0,
            'loop_vs_iterated': 0, 'reload_deepcopy': 0, 'rvq': 0, 'heads': 0}
    n = (40 if not ctx.thorough else 300) * scale
    # ---------- (a) one iteration of the implementation's kmeans() against the model
    for ci in range(n):
        cosine = rng.random() < 0.3
        d = rng.choice([1, 2, 3])
        N = rng.choice([1, 2, 4, 7, 12])
        K = rng.choice([1, 2, 3, 5])
        data = vqrec.grid(rng, (1, N, d), den=8, lim=40)
        if rng.random() < 0.3 and N > 2:
            data[0, N // 2:] = data[0, :N - N // 2] + (0.125 if rng.random() < 0.5 else 0.0)   # clustered / duplicated points
        if cosine:
            data = vqm.l2norm(data)
        means = data[:, [rng.randrange(N) for _ in range(K)]].clone()
        if rng.random() < 0.3:
            means = means + vqrec.grid(rng, tuple(means.shape), den=8, lim=4)
            if cosine:
                means = vqm.l2norm(means)
        dl, ml = data[0].double().tolist(), means[0].double().tolist()
        if near_tie(dl, ml, cosine):
            dist['iter_discarded_near_tie'] += 1
            continue
        new_means, bins = vqm.kmeans(data, K, num_iters=1, use_cosine_sim=cosine, sample_fn=lambda s, k: means.clone())
        evaluations += 1
        dist['iter_cases'] += 1
        dist['cosine'] += cosine
        bl = bins[0].double().tolist()
        dist['empty_cluster'] += any(b == 0 for b in bl)
        nontrivial += sum(1 for b in bl if b > 0) >= 2
        cases.append(f'(match kmeans_iter_check {coqbool(cosine)} {qlit(Fraction(1, 10 ** 5))} {qlit(Fraction(1, 10 ** 6))} {qmat(dl)} {qmat(ml)} {qmat(new_means[0].double().tolist())} {qvec(bl)} with O => O | c => (10 + c)%nat end)')
        meta.append(dict(kind='iteration', cosine=cosine, N=N, K=K, d=d))
        # the loop: n iterations of the implementation = the 1-iteration function iterated n times (bit-exact)
        iters = rng.choice([2, 3, 5])
        m_loop, b_loop = vqm.kmeans(data, K, num_iters=iters, use_cosine_sim=cosine, sample_fn=lambda s, k: means.clone())
        cur = means.clone()
        for _ in range(iters):
            cur, b_it = vqm.kmeans(data, K, num_iters=1, use_cosine_sim=cosine, sample_fn=lambda s, k, cur=cur: cur.clone())
        # a seeding function that returns a VIEW of the data (sample_fn = lambda samples, num: samples[:, :num], a subclass override): k-means reads
        # its seeds, it does not write through them - the data are untouched and the result is that of the same seeds handed over as a copy
        if N >= K:
            data_v = data.clone()
            m_view, b_view = vqm.kmeans(data_v, K, num_iters=iters, use_cosine_sim=cosine, sample_fn=lambda s, k: s[:, :k])
            m_copy, b_copy = vqm.kmeans(data.clone(), K, num_iters=iters, use_cosine_sim=cosine, sample_fn=lambda s, k: s[:, :k].clone())
            dist['view_seed_kmeans'] = dist.get('view_seed_kmeans', 0) + 1
            if not torch.equal(data_v, data) or not (torch.equal(m_view, m_copy) and torch.equal(b_view, b_copy)):
                failures.append({'key': 'kmeans-view-seeds', 'what': f'kmeans(num_iters={iters}) with a seeding function that returns a view of the data: '
                                 + ('the data were modified in place' if not torch.equal(data_v, data) else 'the result differs from the same seeds handed over as a copy') + f' (N={N}, K={K}, cosine={cosine})',
                                 'case': dict(kind='view-seeds', data=dl, iters=iters, cosine=cosine)})
        dist['loop_vs_iterated'] += 1
        if not (torch.equal(cur, m_loop) and torch.equal(b_it, b_loop)):
            failures.append({'key': 'kmeans-loop', 'what': f'kmeans(num_iters={iters}) differs from iterating one iteration {iters} times (N={N}, K={K}, cosine={cosine})',
                             'case': dict(kind='loop', data=dl, means=ml, iters=iters, cosine=cosine)})
    # ---------- (b) the module: first call initialises from the valid tokens; invariants on the resulting state; once only
    for ci in range(n):
        cosine = rng.random() < 0.3
        d = rng.choice([2, 3])
        heads = rng.choice([1, 1, 2])
        sep = heads > 1
        K = rng.choice([1, 2, 4, 8])
        big = ci % 6 == 5
        if big:
            K = rng.choice([1, 2])
        shared_heads_masked = ci % 9 == 8
        if shared_heads_masked:
            heads, sep, K = 2, False, 4          # several heads SHARING one codebook, a ragged mask (rows differ), several samples: tokens are laid out (b h n)
        if ci % 6 == 4:
            cosine = False          # first call under CPU autocast (below): the Euclidean sum invariant is the one that sees low-precision centroid sums
        if ci % 7 == 6:
            heads, sep, K = 2, True, 8          # separate codebooks per head with MORE codes than the first batch has tokens (set below)
        if ci % 5 == 2 and (ci // 5) % 3 == 0:
            K, cosine = [1, 2, 1, 3][(ci // 15) % 4], False          # sign-symmetric first batch (below): few codes, so that a cluster's members cancel exactly
        iters = rng.choice([1, 2, 5, 10, 20])
        kw = dict(dim=d * heads, codebook_dim=d, heads=heads, separate_codebook_per_head=sep, codebook_size=K, kmeans_init=True, kmeans_iters=iters,
                  use_cosine_sim=cosine, decay=0.5, threshold_ema_dead_code=(2 if ci % 4 == 1 else 0))     # with expiry configured the initialising PURE call must still only initialise
        vq = VectorQuantize(**kw)
        cb = vq._codebook
        seeds_log = []
        orig_sample = cb.sample_fn

        def sample_wrap(samples, num, orig_sample=orig_sample, seeds_log=seeds_log):
            out = orig_sample(samples, num)
            seeds_log.append(out.detach().clone())
            return out
        cb.sample_fn = sample_wrap
        b, nn_ = rng.choice([(1, 2), (2, 3), (2, 6), (3, 5)])
        if ci % 7 == 6:
            b, nn_ = 1, 2 + (ci // 7) % 2
        if big:
            b, nn_ = 4, 80 * K + rng.choice([1, 17])       # many more tokens than codes (hundreds per code)
            dist['big_first_batch'] += 1
        x = vqrec.grid(rng, (b, nn_, d * heads), den=8, lim=40)
        if ci % 5 == 2 and nn_ >= 2:
            # STRUCTURED first batches: sign-symmetric (every token next to its negation: a cluster's members cancel, its mean is exactly 0), duplicated
            # tokens, tokens on a line - the mean of a cluster is its mean whatever it happens to be
            half = x[:, : nn_ // 2]
            kind_s = ['symmetric', 'duplicates', 'collinear'][(ci // 5) % 3]
            if kind_s == 'symmetric':
                x = torch.cat([half, -half] + ([torch.zeros(b, 1, d * heads)] if nn_ % 2 else []), dim=1)
            elif kind_s == 'duplicates':
                x = torch.cat([half, half] + ([half[:, :1]] if nn_ % 2 else []), dim=1)
            else:
                x = x[:, :1] * torch.tensor([float(j - nn_ // 2) for j in range(nn_)])[None, :, None]
            dist['structured_first_batches'] = dist.get('structured_first_batches', 0) + 1
        kwargs = {}
        masked = rng.random() < 0.35 and nn_ > 1
        if shared_heads_masked:
            b, nn_, masked = 3, 6, True
            x = vqrec.grid(rng, (b, nn_, d * heads), den=8, lim=40)
        if masked:
            m = torch.tensor([[rng.random() < 0.6 for _ in range(nn_)] for _ in range(b)])
            m[:, 0] = True
            if shared_heads_masked:
                m = torch.arange(nn_)[None, :] < torch.tensor([6, 2, 4])[:, None]
            kwargs['mask'] = m
            x = torch.where(m[..., None], x, torch.full_like(x, 1e6 if rng.random() < 0.5 else -3e4))   # adversarial padding
        first_mode = rng.choice(['eval', 'train', 'frozen'])
        if big or ci % 7 == 6 or (ci % 5 == 2 and nn_ >= 2) or ci % 6 == 4 or shared_heads_masked:
            first_mode = ['eval', 'frozen'][(ci // 6) % 2]       # the initialisation invariants are read off a pure first call: big batches always get one
        vq.train(first_mode != 'eval')
        if first_mode == 'frozen':
            kwargs['freeze_codebook'] = True
        import contextlib
        if ci % 4 == 1:
            # a PARTIAL checkpoint loaded before the first batch (strict=False: only some keys, or none - the codebook is absent from it): what is not
            # in the checkpoint stays as constructed, the first batch still initialises the codebook
            try:
                sd_full = vq.state_dict()
                part = {k_: v_.clone() for k_, v_ in sd_full.items() if '_codebook' not in k_} if ci % 8 == 1 else {}
                vq.load_state_dict(part, strict=False)
                dist['partial_checkpoint_before_first_batch'] = dist.get('partial_checkpoint_before_first_batch', 0) + 1
            except Exception as ex:
                failures.append({'key': f'vq:partial-load:exception:{type(ex).__name__}', 'what': f'VectorQuantize({kw}).load_state_dict(partial, strict=False) raised {ex!r}', 'case': dict(kw=kw)})
        if ci % 4 == 3:
            # a first call that RAISES (an all-padding batch gives k-means nothing to sample from; an input of the wrong width) must leave the
            # module untouched: the next, valid call is then the initialising one ("initialised exactly once, from the first batch")
            st0 = {k: v.clone() for k, v in vq.state_dict().items()}
            for bad_kind in ('all-padding', 'wrong-width'):
                try:
                    if bad_kind == 'all-padding':
                        vq(x.clone(), mask=torch.zeros(b, nn_, dtype=torch.bool))
                    else:
                        vq(torch.randn(b, nn_, d * heads + 1))
                    raised = False
                except Exception:
                    raised = True
                dist['raising_first_calls'] = dist.get('raising_first_calls', 0) + int(raised)
                if raised:
                    st1 = vq.state_dict()
                    changed = [k for k in st0 if not torch.equal(st0[k], st1[k])]
                    if changed:
                        failures.append({'key': f'vq:failed-first-call-changed-state:{bad_kind}', 'what': f'VectorQuantize({kw}): a first call that raised ({bad_kind}) changed {changed[:3]}',
                                         'case': dict(kw=kw, kind=bad_kind)})
                else:
                    break       # the call went through: it WAS the first call; the invariants below would be about the wrong batch
            if not raised:
                continue
            seeds_log.clear()
        autocast_first = (ci % 6 == 4) and first_mode != 'train'       # (a training first call under CPU autocast raises in the unchanged library: lerp dtype)
        try:
            # the initialisation arithmetic must not depend on the ambient autocast mode of the first call
            with (torch.autocast('cpu', dtype=torch.bfloat16) if autocast_first else contextlib.nullcontext()):
                ret, recs = vqrec.record_call(vq, x, **kwargs)
            dist['first_call_under_autocast'] = dist.get('first_call_under_autocast', 0) + int(autocast_first)
        except Exception as ex:
            failures.append({'key': f'vq:exception:{type(ex).__name__}', 'what': f'VectorQuantize({kw}) first call raised {ex!r}', 'case': dict(kw=kw)})
            continue
        evaluations += 1
        rec = recs[0]
        dist['masked'] += masked
        dist['cosine'] += cosine
        dist['heads'] += heads > 1
        dist['init_train_first' if first_mode == 'train' else 'init_eval_first'] += 1
        seeds = seeds_log[0] if seeds_log else None
        for h in range(rec.H):
            valid = rec.mask[h] if rec.mask is not None else [True] * len(rec.xs[h])
            data = [v for v, ok in zip(rec.xs[h], valid) if ok]
            dist['more_codes_than_tokens'] += K > len(data)
            sd = seeds[h].double().tolist() if seeds is not None else []
            if first_mode != 'train':
                cases.append(f'kmeans_state_check {coqbool(cosine)} {qlit(Fraction(1, 10 ** 5))} {qmat(data)} {qmat(sd)} {vqrec.coq_state(rec.after, h)}')
                meta.append(dict(kind='init-state', kw=kw, first_mode=first_mode, masked=masked, head=h))
            if not cosine and first_mode != 'train':   # a training first call also runs one EMA step, which sends an empty cluster's seed to the origin (still in the span)
                cases.append(f'kmeans_box_check {qlit(Fraction(1, 10 ** 5))} {qmat(data)} {vqrec.coq_state(rec.after, h)}')
                meta.append(dict(kind='init-box', kw=kw, first_mode=first_mode, masked=masked, head=h))
            nontrivial += len(set(map(tuple, data))) >= 2
            if len(samples) < 3:
                samples.append(dict(kw=kw, first_mode=first_mode, masked=masked, cluster_size=rec.after['cluster_size'][h], n_valid=len(data)))
        if not rec.after['initted']:
            failures.append({'key': 'initted-not-set', 'what': f'{kw}: initted still false after the first call', 'case': dict(kw=kw)})
        # exactly once: later calls, reloads and copies never re-initialise (sample_fn must not be called again)
        n_before = len(seeds_log)
        st_after = {k: v.clone() for k, v in vq.state_dict().items()}
        vq.eval()
        vq(vqrec.grid(rng, (b, nn_, d * heads)))
        vq2 = VectorQuantize(**kw)
        calls2 = []
        vq2._codebook.sample_fn = lambda s, k: (calls2.append(1), orig_sample(s, k))[1]
        vq2.load_state_dict(vq.state_dict())
        vq2.eval()
        vq2(vqrec.grid(rng, (b, nn_, d * heads)))
        vq3 = copy.deepcopy(vq)
        vq3.train()
        vq3(vqrec.grid(rng, (b, nn_, d * heads)), freeze_codebook=True)
        dist['reload_deepcopy'] += 1
        if len(seeds_log) != n_before or calls2:
            failures.append({'key': 'reinitialised', 'what': f'{kw}: k-means ran again after the first call (later call / state_dict reload / deepcopy)', 'case': dict(kw=kw)})
        from vlib import impl
        ok, why = impl.blobs_equal(st_after, {k: v.clone() for k, v in vq.state_dict().items()})
        ok2, why2 = impl.blobs_equal(st_after, {k: v.clone() for k, v in vq2.state_dict().items()})
        ok3, why3 = impl.blobs_equal(st_after, {k: v.clone() for k, v in vq3.state_dict().items()})
        if not (ok and ok2 and ok3):
            failures.append({'key': 'state-changed-after-init', 'what': f'{kw}: state changed by a pure call after initialisation ({why} {why2} {why3})', 'case': dict(kw=kw)})
    # ---------- (c) ResidualVQ layers: each layer initialises from the residual it receives, once
    for ci in range(max(2, n // 5)):
        rvq = ResidualVQ(dim=2, num_quantizers=2, codebook_size=3, kmeans_init=True, kmeans_iters=3)
        rvq.eval()
        x = vqrec.grid(rng, (2, 5, 2), den=8, lim=40)
        rvq(x)
        evaluations += 1
        dist['rvq'] += 1
        for li, layer in enumerate(rvq.layers):
            st = vqrec.cb_state(layer._codebook)
            if not st['initted'] or abs(sum(st['cluster_size'][0]) - 10) > 1e-6:
                failures.append({'key': 'rvq-layer-init', 'what': f'ResidualVQ layer {li}: initted={st["initted"]} sum(cluster_size)={sum(st["cluster_size"][0])} (expected 10 tokens)', 'case': dict(layer=li)})
    # ---------- (d) a LIVE checkpoint handle taken before the first batch (round 11, seed C14-k): module.state_dict() hands out views of the buffers; the
    # initialisation writes INTO the buffers (flag included), so the handle shows the initialised, trained state - and restoring it later (into a fresh
    # module, or into the trained module itself) must not make the next call initialise again
    import copy as _copy
    for hi in range(6 if not ctx.thorough else 18):
        cos_h = hi % 2 == 1
        kind_h = ['vq', 'vq-heads', 'rvq'][(hi // 2) % 3]
        try:
            torch.manual_seed(9200 + hi)
            def mk_h():
                if kind_h == 'vq':
                    return VectorQuantize(dim=2, codebook_size=4, kmeans_init=True, kmeans_iters=2, use_cosine_sim=cos_h, decay=0.5)
                if kind_h == 'vq-heads':
                    return VectorQuantize(dim=4, codebook_dim=2, heads=2, separate_codebook_per_head=True, codebook_size=4, kmeans_init=True, kmeans_iters=2, use_cosine_sim=cos_h, decay=0.5)
                return ResidualVQ(dim=2, num_quantizers=2, codebook_size=4, kmeans_init=True, kmeans_iters=2, use_cosine_sim=cos_h, decay=0.5)
            mod_h = mk_h()
            handle = mod_h.state_dict()                      # live views, taken BEFORE the first batch
            mod_h.train()
            dim_h = 4 if kind_h == 'vq-heads' else 2
            for _ in range(2):
                mod_h(torch.randn(2, 12, dim_h))
            evaluations += 1
            dist['live_handle_histories'] = dist.get('live_handle_histories', 0) + 1
            now = mod_h.state_dict()
            stale = [k_ for k_ in now if k_ in handle and not torch.equal(torch.nan_to_num(handle[k_].float()), torch.nan_to_num(now[k_].float()))]
            if stale:
                failures.append({'key': f'{kind_h}:live-handle-stale:{stale[0].split(".")[-1]}', 'what': f'{kind_h} (cosine={cos_h}): the state_dict() handle taken before the first batch no longer shows the module state after training: '
                                 f'{stale[:3]} (an initialisation that rebinds a buffer instead of writing into it)', 'case': dict(kind=kind_h, cosine=cos_h)})
                continue
            # restoring the handle: a fresh module, and the trained module itself (a no-op)
            fresh_h = mk_h()
            fresh_h.load_state_dict({k_: v_.clone() for k_, v_ in handle.items()})
            mod_h.load_state_dict(handle)
            for nm_h, m_h in (('fresh module', fresh_h), ('the trained module itself', mod_h)):
                m_h.eval()
                before_h = {k_: v_.clone() for k_, v_ in m_h.state_dict().items()}
                with torch.no_grad():
                    m_h(torch.randn(2, 12, dim_h) * 3.0)
                ch_h = [k_ for k_, v_ in m_h.state_dict().items() if not torch.equal(torch.nan_to_num(v_.float()), torch.nan_to_num(before_h[k_].float()))]
                if ch_h:
                    failures.append({'key': f'{kind_h}:live-handle-restore-reinitialises', 'what': f'{kind_h} (cosine={cos_h}): after restoring the construction-time state_dict() handle into {nm_h}, '
                                     f'an evaluation call changed {ch_h[:3]} (the codebook was initialised a second time)', 'case': dict(kind=kind_h, cosine=cos_h)})
                    break
        except Exception as ex:
            failures.append({'key': f'{kind_h}:live-handle:exception:{type(ex).__name__}', 'what': repr(ex)[:200], 'case': dict(kind=kind_h, cosine=cos_h)})
    bad, broken = core.run_cases(ctx, 'c14', HEADER, cases, per_file=40)
    for name, out in broken:
        failures.append({'key': f'coq-eval:{name}', 'what': 'case file did not evaluate: ' + out, 'case': {'file': name}})
    for i, code in sorted(bad.items()):
        m = meta[i]
        failures.append({'key': f'{m["kind"]}:code{code}:cos={m.get("cosine", m.get("kw", {}).get("use_cosine_sim"))}', 'what': f'{m}: {CODES.get(code, code)}',
                         'case': dict(m, code=code, term=cases[i][:30000])})
    return {'evaluations': evaluations, 'distinct_nontrivial': nontrivial,
            'rule': 'one case = one k-means iteration of the implementation replicated by the model in Coq (bins exact, means 1e-5), or one first call of a kmeans_init module (eval / frozen / train first, masks with adversarial padding, '
                    'more or fewer tokens than codes) whose resulting state is checked against the C14 invariants in Coq; plus loop-vs-iterated and once-only (later call, reload, deepcopy) checks; non-trivial = at least two non-empty clusters / distinct rows',
            'samples': samples, 'failures': failures, 'distribution': dist}


def replay_case(ctx, case):
    return c03.replay_case(ctx, case)

"""C02 — returned indices decode back to the quantized output."""
import random, copy
from fractions import Fraction
from vlib import core, vqrec
from vlib.core import qlit, qvec, qmat, coqbool, natlist, blist, zlist

OBLIGATIONS = dict(
    prop_file='Properties/C02.v',
    glue=['Glue/CoreGlue.v', 'Glue/CodecGlue.v', 'Glue/Pin_p_residual.v', 'Glue/Pin_p_decode.v', 'Glue/EinopsGlueBase.v', 'Glue/EinopsGlueMore.v'] + ['Glue/Pin_fp_C02.v', 'Glue/GroupCatGlue.v'],
    extra=['Model/ResidualCheck.vo'],
    gen_items=['p_residual', 'p_decode', 'pat_vq_decode', 'pat_fsq_decode', 'pat_lfq_decode', 'pat_rvq_decode', 'p_fsq_codec', 'p_lfq_codec', 'p_lq_codec', 'pr_more', 'pr_scalar', 'fp_C02'],
)
ASSUMPTIONS = [
    'project_out and SimVQ.code_transform are opaque functions applied by the module itself on both paths',
    'bit-exact equality is required for FSQ / LFQ (and their residual forms) in evaluation mode; 1e-5 (abs) / 1e-4 (rel) otherwise',
]
HEADER = '''From Coq Require Import ZArith QArith List Bool.
From VQ Require Import Num Model.Vec Model.Core Model.CoreCheck Model.Residual Model.ResidualCheck.
Import ListNotations.
Open Scope Q_scope.
'''


def close(a, b, exact):
    import torch
    if a.shape != b.shape:
        return False, f'shape {tuple(a.shape)} vs {tuple(b.shape)}'
    if exact:
        return bool(torch.equal(a, b)), f'max abs diff {(a - b).abs().max().item():g} (bit-exact required)'
    return bool(torch.allclose(a, b, atol=1e-5, rtol=1e-4)), f'max abs diff {(a - b).abs().max().item():g}'


def channel_last(t, layout):
    return t if layout == 'seq' else t.movedim(1, -1)


def correspond(ctx, scale):
    import torch
    from torch import nn
    from vector_quantize_pytorch import (VectorQuantize, ResidualVQ, GroupedResidualVQ, FSQ, LFQ, ResidualFSQ, ResidualLFQ, SimVQ, ResidualSimVQ, LatentQuantize,
                                         GroupedResidualFSQ, GroupedResidualLFQ)
    rng = ctx.rng
    failures, samples, cases, meta = [], [], [], []
    ev = nt = 0
    dist = {}

    def bump(k):
        dist[k] = dist.get(k, 0) + 1

    def fail(key, what, case):
        failures.append({'key': key, 'what': what, 'case': case})

    sample_kinds = {}

    def sample(kind, out, idx, dec, **info):
        # a few of the actual cases of this run, written out for the evidence record (at most two per stratum)
        if sample_kinds.get(kind, 0) >= 2:
            return
        sample_kinds[kind] = sample_kinds.get(kind, 0) + 1
        xs = list(info.pop('x').shape)
        samples.append(dict(info, kind=kind, input_shape=xs, indices=idx.reshape(-1)[:12].tolist(),
                            forward_output_first=out.reshape(-1)[:6].tolist(), decoded_first=dec.reshape(-1)[:6].tolist()))

    shape_counter = [0]

    def shapes(layout, dim, rng):
        # cycled, not sampled: every module meets the extents 1, 2, 3 and 5 (a last spatial extent EQUAL to its number of layers / heads included)
        shape_counter[0] += 1
        b, n = [(2, 3), (1, 1), (2, 5), (2, 2), (1, 3), (2, 4)][shape_counter[0] % 6]
        return {'seq': (b, n, dim), 'cfirst': (b, dim, n), 'image': (b, dim, 2, n), 'video': (b, dim, 2, 2, n)}[layout]

    reps = (2 if not ctx.thorough else 10) * scale
    # ------------------------------------------------------------------ VectorQuantize
    vq_cfgs = []
    for heads, sep in ((1, False), (2, False), (2, True), (3, True)):
        for cosine in (False, True):
            for proj in (False, True):
                for layout in ('seq', 'cfirst', 'image'):
                    vq_cfgs.append((heads, sep, cosine, proj, layout))
    for ci, (heads, sep, cosine, proj, layout) in enumerate(vq_cfgs):
        if not ctx.thorough and ci % 2 == 1 and heads == 3:
            continue
        d = 2
        dim = d * heads + (1 if proj else 0)
        kw = dict(dim=dim, codebook_dim=d, heads=heads, separate_codebook_per_head=sep, codebook_size=5, use_cosine_sim=cosine,
                  channel_last=(layout != 'cfirst'), accept_image_fmap=(layout == 'image'), decay=0.5)
        vq = VectorQuantize(**kw)
        vq.train()
        for _ in range(rng.choice([0, 2])):
            vq(torch.randn(*shapes(layout, dim, rng)))
        for mode in ('eval', 'frozen'):
            vq.train(mode != 'eval')
            x = torch.randn(*shapes(layout, dim, rng))
            ev += 1
            bump('vq')
            key = f'vq:heads={heads}:sep={sep}:proj={proj}:layout={layout}'
            try:
                with torch.no_grad():
                    out, idx, _ = vq(x, **({'freeze_codebook': True} if mode == 'frozen' else {}))
                    dec = vq.get_output_from_indices(idx)
            except Exception as ex:
                fail(key + ':decode-raises', f'VectorQuantize({kw}).get_output_from_indices(indices) raised {type(ex).__name__}: {str(ex)[:150]}', dict(kw=kw, mode=mode))
                continue
            # image feature maps decode with the feature axis last
            want = out.movedim(1, -1) if layout == 'image' else out
            ok, why = close(dec, want, False)
            nt += idx.unique().numel() >= 2
            sample('VectorQuantize', want, idx, dec, x=x, kw=dict(kw), mode=mode, decode_equals_output=ok)
            if not ok:
                fail(key + ':mismatch', f'VectorQuantize({kw}) {mode}: decode(indices) != output: {why}', dict(kw=kw, mode=mode))
            # model tie (no projection, single codebook table per head): the model's table lookup on these indices equals the decoder's output
            if not proj and layout == 'seq':
                codes = vq.get_codes_from_indices(idx)
                cbs = [vq._codebook.embed[h if sep else 0].double().tolist() for h in range(heads)]
                toks = []
                ii = idx.reshape(-1, heads) if heads > 1 else idx.reshape(-1, 1)
                cc = codes.reshape(-1, heads, d)
                for t in range(ii.shape[0]):
                    for h in range(heads):
                        toks.append((h, int(ii[t, h]), cc[t, h].double().tolist()))
                for h in range(heads):
                    sub = [f'({zlist([i])}, {qvec(c)})' for hh, i, c in toks if hh == h]
                    cases.append(f'decode_batch_check 0 [{qmat(cbs[h])}] {d}%nat [{"; ".join(sub)}]')
                    meta.append(dict(kind='vq-decode', kw=kw, head=h))
    # ------------------------------------------------------------------ evaluation-mode calls with AUTOGRAD ON and a grad-requiring input (an encoder trained against a
    # frozen quantizer; round 11, seed C02-k): the emitted vector IS the selected code - bit for bit - for near-silent tokens (norm < 1e-6) and for inputs
    # far larger than the codes alike; a straight-through / rotation rewrite belongs to training only
    for gi in range(12 if not ctx.thorough else 48):
        rot = gi % 2 == 0
        cosine_g = (gi // 2) % 3 == 2
        mag = [1e-8, 1e-7, 1.0, 1e3, 1e5, 1e-30][(gi // 2) % 6]
        kind = ['vq', 'rvq-proj'][(gi // 6) % 2]
        try:
            torch.manual_seed(8400 + gi)
            if kind == 'vq':
                qg = VectorQuantize(dim=3, codebook_size=6, rotation_trick=rot, use_cosine_sim=cosine_g)
            else:
                qg = ResidualVQ(dim=4, codebook_dim=3, num_quantizers=2, codebook_size=6, rotation_trick=rot, use_cosine_sim=cosine_g)
            qg.eval()
            xg = (torch.randn(2, 5, 3 if kind == 'vq' else 4) * mag)
            xg[0, 0] = 0.0
            xg = xg.requires_grad_(True)
            retg = qg(xg)
            outg, idxg = retg[0], retg[1]
            with torch.no_grad():
                decg = qg.get_output_from_indices(idxg)
            ev += 1
            bump('eval-with-autograd')
            okg, whyg = close(decg, outg.detach(), kind == 'vq')
            if not okg:
                fail(f'{kind}:eval-with-autograd:rot={rot}:cos={cosine_g}', f'{kind} (rotation_trick={rot}, cosine={cosine_g}) in evaluation mode, grad-requiring input of magnitude {mag}: decode(indices) != output: {whyg}',
                     dict(kind=kind, rot=rot, cosine=cosine_g, mag=mag))
        except Exception as ex:
            fail(f'{kind}:eval-with-autograd:exception:{type(ex).__name__}', repr(ex)[:200], dict(kind=kind, rot=rot, cosine=cosine_g, mag=mag))
    # ------------------------------------------------------------------ residual stacks: all depths of dropout, every coarse prefix, -1
    def residual_roundtrip(name, mk, dim, layouts, exact_eval, has_freeze, prefix_ok=True, masked=False):
        nonlocal ev, nt
        for layout in layouts:
            for rep in range(reps):
                try:
                    q = mk(layout)
                except Exception as ex:
                    fail(f'{name}:construct', repr(ex), dict(name=name))
                    return
                nq = q.num_quantizers if hasattr(q, 'num_quantizers') else q.rvqs[0].num_quantizers
                # a HISTORY on this one instance: round trips interleaved with training steps, optimiser steps and a state_dict reload
                for mode in ('eval', 'dropout', 'hist-train', 'eval', 'hist-opt', 'eval', 'hist-reload', 'eval', 'dropout'):
                    if mode == 'hist-train':
                        q.train()
                        with torch.no_grad():
                            for _ in range(2):
                                q(torch.randn(*shapes(layout, dim, rng)))
                        bump('history-ops')
                        continue
                    if mode == 'hist-opt':
                        params = [p_ for p_ in q.parameters() if p_.requires_grad]
                        if params:
                            q.train()
                            r_ = q(torch.randn(*shapes(layout, dim, rng)))
                            tot = r_[0].sum() + sum(t_.sum() for t_ in r_[2:] if isinstance(t_, torch.Tensor) and t_.requires_grad)
                            if tot.requires_grad:
                                tot.backward()
                                torch.optim.SGD(params, lr=0.1).step()
                            for p_ in params:
                                p_.grad = None
                            bump('history-ops')
                        continue
                    if mode == 'hist-reload':
                        other = mk(layout)
                        other.train()
                        with torch.no_grad():
                            other(torch.randn(*shapes(layout, dim, rng)))
                        # alternately the default in-place load and `assign=True`, which REPLACES the tensor objects (so does a device move)
                        q.load_state_dict(copy.deepcopy(other.state_dict()), **({'assign': True} if rep % 2 == 1 else {}))
                        bump('history-ops')
                        continue
                    x = torch.randn(*shapes(layout, dim, rng))
                    q.train(mode == 'dropout')
                    kwargs = {}
                    if mode == 'dropout':
                        if has_freeze:
                            kwargs['freeze_codebook'] = True
                        if not name.startswith('g'):
                            kwargs['rand_quantize_dropout_fixed_seed'] = rng.randrange(10000)
                    if masked:
                        # ragged padding mask: padded positions carry index -1 and decode to the image of zero under the output projection
                        bb, nn2 = x.shape[0], x.shape[1]
                        mk_ = torch.arange(nn2)[None, :] < torch.tensor([max(1, nn2 - 1 - (i % 2)) for i in range(bb)])[:, None]
                        kwargs['mask'] = mk_
                    ev += 1
                    bump(name)
                    key = f'{name}:layout={layout}:mode={mode}'
                    try:
                        with torch.no_grad():
                            ret = q(x, **kwargs)
                            out, idx = ret[0], ret[1]
                            dec = q.get_output_from_indices(idx)
                    except Exception as ex:
                        fail(key + ':decode-raises', f'{name} ({layout}, {mode}): get_output_from_indices(indices) raised {type(ex).__name__}: {str(ex)[:150]}', dict(name=name, layout=layout, mode=mode))
                        continue
                    want = out
                    if dec.shape != out.shape and layout in ('image', 'video', 'cfirst'):
                        want = out.movedim(1, -1)      # decoders return the feature axis last
                    ok, why = close(dec, want, exact_eval and mode == 'eval')
                    if not ok and dec.shape == out.shape and layout in ('image', 'video', 'cfirst'):
                        # square extents: the shapes cannot tell whether the decoder returned the feature axis last (its documented layout) - accept that reading
                        ok, why = close(dec, out.movedim(1, -1), exact_eval and mode == 'eval')
                    nt += idx.unique().numel() >= 2
                    sample(name, want, idx, dec, x=x, layout=layout, mode=mode, call_kwargs=sorted(kwargs), decode_equals_output=ok)
                    if not ok:
                        fail(key + ':mismatch', f'{name} ({layout}, {mode}): decode(indices) != output: {why}', dict(name=name, layout=layout, mode=mode))
                        continue
                    # channel-first ResidualFSQ returns indices as 'b q ...': a coarse prefix idx[:, :k] decodes to the partial sum of the first k layers' codes -
                    # whatever the spatial extents are (a last extent equal to the number of layers included)
                    if name == 'rfsq' and layout in ('cfirst', 'image') and mode == 'eval':
                        try:
                            with torch.no_grad():
                                codes_all = q.get_codes_from_indices(idx)              # (q, b, ..., d), feature axis last
                                for k_ in range(1, idx.shape[1]):
                                    dec_k = q.get_output_from_indices(idx[:, :k_])
                                    want_k = q.project_out(codes_all[:k_].sum(dim=0))
                                    bump('rfsq-cfirst-prefix')
                                    if dec_k.shape != want_k.shape or not torch.allclose(dec_k, want_k, atol=1e-5):
                                        fail(f'{name}:layout={layout}:prefix-decode', f'{name} ({layout}, extents {tuple(x.shape)}): the {k_}-layer prefix of the indices decodes to shape {tuple(dec_k.shape)} '
                                             f'(partial sum: {tuple(want_k.shape)})' + ('' if dec_k.shape != want_k.shape else f', max abs diff {float((dec_k - want_k).abs().max()):g}'), dict(name=name, layout=layout, k=k_))
                                        break
                        except Exception as ex:
                            fail(f'{name}:layout={layout}:prefix-decode:exception:{type(ex).__name__}', repr(ex)[:200], dict(name=name, layout=layout))
                    # every coarse prefix decodes to the partial sum of the per-layer codes (sequence layout, ungrouped)
                    if layout == 'seq' and prefix_ok and not name.startswith('g') and mode == 'eval':
                        try:
                            with torch.no_grad():
                                codes = q.get_codes_from_indices(idx)
                                for k in range(1, nq + 1):
                                    if not q.quantize_dropout and k < nq:
                                        continue
                                    part = q.get_output_from_indices(idx[..., :k])
                                    wantp = q.project_out(codes[:k].sum(dim=0)) if hasattr(q, 'project_out') else codes[:k].sum(dim=0)
                                    okp, whyp = close(part, wantp, False)
                                    if not okp:
                                        fail(f'{name}:prefix', f'{name}: decoding the coarse prefix of length {k} differs from the partial sum of the first {k} codes: {whyp}', dict(name=name, k=k))
                                # -1 decodes to a zero contribution
                                idm = idx.clone()
                                idm[..., -1] = -1
                                got = q.get_codes_from_indices(idm)
                                if float(got[-1].abs().max()) != 0.0:
                                    fail(f'{name}:minus-one', f'{name}: index -1 does not decode to a zero contribution', dict(name=name))
                        except Exception as ex:
                            fail(f'{name}:prefix-raises', f'{name}: prefix / -1 decoding raised {type(ex).__name__}: {str(ex)[:150]}', dict(name=name))

    residual_roundtrip('rvq', lambda lay: ResidualVQ(dim=3, num_quantizers=3, codebook_size=5, quantize_dropout=True, accept_image_fmap=(lay == 'image')), 3, ('seq', 'image'), False, True)
    residual_roundtrip('rvq-sizes', lambda lay: ResidualVQ(dim=3, codebook_size=(4, 6, 3), quantize_dropout=True), 3, ('seq',), False, True)
    residual_roundtrip('rvq-shared', lambda lay: ResidualVQ(dim=3, num_quantizers=3, codebook_size=5, shared_codebook=True, quantize_dropout=True), 3, ('seq',), False, True)
    residual_roundtrip('rvq-implicit', lambda lay: ResidualVQ(dim=3, num_quantizers=3, codebook_size=4, implicit_neural_codebook=True, mlp_kwargs=dict(dim_hidden=4, depth=1), quantize_dropout=True), 3, ('seq',), False, True, prefix_ok=False)
    residual_roundtrip('rvq-proj', lambda lay: ResidualVQ(dim=4, codebook_dim=2, num_quantizers=2, codebook_size=5, quantize_dropout=True), 4, ('seq',), False, True)
    residual_roundtrip('rvq-proj-mask', lambda lay: ResidualVQ(dim=4, codebook_dim=2, num_quantizers=2, codebook_size=5, quantize_dropout=True), 4, ('seq',), False, True, masked=True)
    residual_roundtrip('grvq-proj-mask', lambda lay: GroupedResidualVQ(dim=6, groups=2, codebook_dim=2, num_quantizers=2, codebook_size=5, quantize_dropout=True), 6, ('seq',), False, True, masked=True)
    residual_roundtrip('grvq-mask', lambda lay: GroupedResidualVQ(dim=4, groups=2, num_quantizers=2, codebook_size=5), 4, ('seq',), False, True, masked=True)
    residual_roundtrip('grvq', lambda lay: GroupedResidualVQ(dim=4, groups=2, num_quantizers=2, codebook_size=5, quantize_dropout=True, accept_image_fmap=(lay == 'image')), 4, ('seq', 'image'), False, True)
    residual_roundtrip('rfsq', lambda lay: ResidualFSQ(levels=[5, 3], num_quantizers=3, dim=2, quantize_dropout=True, is_channel_first=(lay != 'seq')), 2, ('seq', 'cfirst', 'image'), True, False)
    residual_roundtrip('rfsq-proj', lambda lay: ResidualFSQ(levels=[4, 3], num_quantizers=2, dim=4, quantize_dropout=True), 4, ('seq',), False, False)
    residual_roundtrip('grfsq', lambda lay: GroupedResidualFSQ(dim=4, groups=2, levels=[3, 3], num_quantizers=2, quantize_dropout=True), 4, ('seq',), True, False)
    residual_roundtrip('rlfq', lambda lay: ResidualLFQ(dim=3, codebook_size=8, num_quantizers=3, quantize_dropout=True), 3, ('seq',), True, False)
    residual_roundtrip('grlfq', lambda lay: GroupedResidualLFQ(dim=6, groups=2, codebook_size=8, num_quantizers=2, quantize_dropout=(lay != 'image'), accept_image_fmap=(lay == 'image')), 6, ('seq', 'image'), True, False)
    residual_roundtrip('rsimvq', lambda lay: ResidualSimVQ(dim=3, num_quantizers=3, codebook_size=6, quantize_dropout=True, channel_first=(lay != 'seq')), 3, ('seq', 'cfirst'), False, False)
    # ------------------------------------------------------------------ FSQ / LFQ / SimVQ / LatentQuantize
    single = []
    for levels in ([5, 4], [8, 5, 5], [3], [26, 3], [2, 2, 2]):
        for ncb in (1, 2):
            for sym in (False, True):
                for lay in ('seq', 'cfirst', 'image', 'video'):
                    single.append(('fsq', lambda levels=levels, ncb=ncb, sym=sym, lay=lay: FSQ(levels, num_codebooks=ncb, preserve_symmetry=sym, channel_first=(lay == 'cfirst')), len(levels) * ncb, lay, True))
    for cd in (1, 3, 5):
        for ncb in (1, 2, 3):
            for sph in (False, True):
                for lay in ('seq', 'image'):
                    single.append(('lfq', lambda cd=cd, ncb=ncb, sph=sph: LFQ(codebook_size=2 ** cd, num_codebooks=ncb, spherical=sph, dim=cd * ncb), cd * ncb, lay, True))
    single.append(('fsq-proj', lambda: FSQ([5, 4], dim=6), 6, 'seq', False))
    single.append(('lfq-proj', lambda: LFQ(codebook_size=8, dim=5), 5, 'seq', False))
    for lay in ('seq', 'cfirst'):
        single.append(('simvq', lambda lay=lay: SimVQ(dim=3, codebook_size=7, channel_first=(lay == 'cfirst')), 3, lay, False))
    single.append(('simvq-mlp', lambda: SimVQ(dim=3, codebook_size=7, codebook_transform=nn.Sequential(nn.Linear(3, 6), nn.ReLU(), nn.Linear(6, 3))), 3, 'seq', False))
    for levels in ([5, 4], [6, 3], [3, 3, 3]):
        for opt in (False, True):
            single.append(('latent' + ('-learned' if opt else ''), lambda levels=levels, opt=opt: LatentQuantize(levels=levels, dim=len(levels), optimize_values=opt), len(levels), 'cfirst', False))
    # all-pairs option sets of FSQ and LFQ (vlib/zoo.py); with noise dropout the training output is deliberately not a code: evaluation mode only
    from vlib import zoo
    for kind in ('fsq', 'lfq'):
        for zname, zc, zmk in zoo.class_configs(kind):
            single.append((kind + ('-proj' if zc['proj'] else ''), zmk, zoo.zoo_dim(kind, zc), zc['layout'], not zc['proj'], ('eval',) if zc.get('noise') else ('eval', 'train')))
    for ent in single:
        name, mk, dim, lay, exact = ent[:5]
        modes = ent[5] if len(ent) > 5 else ('eval', 'train')
        if not ctx.thorough and rng.random() < 0.4 and name in ('fsq', 'lfq'):
            continue
        try:
            q = mk()
        except Exception as ex:
            fail(f'{name}:construct', repr(ex), dict(name=name))
            continue
        if name == 'latent-learned':
            # "any preceding training history": let the learned values move
            opt_ = torch.optim.SGD(q.parameters(), lr=0.1, weight_decay=0.5)
            for _ in range(3):
                for p_ in q.parameters():
                    p_.grad = torch.randn_like(p_) * 0.1
                opt_.step()
                opt_.zero_grad()
        for mode in modes:
            q.train(mode == 'train')
            x = torch.randn(*shapes(lay, dim, rng)) * rng.choice([0.5, 1.5])
            if mode == 'eval':
                x = torch.relu(x)          # exact zeros (ReLU-activated / zero-padded features)
                if name.startswith(('lfq', 'fsq', 'latent', 'zoo')) or 'lfq' in name or 'fsq' in name:
                    x = x * -1.0 * -1.0 if ev % 2 == 0 else -torch.relu(-x * -1.0) * -1.0 * -1.0      # half of the runs: the zeros are NEGATIVE zeros (x * mask, -relu(x))
                    if ev % 2 == 1:
                        x = torch.where(x == 0, torch.full_like(x, -0.0), x)
                if name.startswith('simvq'):
                    if lay == 'seq':
                        x[0, 0] = 0.0      # one all-zero input vector, deterministically
                    else:
                        x[0, :, 0] = 0.0
            ev += 1
            bump(name)
            key = f'{name}:layout={lay}:mode={mode}'
            try:
                with torch.no_grad():
                    ret = q(x)
                    out, idx = ret[0], ret[1]
                    dec = q.indices_to_codes(idx)
            except Exception as ex:
                fail(key + ':decode-raises', f'{name} ({lay}, {mode}): indices_to_codes(indices) raised {type(ex).__name__}: {str(ex)[:150]}', dict(name=name, layout=lay, mode=mode))
                continue
            # tokens whose input vector is exactly zero are reported under their own key (rotation trick: see DESIGN, D21)
            zero_tok = None
            if name.startswith('simvq'):
                feat_axis = 1 if lay != 'seq' else -1
                zero_tok = (x.abs().sum(dim=feat_axis, keepdim=True) == 0)
                if bool(zero_tok.any()):
                    zt = zero_tok.expand_as(out)
                    if not torch.allclose(dec[zt], out[zt], atol=1e-5):
                        fail(f'{name}:zero-input-vector', f'{name} ({lay}, {mode}): for an all-zero input vector the forward output is not the code its index decodes to (max diff {(dec[zt] - out[zt]).abs().max().item():g})',
                             dict(name=name, layout=lay, mode=mode))
                    dec, out = torch.where(zt, torch.zeros_like(dec), dec), torch.where(zt, torch.zeros_like(out), out)
            ok, why = close(dec, out, exact and mode == 'eval')
            nt += idx.unique().numel() >= 2
            sample(name, out, idx, dec, x=x, layout=lay, mode=mode, decode_equals_output=ok)
            # other input precisions (projection-free FSQ / LFQ): the returned indices still decode to the returned output, rounded to that precision
            if ok and exact and mode == 'eval' and name in ('fsq', 'lfq'):
                for dt in (torch.float64, torch.bfloat16, torch.float16):
                    try:
                        with torch.no_grad():
                            r2 = q(x.to(dt))
                            o2, i2 = r2[0], r2[1]
                            d2 = q.indices_to_codes(i2)
                    except Exception:
                        continue       # a precision the module rejects is not this property's subject
                    bump('dtype-variants')
                    # float64 inputs are quantized in float64 while the decoder builds float32 codes: equal to float32 precision, not bit-equal
                    if not (torch.allclose(d2.double(), o2.double(), atol=1e-6, rtol=0) if dt == torch.float64 else torch.equal(d2.to(o2.dtype), o2)):
                        fail(f'{name}:dtype={str(dt).split(".")[-1]}:mismatch', f'{name} ({lay}) with {dt} input: indices_to_codes(indices) rounded to the output precision differs from the output by '
                             f'{(d2.to(o2.dtype).float() - o2.float()).abs().max().item():g}', dict(name=name, layout=lay, dtype=str(dt)))
            if not ok:
                fail(key + ':mismatch', f'{name} ({lay}, {mode}): indices_to_codes(indices) != output: {why}', dict(name=name, layout=lay, mode=mode))
        # frozen-module history (vlib/callzoo.frozen_surgery) on a fresh instance: frozen with requires_grad_(False), another checkpoint loaded while frozen,
        # parameters written in place, unfrozen again - at every stage forward and decoder agree on the codebook the module has NOW
        try:
            has_params = any(True for _ in q.parameters())
        except Exception:
            has_params = False
        if has_params and name not in ('latent-learned',):
            from vlib import callzoo
            try:
                q3 = mk()
                for stage in callzoo.frozen_surgery(torch, q3, mk):
                    x3 = torch.randn(*shapes(lay, dim, rng)) + 0.3        # no exactly-zero vectors (D21 is reported above under its own key)
                    with torch.no_grad():
                        r3 = q3(x3)
                        dec3 = q3.indices_to_codes(r3[1])
                    ev += 1
                    bump('frozen-history-calls')
                    if q3.training and name.startswith(('fsq', 'lfq')) and len(ent) > 5 and 'train' not in ent[5]:
                        continue          # noise dropout: the training output is deliberately not a code
                    ok3, why3 = close(dec3, r3[0], False)
                    if not ok3:
                        fail(f'{name}:frozen-history:{stage}:mismatch', f'{name} ({lay}) at stage "{stage}" of a frozen-module history: indices_to_codes(indices) != output: {why3}', dict(name=name, layout=lay, stage=stage))
                        break
            except Exception as ex:
                fail(f'{name}:frozen-history:exception:{type(ex).__name__}', f'{name} ({lay}): {ex!r}', dict(name=name, layout=lay))
    # sub-modules RE-PARAMETRISED by the caller (torch.nn.utils.weight_norm / prune: the effective weight is rebuilt by a forward pre-hook of the
    # projection module, its `.weight` attribute may be stale): forward and decoder both go through the module, so they agree - in training, in
    # evaluation, and after a state_dict reload into a freshly wrapped module
    from vector_quantize_pytorch import VectorQuantize as _VQ, ResidualVQ as _RVQ
    import torch.nn.utils.prune as _prune
    for wi, (wname, wrap) in enumerate((('weight_norm', lambda lin: torch.nn.utils.weight_norm(lin)), ('prune', lambda lin: _prune.l1_unstructured(lin, 'weight', amount=0.3)))):
        for cf_ in (False, True):
            for cls_ in ('vq', 'rvq'):
                if cls_ == 'rvq' and cf_:
                    continue          # ResidualVQ's own projection is channel-last only
                try:
                    def mkw():
                        mw = _VQ(dim=5, codebook_dim=3, codebook_size=7, channel_last=not cf_) if cls_ == 'vq' else _RVQ(dim=5, codebook_dim=3, num_quantizers=2, codebook_size=7, channel_last=not cf_)
                        for pname in ('project_in', 'project_out'):
                            lin = getattr(mw, pname)
                            lin = lin if isinstance(lin, torch.nn.Linear) else lin[0]
                            wrap(lin)
                        return mw
                    mw = mkw()
                    mw.train()
                    ps_ = [p_ for p_ in mw.parameters() if p_.requires_grad]
                    for _ in range(2):
                        xw = torch.randn(2, 5, 4) if cf_ else torch.randn(2, 4, 5)
                        rw = mw(xw)
                        (rw[0].pow(2).sum() + rw[2].sum()).backward()
                        torch.optim.SGD(ps_, lr=0.1).step()
                        for p_ in ps_:
                            p_.grad = None
                    m2 = mkw()
                    m2.load_state_dict(mw.state_dict())
                    for stage, mm_ in (('after-training', mw), ('after-reload', m2)):
                        mm_.eval()
                        xw = torch.randn(2, 5, 4) if cf_ else torch.randn(2, 4, 5)
                        with torch.no_grad():
                            rw = mm_(xw)
                            dw = mm_.get_output_from_indices(rw[1])
                        ow = rw[0].movedim(1, -1) if cf_ else rw[0]
                        if dw.shape != ow.shape and dw.shape == rw[0].shape:
                            ow = rw[0]
                        ev += 1
                        bump('reparametrised-projections')
                        if dw.shape != ow.shape or not torch.allclose(dw, ow, atol=1e-5, rtol=1e-4):
                            fail(f'{cls_}:reparametrised-projection:{wname}:{stage}', f'{cls_} (channel_first={cf_}) with its projections wrapped by {wname}, {stage}: get_output_from_indices(indices) differs from the '
                                 f'forward output by {float((dw - ow).abs().max()) if dw.shape == ow.shape else "shape"}', dict(cls=cls_, wrap=wname, stage=stage, channel_first=cf_))
                except Exception as ex:
                    fail(f'{cls_}:reparametrised-projection:{wname}:exception:{type(ex).__name__}', repr(ex), dict(cls=cls_, wrap=wname))
    bad, broken = core.run_cases(ctx, 'c02', HEADER, cases, per_file=40)
    for name, out in broken:
        fail(f'coq-eval:{name}', 'case file did not evaluate: ' + out, {'file': name})
    for i, code in sorted(bad.items()):
        fail(f'vq-decode:model', f'{meta[i]}: the model\'s table lookup on the returned indices differs from get_codes_from_indices', dict(meta[i], term=cases[i][:20000]))
    return {'evaluations': ev, 'distinct_nontrivial': nt,
            'rule': 'for every class x layout x mode that does not update the codebook: decode(indices returned by forward) vs the forward output (bit-exact for FSQ/LFQ and residual forms in eval, 1e-5 otherwise); '
                    'image layouts decode with the feature axis last; every dropout depth, every coarse prefix, index -1; the model\'s decoder evaluated in Coq on the returned indices; non-trivial = at least two distinct indices',
            'samples': samples, 'failures': failures, 'distribution': dist}


def replay_case(ctx, case):
    return True, 're-run the check: %s' % ({k: v for k, v in case.items() if k != "term"},)

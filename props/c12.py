"""C12 — quantize-dropout keeps a prefix of layers and nulls the rest."""
import os
import random, itertools
from vlib import core
from vlib.core import zlit, blist

OBLIGATIONS = dict(
    prop_file='Properties/C12.v',
    glue=['Glue/DropoutGlue.v'] + ['Glue/Pin_fp_C12.v', 'Glue/DropIndepGlue.v'],
    extra=['Model/Dropout.vo'],
    gen_items=[f'{k}_{t}_{s}' for t in ('rvq', 'rfsq', 'rlfq', 'rsvq') for k, s in (('k', 'skip'), ('k', 'drop_index'), ('g', 'should_dropout'), ('g', 'dropout_enabled'))] + ['o_dropped_branch', 'fp_C12'],
)
ASSUMPTIONS = [
    "Python's random.Random(seed).randrange is an oracle: its value r is recorded per seed and only its contract cutoff <= r < n is used by the theorems",
    'that every in-contract r is hit by some seed in [0,10000) is finite recorded data, re-tabulated and checked in Coq on every run',
]
HEADER = '''From Coq Require Import ZArith List Bool.
From VQ Require Import Model.Dropout.
Import ListNotations.
Open Scope Z_scope.
'''


def make(cls, n, cutoff, m, image=False):
    import torch
    from vector_quantize_pytorch import (ResidualVQ, ResidualFSQ, ResidualLFQ, ResidualSimVQ, GroupedResidualVQ,
                                         GroupedResidualFSQ, GroupedResidualLFQ)
    kw = dict(num_quantizers=n, quantize_dropout=True, quantize_dropout_cutoff_index=cutoff, quantize_dropout_multiple_of=m)
    if cls == 'ResidualVQ':
        return ResidualVQ(dim=4, codebook_size=5, accept_image_fmap=image, **kw)
    if cls == 'ResidualFSQ':
        return ResidualFSQ(levels=[3, 3], dim=2, is_channel_first=image, **kw)
    if cls == 'ResidualLFQ':
        return ResidualLFQ(dim=3, codebook_size=8, **kw)
    if cls == 'ResidualSimVQ':
        return ResidualSimVQ(dim=4, codebook_size=6, channel_first=image, **kw)
    if cls == 'GroupedResidualVQ':
        return GroupedResidualVQ(dim=8, groups=2, codebook_size=5, accept_image_fmap=image, **kw)
    if cls == 'GroupedResidualFSQ':
        return GroupedResidualFSQ(dim=4, groups=2, levels=[3, 3], **kw)
    if cls == 'GroupedResidualLFQ':
        return GroupedResidualLFQ(dim=6, groups=2, codebook_size=8, **kw)
    raise KeyError(cls)


DIMS = {'ResidualVQ': 4, 'ResidualFSQ': 2, 'ResidualLFQ': 3, 'ResidualSimVQ': 4, 'GroupedResidualVQ': 8,
        'GroupedResidualFSQ': 4, 'GroupedResidualLFQ': 6}
IMAGE_OK = {'ResidualVQ', 'ResidualFSQ', 'ResidualSimVQ', 'GroupedResidualVQ'}


def run_one(q, cls, n, seed, image, train=True):
    """returns (flags per group list[list[bool]], problems list[str], seed_used)"""
    import torch
    import vector_quantize_pytorch.residual_vq as m_rvq, vector_quantize_pytorch.residual_fsq as m_rfsq, vector_quantize_pytorch.residual_lfq as m_rlfq
    d = DIMS[cls]
    x = torch.randn(2, d, 3, 2) if image else torch.randn(2, 5, d)
    # the depth depends on the seed only, not on the DATA: structured inputs whose residual vanishes early (all zeros, values on the first
    # layer's grid, one group of channels zero)
    if 'SimVQ' in cls:
        pass        # all-zero input vectors hit the known SimVQ rotation-trick finding (D21, C02); its decode identity is not C12's subject
    elif seed % 5 == 1:
        x = torch.zeros_like(x)
    elif seed % 5 == 2:
        x = torch.randint(-1, 2, x.shape).float() * 0.5
    elif seed % 5 == 3:
        x = x.clone()
        (x[:, : d // 2] if image else x[..., : d // 2]).zero_()
    q.train(train)
    grouped = cls.startswith('Grouped')
    used = {'seed': seed}
    problems = []
    if grouped:
        mods = [m_rvq, m_rfsq, m_rlfq]
        olds = [mm.get_maybe_sync_seed for mm in mods]
        for mm in mods:
            mm.get_maybe_sync_seed = lambda device, max_size=10_000: seed
        try:
            kwargs = dict(freeze_codebook=True) if cls == 'GroupedResidualVQ' else {}
            ret = q(x, **kwargs)
        finally:
            for mm, o in zip(mods, olds):
                mm.get_maybe_sync_seed = o
    else:
        kwargs = dict(rand_quantize_dropout_fixed_seed=seed)
        if cls == 'ResidualVQ':
            kwargs['freeze_codebook'] = True
        ret = q(x, **kwargs)
    out, indices = ret[0], ret[1]
    losses = ret[2] if len(ret) > 2 else None
    groups_idx = list(indices) if grouped else [indices]
    flags = []
    for gi in groups_idx:
        if image and cls in ('ResidualFSQ',):
            gi = gi  # channel-first unpack keeps layer axis last after rearrange 'b ... d -> b d ...'?  handled below
        fl = []
        # layer axis: last for sequence layouts and RVQ image; ResidualFSQ channel-first returns 'b q ...'
        if image and cls == 'ResidualFSQ':
            per = [gi[:, k] for k in range(gi.shape[1])]
        else:
            per = [gi[..., k] for k in range(gi.shape[-1])]
        for k, t in enumerate(per):
            neg = (t == -1)
            if bool(neg.all()):
                fl.append(True)
            elif not bool(neg.any()):
                fl.append(False)
                if int(t.min()) < 0:
                    problems.append(f'layer {k}: negative index other than -1')
            else:
                fl.append(True)
                problems.append(f'layer {k}: -1 at some positions only')
        flags.append(fl)
    # dropped layers report zero loss
    if losses is not None:
        lg = list(losses) if grouped else [losses]
        for g, (lo, fl) in enumerate(zip(lg, flags)):
            lo = lo.reshape(-1)
            if lo.numel() == len(fl):
                for k, f in enumerate(fl):
                    if f and float(lo[k]) != 0.0:
                        problems.append(f'group {g} layer {k}: dropped but loss {float(lo[k])} != 0')
    # dropped layers contribute nothing: output == decode of the returned (partly -1) indices
    try:
        if image and cls == 'ResidualFSQ':
            # channel-first ResidualFSQ returns indices as 'b q ...'; its decoder expects the layer axis last (layout mismatch is C02's subject)
            dec = q.get_output_from_indices(indices.movedim(1, -1)).movedim(-1, 1)
        elif image and cls == 'GroupedResidualVQ':
            # grouped decode of image indices concatenates channel-last outputs on axis 1 (C02's subject): decode group by group here
            import torch as _t
            dec = _t.cat([r.get_output_from_indices(gi) for r, gi in zip(q.rvqs, indices)], dim=-1)
        else:
            dec = q.get_output_from_indices(indices)
        if dec.shape != out.shape and image and cls in ('ResidualVQ', 'GroupedResidualVQ'):
            dec = dec.movedim(-1, 1)  # decode of image indices is channel-last
        if dec is not None:
            err = (dec - out).abs().max().item()
            if not (err <= 1e-4):
                problems.append(f'output differs from decode of the kept prefix by {err:g}')
    except Exception as ex:
        if not (image and cls in ('ResidualFSQ', 'ResidualSimVQ')):
            problems.append(f'decode raised {type(ex).__name__}: {ex}')
    return flags, problems


def correspond(ctx, scale):
    import torch
    from vlib import impl
    rng = ctx.rng
    classes = ['ResidualVQ', 'ResidualFSQ', 'ResidualLFQ', 'ResidualSimVQ', 'GroupedResidualVQ', 'GroupedResidualFSQ', 'GroupedResidualLFQ']
    failures, cases, meta, samples = [], [], {}, []
    evaluations = 0
    distinct = set()
    dist = {c: 0 for c in classes}
    dist['dropped_something'] = 0
    nmax = 6 if not ctx.thorough else 12
    seeds_per_cfg = (500 if not ctx.thorough else 10000) * scale
    # (i) every configuration with n <= nmax, one seed per distinct r
    seed_for = {}
    for n in range(2, 13):
        for c in range(n):
            seen = {}
            for s in range(10000):
                r = random.Random(s).randrange(c, n)
                if r not in seen:
                    seen[r] = s
                    if len(seen) == n - c:
                        break
            seed_for[(c, n)] = seen
    cid = 0

    def add_case(cls, n, c, m, seed, image, flags, problems, train=True, expect_drop=True):
        nonlocal cid, evaluations
        r = random.Random(seed).randrange(c, n)
        for g, fl in enumerate(flags):
            if expect_drop:
                cases.append(f'({cid}, dropout_case_ok {n} {c} {m} {r} {blist(fl)})')
            else:
                cases.append(f'({cid}, nodrop_case_ok {n} {blist(fl)})')
            meta[cid] = dict(cls=cls, n=n, cutoff=c, m=m, seed=seed, image=image, train=train, expect_drop=expect_drop, group=g, observed=fl, r=r)
            cid += 1
        evaluations += 1
        dist[cls] += 1
        if any(any(fl) for fl in flags):
            dist['dropped_something'] += 1
            distinct.add((cls, n, c, m, r, image))
        for p in problems:
            failures.append({'key': f'{cls}:n={n}:cutoff={c}:m={m}:seed={seed}:image={image}:{p.split(":")[0]}',
                             'what': f'{cls}(n={n}, cutoff={c}, multiple_of={m}) seed={seed} image={image}: {p}',
                             'case': dict(cls=cls, n=n, cutoff=c, m=m, seed=seed, image=image, train=train, expect_drop=expect_drop)})

    for cls in classes:
        for n in range(2, nmax + 1):
            for c in range(n):
                for m in range(1, n + 1):
                    for image in ((False, True) if cls in IMAGE_OK and n <= 4 else (False,)):
                        try:
                            q = make(cls, n, c, m, image)
                        except Exception as ex:
                            failures.append({'key': f'{cls}:construct', 'what': f'{type(ex).__name__}: {ex}', 'case': dict(cls=cls, n=n, cutoff=c, m=m)})
                            continue
                        for r, seed in sorted(seed_for[(c, n)].items()):
                            try:
                                flags, problems = run_one(q, cls, n, seed, image)
                            except Exception as ex:
                                failures.append({'key': f'{cls}:n={n}:cutoff={c}:m={m}:seed={seed}:image={image}:exception',
                                                 'what': f'{type(ex).__name__}: {ex}',
                                                 'case': dict(cls=cls, n=n, cutoff=c, m=m, seed=seed, image=image, train=True, expect_drop=True)})
                                continue
                            add_case(cls, n, c, m, seed, image, flags, problems)
                            if len(samples) < 4 and any(flags[0]):
                                samples.append(dict(cls=cls, n=n, cutoff=c, multiple_of=m, seed=seed, r=r, dropped=flags[0]))
    # (ii) many seeds x a few configurations per class; (iii) eval / supplied indices never drop
    cfgs = [(4, 0, 1), (8, 2, 4), (6, 1, 2)] if not ctx.thorough else [(4, 0, 1), (8, 2, 4), (6, 1, 2), (12, 0, 4), (12, 5, 3), (7, 0, 1)]
    for cls in classes:
        for (n, c, m) in cfgs:
            q = make(cls, n, c, m, False)
            seeds = range(seeds_per_cfg) if seeds_per_cfg >= 10000 else sorted(rng.sample(range(10000), min(seeds_per_cfg, 10000)))
            if ctx.thorough and cls != 'ResidualVQ':
                seeds = list(seeds)[::5]       # all 10 000 seeds for ResidualVQ, every 5th for the other six classes (the randrange table covers all seeds anyway)
            for seed in seeds:
                try:
                    flags, problems = run_one(q, cls, n, seed, False)
                except Exception as ex:
                    failures.append({'key': f'{cls}:n={n}:cutoff={c}:m={m}:seed={seed}:exception', 'what': f'{type(ex).__name__}: {ex}',
                                     'case': dict(cls=cls, n=n, cutoff=c, m=m, seed=seed, image=False, train=True, expect_drop=True)})
                    continue
                add_case(cls, n, c, m, seed, False, flags, problems)
                # the depth depends on the seed ONLY: the same seed again on this long-lived instance (back to back, and after an eval call)
                if seed % 7 == 0:
                    for rep in range(2):
                        if rep == 1:
                            run_one(q, cls, n, seed, False, train=False)
                        flags, problems = run_one(q, cls, n, seed, False)
                        add_case(cls, n, c, m, seed, False, flags, problems)
                        dist['repeated_seed_same_instance'] = dist.get('repeated_seed_same_instance', 0) + 1
            # eval mode: nothing dropped
            for seed in (0, 1, 2, 3):
                flags, problems = run_one(q, cls, n, seed, False, train=False)
                add_case(cls, n, c, m, seed, False, flags, problems, train=False, expect_drop=False)
    # explicit seeds inside a real 2-process gloo group: the depth is the one the same seed gives in a single process (world size must not enter)
    import shutil, tempfile
    import torch.multiprocessing as mp
    from props import c12_worker
    dcfg = (4, 0, 1)
    dseeds = [0, 1, 2, 3, 5, 8, 13, 4999, 9999]
    dtmp = tempfile.mkdtemp(dir='/dev/shm', prefix='vq_c12_')
    try:
        mp.spawn(c12_worker.worker, args=(2, os.path.join(dtmp, 'init'), dtmp, dseeds, dcfg), nprocs=2, join=True)
        ranks = [torch.load(os.path.join(dtmp, f'c12_rank{r}.pt')) for r in range(2)]
        for (cls, seed), (flags0, probs0) in ranks[0].items():
            flags1 = ranks[1][(cls, seed)][0]
            q1 = make(cls, *dcfg, False)
            flags_single, _ = run_one(q1, cls, dcfg[0], seed, False)
            dist['distributed_explicit_seed'] = dist.get('distributed_explicit_seed', 0) + 1
            if flags0 is None or flags0 != flags_single or flags1 != flags_single:
                failures.append({'key': f'{cls}:distributed-explicit-seed', 'what': f'{cls}(n={dcfg[0]}) seed={seed}: dropped-layer pattern inside a 2-process group {flags0} / {flags1} differs from the single-process pattern {flags_single} {probs0[:1]}',
                                 'case': dict(cls=cls, n=dcfg[0], cutoff=dcfg[1], m=dcfg[2], seed=seed, image=False, train=True, expect_drop=True, distributed=True)})
    except Exception as ex:
        failures.append({'key': f'distributed-explicit-seed:spawn:{type(ex).__name__}', 'what': f'2-process gloo run failed: {str(ex)[:300]}', 'case': {'part': 'distributed'}})
    finally:
        shutil.rmtree(dtmp, ignore_errors=True)
    # re-entrancy: "k depends only on the seed" also when another forward runs in between (threads, nn.DataParallel replicas).  A simulated
    # context switch: every call the library makes into the PROCESS-GLOBAL python generator (random.seed / randrange / randint / random ...) is
    # preceded by a complete forward of a second replica with a different explicit seed - the deterministic worst case of a thread switch at
    # that point.  A private random.Random(seed) instance never reaches these functions, so nothing is injected on the unchanged tree.
    import random as _random
    glob_names = ['seed', 'randrange', 'randint', 'random', 'choice', 'getrandbits', 'uniform', 'shuffle', 'sample']
    for cls in [c for c in classes if not c.startswith('Grouped')]:
        n_, c_, m_ = 6, 0, 1
        try:
            q1, q2 = make(cls, n_, c_, m_), make(cls, n_, c_, m_)
            table = seed_for[(c_, n_)]
            pairs = [(table[r1], table[r2]) for r1 in sorted(table) for r2 in sorted(table) if r1 != r2][:: (3 if not ctx.thorough else 1)]
            for s1, s2 in pairs:
                alone, _pr = run_one(q1, cls, n_, s1, False)
                origs = {nm: getattr(_random, nm) for nm in glob_names}
                state = {'nested': False, 'switches': 0}

                def mk_hook(nm):
                    def hooked(*a, **k):
                        if not state['nested']:
                            state['nested'] = True
                            state['switches'] += 1
                            try:
                                run_one(q2, cls, n_, s2, False)
                            finally:
                                state['nested'] = False
                        return origs[nm](*a, **k)
                    return hooked
                st_py = _random.getstate()
                for nm in glob_names:
                    setattr(_random, nm, mk_hook(nm))
                try:
                    inter, _pr2 = run_one(q1, cls, n_, s1, False)
                finally:
                    for nm in glob_names:
                        setattr(_random, nm, origs[nm])
                    _random.setstate(st_py)
                evaluations += 1
                dist['interleaved_calls'] = dist.get('interleaved_calls', 0) + 1
                dist['simulated_context_switches'] = dist.get('simulated_context_switches', 0) + state['switches']
                if inter != alone:
                    failures.append({'key': f'{cls}:depth-depends-on-interleaved-call', 'what': f'{cls}(n={n_}) seed={s1}: with a second replica\'s forward (seed {s2}) interleaved at the library\'s calls into the '
                                     f'process-global random generator, the dropped-layer pattern is {inter}, alone it is {alone} (k no longer depends on the call\'s own seed only)',
                                     'case': dict(cls=cls, n=n_, cutoff=c_, m=m_, seed=s1, other_seed=s2, image=False, train=True, expect_drop=True, interleaved=True)})
                    break
        except Exception as ex:
            failures.append({'key': f'{cls}:interleaved:exception:{type(ex).__name__}', 'what': f'{cls}: {ex!r}', 'case': dict(cls=cls, interleaved=True)})
    # the SAME quantizer module at two depths of one stack (tied stages: rvq.layers[3] = rvq.layers[0], an A-B-A-B stack): which layers run is decided
    # by POSITION - the running layers are still the prefix the seed prescribes
    for cls in ('ResidualVQ', 'ResidualFSQ', 'ResidualLFQ', 'ResidualSimVQ'):
        try:
            qt_ = make(cls, 6, 0, 1)
            qt_.layers[3] = qt_.layers[0]
            qt_.layers[4] = qt_.layers[1]
            for r_want, seed in sorted(seed_for[(0, 6)].items()):
                flags, problems = run_one(qt_, cls, 6, seed, False)
                add_case(cls + '', 6, 0, 1, seed, False, flags, problems, expect_drop=True)
                dist['tied_stage_stacks'] = dist.get('tied_stage_stacks', 0) + 1
        except Exception as ex:
            failures.append({'key': f'{cls}:tied-stages:exception:{type(ex).__name__}', 'what': f'{cls}: {ex!r}', 'case': dict(cls=cls, tied=True)})
    # the caller used a LAYER on its own before (layer(x, return_loss_breakdown=True) where the class offers it) and accumulated in place into what it got
    # back - afterwards the dropped layers of the stack still report exactly zero loss entries (a shared "zero" tensor handed out by a layer would
    # have been overwritten)
    for cls in [c for c in classes if not c.startswith('Grouped')]:
        try:
            qs_ = make(cls, 6, 0, 1)
            qs_.train()
            lay0 = qs_.layers[0]
            xs_ = torch.randn(2, 5, DIMS[cls])
            for kwb in (dict(return_loss_breakdown=True), {}):
                for tr_ in (True, False):
                    lay0.train(tr_)
                    try:
                        rl = lay0(xs_ if not hasattr(qs_, 'project_in') else qs_.project_in(xs_).detach(), **kwb)
                    except Exception:
                        continue

                    def scribble(r_):
                        if isinstance(r_, torch.Tensor) and r_.dtype.is_floating_point:
                            with torch.no_grad():
                                r_.detach().add_(0.4246)
                        elif isinstance(r_, (tuple, list)):
                            for e_ in r_:
                                scribble(e_)
                    try:
                        scribble(rl)
                    except RuntimeError:
                        pass
            qs_.train()
            for seed in (seed_for[(0, 6)][1], seed_for[(0, 6)][3]):
                flags, problems = run_one(qs_, cls, 6, seed, False)
                evaluations += 1
                dist['after_layer_outputs_overwritten'] = dist.get('after_layer_outputs_overwritten', 0) + 1
                bad_p = [p_ for p_ in problems if 'dropped but loss' in p_]
                if bad_p:
                    failures.append({'key': f'{cls}:dropped-layer-loss-nonzero-after-caller-wrote-into-layer-outputs', 'what': f'{cls}(n=6) seed={seed}: after the caller accumulated in place into tensors returned by '
                                     f'layers[0], {bad_p[0]}', 'case': dict(cls=cls, n=6, cutoff=0, m=1, seed=seed, image=False, train=True, expect_drop=True, scribble=True)})
                    break
        except Exception as ex:
            failures.append({'key': f'{cls}:layer-scribble:exception:{type(ex).__name__}', 'what': f'{cls}: {ex!r}', 'case': dict(cls=cls, scribble=True)})
    # train() / eval() called on ONE group only (a frozen or swapped-in pretrained group): the groups that are still training share one depth, the
    # evaluation-mode group never drops - the shared seed belongs to the call, not to a particular group's flag
    from vector_quantize_pytorch import GroupedResidualVQ as _G1, GroupedResidualFSQ as _G2, GroupedResidualLFQ as _G3
    for gname, gmk, gdim in (('GroupedResidualVQ', lambda: _G1(dim=9, groups=3, codebook_size=5, num_quantizers=6, quantize_dropout=True), 9),
                             ('GroupedResidualFSQ', lambda: _G2(dim=6, groups=3, levels=[3, 3], num_quantizers=6, quantize_dropout=True), 6),
                             ('GroupedResidualLFQ', lambda: _G3(dim=9, groups=3, codebook_size=8, num_quantizers=6, quantize_dropout=True), 9)):
        try:
            for eval_group in (0, 1, 2):
                gq = gmk()
                gq.train()
                gq.rvqs[eval_group].eval()
                for ts in range(8 if not ctx.thorough else 40):
                    torch.manual_seed(1000 + ts)
                    with torch.no_grad():
                        gret = gq(torch.randn(2, 4, gdim), **({'freeze_codebook': True} if gname == 'GroupedResidualVQ' else {}))
                    gidx = list(gret[1])
                    depth = [int(sum(1 for k_ in range(gi.shape[-1]) if not bool((gi[..., k_] == -1).all()))) for gi in gidx]
                    evaluations += 1
                    dist['one_group_in_eval_calls'] = dist.get('one_group_in_eval_calls', 0) + 1
                    training_depths = {dv for g_, dv in enumerate(depth) if g_ != eval_group}
                    if depth[eval_group] != 6 or len(training_depths) != 1:
                        failures.append({'key': f'{gname}:one-group-in-eval:depths-differ', 'what': f'{gname}(groups=3, 6 layers) with group {eval_group} in evaluation mode, torch seed {1000 + ts}: layers kept per group {depth} '
                                         '(the evaluation-mode group keeps all layers, the training groups share one depth)', 'case': dict(cls=gname, eval_group=eval_group, torch_seed=1000 + ts, submodule_toggle=True)})
                        break
        except Exception as ex:
            failures.append({'key': f'{gname}:one-group-in-eval:exception:{type(ex).__name__}', 'what': f'{gname}: {ex!r}', 'case': dict(cls=gname, submodule_toggle=True)})
    # POISONED dropped layers (round 10, seed C12-j): a dropped layer is not run, so nothing it owns is READ - every float parameter and buffer of the
    # layers the seed drops is overwritten (NaN / +inf / finite 1e37, whose sum overflows) and the same call repeated: output, indices and per-layer
    # losses are bit-identical to the first call, and the dropped entries are exactly zero (a term such as `codebook.sum() * 0.` is nan there)
    import copy as _copy
    from vector_quantize_pytorch import ResidualVQ as _RVQ, ResidualSimVQ as _RSVQ, ResidualLFQ as _RLFQ, ResidualFSQ as _RFSQ
    poison_cfgs = [
        ('ResidualVQ-ema', lambda: _RVQ(dim=4, codebook_size=5, num_quantizers=4, quantize_dropout=True), {'freeze_codebook': True}),
        ('ResidualVQ-learnable', lambda: _RVQ(dim=4, codebook_size=5, num_quantizers=4, quantize_dropout=True, learnable_codebook=True, ema_update=False), {}),
        ('ResidualVQ-implicit-neural', lambda: _RVQ(dim=4, codebook_size=5, num_quantizers=4, quantize_dropout=True, implicit_neural_codebook=True), {}),
        ('ResidualVQ-cosine-orth', lambda: _RVQ(dim=4, codebook_size=5, num_quantizers=4, quantize_dropout=True, use_cosine_sim=True, orthogonal_reg_weight=0.5), {'freeze_codebook': True}),
        ('ResidualVQ-proj-learnable', lambda: _RVQ(dim=6, codebook_dim=3, codebook_size=5, num_quantizers=3, quantize_dropout=True, learnable_codebook=True, ema_update=False), {}),
        ('ResidualSimVQ', lambda: _RSVQ(dim=4, codebook_size=6, num_quantizers=4, quantize_dropout=True), {}),
        ('ResidualLFQ', lambda: _RLFQ(dim=3, codebook_size=8, num_quantizers=4, quantize_dropout=True), {}),
        ('ResidualFSQ', lambda: _RFSQ(levels=[3, 3], dim=2, num_quantizers=4, quantize_dropout=True), {}),
    ]
    dist['poisoned_dropped_layers'] = 0
    for pi, (pname, pmk, pkw) in enumerate(poison_cfgs):
        try:
            torch.manual_seed(4200 + pi)
            q0 = pmk()
            q0.train()
            nl = len(q0.layers)
            xq = torch.randn(2, 5, q0.layers[0].dim if hasattr(q0.layers[0], 'dim') and isinstance(getattr(q0.layers[0], 'dim'), int) else {'ResidualLFQ': 3, 'ResidualFSQ': 2}.get(pname, 4))
            if pname == 'ResidualVQ-proj-learnable':
                xq = torch.randn(2, 5, 6)
            for seed in range(6):
                for poison_i, poison in enumerate((float('nan'), float('inf'), 1e37)):
                    q1 = _copy.deepcopy(q0)
                    ret1 = q1(xq, rand_quantize_dropout_fixed_seed=seed, **pkw)
                    idx1 = ret1[1]
                    dropped = [k for k in range(nl) if bool((idx1[..., k] == -1).all())]
                    if not dropped:
                        continue
                    q2 = _copy.deepcopy(q0)
                    with torch.no_grad():
                        for k in dropped:
                            for t in list(q2.layers[k].parameters()) + list(q2.layers[k].buffers()):
                                if t.dtype.is_floating_point:
                                    t.fill_(poison)
                        if pname == 'ResidualVQ-implicit-neural':
                            for k in dropped:
                                if k - 1 >= 0 and k - 1 < len(q2.mlps):
                                    for t in q2.mlps[k - 1].parameters():
                                        t.fill_(poison)
                    ret2 = q2(xq, rand_quantize_dropout_fixed_seed=seed, **pkw)
                    evaluations += 1
                    dist['poisoned_dropped_layers'] += 1
                    what = None
                    for ri, (a, b) in enumerate(zip(ret1, ret2)):
                        if isinstance(a, torch.Tensor):
                            if not torch.equal(torch.nan_to_num(a.float(), nan=12345.0), torch.nan_to_num(b.float(), nan=54321.0)):
                                what = f'result {ri} changes when the parameters of the DROPPED layers {dropped} are overwritten with {poison}: first {a.reshape(-1)[:6].tolist()} then {b.reshape(-1)[:6].tolist()}'
                                break
                    if what is None and len(ret2) > 2 and isinstance(ret2[2], torch.Tensor) and ret2[2].reshape(-1).numel() == nl:
                        lo = ret2[2].reshape(-1)
                        bad = [k for k in dropped if not float(lo[k]) == 0.0]
                        if bad:
                            what = f'dropped layers {bad} report loss {[float(lo[k]) for k in bad]} (must be exactly 0)'
                    if what:
                        failures.append({'key': f'{pname}:poisoned-dropped-layers:{poison}', 'what': f'{pname} seed {seed}: {what}', 'case': dict(cls=pname, seed=seed, poison=str(poison), poisoned=True)})
        except Exception as ex:
            failures.append({'key': f'{pname}:poisoned-dropped-layers:exception:{type(ex).__name__}', 'what': f'{pname}: {ex!r}', 'case': dict(cls=pname, poisoned=True)})
    # supplied indices (ResidualVQ): dropout must not happen -> output equals the all-layer output
    from vector_quantize_pytorch import ResidualVQ
    for (n, c, m) in cfgs[:3]:
        q = ResidualVQ(dim=4, codebook_size=5, num_quantizers=n, quantize_dropout=True, quantize_dropout_cutoff_index=c, quantize_dropout_multiple_of=m)
        x = torch.randn(2, 5, 4)
        q.eval()
        out_eval, idx_eval, _ = q(x)
        q.train()
        for seed in range(6):
            out_tr, ce = q(x, indices=idx_eval, freeze_codebook=True, rand_quantize_dropout_fixed_seed=seed)
            evaluations += 1
            if (out_tr - out_eval).abs().max().item() > 1e-4:
                failures.append({'key': f'ResidualVQ:indices-supplied:n={n}', 'what': 'training forward with supplied indices dropped layers (output != all-layer output)',
                                 'case': dict(cls='ResidualVQ', n=n, cutoff=c, m=m, seed=seed, supplied=True)})
    # randrange table, all seeds
    rows = []
    for n in range(1, 13):
        for c in range(n):
            hit = sorted({random.Random(s).randrange(c, n) for s in range(10000)})
            rows.append(f'randrange_row_ok {c} {n} {core.zlist(hit)}')
    files = [('c12_randrange', HEADER + 'Eval vm_compute in forallb (fun b : bool => b) [\n' + ';\n'.join(rows) + '].\n')]
    for k in range(0, len(cases), 1000):
        files.append((f'c12_cases_{k // 1000}', HEADER + 'Definition cases : list (Z * bool) := [\n' + ';\n'.join(cases[k:k + 1000]) +
                      '].\nEval vm_compute in map fst (filter (fun c => negb (snd c)) cases).\n'))
    res = ctx.coq_eval_many(files)
    for name, (rc, out) in sorted(res.items()):
        if rc != 0:
            failures.append({'key': f'coq-eval:{name}', 'what': 'case file did not evaluate: ' + out[-400:], 'case': {'file': name}})
            continue
        lists = core.parse_eval_lists(out)
        if name == 'c12_randrange':
            if not lists or lists[0] != 'true':
                failures.append({'key': 'randrange-table', 'what': 'some in-contract value of randrange is hit by no seed in [0,10000) (or a value is out of contract)', 'case': {'part': 'randrange'}})
            continue
        for b in core.parse_natlist(lists[0]) if lists else []:
            m_ = meta[b]
            failures.append({'key': f'{m_["cls"]}:n={m_["n"]}:cutoff={m_["cutoff"]}:m={m_["m"]}:seed={m_["seed"]}:image={m_["image"]}:pattern',
                             'what': f'{m_["cls"]}: dropped-layer pattern {m_["observed"]} differs from the model for r={m_["r"]} (expect_drop={m_["expect_drop"]})',
                             'case': {k: m_[k] for k in ('cls', 'n', 'cutoff', 'm', 'seed', 'image', 'train', 'expect_drop')}})
    return {'evaluations': evaluations, 'distinct_nontrivial': len(distinct),
            'rule': f'every (n<={nmax}, cutoff, multiple_of) x one seed per reachable r x 7 classes (+image layouts), {seeds_per_cfg} seeds x {len(cfgs)} configs per class, '
                    'eval mode and supplied indices; randrange tabulated for all 10000 seeds x all (cutoff, n<=12); non-trivial = something is dropped; distinct by (class,n,cutoff,m,r,layout)',
            'samples': samples, 'failures': failures, 'distribution': dist, 'exhaustive': bool(ctx.thorough)}


def replay_case(ctx, case):
    import torch
    if case.get('part') == 'randrange':
        return True, 'randrange table mismatch (re-run the check)'
    if case.get('supplied'):
        return True, 'supplied-indices case: re-run the check'
    try:
        q = make(case['cls'], case['n'], case['cutoff'], case['m'], case.get('image', False))
        flags, problems = run_one(q, case['cls'], case['n'], case['seed'], case.get('image', False), train=case.get('train', True))
    except Exception as ex:
        return True, f'{type(ex).__name__}: {ex}'
    r = random.Random(case['seed']).randrange(case['cutoff'], case['n'])
    fn = (f'dropout_case_ok {case["n"]} {case["cutoff"]} {case["m"]} {r} {blist(flags[0])}' if case.get('expect_drop', True)
          else f'nodrop_case_ok {case["n"]} {blist(flags[0])}')
    rc, out = ctx.coq_eval('c12_replay', HEADER + f'Eval vm_compute in {fn}.\n')
    ok = rc == 0 and '= true' in out and not problems and all(f == flags[0] for f in flags)
    return (not ok), f'observed {flags} r={r} problems={problems}'

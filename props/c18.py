"""C18 — finite inputs give finite outputs, gradients and state."""
import random
from functools import partial
from vlib import core
from vlib.core import qlit, qvec

OBLIGATIONS = dict(
    prop_file='Properties/C18.v',
    glue=['Glue/CoreGlue.v', 'Glue/Pin_p_clamps.v'] + ['Glue/Pin_fp_C18.v', 'Glue/IgnoreCEGlue.v'],
    extra=['Model/CoreCheck.vo'],
    gen_items=['k_safe_div', 'k_cdist', 'k_laplace', 'k_ema_inplace', 'p_clamps', 'p_losses', 'fp_C18'],
)
ASSUMPTIONS = [
    'PARTIAL: the theorems are over the reals (divisors bounded away from 0, sqrt / log / atanh arguments in range, EMA state in the convex hull of what it has seen); "finite in float32" additionally assumes that a float32 operation on finite operands '
    'whose exact result is far below 2^127 returns a finite float - this is not proved end-to-end with Flocq for the tensor code',
    'the correspondence is a direct oracle: isfinite over outputs, losses, input gradients and state_dict on adversarial input families, plus magnitude bounds of the EMA state',
]
HEADER = '''From Coq Require Import ZArith QArith List Bool.
From VQ Require Import Num Model.Vec Model.Core Model.CoreCheck.
From VQ.Gen Require Import k_safe_div k_laplace.
Import ListNotations.
Open Scope Q_scope.
'''


def families(rng, torch, b, n, d, codes=None):
    F = {}
    F['zeros'] = torch.zeros(b, n, d)
    F['tiny'] = torch.randn(b, n, d) * 1e-30
    F['small'] = torch.randn(b, n, d) * 1e-12
    F['subnormal'] = torch.randn(b, n, d) * 1e-40          # every entry a float32 subnormal (or zero): finite, legal, max |x| below 2^-126
    F['huge'] = torch.randn(b, n, d) * 1e4
    F['neg-huge-const'] = torch.full((b, n, d), -1e4)
    F['const'] = torch.full((b, n, d), 0.37)
    oh = torch.zeros(b, n, d)
    oh[..., 0] = 1.0
    F['one-hot'] = oh
    r = torch.randn(1, 1, d)
    F['identical-rows'] = r.expand(b, n, d).contiguous()
    F['mixed-scales'] = torch.randn(b, n, d) * torch.tensor([10.0 ** rng.randint(-20, 4) for _ in range(d)])
    # memory layout: an EXPANDED (stride-0) batch of one row and a dense permuted view of random values
    F['expanded-stride0'] = torch.randn(1, 1, d).expand(b, n, d)
    F['permuted-view'] = torch.randn(d, b, n).permute(1, 2, 0)
    if codes is not None and codes.shape[-1] == d:
        k = codes.shape[0]
        pick = codes[torch.randint(0, k, (b, n))]
        F['equal-to-codes'] = pick.clone()
        F['antipodal-to-codes'] = -pick.clone()
        # exactly opposite to the code the row is ASSIGNED to: a small negative multiple of the smallest-norm code (the rotation trick then
        # rotates by pi: |u + q| = 0)
        cmin = codes[codes.norm(dim=-1).argmin()]
        sc = torch.tensor([[rng.choice([1e-3, 2.0 ** -10, 0.3, 0.05]) for _ in range(n)] for _ in range(b)])
        F['antipodal-to-assigned-code'] = -sc[..., None] * cmin
    return F


def modules():
    from torch.optim import SGD
    from torch import nn
    from vector_quantize_pytorch import (VectorQuantize, ResidualVQ, FSQ, LFQ, SimVQ, ResidualFSQ, ResidualLFQ, LatentQuantize, RandomProjectionQuantizer, ResidualSimVQ, GroupedResidualVQ)
    M = []

    def add(name, mk, dim, single=True, codes=lambda m: None, kw=None):
        M.append(dict(name=name, mk=mk, dim=dim, single=single, codes=codes, kw=kw or {}))
    cbk = lambda m: m._codebook.embed[0].detach()
    add('vq-euclid-rotation', lambda: VectorQuantize(dim=4, codebook_size=8, rotation_trick=True, threshold_ema_dead_code=2), 4, codes=cbk)
    add('vq-euclid-ste', lambda: VectorQuantize(dim=4, codebook_size=8, rotation_trick=False, decay=0.5), 4, codes=cbk)
    add('vq-cosine', lambda: VectorQuantize(dim=4, codebook_size=8, use_cosine_sim=True, threshold_ema_dead_code=2), 4, codes=cbk)
    add('vq-cosine-heads', lambda: VectorQuantize(dim=4, codebook_size=6, use_cosine_sim=True, heads=2, codebook_dim=2), 4)
    add('vq-kmeans', lambda: VectorQuantize(dim=3, codebook_size=16, kmeans_init=True, kmeans_iters=4, threshold_ema_dead_code=2), 3)
    add('vq-kmeans-cosine', lambda: VectorQuantize(dim=3, codebook_size=16, kmeans_init=True, kmeans_iters=4, use_cosine_sim=True), 3)
    add('vq-dead-codes', lambda: VectorQuantize(dim=3, codebook_size=32, decay=0.0, threshold_ema_dead_code=0), 3, codes=cbk)
    add('vq-stochastic', lambda: VectorQuantize(dim=3, codebook_size=6, stochastic_sample_codes=True, sample_codebook_temp=0.01, straight_through=True, rotation_trick=False), 3, codes=cbk)
    add('vq-learnable-orth', lambda: VectorQuantize(dim=3, codebook_size=6, learnable_codebook=True, ema_update=False, orthogonal_reg_weight=1.0, in_place_codebook_optimizer=partial(SGD, lr=0.1)), 3, codes=cbk)
    add('vq-diversity', lambda: VectorQuantize(dim=3, codebook_size=6, codebook_diversity_loss_weight=1.0, codebook_diversity_temperature=100.0), 3, codes=cbk)
    add('vq-ce-commit', lambda: VectorQuantize(dim=3, codebook_size=6, commitment_use_cross_entropy_loss=True), 3, codes=cbk)
    add('vq-dim1', lambda: VectorQuantize(dim=1, codebook_size=4), 1, codes=cbk)
    add('vq-euclid-rotation-d16', lambda: VectorQuantize(dim=16, codebook_size=8, rotation_trick=True), 16, codes=cbk)
    add('vq-one-code-rotation', lambda: VectorQuantize(dim=3, codebook_size=1, rotation_trick=True), 3, codes=cbk)
    add('rvq', lambda: ResidualVQ(dim=4, num_quantizers=3, codebook_size=8, threshold_ema_dead_code=2), 4, single=False)
    add('rvq-cosine-shared', lambda: ResidualVQ(dim=4, num_quantizers=3, codebook_size=8, use_cosine_sim=True, shared_codebook=True, threshold_ema_dead_code=2), 4, single=False)
    add('rvq-implicit', lambda: ResidualVQ(dim=3, num_quantizers=2, codebook_size=4, implicit_neural_codebook=True, mlp_kwargs=dict(dim_hidden=4, depth=1)), 3, single=False)
    add('grvq', lambda: GroupedResidualVQ(dim=4, groups=2, num_quantizers=2, codebook_size=6), 4, single=False)
    add('simvq', lambda: SimVQ(dim=4, codebook_size=8), 4, single=False)
    add('rsimvq', lambda: ResidualSimVQ(dim=3, num_quantizers=2, codebook_size=6), 3, single=False)
    add('fsq', lambda: FSQ([8, 5, 5, 3]), 4, single=False)
    add('fsq-sym', lambda: FSQ([2, 3, 16], preserve_symmetry=True), 3, single=False)
    add('fsq-noise', lambda: FSQ([5, 4], noise_dropout=0.5), 2, single=False)
    add('rfsq', lambda: ResidualFSQ(levels=[5, 3], num_quantizers=4, dim=2), 2, single=False)
    add('rfsq-deep', lambda: ResidualFSQ(levels=[8, 5, 5, 3], num_quantizers=8, dim=4), 4, single=False)        # (L - 1) ** 7 = 823543 leaves the float16 range
    add('rfsq-deep-proj', lambda: ResidualFSQ(levels=[8, 5, 5, 3], num_quantizers=8, dim=6), 6, single=False)
    add('lfq', lambda: LFQ(dim=4, codebook_size=16, commitment_loss_weight=0.25), 4, single=False)
    add('lfq-extreme-temp', lambda: LFQ(dim=3, codebook_size=8), 3, single=False, kw=dict(inv_temperature=1e4))
    add('lfq-spherical', lambda: LFQ(dim=3, codebook_size=8, spherical=True, experimental_softplus_entropy_loss=True), 3, single=False)
    add('rlfq', lambda: ResidualLFQ(dim=3, codebook_size=8, num_quantizers=3), 3, single=False)
    add('lfq-cosine-project-in', lambda: LFQ(dim=5, codebook_size=8, cosine_sim_project_in=True, cosine_sim_project_in_scale=2.0), 5, single=False)
    add('latent', lambda: LatentQuantize(levels=[5, 4], dim=2), 2, single=False)
    add('rpq', lambda: RandomProjectionQuantizer(dim=4, codebook_size=8, codebook_dim=3, num_codebooks=2), 4, single=False)
    # VectorQuantize called with a per-position codebook transform (the hook of implicit neural codebooks) and a differentiable consumer of the
    # distance matrix; `codes` are the TRANSFORMED codes, so the equal-to-codes families hit exactly-zero distances on this path
    import torch
    from einops import repeat as _repeat

    class TransformVQ(nn.Module):
        def __init__(self, **kw):
            super().__init__()
            self.vq = VectorQuantize(dim=4, codebook_size=8, learnable_codebook=True, ema_update=False, **kw)
            self.to_codes = nn.Linear(4, 4)

        def forward(self, x):
            b_, n_ = x.shape[0], x.shape[1]
            return self.vq(x, codebook_transform_fn=lambda e: _repeat(self.to_codes(e), 'h c d -> h b n c d', b=b_, n=n_))
    tcodes = lambda m: m.to_codes(m.vq._codebook.embed)[0].detach()
    add('vq-transform-ce', lambda: TransformVQ(commitment_use_cross_entropy_loss=True), 4, single=False, codes=tcodes)
    add('vq-transform-diversity', lambda: TransformVQ(codebook_diversity_loss_weight=1.), 4, single=False, codes=tcodes)
    add('vq-transform-st', lambda: TransformVQ(rotation_trick=False, straight_through=True, stochastic_sample_codes=True), 4, single=False, codes=tcodes)
    # all-pairs option sets of FSQ / LFQ / residual stacks (sequence layout; vlib/zoo.py)
    from vlib import zoo
    for kind in ('fsq', 'lfq', 'res'):
        for zname, zc, zmk in zoo.class_configs(kind):
            if zc['layout'] == 'seq':
                add(zname, zmk, zoo.zoo_dim(kind, zc), single=False)
    return M


def finite_report(tag, tensors):
    import torch
    bad = []
    for name, t in tensors:
        if t is None or not isinstance(t, torch.Tensor) or not t.dtype.is_floating_point:
            continue
        if not bool(torch.isfinite(t).all()):
            bad.append(name)
    return bad


def correspond(ctx, scale):
    import torch
    rng = ctx.rng
    failures, samples = [], []
    ev = nt = 0
    dist = {}
    reps = (1 if not ctx.thorough else 5) * scale
    steps = 3 if not ctx.thorough else 6
    max_state = 0.0
    for m in modules():
        for rep in range(reps):
            proto = m['mk']()
            fams = families(rng, torch, 2, 3, m['dim'], m['codes'](proto))
            if m['single']:
                fams['single-token'] = torch.randn(2, m['dim'])
            for fname, x0 in fams.items():
                mod = m['mk']()
                if fname in ('equal-to-codes', 'antipodal-to-codes', 'antipodal-to-assigned-code'):
                    x0 = families(rng, torch, 2, 3, m['dim'], m['codes'](mod))[fname]      # relative to THIS instance's codebook
                latent = m['name'] == 'latent'
                for t in range(steps):
                    train = t % 3 != 2
                    mod.train(train)
                    x = x0.clone()
                    if t > 0 and fname not in ('zeros', 'const', 'identical-rows'):
                        x = x0 * (1.0 + 0.1 * t)
                    if latent:
                        x = x.movedim(-1, 1) if x.ndim == 3 else x[..., None]
                    x.requires_grad_(True)
                    ev += 1
                    dist[fname] = dist.get(fname, 0) + 1
                    nt += fname in ('zeros', 'tiny', 'small', 'subnormal', 'huge', 'identical-rows', 'equal-to-codes', 'antipodal-to-codes', 'antipodal-to-assigned-code', 'one-hot', 'const', 'neg-huge-const', 'single-token')
                    key = f'{m["name"]}:{fname}:train={train}'
                    try:
                        ret = mod(x, **m['kw'])
                    except Exception as ex:
                        failures.append({'key': f'{key}:exception:{type(ex).__name__}', 'what': f'{m["name"]} on the "{fname}" family (step {t}): raised {type(ex).__name__}: {str(ex)[:120]}', 'case': dict(module=m['name'], family=fname, step=t)})
                        break
                    outs = [('output/' + str(i), r) for i, r in enumerate(ret if isinstance(ret, tuple) else (ret,)) if isinstance(r, torch.Tensor)]
                    if hasattr(ret, '_fields'):
                        outs = [(f, getattr(ret, f)) for f in ret._fields]
                    bad = finite_report(key, outs)
                    grads = []
                    fl = [r for _, r in outs if isinstance(r, torch.Tensor) and r.dtype.is_floating_point and r.requires_grad]
                    if fl and train:
                        try:
                            g, = torch.autograd.grad(sum(r.sum() for r in fl), x, allow_unused=True)
                            grads = [('input-gradient', g)]
                        except Exception as ex:
                            failures.append({'key': f'{key}:backward-exception', 'what': f'{m["name"]} on "{fname}": backward raised {ex!r}', 'case': dict(module=m['name'], family=fname)})
                    bad += finite_report(key, grads)
                    st = list(mod.state_dict().items())
                    bad += finite_report(key, [('state/' + k, v) for k, v in st])
                    for k, v in st:
                        if v.dtype.is_floating_point and v.numel() and bool(torch.isfinite(v).all()):
                            max_state = max(max_state, float(v.abs().max()))
                    if bad:
                        failures.append({'key': f'{m["name"]}:{fname}:non-finite:{bad[0].split("/")[0]}', 'what': f'{m["name"]} on the "{fname}" input family (step {t}, train={train}): non-finite values in {bad}',
                                         'case': dict(module=m['name'], family=fname, step=t, train=train)})
                        break
        # degenerate PARAMETER states: every learnable tensor may hold any finite value - a pruned / dead unit is an exactly-zero column or row, a
        # freshly zero-initialised layer is all zeros.  (Only nn.Parameters: the non-learned buffers are constants of the algorithm, see C20.)
        try:
            pnames = [pn for pn, _ in m['mk']().named_parameters()]
        except Exception:
            pnames = []
        for pn in pnames:
            for mode in (('col0', 'row0', 'all0') if rep == 0 else ('col0',)):
                mod = m['mk']()
                q_ = dict(mod.named_parameters())[pn]
                with torch.no_grad():
                    if mode == 'all0' or q_.ndim < 2:
                        q_.zero_()
                    elif mode == 'col0':
                        q_[..., 0].zero_()
                    else:
                        q_[0].zero_()
                for train in (True, False):
                    mod.train(train)
                    x = (torch.randn(2, 3, m['dim']) * (1.0 if train else 1e-3))
                    if m['name'] == 'latent':
                        x = x.movedim(-1, 1)
                    x.requires_grad_(True)
                    ev += 1
                    dist['degenerate_parameter_states'] = dist.get('degenerate_parameter_states', 0) + 1
                    key = f'{m["name"]}:param-{mode}:train={train}'
                    try:
                        ret = mod(x, **m['kw'])
                        outs = [('output/' + str(i), r) for i, r in enumerate(ret if isinstance(ret, tuple) else (ret,)) if isinstance(r, torch.Tensor)]
                        if hasattr(ret, '_fields'):
                            outs = [(f, getattr(ret, f)) for f in ret._fields]
                        bad = finite_report(key, outs)
                        fl = [r for _, r in outs if isinstance(r, torch.Tensor) and r.dtype.is_floating_point and r.requires_grad]
                        if fl and train:
                            gs = torch.autograd.grad(sum(r.sum() for r in fl), [x] + [p_ for p_ in mod.parameters()], allow_unused=True)
                            bad += finite_report(key, [('input-gradient', gs[0])] + [(f'parameter-gradient/{i}', g_) for i, g_ in enumerate(gs[1:])])
                        bad += finite_report(key, [('state/' + k, v) for k, v in mod.state_dict().items()])
                    except Exception as ex:
                        failures.append({'key': f'{m["name"]}:param-{mode}:exception:{type(ex).__name__}', 'what': f'{m["name"]} with parameter {pn} degenerate ({mode}): raised {ex!r}', 'case': dict(module=m['name'], parameter=pn, mode=mode)})
                        break
                    if bad:
                        failures.append({'key': f'{m["name"]}:param-{mode}:non-finite:{bad[0].split("/")[0]}', 'what': f'{m["name"]} with parameter {pn} degenerate ({mode}; an exactly-zero column / row / tensor), finite random input, '
                                         f'train={train}: non-finite values in {bad}', 'case': dict(module=m['name'], parameter=pn, mode=mode, train=train)})
                        break
        # a module that went through a LOW-PRECISION CAST AND BACK (.half() / .bfloat16() then .float(): an fp16 export or inference pass, then training
        # resumes): its float buffers were rounded - or overflowed - on the way; finite inputs still give finite outputs, gradients and state
        if rep == 0:
            for cast in ('half', 'bfloat16'):
                try:
                    mod = getattr(m['mk'](), cast)().float()
                except Exception:
                    continue
                for fam in ('randn', 'zeros', 'const'):
                    for train in (True, False):
                        mod.train(train)
                        x = {'randn': torch.randn(2, 3, m['dim']), 'zeros': torch.zeros(2, 3, m['dim']), 'const': torch.full((2, 3, m['dim']), 0.37)}[fam]
                        if m['name'] == 'latent':
                            x = x.movedim(-1, 1)
                        x = x.clone().requires_grad_(True)
                        key = f'{m["name"]}:cast-round-trip-{cast}:{fam}:train={train}'
                        try:
                            ret = mod(x, **m['kw'])
                            outs = [('output/' + str(i), r) for i, r in enumerate(ret if isinstance(ret, tuple) else (ret,)) if isinstance(r, torch.Tensor)]
                            if hasattr(ret, '_fields'):
                                outs = [(f, getattr(ret, f)) for f in ret._fields]
                            bad = finite_report(key, outs)
                            fl = [r for _, r in outs if isinstance(r, torch.Tensor) and r.dtype.is_floating_point and r.requires_grad]
                            if fl:
                                g, = torch.autograd.grad(sum(r.sum() for r in fl), x, allow_unused=True)
                                bad += finite_report(key, [('input-gradient', g)])
                            bad += finite_report(key, [('state/' + k, v) for k, v in mod.state_dict().items()] + [('buffer/' + k, v) for k, v in mod.named_buffers()])
                        except Exception as ex:
                            failures.append({'key': f'{m["name"]}:cast-round-trip:exception:{type(ex).__name__}', 'what': f'{m["name"]} after .{cast}().float(): {ex!r}', 'case': dict(module=m['name'], cast=cast)})
                            break
                        ev += 1
                        dist['cast_round_trip_calls'] = dist.get('cast_round_trip_calls', 0) + 1
                        if bad:
                            failures.append({'key': f'{m["name"]}:cast-round-trip:non-finite:{bad[0].split("/")[0]}', 'what': f'{m["name"]} after .{cast}().float(), "{fam}" input, train={train}: non-finite values in {bad[:4]}',
                                             'case': dict(module=m['name'], cast=cast, family=fam, train=train)})
                            break
        # uninitialised memory: under torch.use_deterministic_algorithms(True) every torch.empty() is filled with NaN, which turns "allocated but
        # never written" state into a deterministic observation.  A module BUILT in that mode has finite state, and its first call - frozen where the
        # class supports it, so that nothing is initialised lazily behind the caller's back - returns finite values
        if rep == 0:
            was_det = torch.are_deterministic_algorithms_enabled()
            try:
                torch.use_deterministic_algorithms(True, warn_only=True)
                mod = m['mk']()
                bad = finite_report(m['name'], [('state/' + k, v) for k, v in mod.state_dict().items()])
                for first_kw in ([dict(freeze_codebook=True), {}] if m['name'].startswith(('vq', 'rvq', 'zoo-res-rvq')) else [{}]):
                    mod = m['mk']()
                    mod.train(True)
                    x = torch.randn(2, 3, m['dim'])
                    if m['name'] == 'latent':
                        x = x.movedim(-1, 1)
                    try:
                        ret = mod(x, **dict(m['kw'], **first_kw))
                    except TypeError:
                        continue
                    outs = [('output/' + str(i), r) for i, r in enumerate(ret if isinstance(ret, tuple) else (ret,)) if isinstance(r, torch.Tensor)]
                    if hasattr(ret, '_fields'):
                        outs = [(f, getattr(ret, f)) for f in ret._fields]
                    bad += finite_report(m['name'], outs) + finite_report(m['name'], [('state/' + k, v) for k, v in mod.state_dict().items()])
                    ev += 1
                    dist['deterministic_mode_first_calls'] = dist.get('deterministic_mode_first_calls', 0) + 1
                if bad:
                    failures.append({'key': f'{m["name"]}:uninitialised-memory:non-finite:{bad[0].split("/")[0]}', 'what': f'{m["name"]} built and first called under torch.use_deterministic_algorithms(True) '
                                     f'(uninitialised memory reads as NaN): non-finite values in {bad[:4]}', 'case': dict(module=m['name'])})
            except Exception as ex:
                failures.append({'key': f'{m["name"]}:deterministic-mode:exception:{type(ex).__name__}', 'what': f'{m["name"]}: {ex!r}', 'case': dict(module=m['name'])})
            finally:
                torch.use_deterministic_algorithms(was_det)
        if len(samples) < 5:
            samples.append(dict(module=m['name'], families=list(fams)))
    # the model's divisor bounds evaluated on the degenerate scalars (exact rationals): safe_div(0, 0), laplace with an all-zero count vector
    cases = [f'(if Qeq_bool (k_safe_div Q_ops 0%Q 0%Q {qlit(1e-6)}) 0%Q then 0 else 1)%nat',
             f'(if Qle_bool 0%Q (k_laplace Q_ops 0%Q (inject_Z 8) {qlit(1e-5)} 0%Q) then 0 else 1)%nat',
             f'(if Qeq_bool (k_laplace Q_ops 0%Q (inject_Z 8) {qlit(1e-5)} 0%Q) (1 # 8)%Q then 0 else 1)%nat']
    bad, broken = core.run_cases(ctx, 'c18', HEADER, cases, per_file=10)
    for name, out in broken:
        failures.append({'key': f'coq-eval:{name}', 'what': 'case file did not evaluate: ' + out, 'case': {'file': name}})
    for i in bad:
        failures.append({'key': f'model-degenerate-scalar:{i}', 'what': 'a degenerate scalar kernel evaluates to an unexpected value in the model', 'case': dict(i=i)})
    # all-pairs sweep over per-call options and ambient contexts (vlib/callzoo.py) on adversarial inputs: outputs, losses and the state stay finite
    # (an all-padding call has no valid token to average a loss over: its loss is exempt, its outputs and the state are not)
    from vlib import callzoo
    from vector_quantize_pytorch import VectorQuantize, ResidualVQ
    cz_cfgs = [('vq-rotation', lambda: VectorQuantize(dim=4, codebook_size=6, threshold_ema_dead_code=2), 4, 1, None),
               ('vq-cosine-heads', lambda: VectorQuantize(dim=4, codebook_size=6, heads=2, codebook_dim=2, use_cosine_sim=True), 4, 2, None),
               ('vq-stochastic-st', lambda: VectorQuantize(dim=3, codebook_size=6, stochastic_sample_codes=True, straight_through=True, rotation_trick=False, sample_codebook_temp=0.1), 3, 1, None),
               ('vq-ce-diversity', lambda: VectorQuantize(dim=3, codebook_size=6, commitment_use_cross_entropy_loss=True, codebook_diversity_loss_weight=1.0), 3, 1, None),
               ('rvq-kmeans', lambda: ResidualVQ(dim=3, num_quantizers=2, codebook_size=6, kmeans_init=True, kmeans_iters=2, threshold_ema_dead_code=1), 3, 1, 2)]
    for cname, cmk, cdim, cheads, cnq in cz_cfgs:
        for vi, v in enumerate(callzoo.variants()):
            mod = cmk()
            for train in (True, False):
                mod.train(train)
                x, kw_c, cm, valid = callzoo.build_call(v, torch, cdim, heads=cheads, K=6, nq=cnq)
                with torch.no_grad():
                    x.mul_([0.0, 1e-30, 1.0, 1e4][vi % 4])
                try:
                    with cm():
                        ret = mod(x, **kw_c)
                except Exception:
                    continue
                ev += 1
                dist['call_option_sweep'] = dist.get('call_option_sweep', 0) + 1
                all_pad = valid is not None and not bool(valid.any())
                outs = [(f'output/{i}', r) for i, r in enumerate(ret if isinstance(ret, tuple) else (ret,)) if isinstance(r, torch.Tensor) and not (all_pad and i >= 2)]
                badk = [nm for nm, r in outs if r.dtype.is_floating_point and not bool(torch.isfinite(r).all())]
                badk += ['state/' + k for k, t in mod.state_dict().items() if t.dtype.is_floating_point and not bool(torch.isfinite(t).all())]
                if badk:
                    failures.append({'key': f'{cname}:call-options:non-finite:{badk[0].split("/")[0]}', 'what': f'{cname} train={train} {callzoo.label(v)} (input scale {[0.0, 1e-30, 1.0, 1e4][vi % 4]}): non-finite values in {badk[:4]}',
                                     'case': dict(module=cname, variant=v, train=train)})
    # target indices with IGNORED entries (round 10, seed C18-j): the layer's cross-entropy uses ignore_index = -1, so a caller may supervise only some
    # positions or only some HEADS (the other heads' targets all -1).  As long as one target is valid the loss is a mean over the valid ones: finite.
    from vector_quantize_pytorch import RandomProjectionQuantizer
    ig_cfgs = [('vq-heads2-shared', lambda: VectorQuantize(dim=4, codebook_size=6, heads=2, codebook_dim=2), 4, 2),
               ('vq-heads3-separate-cosine', lambda: VectorQuantize(dim=6, codebook_size=5, heads=3, codebook_dim=2, separate_codebook_per_head=True, use_cosine_sim=True), 6, 3),
               ('vq-heads2-ce-commit', lambda: VectorQuantize(dim=4, codebook_size=6, heads=2, codebook_dim=2, commitment_use_cross_entropy_loss=True), 4, 2),
               ('vq-single-head', lambda: VectorQuantize(dim=3, codebook_size=6), 3, 1),
               ('rpq-2-codebooks', lambda: RandomProjectionQuantizer(dim=5, codebook_size=6, codebook_dim=3, num_codebooks=2), 5, 2),
               ('rvq-2-layers', lambda: ResidualVQ(dim=3, num_quantizers=2, codebook_size=6), 3, -2)]
    for gi, (gname, gmk, gdim, gheads) in enumerate(ig_cfgs):
        for pat in ('one-head-ignored', 'last-head-only', 'some-positions-ignored', 'one-valid-target'):
            for sc_i, sc in enumerate((0.0, 1.0, 1e4)):
                for train in (True, False):
                    try:
                        mod = gmk()
                        mod.train(train)
                        nh = abs(gheads)
                        x = torch.randn(2, 5, gdim) * sc
                        tgt = torch.randint(0, 5, (2, 5, nh))
                        if pat == 'one-head-ignored':
                            tgt[..., 0] = -1
                        elif pat == 'last-head-only':
                            tgt[..., :-1] = -1
                        elif pat == 'some-positions-ignored':
                            tgt[:, 1::2, :] = -1
                        else:
                            tgt[...] = -1
                            tgt[1, 2, nh - 1] = 3
                        if nh == 1:
                            tgt = tgt[..., 0]
                            if not bool((tgt >= 0).any()):
                                continue
                        if gname.startswith('rpq'):
                            loss = mod(x, indices=tgt)
                        else:
                            loss = mod(x, indices=tgt)[1]
                    except Exception:
                        continue
                    ev += 1
                    dist['ignored_target_calls'] = dist.get('ignored_target_calls', 0) + 1
                    if not bool(torch.isfinite(loss).all()):
                        failures.append({'key': f'{gname}:ignored-targets:{pat}:non-finite-loss', 'what': f'{gname} train={train} input scale {sc}: indices= with pattern {pat} (-1 = the layer\'s ignore_index, at least one valid target) gives loss {loss.reshape(-1)[:4].tolist()}',
                                         'case': dict(module=gname, pattern=pat, train=train, scale=sc)})
    return {'evaluations': ev, 'distinct_nontrivial': nt,
            'rule': '12 adversarial input families (zeros, 1e-30, 1e-12, 1e4, constants, one-hot, identical rows, mixed scales 1e-20..1e4, rows equal / antipodal to codes, single token) x 28 module configurations (cosine normalisation, rotation trick, k-means with empty clusters, '
                    'expiry, dead codes with decay 0, extreme LFQ temperature, FSQ saturation, stochastic sampling, learnable + orthogonal) x multi-step train / eval histories: isfinite over outputs, losses, input gradients and state_dict; non-trivial = degenerate family',
            'samples': samples, 'failures': failures, 'distribution': dict(dist, max_abs_state=max_state)}


def replay_case(ctx, case):
    import torch
    M = {m['name']: m for m in modules()}
    m = M.get(case.get('module'))
    if not m:
        return True, 're-run the check'
    rng = random.Random(0)
    mod = m['mk']()
    fams = families(rng, torch, 2, 3, m['dim'], m['codes'](mod))
    if m['single']:
        fams['single-token'] = torch.randn(2, m['dim'])
    x0 = fams.get(case.get('family'))
    if x0 is None:
        return True, 'family not reproducible without the module state'
    for t in range(6):
        mod.train(t % 3 != 2)
        x = x0.clone().requires_grad_(True)
        try:
            ret = mod(x, **m['kw'])
        except Exception as ex:
            return True, f'raised {ex!r}'
        vals = [r for r in (ret if isinstance(ret, tuple) else (ret,)) if isinstance(r, torch.Tensor) and r.dtype.is_floating_point]
        if any(not bool(torch.isfinite(v).all()) for v in vals) or any(v.dtype.is_floating_point and not bool(torch.isfinite(v).all()) for v in mod.state_dict().values()):
            return True, f'non-finite value at step {t}'
    return False, 'all outputs and state finite over 6 steps'

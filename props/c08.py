"""C08 — evaluation, frozen-codebook calls and decoding are pure."""
import random, copy
from functools import partial
from fractions import Fraction
from vlib import core, vqrec
from vlib.core import qlit, qvec, qmat, coqbool, natlist, blist
from props import c03

OBLIGATIONS = dict(
    prop_file='Properties/C08.v',
    glue=['Glue/CoreGlue.v'] + [f'Glue/Pin_{n}.v' for n in ('w_euclid', 'w_cosine', 'w_vq', 'w_fsq', 'w_lfq', 'w_simvq', 'w_rpq', 'w_rvq', 'w_rfsq', 'w_rlfq', 'w_rsvq', 'w_lq', 'o_rpq_eval')] + ['Glue/Pin_fp_C08.v', 'Glue/InventoryFacts.v'],
    extra=['Model/CoreCheck.vo'],
    gen_items=['g_euclid_ema', 'g_cosine_ema', 'g_euclid_update_ema', 'g_cosine_update_ema', 'g_euclid_expire', 'g_cosine_expire', 'g_euclid_kmeans',
               'g_cosine_kmeans', 'g_gumbel_noise', 'g_rvq_shared_update', 'g_rvq_shared_expire', 'g_rvq_shared_opt', 'g_vq_inplace_opt', 'g_vq_inplace_step',
               'w_euclid', 'w_cosine', 'w_vq', 'w_fsq', 'w_lfq', 'w_simvq', 'w_rpq', 'w_rvq', 'w_rfsq', 'w_rlfq', 'w_rsvq', 'w_lq', 'o_rpq_eval', 'inv_euclid', 'inv_cosine', 'fp_C08'],
)
ASSUMPTIONS = [
    'state = state_dict() + parameters, compared bit-exactly before/after every pure operation; optimiser-internal state (momentum) is outside state_dict and not observed',
    '"same result when repeated" is checked for deterministic configurations; for stochastic sampling in frozen *training* calls only state purity is claimed (the output may depend on the noise)',
    'classes without a codebook state machine (FSQ, LFQ, SimVQ, RandomProjectionQuantizer, LatentQuantize) are pure because their forward/decode methods contain no in-place write to module state: the list of such writes is regenerated from the source and pinned',
]
HEADER = c03.HEADER


def blob(mod):
    import torch
    out = {}
    for k, v in mod.state_dict().items():
        out['sd:' + k] = v.detach().clone()
    for k, v in mod.named_parameters():
        out['p:' + k] = v.detach().clone()
    for k, v in mod.named_buffers():
        out['b:' + k] = v.detach().clone()
    return out


def same(a, b):
    from vlib import impl
    return impl.blobs_equal(a, b)


def flat_out(ret):
    import torch
    out = []

    def rec(r):
        if isinstance(r, torch.Tensor):
            out.append(r.detach().clone())
        elif isinstance(r, (tuple, list)):
            for e in r:
                rec(e)
    rec(ret)
    return out


def outs_equal(a, b):
    import torch
    if len(a) != len(b):
        return False
    for x, y in zip(a, b):
        if x.shape != y.shape or not torch.equal(torch.nan_to_num(x.float()), torch.nan_to_num(y.float())):
            return False
    return True


def factories(rng):
    import torch
    from torch.optim import SGD
    from vector_quantize_pytorch import (VectorQuantize, ResidualVQ, GroupedResidualVQ, FSQ, LFQ, SimVQ, ResidualSimVQ, RandomProjectionQuantizer,
                                         ResidualFSQ, ResidualLFQ, LatentQuantize, GroupedResidualFSQ, GroupedResidualLFQ)
    F = []

    def add(name, mk, dim, freeze=False, decode=None, image=False, has_cb=False, stochastic=False, kmeans=False, mkx=None):
        F.append(dict(name=name, mk=mk, dim=dim, freeze=freeze, decode=decode, image=image, has_cb=has_cb, stochastic=stochastic, kmeans=kmeans, mkx=mkx))
    dec_vq = lambda m, idx: m.get_output_from_indices(idx)
    add('vq-ema', lambda: VectorQuantize(dim=4, codebook_size=6, decay=0.5), 4, True, dec_vq, has_cb=True)
    add('vq-cosine', lambda: VectorQuantize(dim=4, codebook_size=6, use_cosine_sim=True, decay=0.75), 4, True, dec_vq, has_cb=True)
    add('vq-expiry', lambda: VectorQuantize(dim=3, codebook_size=8, threshold_ema_dead_code=2, decay=0.25), 3, True, dec_vq, has_cb=True)
    add('vq-cosine-expiry', lambda: VectorQuantize(dim=3, codebook_size=6, use_cosine_sim=True, threshold_ema_dead_code=2, decay=0.5), 3, True, dec_vq, has_cb=True)
    add('vq-cosine-heads-expiry', lambda: VectorQuantize(dim=4, codebook_size=5, heads=2, codebook_dim=2, use_cosine_sim=True, threshold_ema_dead_code=2), 4, True, None, has_cb=True)
    add('vq-heads', lambda: VectorQuantize(dim=4, codebook_size=5, heads=2, separate_codebook_per_head=True, codebook_dim=2, decay=0.5, threshold_ema_dead_code=1), 4, True, None, has_cb=True)
    add('vq-stochastic', lambda: VectorQuantize(dim=3, codebook_size=5, stochastic_sample_codes=True, sample_codebook_temp=0.5, threshold_ema_dead_code=1), 3, True, dec_vq, has_cb=True, stochastic=True)
    add('vq-cosine-stochastic', lambda: VectorQuantize(dim=3, codebook_size=6, use_cosine_sim=True, stochastic_sample_codes=True, sample_codebook_temp=0.5, decay=0.5), 3, True, dec_vq, has_cb=True, stochastic=True)
    add('vq-heads-stochastic-st', lambda: VectorQuantize(dim=4, codebook_size=5, heads=2, codebook_dim=2, stochastic_sample_codes=True, straight_through=True, rotation_trick=False, sample_codebook_temp=1.0), 4, True, None, has_cb=True, stochastic=True)
    add('rvq-cosine-stochastic', lambda: ResidualVQ(dim=3, num_quantizers=2, codebook_size=6, use_cosine_sim=True, stochastic_sample_codes=True, sample_codebook_temp=0.5), 3, True, dec_vq, stochastic=True)
    add('vq-kmeans', lambda: VectorQuantize(dim=3, codebook_size=4, kmeans_init=True, kmeans_iters=3, threshold_ema_dead_code=1), 3, True, dec_vq, has_cb=True, kmeans=True)
    add('vq-learnable-inplace', lambda: VectorQuantize(dim=3, codebook_size=5, learnable_codebook=True, ema_update=False,
                                                       in_place_codebook_optimizer=partial(SGD, lr=0.5)), 3, True, dec_vq, has_cb=True)
    add('vq-orthogonal', lambda: VectorQuantize(dim=3, codebook_size=5, orthogonal_reg_weight=1.0, ema_update=False, learnable_codebook=True), 3, True, dec_vq, has_cb=True)
    add('rvq', lambda: ResidualVQ(dim=3, num_quantizers=3, codebook_size=5, decay=0.5, threshold_ema_dead_code=1), 3, True, dec_vq)
    add('rvq-shared', lambda: ResidualVQ(dim=3, num_quantizers=3, codebook_size=6, shared_codebook=True, decay=0.5, threshold_ema_dead_code=2), 3, True, dec_vq)
    add('rvq-shared-stochastic', lambda: ResidualVQ(dim=3, num_quantizers=2, codebook_size=6, shared_codebook=True, stochastic_sample_codes=True, threshold_ema_dead_code=2), 3, True, dec_vq, stochastic=True)
    add('rvq-shared-learnable', lambda: ResidualVQ(dim=3, num_quantizers=2, codebook_size=6, shared_codebook=True, learnable_codebook=True, ema_update=False,
                                                    in_place_codebook_optimizer=partial(SGD, lr=0.5)), 3, True, dec_vq)
    add('rvq-dropout', lambda: ResidualVQ(dim=3, num_quantizers=4, codebook_size=5, quantize_dropout=True, threshold_ema_dead_code=1, decay=0.5), 3, True, dec_vq, stochastic=True)
    # scarce batches for a large k-means codebook with expiry: after one training step EVERY code is below the dead-code threshold at once
    add('vq-kmeans-expiry-scarce', lambda: VectorQuantize(dim=3, codebook_size=16, kmeans_init=True, kmeans_iters=2, threshold_ema_dead_code=2, decay=0.5), 3, True, dec_vq, has_cb=True, kmeans=True)
    add('rvq-kmeans-expiry-scarce', lambda: ResidualVQ(dim=3, num_quantizers=2, codebook_size=16, kmeans_init=True, kmeans_iters=2, threshold_ema_dead_code=2, decay=0.5), 3, True, dec_vq, kmeans=True)
    add('rvq-kmeans', lambda: ResidualVQ(dim=3, num_quantizers=2, codebook_size=4, kmeans_init=True, kmeans_iters=2), 3, True, dec_vq, kmeans=True)
    add('rvq-implicit', lambda: ResidualVQ(dim=3, num_quantizers=2, codebook_size=4, implicit_neural_codebook=True, mlp_kwargs=dict(dim_hidden=4, depth=1)), 3, True, dec_vq)
    add('grvq', lambda: GroupedResidualVQ(dim=4, groups=2, num_quantizers=2, codebook_size=5, decay=0.5, threshold_ema_dead_code=1), 4, True, dec_vq)
    add('fsq', lambda: FSQ([5, 4, 3]), 3, False, lambda m, idx: m.indices_to_codes(idx))
    add('fsq-noise', lambda: FSQ([5, 3], noise_dropout=0.5), 2, False, lambda m, idx: m.indices_to_codes(idx), stochastic=True)
    add('lfq', lambda: LFQ(dim=3, codebook_size=8), 3, False, lambda m, idx: m.indices_to_codes(idx))
    add('lfq-proj', lambda: LFQ(dim=5, codebook_size=8, num_codebooks=2, frac_per_sample_entropy=0.5), 5, False, lambda m, idx: m.indices_to_codes(idx), stochastic=True)
    add('rfsq', lambda: ResidualFSQ(levels=[4, 3], num_quantizers=3, dim=2, quantize_dropout=True), 2, False, dec_vq, stochastic=True)
    add('rlfq', lambda: ResidualLFQ(dim=3, codebook_size=8, num_quantizers=2), 3, False, dec_vq)
    add('grfsq', lambda: GroupedResidualFSQ(dim=4, groups=2, levels=[3, 3], num_quantizers=2), 4, False, dec_vq)
    # grouped / residual scalar quantizers WITH quantize_dropout: evaluation must stay deterministic (no layer dropped), training is stochastic
    add('grfsq-dropout', lambda: GroupedResidualFSQ(dim=4, groups=2, levels=[3, 3], num_quantizers=3, quantize_dropout=True), 4, False, dec_vq, stochastic=True)
    add('grlfq-dropout', lambda: GroupedResidualLFQ(dim=6, groups=2, codebook_size=8, num_quantizers=3, quantize_dropout=True), 6, False, dec_vq, stochastic=True)
    add('grvq-dropout', lambda: GroupedResidualVQ(dim=4, groups=2, num_quantizers=3, codebook_size=5, decay=0.5, quantize_dropout=True), 4, True, dec_vq, stochastic=True)
    add('rlfq-dropout', lambda: ResidualLFQ(dim=3, codebook_size=8, num_quantizers=3, quantize_dropout=True), 3, False, dec_vq, stochastic=True)
    add('rsimvq-dropout', lambda: ResidualSimVQ(dim=3, num_quantizers=3, codebook_size=6, quantize_dropout=True), 3, False, dec_vq, stochastic=True)
    add('simvq', lambda: SimVQ(dim=3, codebook_size=6), 3, False, lambda m, idx: m.indices_to_codes(idx))
    add('rsimvq', lambda: ResidualSimVQ(dim=3, num_quantizers=2, codebook_size=6), 3, False, dec_vq)
    add('rpq', lambda: RandomProjectionQuantizer(dim=4, codebook_size=5, codebook_dim=2, num_codebooks=2), 4, False, None)
    add('latent', lambda: LatentQuantize(levels=[3, 4], dim=2), 2, False, lambda m, idx: m.indices_to_codes(idx), image=True)
    # all-pairs covering set of VectorQuantize option combinations (vlib/zoo.py)
    from vlib import zoo
    for zname, zc, zkw in zoo.configs():
        add(zname, (lambda zkw=zkw: VectorQuantize(**zkw())), zkw()['dim'], True, dec_vq if zc['heads'] == '1' else None, has_cb=True,
            stochastic=zc['sampling'] != 'argmax', kmeans=zc['init'] == 'kmeans')
    # all-pairs sets of the other exported classes (FSQ / LFQ options; residual stacks: class x depth x dropout options x projection x layout)
    for kind in ('fsq', 'lfq', 'res'):
        for zname, zc, zmk in zoo.class_configs(kind):
            sto = bool(zc.get('noise')) or zc.get('frac', 1.0) < 1.0 or bool(zc.get('dropout'))
            dec = (lambda m, idx: m.indices_to_codes(idx)) if kind in ('fsq', 'lfq') else dec_vq
            add(zname, zmk, zoo.zoo_dim(kind, zc), kind == 'res' and zc['cls'] == 'rvq', dec, stochastic=sto, mkx=(lambda kind=kind, zc=zc: zoo.zoo_input(kind, zc, torch)))
    return F


def call(f, mod, x, mode, seed):
    import torch
    mod.train(mode in ('train', 'frozen'))
    kw = {}
    if mode == 'frozen':
        kw['freeze_codebook'] = True
    torch.manual_seed(seed)
    random.seed(seed)
    return mod(x, **kw)


def indices_of(f, ret):
    import torch
    if isinstance(ret, torch.Tensor):
        return ret
    if hasattr(ret, 'indices'):
        return ret.indices
    return ret[1]


def correspond(ctx, scale):
    import torch
    from vlib import impl
    rng = ctx.rng
    vqrec.PERMUTE_VIEWS = False      # repeated calls are compared bit for bit: a different memory layout may change float sums in the last bit
    failures, samples, cases, meta = [], [], [], []
    evaluations = 0
    nontrivial = 0
    dist = {'walks': 0, 'pure_ops': 0, 'train_ops': 0, 'decode_ops': 0, 'repeat_checked': 0, 'kmeans_first_call_exceptions': 0, 'model_cases': 0}
    F = factories(rng)
    nwalk = (2 if not ctx.thorough else 12) * scale
    for f in F:
        for wi in list(range(nwalk)) + ([nwalk + 1] if f['kmeans'] else []):
            mod = f['mk']()
            dist['walks'] += 1
            restored = False
            if wi == nwalk + 1:
                # a FRESH module restored from the checkpoint of an initialised one (round 10, seed C08-j): the checkpoint carries the initialisation, so
                # the k-means exception is not granted to the restored module - its first pure call leaves the restored codebook alone
                try:
                    donor = f['mk']()
                    donor.train()
                    for _ in range(2):
                        donor(f['mkx']() if f.get('mkx') else (torch.randn(2, f['dim'], 3) if f['image'] else torch.randn(2, 4, f['dim'])))
                    mod.load_state_dict(copy.deepcopy(donor.state_dict()))
                    restored = True
                    dist['walks_restored_from_initialised_checkpoint'] = dist.get('walks_restored_from_initialised_checkpoint', 0) + 1
                except Exception:
                    continue
            alphabet = ['train', 'train', 'train-bwd', 'eval', 'eval'] + (['frozen', 'frozen', 'ce-eval', 'ce-frozen'] if f['freeze'] else []) + (['decode'] if f['decode'] else [])
            alphabet = alphabet + ['bad-eval']
            ops = [rng.choice(alphabet) for _ in range(rng.choice([5, 8, 12]))]
            if wi % 2 == 1:
                ops = ['train', 'train'] + ops
            elif f['freeze']:
                ops = ['frozen', 'eval'] + ops      # a fresh (never trained / just loaded) module must be left alone too       # state-changing steps first, so that purity is tested on a "used" module
            if f['kmeans'] and rng.random() < 0.5:
                ops = [rng.choice(['eval', 'frozen'])] + ops  # the permitted exception: first call initialises
            if f['kmeans'] and wi % 2 == 0:
                ops = ['bad-eval'] + ops          # a failing call BEFORE the initialising one
            if f['name'].endswith('-scarce'):
                ops = ['train', 'frozen', 'train', 'eval', 'decode'] + ops     # every code dies at once after a scarce training step: the pure calls that follow still change nothing
            trained = False
            last_idx = None
            trace = []
            never_initted = {k for k, v in blob(mod).items() if k.endswith('initted') and not bool(v.all())}
            if restored:
                never_initted = set()
                ops = [o_ for o_ in (['eval', 'frozen', 'decode', 'eval'] if f['freeze'] else ['eval', 'decode', 'eval']) if o_ != 'decode' or f['decode']] + [o_ for o_ in ops if o_ != 'bad-eval']
            for oi, op in enumerate(ops):
                x = f['mkx']() if f.get('mkx') else (torch.randn(2, f['dim'], 3) if f['image'] else torch.randn(2, 4, f['dim']))
                if rng.random() < 0.3:
                    x = x * rng.choice([0.0, 1e-3, 10.0])
                before = blob(mod)
                recs = None
                allowed_uninit = set(never_initted)
                seed = rng.randrange(10 ** 6)
                evaluations += 1
                trace.append(op)
                try:
                    if op == 'decode':
                        if last_idx is None:
                            continue
                        f['decode'](mod, last_idx)
                        dist['decode_ops'] += 1
                        # ... and the same indices decoded in other SHAPES: token by token (0-dim index tensors: basic indexing returns a VIEW of the
                        # codebook), python ints, and with -1 at a position (a padded token of a masked call) - a decoder only reads
                        try:
                            flat_i = last_idx.reshape(-1) if last_idx.ndim <= 2 else None
                            if flat_i is not None and flat_i.numel():
                                for tok in (flat_i[0], flat_i[-1], torch.tensor(-1), torch.tensor([-1, int(flat_i[0])])):
                                    for meth in ('get_codes_from_indices', 'get_output_from_indices'):
                                        if hasattr(mod, meth):
                                            try:
                                                getattr(mod, meth)(tok)
                                            except Exception:
                                                pass           # a shape the decoder rejects is not a silent change
                                dist['decode_shape_variants'] = dist.get('decode_shape_variants', 0) + 1
                        except Exception:
                            pass
                        ret = None
                    elif op == 'bad-eval':
                        # an evaluation call that FAILS (input of the wrong width / an all-padding mask where k-means has nothing to sample): whether it
                        # raises or is accepted, it is an evaluation call - and a call that raised must not have committed anything, not even the
                        # k-means initialisation flag
                        mod.train(False)
                        raised_any = False
                        for bad_kind in ('wrong-width', 'all-padding'):
                            try:
                                if bad_kind == 'wrong-width':
                                    xb = torch.randn(*x.shape[:-1], x.shape[-1] + 1) if not f['image'] else torch.randn(x.shape[0], x.shape[1] + 1, *x.shape[2:])
                                    mod(xb)
                                else:
                                    mod(x, mask=torch.zeros(x.shape[0], x.shape[1], dtype=torch.bool))
                            except Exception:
                                raised_any = True
                                mid = blob(mod)
                                okb, whyb = same(before, mid)
                                if not okb:
                                    failures.append({'key': f'{f["name"]}:bad-eval:{bad_kind}:failed-call-changed-state', 'what': f'{f["name"]}: an evaluation call that raised ({bad_kind}) changed the state: {whyb} (history {trace})',
                                                     'case': dict(name=f['name'], ops=trace)})
                        dist['failing_eval_calls'] = dist.get('failing_eval_calls', 0) + int(raised_any)
                        ret = None
                    elif op == 'train-bwd':
                        # an ordinary training step of the CALLER: forward, backward of the returned loss - gradients are left on the parameters
                        # (no zero_grad yet), which a following frozen / evaluation call must not consume
                        mod.train(True)
                        torch.manual_seed(seed)
                        random.seed(seed)
                        xg = x.clone().requires_grad_(True)
                        rb = mod(xg)
                        fl = [t_ for t_ in (rb if isinstance(rb, tuple) else (rb,)) if isinstance(t_, torch.Tensor) and t_.dtype.is_floating_point and t_.requires_grad]
                        if fl:
                            sum(t_.sum() for t_ in fl).backward()
                        dist['train_backward_ops'] = dist.get('train_backward_ops', 0) + 1
                        ret = None
                    elif op in ('ce-eval', 'ce-frozen'):
                        # per-call option `indices=` (cross-entropy to target codes) in evaluation mode / with a frozen codebook: a pure call as well
                        if last_idx is None or last_idx.shape[0] != x.shape[0]:
                            continue
                        mod.train(op == 'ce-frozen')
                        torch.manual_seed(seed)
                        try:
                            mod(x, indices=last_idx, **({'freeze_codebook': True} if op == 'ce-frozen' else {}))
                        except (TypeError, AssertionError, RuntimeError):
                            continue        # option not supported in this configuration (e.g. channel-first ResidualVQ rejects target indices): not a silent change
                        dist['ce_target_calls'] = dist.get('ce_target_calls', 0) + 1
                        ret = None
                    else:
                        recs = None
                        if f['has_cb'] and op in ('eval', 'frozen'):
                            mod.train(op == 'frozen')
                            torch.manual_seed(seed)
                            ret, recs = vqrec.record_call(mod, x, **({'freeze_codebook': True} if op == 'frozen' else {}))
                        else:
                            ret = call(f, mod, x, op, seed)
                        idx = indices_of(f, ret)
                        if idx is not None and idx.dtype in (torch.int32, torch.int64) and (idx >= 0).all():
                            last_idx = idx
                except Exception as ex:
                    failures.append({'key': f'{f["name"]}:{op}:exception:{type(ex).__name__}', 'what': f'{f["name"]} op {op} after {trace}: {ex!r}',
                                     'case': dict(name=f['name'], ops=trace)})
                    break
                never_initted = {k for k in never_initted if not bool(blob(mod)[k].all())}
                if op in ('train', 'train-bwd'):
                    trained = True
                    dist['train_ops'] += 1
                    continue
                dist['pure_ops'] += 1
                nontrivial += trained
                after = blob(mod)
                ok, why = same(before, after)
                first_init = f['kmeans'] and any(k.endswith('initted') and not bool(v.all()) for k, v in before.items())
                # the k-means exception is granted ONCE per codebook: a flag that was set and is clear again (whatever cleared it) does not earn a second one
                uninit_now = {k for k, v in before.items() if k.endswith('initted') and not bool(v.all())}
                if first_init and not (uninit_now <= allowed_uninit):
                    first_init = False
                    failures.append({'key': f'{f["name"]}:{op}:initialised-flag-cleared', 'what': f'{f["name"]}: a codebook that had been initialised is marked un-initialised again before the pure call "{op}" (history {trace}): '
                                     f'{sorted(uninit_now - allowed_uninit)[:2]}', 'case': dict(name=f['name'], ops=trace)})
                if not ok and first_init:
                    dist['kmeans_first_call_exceptions'] += 1
                    ok = True
                    # the permitted exception is the k-means initialisation ALONE: the state right after it is the k-means result (integer usage counts
                    # adding up to the tokens seen, running sums = code x count), not that result pushed through an EMA step or dead-code expiry
                    for kname, t_cs in after.items():
                        if kname.endswith('cluster_size') and kname.replace('cluster_size', 'embed') in after and t_cs.dtype.is_floating_point:
                            t_e, t_a = after[kname.replace('cluster_size', 'embed')], after.get(kname.replace('cluster_size', 'embed_avg'))
                            ntok = x.numel() // x.shape[-1] if not f['image'] and not f.get('mkx') else None
                            integral = bool(torch.equal(t_cs, t_cs.round()))
                            sums_ok = t_a is None or bool(torch.allclose(t_a, t_e * t_cs[..., None], atol=1e-4, rtol=1e-4))
                            if not integral or not sums_ok:
                                failures.append({'key': f'{f["name"]}:{op}:first-call-more-than-kmeans', 'what': f'{f["name"]}: the initialising pure call "{op}" left {kname} '
                                                 f'{"non-integral" if not integral else "inconsistent with embed_avg = embed x count"}: more than the k-means initialisation ran (history {trace})',
                                                 'case': dict(name=f['name'], ops=trace)})
                if not ok:
                    failures.append({'key': f'{f["name"]}:{op}:state-changed:{why.split(":")[1] if ":" in why else why}',
                                     'what': f'{f["name"]}: persistent state changed by a pure operation "{op}" after history {trace[:-1]}: {why}',
                                     'case': dict(name=f['name'], ops=trace, seed=ctx.seed)})
                    if len(failures) > 40:
                        break
                # model tie: the model's step on the recorded pre-state is the identity and equals the observed post-state
                if recs:
                    rec = recs[-1]
                    cb = mod._codebook
                    for h in range(rec.H):
                        if not rec.before['initted']:
                            continue
                        cases.append(c03.update_term(rec, h, cb, bool(mod.use_cosine_sim), Fraction(0), Fraction(0)))
                        meta.append(dict(name=f['name'], op=op, ops=list(trace)))
                        dist['model_cases'] += 1
                # repeat: same input, same state -> same result (deterministic configurations; eval always)
                if op not in ('decode', 'ce-eval', 'ce-frozen', 'bad-eval') and (op == 'eval' or not f['stochastic']) and not first_init:
                    try:
                        r1 = flat_out(ret)
                        # the caller OWNS what it gets back: it scribbles in place over every returned tensor (and over its own input) - if an output
                        # aliases module state, another output or a cached tensor, the state or the repeated call below changes
                        x_keep = x.detach().clone()

                        def scribble(r_):
                            if isinstance(r_, torch.Tensor):
                                with torch.no_grad():
                                    if r_.dtype.is_floating_point:
                                        r_.detach().mul_(-3.0).add_(11.0)
                                    elif r_.dtype in (torch.int32, torch.int64):
                                        r_.detach().fill_(0)
                            elif isinstance(r_, (tuple, list)):
                                for e_ in r_:
                                    scribble(e_)
                        try:
                            scribble(ret)
                            dist['caller_scribbles_over_outputs'] = dist.get('caller_scribbles_over_outputs', 0) + 1
                        except RuntimeError:
                            pass          # an output that cannot be written in place (an expanded view) is the library's way of saying "read only"
                        if not torch.equal(torch.nan_to_num(x.detach()), torch.nan_to_num(x_keep)):
                            failures.append({'key': f'{f["name"]}:{op}:output-aliases-input', 'what': f'{f["name"]}: writing into the returned tensors changed the caller\'s input (an output aliases it; history {trace})',
                                             'case': dict(name=f['name'], ops=trace)})
                            x = x_keep
                        ok_s, why_s = same(after, blob(mod))
                        if not ok_s:
                            failures.append({'key': f'{f["name"]}:{op}:output-aliases-state', 'what': f'{f["name"]}: writing into the tensors returned by the pure call "{op}" changed the module\'s state: {why_s} (history {trace})',
                                             'case': dict(name=f['name'], ops=trace)})
                            break
                        r2 = flat_out(call(f, mod, x, op, seed + 1))
                        dist['repeat_checked'] += 1
                        if oi % 4 == 1:
                            # ... and again, several times: the n-th identical pure call gives what the first gave (no counter, cache or schedule ticks)
                            for rep_i in range(5):
                                r_n = flat_out(call(f, mod, x, op, seed + 2 + rep_i))
                                if not outs_equal(r1, r_n):
                                    failures.append({'key': f'{f["name"]}:{op}:not-repeatable:nth-call', 'what': f'{f["name"]}: the {rep_i + 3}-th identical pure call "{op}" gave a different result than the first (history {trace})',
                                                     'case': dict(name=f['name'], ops=trace)})
                                    break
                            dist['repeated_five_times'] = dist.get('repeated_five_times', 0) + 1
                        if not outs_equal(r1, r2):
                            failures.append({'key': f'{f["name"]}:{op}:not-repeatable', 'what': f'{f["name"]}: repeating the pure call "{op}" on the same input gave a different result (history {trace})',
                                             'case': dict(name=f['name'], ops=trace)})
                        # ambient autograd modes: an evaluation call gives the same values under no_grad / inference_mode and leaves the state alone
                        if op == 'eval' and oi % 3 == 0:
                            for cname, cm in (('no_grad', torch.no_grad), ('inference_mode', torch.inference_mode)):
                                try:
                                    with cm():
                                        r3 = flat_out(call(f, mod, x.detach(), op, seed + 2))
                                except Exception as ex:
                                    failures.append({'key': f'{f["name"]}:eval:{cname}:exception:{type(ex).__name__}', 'what': f'{f["name"]}: evaluation call under torch.{cname}() raised {ex!r}', 'case': dict(name=f['name'], ops=trace)})
                                    continue
                                dist['ambient_mode_calls'] = dist.get('ambient_mode_calls', 0) + 1
                                if not outs_equal(r1, r3):
                                    failures.append({'key': f'{f["name"]}:eval:{cname}:differs', 'what': f'{f["name"]}: evaluation call under torch.{cname}() returns different values (history {trace})', 'case': dict(name=f['name'], ops=trace)})
                        ok2, why2 = same(after, blob(mod))
                        if not ok2:
                            failures.append({'key': f'{f["name"]}:{op}:state-changed-on-repeat', 'what': f'{f["name"]}: state changed by repeated pure call: {why2}', 'case': dict(name=f['name'], ops=trace)})
                    except Exception as ex:
                        failures.append({'key': f'{f["name"]}:{op}:repeat-exception', 'what': repr(ex), 'case': dict(name=f['name'], ops=trace)})
            if len(samples) < 4:
                samples.append(dict(module=f['name'], ops=trace))
    # STATELESS use (torch.func.functional_call, single-dict and (params, buffers) tuple form) of k-means modules: the initialising call writes the whole
    # k-means result - flag included - into the CALLER's tensors, the module's own state stays as it was, and the following pure calls change nothing
    from torch.func import functional_call as _fcall
    from vector_quantize_pytorch import VectorQuantize as _VQ8
    for fi in range(4 if not ctx.thorough else 12):
        try:
            vq8 = _VQ8(dim=3, codebook_size=4, kmeans_init=True, kmeans_iters=2, use_cosine_sim=(fi % 2 == 1), decay=0.5)
            vq8.eval()
            own0 = blob(vq8)
            params8 = {k_: v_.detach().clone() for k_, v_ in vq8.named_parameters()}
            bufs8 = {k_: v_.detach().clone() for k_, v_ in vq8.named_buffers()}
            args8 = (params8, bufs8) if fi % 4 < 2 else {**params8, **bufs8}
            store8 = bufs8 if fi % 4 < 2 else args8
            with torch.no_grad():
                _fcall(vq8, args8, (torch.randn(2, 6, 3),))
                after_init = {k_: v_.clone() for k_, v_ in store8.items()}
                r_a = flat_out(_fcall(vq8, args8, (torch.ones(2, 6, 3) * 0.3,)))
                r_b = flat_out(_fcall(vq8, args8, (torch.ones(2, 6, 3) * 0.3,)))
            evaluations += 1
            dist['functional_call_kmeans'] = dist.get('functional_call_kmeans', 0) + 1
            okm, whym = same(own0, blob(vq8))
            if not okm:
                failures.append({'key': 'vq-kmeans:functional-call:own-state-changed', 'what': f'a k-means VectorQuantize used through torch.func.functional_call changed its own state: {whym}', 'case': dict(form=fi % 4)})
            flag8 = [v_ for k_, v_ in store8.items() if k_.endswith('initted')]
            moved8 = [k_ for k_ in store8 if store8[k_].dtype.is_floating_point and not torch.equal(store8[k_], after_init[k_])]
            if (flag8 and not bool(flag8[0].all())) or moved8 or not outs_equal(r_a, r_b):
                failures.append({'key': 'vq-kmeans:functional-call:not-pure-after-init', 'what': 'a k-means VectorQuantize used statelessly: after the initialising call the caller\'s `initted` is '
                                 f'{bool(flag8[0].all()) if flag8 else None}, later evaluation calls changed {moved8[:3]} / repeatable={outs_equal(r_a, r_b)}', 'case': dict(form=fi % 4)})
        except Exception as ex:
            failures.append({'key': f'vq-kmeans:functional-call:exception:{type(ex).__name__}', 'what': repr(ex), 'case': dict(form=fi % 4)})
    # all-pairs sweep over per-call options and ambient contexts (vlib/callzoo.py): whatever the options, an evaluation-mode call and a
    # frozen training-mode call leave every persistent tensor bit-identical - after a used history (two training steps, gradients left behind)
    from vlib import callzoo
    from vector_quantize_pytorch import VectorQuantize, ResidualVQ
    from torch.optim import SGD
    cz_cfgs = [('vq-expiry', lambda: VectorQuantize(dim=4, codebook_size=6, decay=0.5, threshold_ema_dead_code=2), 4, 1, None),
               ('vq-heads-cosine', lambda: VectorQuantize(dim=4, codebook_size=6, heads=2, codebook_dim=2, use_cosine_sim=True, threshold_ema_dead_code=2), 4, 2, None),
               ('vq-inplace-sgd', lambda: VectorQuantize(dim=3, codebook_size=6, learnable_codebook=True, ema_update=False, in_place_codebook_optimizer=partial(SGD, lr=0.5)), 3, 1, None),
               ('vq-stochastic-kmeans', lambda: VectorQuantize(dim=3, codebook_size=6, stochastic_sample_codes=True, kmeans_init=True, kmeans_iters=2, threshold_ema_dead_code=1), 3, 1, None),
               ('rvq-shared-expiry', lambda: ResidualVQ(dim=3, num_quantizers=3, codebook_size=6, shared_codebook=True, threshold_ema_dead_code=2, decay=0.5), 3, 1, 3)]
    for cname, cmk, cdim, cheads, cnq in cz_cfgs:
        mod = cmk()
        mod.train()
        for _ in range(2):
            xg = torch.randn(2, 5, cdim, requires_grad=True)
            rt = mod(xg)
            tot = rt[0].sum() + rt[2].sum()
            if tot.requires_grad:
                tot.backward()                      # gradients stay on the parameters: the caller has not called zero_grad yet
        for v in callzoo.variants():
            for train in (False, True):
                if train and not v['freeze']:
                    continue
                mod.train(train)
                x, kw_c, cm, valid = callzoo.build_call(v, torch, cdim, heads=cheads, K=6, nq=cnq)
                before = blob(mod)
                try:
                    with cm():
                        mod(x, **kw_c)
                except Exception:
                    continue
                evaluations += 1
                dist['call_option_pure_calls'] = dist.get('call_option_pure_calls', 0) + 1
                ok, why = same(before, blob(mod))
                if not ok:
                    failures.append({'key': f'{cname}:call-options:state-changed:{why.split(":")[1] if ":" in why else why}',
                                     'what': f'{cname}: persistent state changed by a pure call ({"frozen training" if train else "evaluation"} mode) {callzoo.label(v)}: {why}', 'case': dict(name=cname, variant=v, train=train)})
    bad, broken = core.run_cases(ctx, 'c08', HEADER, cases, per_file=40)
    for name, out in broken:
        failures.append({'key': f'coq-eval:{name}', 'what': 'case file did not evaluate: ' + out, 'case': {'file': name}})
    for i, code in sorted(bad.items()):
        m = meta[i]
        failures.append({'key': f'{m["name"]}:{m["op"]}:model-state-differs:{code}', 'what': f'{m["name"]}: the model (pure step = identity) and the implementation disagree on the state after "{m["op"]}" (component {code}); history {m["ops"]}',
                         'case': dict(m, term=cases[i][:30000])})
    return {'evaluations': evaluations, 'distinct_nontrivial': nontrivial,
            'rule': 'random walks over {train, eval, frozen, decode} x 39 hand-written + 54 all-pairs (vlib/zoo.py: VectorQuantize, FSQ, LFQ, residual stacks) module configurations; state_dict + parameters + buffers compared bit-exactly around every pure operation, pure calls repeated; '
                    'codebook-bearing pure calls also replayed through the Coq model (identity step); non-trivial = pure op executed after at least one state-changing training step',
            'samples': samples, 'failures': failures, 'distribution': dist}


def replay_case(ctx, case):
    import torch
    if 'term' in case:
        return c03.replay_case(ctx, case)
    F = {f['name']: f for f in factories(ctx.rng)}
    f = F.get(case.get('name'))
    if not f:
        return True, 'unknown module'
    rng = random.Random(1)
    for attempt in range(6):
        mod = f['mk']()
        last_idx = None
        for op in case['ops']:
            x = f['mkx']() if f.get('mkx') else (torch.randn(2, f['dim'], 3) if f['image'] else torch.randn(2, 4, f['dim']))
            before = blob(mod)
            try:
                if op == 'decode':
                    if last_idx is not None:
                        f['decode'](mod, last_idx)
                else:
                    ret = call(f, mod, x, op, rng.randrange(10 ** 6))
                    idx = indices_of(f, ret)
                    if idx is not None and (idx >= 0).all():
                        last_idx = idx
            except Exception as ex:
                return True, f'{op} raised {ex!r}'
            if op != 'train':
                ok, why = same(before, blob(mod))
                first_init = f['kmeans'] and any(k.endswith('initted') and not bool(v.all()) for k, v in before.items())
                if not ok and not first_init:
                    return True, f'state changed by pure op {op}: {why}'
    return False, 'walk replayed 6 times with fresh inputs: state unchanged by every pure operation'

"""C06 — residual quantizers decompose the input greedily and additively."""
import random, copy
from fractions import Fraction
from vlib import core, vqrec
from vlib.core import qlit, qvec, qmat, coqbool, natlist, blist, zlist

OBLIGATIONS = dict(
    prop_file='Properties/C06.v',
    glue=['Glue/CoreGlue.v', 'Glue/Pin_p_residual.v'] + ['Glue/Pin_fp_C06.v', 'Glue/GroupCatGlue.v'],
    extra=['Model/ResidualCheck.vo'],
    gen_items=['p_residual', 'k_cdist', 'fp_C06'],
)
ASSUMPTIONS = [
    'per-layer scalar quantizers (FSQ / LFQ layers), SimVQ layers, projections and the QINCo MLP are opaque functions: the harness applies the layer modules themselves to the residual the specification prescribes and compares bit-exactly / within 1e-5',
    'float32 evaluation of residual - code is replayed in torch (same operation order as the specification r_k = r_{k-1} - code_{k-1}); the Coq checker recomputes residuals exactly from the public codes',
]
HEADER = '''From Coq Require Import ZArith QArith List Bool.
From VQ Require Import Num Model.Vec Model.Core Model.CoreCheck Model.Residual Model.ResidualCheck.
Import ListNotations.
Open Scope Q_scope.
'''
TOL_N = Fraction(2, 10 ** 6)
TOL_C = Fraction(1, 10 ** 5)


def decode_code(code):
    if code == 1:
        return 'output is not the sum of the per-layer codes'
    if code == 2:
        return 'per-layer lists have different lengths'
    if 10 <= code < 30:
        return f'layer {code - 10}: the returned index is not a nearest code of the residual left by the previous layers'
    if code >= 30:
        return f'layer {code - 30}: the per-layer code is not the selected codebook entry (or a dropped layer has a non-zero code)'
    return str(code)


def rvq_cases(ctx, rng, scale, cases, meta, failures, dist):
    import torch
    from vector_quantize_pytorch import ResidualVQ
    n = (36 if not ctx.thorough else 300) * scale
    nt = 0
    for ci in range(n):
        nq = [1, 2, 3, 4, 8, 2, 3, 5][ci % 8]
        mode = ['eval', 'train', 'frozen'][(ci // 2) % 3]
        shared = (ci % 5 == 1)
        cosine = (ci % 7 == 2) and not shared
        learnable = (ci % 11 == 6) and not cosine
        implicit = (ci % 9 == 4) and not shared and nq > 1 and not cosine and not learnable   # the library rejects cosine + implicit (learnable) codebooks
        proj = (ci % 4 == 3)
        masked = (ci % 6 == 5)
        d = rng.choice([2, 3])
        tuple_sizes = (ci % 5 == 3) and not shared
        sizes = tuple(rng.choice([2, 3, 5, 7]) for _ in range(nq)) if tuple_sizes else rng.choice([3, 5, 8])
        kw = dict(dim=d + (1 if proj else 0), codebook_dim=d, codebook_size=sizes, shared_codebook=shared, use_cosine_sim=cosine,
                  implicit_neural_codebook=implicit, decay=0.5, threshold_ema_dead_code=0)
        if not tuple_sizes:
            kw['num_quantizers'] = nq
        if learnable:
            kw.update(learnable_codebook=True, ema_update=False)
        stoch = (ci % 10 == 7) and not implicit
        if stoch:
            # stochastic sampling configured, switched OFF for this call by the per-call temperature 0: every layer must be greedy again
            kw.update(stochastic_sample_codes=True, sample_codebook_temp=0.7)
        if implicit:
            kw['mlp_kwargs'] = dict(dim_hidden=4, depth=1)
        try:
            rvq = ResidualVQ(**kw)
        except Exception as ex:
            failures.append({'key': f'rvq:construct:{type(ex).__name__}', 'what': f'ResidualVQ({kw}): {ex!r}', 'case': dict(kw=kw)})
            continue
        # HISTORY on this one instance: (optionally) a pure decode-style read first, then training steps, optimiser steps on learnable
        # parameters, a state_dict reload - the call under test must see the codebooks as they are at that call
        pre_read = ci % 2 == 0
        if pre_read:
            rvq.eval()
            with torch.no_grad():
                _, pidx, _, _ = rvq(torch.randn(1, 2, kw['dim']), return_all_codes=True)
                rvq.get_codes_from_indices(pidx)
                rvq.get_output_from_indices(pidx)
            dist['hist_pre_read'] += 1
        rvq.train()
        for _ in range(rng.choice([0, 1, 2])):
            rvq(torch.randn(2, 4, kw['dim']))
        params = [p_ for p_ in rvq.parameters() if p_.requires_grad]
        if params and ci % 3 != 2:
            o_, i_, l_, _ = rvq(torch.randn(2, 4, kw['dim']), return_all_codes=True)
            (o_.sum() + l_.sum()).backward()
            torch.optim.SGD(params, lr=0.1).step()
            for p_ in params:
                p_.grad = None
            dist['hist_opt_step'] += 1
        if ci % 4 == 1 or ci % 6 == 2:
            other = ResidualVQ(**kw)
            other.train()
            other(torch.randn(2, 4, kw['dim']))
            rvq.load_state_dict(copy.deepcopy(other.state_dict()), **({'assign': True} if ci % 8 == 5 else {}))     # assign=True replaces the tensor objects
            dist['hist_reload'] += 1
        if ci % 5 == 2 and not shared:
            # module SURGERY on the live stack: one stage is replaced by another quantizer (a stage tied to / taken from another model); the forward
            # walks the stack as it is NOW
            donor = ResidualVQ(**kw)
            rvq.layers[-1] = donor.layers[-1]
            if implicit and len(rvq.mlps) and rvq.mlps[-1] is not None:
                rvq.mlps[-1] = donor.mlps[-1]
            dist['hist_stage_replaced'] = dist.get('hist_stage_replaced', 0) + 1
        exact = (not proj) and (not cosine) and (not implicit) and rng.random() < 0.5
        if exact:
            for layer in (rvq.layers[:1] if shared else rvq.layers):
                vqrec.set_codebook_grid(layer, rng)
        b, nn_ = rng.choice([(1, 1), (2, 3), (2, 4)])
        if implicit:
            b, nn_ = 2, 3 + ci % 2          # per-token (implicit) codebooks: several samples AND several positions, always (a batch / sequence axis mix-up needs both)
        x = vqrec.grid(rng, (b, nn_, kw['dim'])) if exact else torch.randn(b, nn_, kw['dim'])
        kwargs = dict(return_all_codes=True)
        m = None
        if masked and nn_ > 1:
            m = torch.tensor([[j < (1 + (i + ci) % nn_) for j in range(nn_)] for i in range(b)])
            kwargs['mask'] = m
        if mode == 'frozen':
            kwargs['freeze_codebook'] = True
        if stoch:
            kwargs['sample_codebook_temp'] = 0.0
            dist['rvq_stochastic_temp0'] = dist.get('rvq_stochastic_temp0', 0) + 1
        rvq.train(mode != 'eval')
        cbs0 = [vqrec.cb_state(layer._codebook)['embed'][0] for layer in rvq.layers]
        with torch.no_grad():
            xp = rvq.project_in(x)
            try:
                out, idx, losses, all_codes = rvq(x, **kwargs)
            except Exception as ex:
                failures.append({'key': f'rvq:exception:{type(ex).__name__}', 'what': f'ResidualVQ({kw}) {mode}: {ex!r}', 'case': dict(kw=kw, mode=mode)})
                continue
            # the codes the specification prescribes: the selected entries of the codebooks in force at call start
            nq_ = idx.shape[-1]
            spec_codes = torch.zeros(nq_, *xp.shape)
            if not implicit:
                for k in range(nq_):
                    cbk = torch.tensor(cbs0[k], dtype=torch.float32)
                    sel = idx[..., k]
                    spec_codes[k] = torch.where((sel >= 0)[..., None], cbk[sel.clamp(min=0)], torch.zeros(()))
            else:
                spec_codes = all_codes
            want = rvq.project_out(spec_codes.sum(dim=0))
            sel_valid = m if m is not None else torch.ones(b, nn_, dtype=torch.bool)
            if not torch.allclose(want[sel_valid], out[sel_valid], atol=2e-5, rtol=1e-4):
                failures.append({'key': f'rvq:output-not-sum:{mode}', 'what': f'ResidualVQ({kw}) {mode}: output != project_out(sum of the selected per-layer codes), max diff {(want - out)[sel_valid].abs().max().item():g}',
                                 'case': dict(kw=kw, mode=mode)})
            # return_all_codes must yield those same per-layer codes
            if not implicit and not torch.allclose(all_codes[:, sel_valid], spec_codes[:, sel_valid], atol=1e-6):
                failures.append({'key': f'rvq:all-codes-differ-from-emitted:{mode}:shared={shared}', 'what': f'ResidualVQ({kw}) {mode}: return_all_codes differs from the codes that were emitted (they do not sum to the output), '
                                 f'max diff {(all_codes - spec_codes)[:, sel_valid].abs().max().item():g}', 'case': dict(kw=kw, mode=mode)})
        dist['rvq_' + mode] += 1
        dist['rvq_shared'] += shared
        dist['rvq_cosine'] += cosine
        dist['rvq_implicit'] += implicit
        dist['rvq_masked'] += m is not None
        # entries per layer, in layer order
        if idx.shape[-1] != nq or losses.shape[-1] != nq or all_codes.shape[0] != nq:
            failures.append({'key': 'rvq:entries-per-layer', 'what': f'ResidualVQ({kw}): indices/losses/all_codes do not carry one entry per layer: {tuple(idx.shape)} {tuple(losses.shape)} {tuple(all_codes.shape)}', 'case': dict(kw=kw)})
            continue
        if implicit:
            # structure only (per-token codebooks come from the opaque MLP; nearest-ness is C01's implicit case)
            continue
        toks = []
        for bi in range(b):
            for ti in range(nn_):
                if m is not None and not bool(m[bi, ti]):
                    continue
                xi = xp[bi, ti].double().tolist()
                ii = idx[bi, ti].tolist()
                ci_ = [spec_codes[k, bi, ti].double().tolist() for k in range(nq)]
                oi = (out[bi, ti] if not proj else spec_codes[:, bi, ti].sum(dim=0)).double().tolist()
                toks.append(f'({qvec(xi)}, {zlist(ii)}, {qmat(ci_)}, {qvec(oi)})')
        tolN = Fraction(0) if exact else TOL_N
        cases.append(f'residual_batch_check {coqbool(cosine)} {qlit(tolN)} {qlit(Fraction(0) if mode == "eval" else TOL_C)} {qlit(TOL_C)} '
                     f'[{"; ".join(qmat(cb) for cb in cbs0)}] [{"; ".join(toks)}]')
        meta.append(dict(kind='rvq', kw=kw, mode=mode, exact=exact, masked=m is not None))
        # non-trivial: some layer's nearest code for the INPUT differs from its nearest code for the true residual
        with torch.no_grad():
            diff = False
            for k in range(1, nq):
                cb = torch.tensor(cbs0[k], dtype=torch.float32)
                a = torch.cdist(xp.reshape(-1, d), cb).argmin(-1)
                if not torch.equal(a, idx[..., k].reshape(-1)):
                    diff = True
            nt += diff
    return nt


def scalar_and_sim_cases(ctx, rng, scale, failures, dist):
    """ResidualFSQ / ResidualLFQ / ResidualSimVQ: the layer modules themselves are the per-layer quantizers (opaque);
    the specification is replayed with torch: r_0 = project_in(x); code_k = s_k * layer_k(r_k / s_k); r_{k+1} = r_k - code_k"""
    import torch
    from vector_quantize_pytorch import ResidualFSQ, ResidualLFQ, ResidualSimVQ
    n = (12 if not ctx.thorough else 100) * scale
    ev = nt = 0
    for ci in range(n):
        nq = [1, 2, 3, 4, 8, 2][ci % 6]
        train = ci % 2 == 1
        for kind in ('rfsq', 'rlfq', 'rsimvq'):
            try:
                if kind == 'rfsq':
                    levels = rng.choice([[3, 3], [5, 4], [8, 5, 5], [2, 3]])
                    if nq == 8:
                        levels = rng.choice([[40, 40], [256], [24, 3]])       # large level counts x deep stacks: (L - 1) ** k passes 2 ** 31
                        dist['rfsq_large_levels_deep'] = dist.get('rfsq_large_levels_deep', 0) + 1
                    proj = ci % 3 == 2
                    q = ResidualFSQ(levels=levels, num_quantizers=nq, dim=len(levels) + (2 if proj else 0))
                    dim = len(levels) + (2 if proj else 0)
                elif kind == 'rlfq':
                    cd = rng.choice([2, 3, 4])
                    proj = ci % 3 == 2
                    q = ResidualLFQ(dim=cd + (1 if proj else 0), codebook_size=2 ** cd, num_quantizers=nq)
                    dim = cd + (1 if proj else 0)
                else:
                    dim = rng.choice([2, 3])
                    q = ResidualSimVQ(dim=dim, num_quantizers=nq, codebook_size=rng.choice([4, 7]), rotation_trick=ci % 4 < 2)
                q.train(train)
                x = torch.randn(2, 3, dim) * rng.choice([0.3, 1.0, 3.0])
                if kind != 'rsimvq' and ci % 4 == 1:
                    x = torch.zeros(2, 3, dim)                      # structured inputs: the residual vanishes (or sits on the grid) early
                elif kind != 'rsimvq' and ci % 4 == 3:
                    x = torch.randint(-2, 3, (2, 3, dim)).float() * 0.5
                if ci % 3 == 1:
                    # the same values as a dense PERMUTED VIEW (conv features '(b, d, n)' viewed channel-last, a time-major batch viewed batch-first): a
                    # running sum kept through reshape() / view handles ends up in a copy for such strides
                    x = x.permute(2, 0, 1).contiguous().permute(1, 2, 0) if ci % 2 == 1 else x.transpose(0, 1).contiguous().transpose(0, 1)
                    dist['permuted_view_inputs'] = dist.get('permuted_view_inputs', 0) + 1
                with torch.no_grad():
                    ret = q(x, return_all_codes=True)
                    out, idx, all_codes = ret[0], ret[1], ret[-1]
                    r = q.project_in(x) if hasattr(q, 'project_in') else x
                    acc = torch.zeros_like(r)
                    problems = []
                    for k, layer in enumerate(q.layers):
                        layer.train(train)
                        if kind == 'rfsq':
                            s = q.scales[k]
                            qk, ik = layer(r / s)
                            code = qk * s
                        elif kind == 'rlfq':
                            qk, ik, _ = layer(r)
                            code = qk
                        else:
                            qk, ik, _ = layer(r)
                            code = qk
                        if not torch.equal(ik, idx[..., k]):
                            problems.append(f'layer {k}: index differs from the layer applied to the true residual')
                        if not torch.allclose(code, all_codes[k], atol=1e-5, rtol=1e-4):
                            problems.append(f'layer {k}: per-layer code differs from scale * layer(residual / scale) by {(code - all_codes[k]).abs().max().item():g}')
                        r = r - code
                        acc = acc + code
                    want = q.project_out(acc) if hasattr(q, 'project_out') else acc
                    if not torch.allclose(want, out, atol=1e-5, rtol=1e-4):
                        problems.append('output differs from project_out(sum of per-layer codes)')
                    if idx.shape[-1] != nq or all_codes.shape[0] != nq:
                        problems.append('not one entry per layer')
                    # scales of the scalar variants: (levels - 1) ** -k and 2 ** -k
                    if kind == 'rfsq':
                        lv = torch.tensor(levels, dtype=torch.float32)
                        for k in range(nq):
                            if not torch.allclose(q.scales[k], (lv - 1) ** -k):
                                problems.append(f'scale of layer {k} is not (levels - 1) ** -{k}')
                    if kind == 'rlfq':
                        for k, layer in enumerate(q.layers):
                            if layer.codebook_scale != 2 ** -k:
                                problems.append(f'codebook_scale of layer {k} is not 2 ** -{k}')
                ev += 1
                nt += nq > 1
                dist[kind] += 1
                for p in problems:
                    failures.append({'key': f'{kind}:{p.split(":")[0]}:train={train}', 'what': f'{kind} nq={nq} train={train}: {p}', 'case': dict(kind=kind, nq=nq, train=train)})
            except Exception as ex:
                failures.append({'key': f'{kind}:exception:{type(ex).__name__}', 'what': f'{kind} nq={nq}: {ex!r}', 'case': dict(kind=kind, nq=nq)})
    return ev, nt


def grouped_cases(ctx, rng, scale, failures, dist):
    import torch
    from vector_quantize_pytorch import GroupedResidualVQ, GroupedResidualFSQ, GroupedResidualLFQ
    ev = 0
    for ci in range((8 if not ctx.thorough else 60) * scale):
        g = [1, 2, 3, 4][ci % 4]
        for kind in ('grvq', 'grfsq', 'grlfq'):
            try:
                if kind == 'grvq':
                    dg = 2
                    q = GroupedResidualVQ(dim=dg * g, groups=g, num_quantizers=2, codebook_size=5)
                elif kind == 'grfsq':
                    dg = 2
                    q = GroupedResidualFSQ(dim=dg * g, groups=g, levels=[3, 4], num_quantizers=2)
                else:
                    dg = 3
                    q = GroupedResidualLFQ(dim=dg * g, groups=g, codebook_size=8, num_quantizers=2)
                q.eval()
                x = torch.randn(2, 3, dg * g)
                with torch.no_grad():
                    ret = q(x)
                    out, idx = ret[0], ret[1]
                    problems = []
                    if idx.shape[0] != g:
                        problems.append(f'indices are not stacked with a leading group axis of size {g}: {tuple(idx.shape)}')
                    for gi, sub in enumerate(q.rvqs):
                        sub.eval()
                        r = sub(x[..., gi * dg:(gi + 1) * dg])
                        if not torch.equal(r[0], out[..., gi * dg:(gi + 1) * dg]):
                            problems.append(f'group {gi}: output chunk differs from the independent residual quantizer on that chunk')
                        if not torch.equal(r[1], idx[gi]):
                            problems.append(f'group {gi}: indices differ from the independent residual quantizer on that chunk')
                ev += 1
                dist[kind] += 1
                for p in problems:
                    failures.append({'key': f'{kind}:{p.split(":")[0]}', 'what': f'{kind} groups={g}: {p}', 'case': dict(kind=kind, groups=g)})
            except Exception as ex:
                failures.append({'key': f'{kind}:exception:{type(ex).__name__}', 'what': f'{kind} groups={g}: {ex!r}', 'case': dict(kind=kind, groups=g)})
    # grouped quantizers on CHANNEL-FIRST inputs (accept_image_fmap=True; round 10, seed C06-j): the input is split into groups on axis 1 and the per-group
    # outputs are concatenated on axis 1 again - output shape = input shape, chunk g = the independent residual quantizer on chunk g
    for ci in range((8 if not ctx.thorough else 40) * scale):
        g = [2, 3, 1, 4][ci % 4]
        for kind in ('grvq', 'grfsq', 'grlfq'):
            try:
                if kind == 'grvq':
                    dg = 2
                    q = GroupedResidualVQ(dim=dg * g, groups=g, num_quantizers=2, codebook_size=5, accept_image_fmap=True)
                elif kind == 'grfsq':
                    dg = 2
                    q = GroupedResidualFSQ(dim=dg * g, groups=g, levels=[3, 4], num_quantizers=2, accept_image_fmap=True)
                else:
                    dg = 3
                    q = GroupedResidualLFQ(dim=dg * g, groups=g, codebook_size=8, num_quantizers=2, accept_image_fmap=True)
                q.eval()
                x = torch.randn(2, dg * g, 3, 4) if ci % 3 != 2 else torch.randn(2, dg * g, 2, 3, 2)
                try:
                    with torch.no_grad():
                        ret = q(x)
                except Exception:
                    dist['grouped_channel_first_rejected'] = dist.get('grouped_channel_first_rejected', 0) + 1
                    continue        # a class that does not take this layout says so loudly
                out, idx = ret[0], ret[1]
                problems = []
                if tuple(out.shape) != tuple(x.shape):
                    problems.append(f'output shape {tuple(out.shape)} != input shape {tuple(x.shape)}')
                else:
                    with torch.no_grad():
                        for gi, sub in enumerate(q.rvqs):
                            sub.eval()
                            r = sub(x[:, gi * dg:(gi + 1) * dg])
                            if tuple(r[0].shape) != tuple(out[:, gi * dg:(gi + 1) * dg].shape) or not torch.equal(r[0], out[:, gi * dg:(gi + 1) * dg]):
                                problems.append(f'group {gi}: output chunk (axis 1) differs from the independent residual quantizer on that chunk')
                            if tuple(r[1].shape) != tuple(idx[gi].shape) or not torch.equal(r[1], idx[gi]):
                                problems.append(f'group {gi}: indices differ from the independent residual quantizer on that chunk')
                ev += 1
                dist['grouped_channel_first'] = dist.get('grouped_channel_first', 0) + 1
                for p in problems:
                    failures.append({'key': f'{kind}:channel-first:{p.split(":")[0].split(" (")[0][:40]}', 'what': f'{kind} groups={g} accept_image_fmap=True input {tuple(x.shape)}: {p}', 'case': dict(kind=kind, groups=g, image=True)})
            except Exception as ex:
                failures.append({'key': f'{kind}:channel-first:exception:{type(ex).__name__}', 'what': f'{kind} groups={g}: {ex!r}', 'case': dict(kind=kind, groups=g, image=True)})
    return ev


def float64_detail_cases(ctx, rng, failures, dist):
    """float64 inputs whose fine detail lies BELOW the float32 resolution of the coarse part: x = c0[i0] + c1[i1] + c2[i2] summed exactly in float64 with
    layer codebooks of scales 1e3 / 1e-6 / 1e-8 (written through the public codebook setter).  Layer k quantizes x minus the codes of the earlier
    layers: the residual must be formed in the input's precision, the returned indices are (i0, i1, i2) and the codes those entries."""
    import torch
    from vector_quantize_pytorch import ResidualVQ, GroupedResidualVQ
    ev = 0
    for ci in range(4 if not ctx.thorough else 20):
        d, K = 2, 4
        try:
            q = ResidualVQ(dim=d, num_quantizers=3, codebook_size=K, decay=0.5)
            scales = [1e3, 1e-6, 1e-8]
            books = []
            for li, layer in enumerate(q.layers):
                cbk = torch.tensor([[float(rng.randint(-8, 8)), float(rng.randint(-8, 8))] for _ in range(K)]) + torch.arange(K)[:, None] * 20.0
                cbk = (cbk * scales[li]).float()
                layer.codebook = cbk
                books.append(layer.codebook.reshape(K, d).double())
            q.train(ci % 2 == 1)
            want = torch.tensor([[rng.randrange(K) for _ in range(3)] for _ in range(6)])
            x64 = sum(books[li][want[:, li]] for li in range(3)).reshape(2, 3, d)
            with torch.no_grad():
                out, idx, _ = q(x64, freeze_codebook=True)
            ev += 1
            dist['float64_fine_detail_calls'] = dist.get('float64_fine_detail_calls', 0) + 1
            got = idx.reshape(6, 3)
            if not torch.equal(got, want):
                layers_bad = [li for li in range(3) if not torch.equal(got[:, li], want[:, li])]
                failures.append({'key': 'rvq:float64-detail:layer-index-not-nearest-for-its-residual', 'what': f'ResidualVQ(3 layers, codebook scales 1e3 / 1e-6 / 1e-8) on a float64 input that is an exact sum of one code per layer: '
                                 f'layers {layers_bad} did not return the code the residual sits on (the residual was not formed in the input precision)', 'case': dict(part='float64-detail', train=bool(ci % 2))})
        except Exception as ex:
            failures.append({'key': f'rvq:float64-detail:exception:{type(ex).__name__}', 'what': repr(ex), 'case': dict(part='float64-detail')})
    return ev


def correspond(ctx, scale):
    rng = ctx.rng
    cases, meta, failures, samples = [], [], [], []
    dist = {k: 0 for k in ('rvq_eval', 'rvq_train', 'rvq_frozen', 'rvq_shared', 'rvq_cosine', 'rvq_implicit', 'rvq_masked', 'hist_pre_read', 'hist_opt_step', 'hist_reload', 'rfsq', 'rlfq', 'rsimvq', 'grvq', 'grfsq', 'grlfq')}
    nt = rvq_cases(ctx, rng, scale, cases, meta, failures, dist)
    ev2, nt2 = scalar_and_sim_cases(ctx, rng, scale, failures, dist)
    ev3 = grouped_cases(ctx, rng, scale, failures, dist)
    ev4 = float64_detail_cases(ctx, rng, failures, dist)
    ev3 += ev4
    bad, broken = core.run_cases(ctx, 'c06', HEADER, cases, per_file=12)
    for name, out in broken:
        failures.append({'key': f'coq-eval:{name}', 'what': 'case file did not evaluate: ' + out, 'case': {'file': name}})
    for i, code in sorted(bad.items()):
        m = meta[i]
        failures.append({'key': f'rvq:code{code // 10 * 10 if code >= 10 else code}:mode={m["mode"]}:shared={m["kw"]["shared_codebook"]}:cos={m["kw"]["use_cosine_sim"]}',
                         'what': f'ResidualVQ({m["kw"]}) {m["mode"]}: {decode_code(code)}', 'case': dict(m, code=code, term=cases[i][:40000])})
    return {'evaluations': len(cases) + ev2 + ev3, 'distinct_nontrivial': nt + nt2,
            'rule': 'ResidualVQ: per token, residuals recomputed exactly from the public per-layer codes inside Coq, each layer index must be nearest for ITS residual in ITS codebook at call start, codes = entries, output = sum; '
                    'ResidualFSQ/LFQ/SimVQ: specification replayed with the layer modules as opaque quantizers; grouped forms vs independent quantizers on chunks; '
                    'non-trivial = at least two layers and some layer whose nearest code for the raw input differs from the one for the true residual',
            'samples': [dict(m) for m in meta[:3]], 'failures': failures, 'distribution': dist}


def replay_case(ctx, case):
    t = case.get('term')
    if not t:
        return True, 're-run the check: %s' % (case,)
    bad, broken = core.run_cases(ctx, 'c06_replay', HEADER, [t], per_file=1)
    if broken:
        return True, 'replay term did not evaluate: ' + broken[0][1]
    return (0 in bad), f'recorded forward re-evaluated: code {bad.get(0, 0)}'

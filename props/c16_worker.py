"""worker process of the C16 correspondence (real gloo process group over loopback, file:// rendezvous)"""
import os, sys, random


def scenarios():
    return ['vq-euclid', 'vq-cosine', 'vq-heads-sep', 'vq-euclid-masked', 'vq-cosine-masked', 'vq-expiry', 'vq-cosine-expiry', 'vq-cosine-heads-expiry', 'vq-kmeans', 'vq-cosine-kmeans-expiry', 'rvq-cosine-shared', 'rvq-layers-dropout', 'rvq-shared', 'lfq',
            'vq-expiry-scarce', 'vq-cosine-expiry-scarce', 'vq-kmeans-scarce-frozen-first', 'vq-cosine-kmeans-scarce-frozen-first',
            'vq-kmeans-learnable', 'rvq-kmeans-implicit', 'vq-default-sync']


def build(name, sync=True):
    from vector_quantize_pytorch import VectorQuantize, ResidualVQ, LFQ
    if name == 'vq-euclid':
        return VectorQuantize(dim=3, codebook_size=6, decay=0.5, sync_codebook=sync), 3
    if name == 'vq-cosine':
        return VectorQuantize(dim=3, codebook_size=6, decay=0.5, use_cosine_sim=True, sync_codebook=sync), 3
    if name == 'vq-euclid-masked':
        return VectorQuantize(dim=3, codebook_size=6, decay=0.5, sync_codebook=sync), 3
    if name == 'vq-cosine-masked':
        return VectorQuantize(dim=3, codebook_size=6, decay=0.5, use_cosine_sim=True, sync_codebook=sync), 3
    if name == 'vq-heads-sep':
        return VectorQuantize(dim=4, codebook_size=5, heads=2, codebook_dim=2, separate_codebook_per_head=True, decay=0.25, sync_codebook=sync), 4
    if name == 'vq-expiry':
        return VectorQuantize(dim=3, codebook_size=12, decay=0.25, threshold_ema_dead_code=2, sync_codebook=sync), 3
    if name == 'vq-cosine-expiry':
        return VectorQuantize(dim=3, codebook_size=12, decay=0.25, use_cosine_sim=True, threshold_ema_dead_code=2, sync_codebook=sync), 3
    if name == 'vq-cosine-heads-expiry':
        return VectorQuantize(dim=4, codebook_size=8, heads=2, codebook_dim=2, separate_codebook_per_head=True, use_cosine_sim=True, decay=0.25, threshold_ema_dead_code=2, sync_codebook=sync), 4
    if name == 'vq-cosine-kmeans-expiry':
        return VectorQuantize(dim=3, codebook_size=8, kmeans_init=True, kmeans_iters=2, use_cosine_sim=True, decay=0.25, threshold_ema_dead_code=2, sync_codebook=sync), 3
    if name == 'rvq-cosine-shared':
        return ResidualVQ(dim=3, num_quantizers=2, codebook_size=8, decay=0.5, shared_codebook=True, use_cosine_sim=True, threshold_ema_dead_code=1, sync_codebook=sync), 3
    if name == 'vq-kmeans':
        return VectorQuantize(dim=3, codebook_size=4, kmeans_init=True, kmeans_iters=3, decay=0.5, sync_codebook=sync), 3
    if name == 'rvq-layers-dropout':
        return ResidualVQ(dim=3, num_quantizers=4, codebook_size=5, decay=0.5, quantize_dropout=True, sync_codebook=sync), 3
    if name == 'rvq-shared':
        return ResidualVQ(dim=3, num_quantizers=2, codebook_size=6, decay=0.5, shared_codebook=True, threshold_ema_dead_code=1, sync_codebook=sync), 3
    # SCARCE batches: more vectors are requested (expired codes / k-means seeds) than all ranks hold together, so the samplers draw with replacement
    if name == 'vq-expiry-scarce':
        return VectorQuantize(dim=3, codebook_size=64, decay=0.25, threshold_ema_dead_code=2, sync_codebook=sync), 3
    if name == 'vq-cosine-expiry-scarce':
        return VectorQuantize(dim=3, codebook_size=64, decay=0.25, use_cosine_sim=True, threshold_ema_dead_code=2, sync_codebook=sync), 3
    if name == 'vq-kmeans-scarce-frozen-first':
        return VectorQuantize(dim=3, codebook_size=40, kmeans_init=True, kmeans_iters=2, decay=0.5, sync_codebook=sync), 3
    if name == 'vq-cosine-kmeans-scarce-frozen-first':
        return VectorQuantize(dim=3, codebook_size=40, kmeans_init=True, kmeans_iters=2, use_cosine_sim=True, decay=0.5, sync_codebook=sync), 3
    # k-means initialisation of a codebook that is NOT maintained by the EMA afterwards (learnable / implicit): the init itself is still synchronised
    if name == 'vq-kmeans-learnable':
        return VectorQuantize(dim=3, codebook_size=4, kmeans_init=True, kmeans_iters=3, learnable_codebook=True, ema_update=False, sync_codebook=sync), 3
    if name == 'rvq-kmeans-implicit':
        return ResidualVQ(dim=3, num_quantizers=2, codebook_size=4, kmeans_init=True, kmeans_iters=2, implicit_neural_codebook=True, mlp_kwargs=dict(dim_hidden=4, depth=1), sync_codebook=sync), 3
    if name == 'vq-default-sync':
        return VectorQuantize(dim=3, codebook_size=6, decay=0.5), 3          # sync_codebook left at its default: inside a process group that means synchronised
    if name == 'lfq':
        return LFQ(dim=3, codebook_size=8, commitment_loss_weight=0.25), 3
    raise KeyError(name)


def grid(rng, shape, torch):
    n = 1
    for s in shape:
        n *= s
    return torch.tensor([rng.randint(-24, 24) / 8 for _ in range(n)], dtype=torch.float32).reshape(shape)


def worker(rank, world, initfile, outdir, seed, steps):
    import torch
    import torch.distributed as dist
    torch.set_num_threads(1)
    # a throw-away module built BEFORE the process group exists (a model assembled early): whatever the library caches about "am I distributed" at
    # that moment must not switch off the synchronisation of modules built with sync_codebook=True afterwards
    from vector_quantize_pytorch import VectorQuantize as _ProbeVQ
    _ProbeVQ(dim=2, codebook_size=2)(torch.randn(1, 2, 2))
    from vector_quantize_pytorch import ResidualVQ as _ProbeRVQ, GroupedResidualVQ as _ProbeGRVQ, LFQ as _ProbeLFQ
    for _pm in (_ProbeRVQ(dim=2, num_quantizers=3, codebook_size=2, quantize_dropout=True), _ProbeGRVQ(dim=4, groups=2, num_quantizers=2, codebook_size=2, quantize_dropout=True),
                _ProbeLFQ(dim=2, codebook_size=4)):
        _pm.train()
        _pm(torch.randn(1, 2, 4 if isinstance(_pm, _ProbeGRVQ) else 2))          # ... and USED (training-mode forwards) before the group exists
    dist.init_process_group('gloo', init_method='file://' + initfile, rank=rank, world_size=world)
    out = {}
    for si, name in enumerate(scenarios()):
        torch.manual_seed(seed + si)            # identical construction on every rank (what DDP's initial broadcast provides)
        random.seed(seed + si)
        mod, dim = build(name)
        mod.train()
        torch.manual_seed(seed * 7919 + 1000 * rank + si)     # independent RNG streams per rank from here on
        rng = random.Random(seed * 31 + 17 * rank + si)
        rec = {'states': [], 'batches': [], 'indices': [], 'extra': [], 'masks': []}
        for t in range(steps):
            nb = 1 + (rank + t + si) % 3                      # unequal per-rank batch sizes
            x = grid(rng, (nb, 3, dim), torch)
            try:
                if name == 'lfq':
                    ret, bd = mod(x, inv_temperature=1.0, return_loss_breakdown=True)
                    # this rank's average distribution (float64), for the main process to average over ranks
                    cb = mod.codebook.double()
                    logits = 2.0 * torch.einsum('t d, j d -> t j', x.reshape(-1, dim).double(), cb)
                    rec['extra'].append({'avg_prob': torch.softmax(logits, dim=-1).mean(dim=0), 'batch_entropy': float(bd.batch_entropy)})
                    idx = ret.indices
                elif name.endswith('-masked'):
                    # ragged padding masks; on odd steps the LAST rank's whole local batch is padding while the others hold valid tokens
                    lens = [rng.randint(1, 3) for _ in range(nb)]
                    if rank == world - 1 and t % 2 == 1:
                        lens = [0] * nb
                    m = torch.arange(3)[None, :] < torch.tensor(lens)[:, None]
                    rec.setdefault('masks', []).append(m)
                    ret = mod(x, mask=m)
                    idx = ret[1]
                elif name.endswith('-frozen-first') and t == 0:
                    ret = mod(x, freeze_codebook=True)       # the initialising call only initialises: the k-means result itself stays observable
                    idx = ret[1]
                else:
                    ret = mod(x)
                    idx = ret[1]
            except Exception as ex:
                rec['error'] = repr(ex)
                break
            rec['batches'].append(x)
            rec['indices'].append(idx.detach().clone())
            rec['states'].append({k: v.detach().clone() for k, v in mod.state_dict().items()})
        out[name] = rec
        dist.barrier()
    torch.save(out, os.path.join(outdir, f'rank{rank}.pt'))
    dist.barrier()
    dist.destroy_process_group()

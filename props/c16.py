"""C16 — multi-process training keeps codebooks synchronised."""
import os, sys, shutil, tempfile, time, random
from fractions import Fraction
from vlib import core, vqrec
from vlib.core import qlit, qvec, qmat, natlist, blist
from props import c03, c16_worker

OBLIGATIONS = dict(
    prop_file='Properties/C16.v',
    glue=['Glue/CoreGlue.v', 'Glue/Pin_p_dist.v', 'Glue/Pin_o_euclid_collectives.v', 'Glue/Pin_o_cosine_collectives.v', 'Glue/Pin_o_kmeans_collectives.v'] + ['Glue/Pin_fp_C16.v'],
    extra=['Model/CoreCheck.vo', 'Model/Dist.vo'],
    gen_items=['o_euclid_collectives', 'o_cosine_collectives', 'o_kmeans_collectives', 'p_dist', 'k_ema_inplace', 'fp_C16'],
)
ASSUMPTIONS = [
    'PARTIAL: collectives are modelled as sums (all_reduce) and copies (broadcast); real scheduling, process-group failures, NCCL / GPU and the ordering of the non-blocking broadcasts are runtime behaviour the model cannot exhibit - they are only exercised by the gloo runs',
    'all ranks start from identical module state (what DistributedDataParallel\'s initial broadcast provides): the harness constructs every rank\'s module from the same seed, then gives every rank an independent RNG stream and unequal batch sizes',
]
HEADER = c03.HEADER


def run_world(world, seed, steps):
    import torch
    import torch.multiprocessing as mp
    d = tempfile.mkdtemp(dir='/dev/shm', prefix='vq_c16_')
    try:
        # a mismatch of collectives between the ranks shows up as a DEADLOCK: the run gets a deadline, the workers are killed and the case is reported
        import time
        pc = mp.spawn(c16_worker.worker, args=(world, os.path.join(d, 'init'), d, seed, steps), nprocs=world, join=False)
        deadline = time.time() + float(os.environ.get('VQ_C16_DEADLINE', '240'))
        while not pc.join(timeout=5):
            if time.time() > deadline:
                for p_ in pc.processes:
                    if p_.is_alive():
                        p_.kill()
                raise TimeoutError(f'the {world} worker processes did not finish within the deadline (a rank waits in a collective the others never enter)')
        return [torch.load(os.path.join(d, f'rank{r}.pt')) for r in range(world)]
    finally:
        shutil.rmtree(d, ignore_errors=True)


def correspond(ctx, scale):
    import torch
    from vlib import impl
    rng = ctx.rng
    failures, samples, cases, meta = [], [], [], []
    ev = nt = 0
    dist = {'worlds': [], 'rank_state_comparisons': 0, 'single_process_comparisons': 0, 'model_cases': 0, 'dropout_depth_comparisons': 0, 'lfq_entropy_checks': 0}
    worlds = [2, 3] if not ctx.thorough else [2, 3, 4]       # world size >= 3: several peers per receiver (variably sized gathers)
    steps = 3 if not ctx.thorough else 5
    for world in worlds:
        for rep in range(scale if not ctx.thorough else 2 * scale):
            seed = rng.randrange(10 ** 6)
            try:
                ranks = run_world(world, seed, steps)
            except Exception as ex:
                failures.append({'key': f'spawn:{type(ex).__name__}', 'what': f'world size {world}: worker processes failed: {str(ex)[:300]}', 'case': dict(world=world)})
                continue
            dist['worlds'].append(world)
            for si, name in enumerate(c16_worker.scenarios()):
                recs = [r[name] for r in ranks]
                if any('error' in r for r in recs):
                    failures.append({'key': f'{name}:exception', 'what': f'{name} (world {world}): ' + '; '.join(r.get('error', '') for r in recs), 'case': dict(world=world, scenario=name)})
                    continue
                ev += 1
                nt += 1
                # (a) all ranks hold bit-identical state after every step
                for t in range(len(recs[0]['states'])):
                    for r in range(1, world):
                        ok, why = impl.blobs_equal(recs[0]['states'][t], recs[r]['states'][t])
                        dist['rank_state_comparisons'] += 1
                        if not ok:
                            failures.append({'key': f'{name}:ranks-differ:{why.split(":")[0].split(".")[-1]}', 'what': f'{name} (world {world}): after step {t} rank {r} differs from rank 0: {why}',
                                             'case': dict(world=world, scenario=name, step=t, seed=seed)})
                            break
                # (b) deterministic EMA path = a single process on the concatenation of all ranks' batches (same initial state)
                if name in ('vq-euclid', 'vq-cosine', 'vq-heads-sep', 'vq-euclid-masked', 'vq-cosine-masked'):
                    torch.manual_seed(seed + si)
                    random.seed(seed + si)
                    single, dim = c16_worker.build(name, sync=False)
                    single.train()
                    for t in range(len(recs[0]['states'])):
                        xcat = torch.cat([recs[r]['batches'][t] for r in range(world)], dim=0)
                        before = vqrec.cb_state(single._codebook)
                        mkw = {'mask': torch.cat([recs[r]['masks'][t] for r in range(world)], dim=0)} if name.endswith('-masked') else {}
                        _, recl = vqrec.record_call(single, xcat, **mkw)
                        if name in ('vq-cosine', 'vq-cosine-masked'):
                            # normalised inputs are not dyadic: the order of the float32 partial sums may differ in the last bit
                            sd = single.state_dict()
                            bad_k = [k for k in sd if sd[k].dtype.is_floating_point and not torch.allclose(sd[k], recs[0]['states'][t][k], atol=1e-6, rtol=1e-5)]
                            ok, why = (not bad_k), (bad_k[0] + ': differs beyond 1e-6' if bad_k else '')
                            single.load_state_dict(recs[0]['states'][t])
                        else:
                            ok, why = impl.blobs_equal({k: v for k, v in single.state_dict().items()}, recs[0]['states'][t])
                        dist['single_process_comparisons'] += 1
                        if not ok:
                            failures.append({'key': f'{name}:differs-from-single-process:{why.split(":")[0].split(".")[-1]}', 'what': f'{name} (world {world}): after step {t} the synchronised state differs from a single process run on the concatenated batch: {why}',
                                             'case': dict(world=world, scenario=name, step=t, seed=seed)})
                            break
                        # model: the Coq step on the concatenated batch from the shared pre-state must give the ranks' post-state
                        rec = recl[0]
                        after_rank0 = dict(embed=recs[0]['states'][t]['_codebook.embed'].double().tolist(), embed_avg=recs[0]['states'][t]['_codebook.embed_avg'].double().tolist(),
                                           cluster_size=recs[0]['states'][t]['_codebook.cluster_size'].double().tolist(), initted=True)
                        rec.after = after_rank0
                        for h in range(rec.H):
                            cases.append(c03.update_term(rec, h, single._codebook, name in ('vq-cosine', 'vq-cosine-masked'), c03.TOL_E, c03.TOL_S))
                            meta.append(dict(world=world, scenario=name, step=t, head=h))
                            dist['model_cases'] += 1
                # (c) quantize-dropout depth agrees across ranks
                if name == 'rvq-layers-dropout':
                    for t in range(len(recs[0]['indices'])):
                        pats = [tuple(bool((r['indices'][t][..., k] == -1).all()) for k in range(r['indices'][t].shape[-1])) for r in recs]
                        dist['dropout_depth_comparisons'] += 1
                        if len(set(pats)) != 1:
                            failures.append({'key': 'rvq:dropout-depth-differs', 'what': f'ResidualVQ (world {world}) step {t}: ranks dropped different layers: {pats}', 'case': dict(world=world, step=t, seed=seed)})
                # (d) LFQ: batch entropy of the rank-averaged code distribution
                if name == 'lfq':
                    for t in range(len(recs[0]['extra'])):
                        avg = sum(r['extra'][t]['avg_prob'] for r in recs) / world
                        want = float(-(avg * torch.log(avg.clamp(min=1e-5))).sum())
                        dist['lfq_entropy_checks'] += 1
                        for r in range(world):
                            got = recs[r]['extra'][t]['batch_entropy']
                            if abs(got - want) > 1e-4 * (1 + abs(want)):
                                failures.append({'key': 'lfq:batch-entropy-not-rank-averaged', 'what': f'LFQ (world {world}) step {t} rank {r}: batch entropy {got:.6g} != entropy of the rank-averaged distribution {want:.6g}',
                                                 'case': dict(world=world, step=t, seed=seed)})
            if len(samples) < 3:
                samples.append(dict(world=world, seed=seed, batch_sizes=[[int(r['vq-euclid']['batches'][t].shape[0]) for r in ranks] for t in range(len(ranks[0]['vq-euclid']['batches']))]))
    bad, broken = core.run_cases(ctx, 'c16', HEADER, cases, per_file=40)
    for name, out in broken:
        failures.append({'key': f'coq-eval:{name}', 'what': 'case file did not evaluate: ' + out, 'case': {'file': name}})
    for i, code in sorted(bad.items()):
        m = meta[i]
        failures.append({'key': f'{m["scenario"]}:model:code{code}', 'what': f'{m["scenario"]} (world {m["world"]}) step {m["step"]}: the ranks\' state differs from the model stepped on the concatenated batch ({c03.CODES.get(code, code)})',
                         'case': dict(m, term=cases[i][:30000])})
    return {'evaluations': ev, 'distinct_nontrivial': nt,
            'rule': 'real gloo process groups over loopback (file:// rendezvous), world sizes ' + str(worlds) + ', unequal per-rank batch sizes, independent RNG streams, multi-step histories, 21 scenarios (four with fewer tokens than requested samples, one with the default sync_codebook, two with a k-means-initialised codebook outside the EMA) (two with ragged masks and one rank all padding on odd steps) '
                    '(Euclidean / cosine / separate heads EMA, expiry, k-means init, ResidualVQ per-layer + dropout and shared, LFQ): per-rank state_dict bit-equal across ranks after every step; EMA path bit-equal to a single process on the concatenated batch '
                    'and equal to the Coq model step on that batch; dropout depth equal across ranks; LFQ batch entropy = entropy of the rank-averaged distribution; non-trivial = ranks hold different batches (always)',
            'samples': samples, 'failures': failures, 'distribution': dist}


def replay_case(ctx, case):
    if 'term' in case:
        return c03.replay_case(ctx, case)
    return True, 're-run the check (multi-process run): %s' % (case,)

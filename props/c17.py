"""C17 — auxiliary losses equal their definitions."""
import math, os, re, subprocess
from fractions import Fraction
from vlib import core
from vlib.core import qlit, qvec
from props.c05 import rlit
from props.c19 import certify

OBLIGATIONS = dict(
    prop_file='Properties/C17.v',
    glue=['Glue/LossGlue.v', 'Glue/Pin_p_losses.v'] + ['Glue/Pin_fp_C17.v', 'Glue/RequantGlue.v'],
    extra=['Model/Losses.vo'],
    gen_items=['g_vq_commit', 'p_losses', 'k_safe_div', 'o_vq_codebook_calls', 'fp_C17'],
)
ASSUMPTIONS = [
    'the documented formulas are recomputed independently (float64) from the recorded inputs, selected codes, codebook, weights, temperatures and masks; mse-type terms are additionally evaluated in Coq on exact rationals; '
    'small LFQ entropy cases are certified with the `interval` tactic against the real-valued formula',
    'random sub-sampling (orthogonal_reg_max_codes, frac_per_sample_entropy < 1) is an oracle captured from the harness by replaying the RNG state',
    'softmax / cross_entropy / F.normalize primitives of torch are taken by their definitions',
]
HEADER = '''From Coq Require Import ZArith QArith List Bool.
From VQ Require Import Num Model.Vec Model.Core Model.CoreCheck.
Import ListNotations.
Open Scope Q_scope.
Definition qmse (a b : list Q) : Q := Qred (fold_right Qplus 0 (map2 (fun x y => Qred ((x - y) * (x - y))) a b) / inject_Z (Z.of_nat (length a))).
'''
TOL = 2e-5


def close(a, b, tol=TOL):
    return abs(float(a) - float(b)) <= tol * (1 + abs(float(b)))


def centropy(p, eps=1e-5):
    import torch
    return -(p * torch.log(p.clamp(min=eps))).sum(dim=-1)


def correspond(ctx, scale):
    import torch
    import torch.nn.functional as F
    from vector_quantize_pytorch import VectorQuantize, ResidualVQ, SimVQ, ResidualSimVQ, LFQ, ResidualLFQ, LatentQuantize
    rng = ctx.rng
    failures, samples, cases, meta = [], [], [], []
    ev = nt = 0
    dist = {'vq': 0, 'vq_ce': 0, 'vq_orth': 0, 'vq_masked': 0, 'rvq': 0, 'simvq': 0, 'rsimvq': 0, 'lfq': 0, 'lfq_interval_goals': 0, 'rlfq': 0, 'latent': 0, 'eval_zero': 0, 'entropy_inequalities': 0}

    def fail(key, what, case):
        failures.append({'key': key, 'what': what, 'case': case})

    # ------------------------------------------------------------------ VectorQuantize
    n = (24 if not ctx.thorough else 200) * scale
    for ci in range(n):
        heads, sep = [(1, False), (2, False), (2, True)][ci % 3]
        cosine = ci % 4 == 1
        ce = ci % 5 == 2
        orth = ci % 6 == 3
        masked = ci % 4 == 3
        cw = rng.choice([1.0, 0.25, 2.0])
        ow = rng.choice([10.0, 0.5]) if orth else 0.0
        d = rng.choice([2, 3])
        K = rng.choice([4, 6])
        kw = dict(dim=d * heads, codebook_dim=d, heads=heads, separate_codebook_per_head=sep, codebook_size=K, use_cosine_sim=cosine, commitment_weight=cw,
                  commitment_use_cross_entropy_loss=ce, orthogonal_reg_weight=ow)
        if orth and not cosine:
            kw.update(ema_update=False, learnable_codebook=True, orthogonal_reg_active_codes_only=(ci % 12 == 3), orthogonal_reg_max_codes=(3 if ci % 12 == 9 else None))
        elif orth:
            kw.update(orthogonal_reg_max_codes=(3 if ci % 24 == 9 else None))     # cosine codebooks cannot be 'learnable'; the penalty makes embed a Parameter, EMA stays on
        vq = VectorQuantize(**kw)
        vq.train()
        if orth or ci % 2 == 0:
            # some HISTORY before the call under test: a training step and an optimiser step on every parameter (moves a Parameter codebook,
            # for cosine codebooks off the unit sphere), so that the formulas are checked against the codebook as it is, not as initialised
            ps = [p_ for p_ in vq.parameters() if p_.requires_grad]
            o_, i_, l_ = vq(torch.randn(2, 4, d * heads))
            if ps and l_.requires_grad:
                l_.sum().backward()
                torch.optim.SGD(ps, lr=0.5).step()
                for p_ in ps:
                    p_.grad = None
            dist['vq_with_history'] = dist.get('vq_with_history', 0) + 1
        b, nn_ = 2, 4
        x = torch.randn(b, nn_, d * heads)
        kwargs = dict(return_loss_breakdown=True, freeze_codebook=True)
        m = None
        if masked:
            m = torch.tensor([[j < L for j in range(nn_)] for L in (2, 4)])
            kwargs['mask'] = m
            if ci % 8 == 7:
                # the same padding given as lens= in an UNSIGNED narrow dtype, with a sample of length zero
                lens_t = torch.tensor([0, 4], dtype=torch.uint8)
                m = torch.arange(nn_)[None, :] < lens_t.long()[:, None]
                del kwargs['mask']
                kwargs['lens'] = lens_t
                dist['lens_uint8_zero_length'] = dist.get('lens_uint8_zero_length', 0) + 1
        st = torch.get_rng_state()
        # process-wide torch settings around the call (vlib/callzoo.ambient: deterministic-algorithms mode, another default dtype): the reported losses
        # are a function of the arguments and the module, whatever the ambient settings are
        from vlib import callzoo
        amb_kind = ['none', 'deterministic', 'default-float64'][(ci // 5) % 3]      # (under a bfloat16 default the loss accumulator itself is bfloat16: equal only to that precision)
        dist['ambient_' + amb_kind] = dist.get('ambient_' + amb_kind, 0) + 1
        with torch.no_grad(), callzoo.ambient(torch, amb_kind):
            out, idx, loss, bd = vq(x, **kwargs)
        with torch.no_grad():
            # documented formulas, recomputed from inputs / codebook / indices
            xin = vq.project_in(x).reshape(b, nn_, heads, d)
            if cosine:
                xin = F.normalize(xin, dim=-1, eps=1e-6)
            cb = vq._codebook.embed
            ii = (idx.reshape(b, nn_, heads) if heads > 1 else idx.reshape(b, nn_, 1)).clamp(min=0)
            q = torch.stack([cb[h if sep else 0][ii[:, :, h]] for h in range(heads)], dim=2)
            valid = m if m is not None else torch.ones(b, nn_, dtype=torch.bool)
            if ce:
                # cross entropy of (negative distances | similarities) against the selected indices, mean over valid (token, head) pairs
                tot, cnt = 0.0, 0
                for bb in range(b):
                    for tt in range(nn_):
                        if not bool(valid[bb, tt]):
                            continue
                        for h in range(heads):
                            c = cb[h if sep else 0]
                            logits = (xin[bb, tt, h] @ c.T) if cosine else -torch.cdist(xin[bb, tt, h][None], c)[0]
                            tot += float(-torch.log_softmax(logits.double(), dim=-1)[int(ii[bb, tt, h])])
                            cnt += 1
                want_commit = tot / cnt
            else:
                diff = ((q - xin) ** 2)[valid]
                want_commit = float(diff.double().mean())
            want_orth = 0.0
            if orth:
                codes = cb
                if kw.get('orthogonal_reg_active_codes_only'):
                    sel = idx[m] if m is not None else idx
                    codes = cb[:, torch.unique(sel)]
                ncodes = codes.shape[-2]
                if kw.get('orthogonal_reg_max_codes') and ncodes > kw['orthogonal_reg_max_codes']:
                    after = torch.get_rng_state()
                    torch.set_rng_state(st)
                    # the only RNG consumer of this forward is the randperm (deterministic selection)
                    ids = torch.randperm(ncodes)[:kw['orthogonal_reg_max_codes']]
                    torch.set_rng_state(after)
                    codes = codes[:, ids]
                nc = F.normalize(codes.double(), dim=-1)
                cs = torch.einsum('h i d, h j d -> h i j', nc, nc)
                want_orth = float((cs ** 2).sum() / (codes.shape[0] * codes.shape[1] ** 2) - 1 / codes.shape[1])
            want_total = cw * want_commit + ow * want_orth
        # per-call option `indices=`: the call returns the cross-entropy of the (negative distances | similarities) against the SUPPLIED target codes
        if heads == 1 and not masked and ci % 2 == 0:
            tgt = torch.randint(0, K, (b, nn_))
            try:
                with torch.no_grad():
                    _, ce_got = vq(x, indices=tgt, freeze_codebook=True)
                    c0 = vq._codebook.embed[0]
                    xi = xin.reshape(b * nn_, d)
                    lg = (xi @ c0.T) if cosine else -torch.cdist(xi[None], c0[None])[0]
                    ce_want = float(-torch.log_softmax(lg.double(), dim=-1)[torch.arange(b * nn_), tgt.reshape(-1)].mean())
                dist['vq_ce_to_supplied_indices'] = dist.get('vq_ce_to_supplied_indices', 0) + 1
                if not close(ce_got, ce_want, 1e-4):
                    fail(f'vq:supplied-indices-ce:cos={cosine}', f'VectorQuantize({kw}): loss returned for supplied indices {float(ce_got):.6g} != cross-entropy of the negative distances against them {ce_want:.6g}', dict(kw=kw))
            except Exception as ex:
                fail(f'vq:supplied-indices:exception:{type(ex).__name__}', f'VectorQuantize({kw}) with indices=: {ex!r}', dict(kw=kw))
        # the same call with an input that REQUIRES GRAD (the straight-through / rotation block runs) and one exactly-zero token: the reported mse
        # commitment term is still weight-free mean squared error between the (normalised) input and the SELECTED code
        if heads == 1 and not masked and not ce:
            xz = x.clone()
            xz[0, 0] = 0.0
            xz.requires_grad_(True)
            try:
                _, idz, _, bdz = vq(xz, return_loss_breakdown=True, freeze_codebook=True)
                with torch.no_grad():
                    xinz = vq.project_in(xz.detach())
                    if cosine:
                        xinz = F.normalize(xinz, dim=-1, eps=1e-6)
                    qz = vq._codebook.embed[0][idz.reshape(b, nn_)]
                    want_z = float(((qz - xinz) ** 2).double().mean())
                dist['vq_requires_grad_zero_token'] = dist.get('vq_requires_grad_zero_token', 0) + 1
                if not close(bdz.commitment, want_z, 1e-4):
                    fail(f'vq:commitment-with-requires-grad:cos={cosine}', f'VectorQuantize({kw}), input requires grad, one zero token: reported commitment term {float(bdz.commitment):.6g} != mse(input, selected code) {want_z:.6g}', dict(kw=kw))
            except Exception as ex:
                fail(f'vq:requires-grad-call:exception:{type(ex).__name__}', f'VectorQuantize({kw}): {ex!r}', dict(kw=kw))
        ev += 1
        dist['vq'] += 1
        dist['vq_ce'] += ce
        dist['vq_orth'] += orth
        dist['vq_masked'] += masked
        nt += want_total != 0
        key = f'vq:ce={ce}:orth={orth}:masked={masked}:heads={heads}:sep={sep}:cos={cosine}'
        if not close(bd.commitment, want_commit):
            fail(key + ':commitment', f'VectorQuantize({kw}): reported commitment term {float(bd.commitment):.6g} != documented {want_commit:.6g}', dict(kw=kw))
        if orth and not close(bd.orthogonal_reg, want_orth, 1e-4):
            fail(key + ':orthogonal', f'VectorQuantize({kw}): reported orthogonal term {float(bd.orthogonal_reg):.6g} != documented {want_orth:.6g}', dict(kw=kw))
        if not close(loss.sum(), want_total, 1e-4):
            fail(key + ':total', f'VectorQuantize({kw}): reported loss {float(loss.sum()):.6g} != commitment_weight * commitment + orthogonal_reg_weight * penalty = {want_total:.6g}', dict(kw=kw))
        if not ce and m is None:
            # mse part evaluated in Coq on exact rationals
            xf, qf = xin.reshape(-1).double().tolist(), q.reshape(-1).double().tolist()
            cases.append(f'(if Qclose_rel {qlit(Fraction(1, 20000))} (qmse {qvec(qf)} {qvec(xf)}) {qlit(float(bd.commitment))} then 0 else 1)%nat')
            meta.append(dict(kind='vq-mse', kw=kw))
        # evaluation mode: every term is zero
        vq.eval()
        with torch.no_grad():
            _, _, l0, bd0 = vq(x, return_loss_breakdown=True, **({'mask': m} if m is not None else {}))
        dist['eval_zero'] += 1
        if float(l0.abs().sum()) != 0.0 or any(float(torch.as_tensor(t).abs().sum()) != 0.0 for t in bd0):
            fail(key + ':eval-nonzero', f'VectorQuantize({kw}): a loss term is non-zero in evaluation mode', dict(kw=kw))
        if len(samples) < 3:
            samples.append(dict(kw=kw, reported=float(loss.sum()), documented=want_total))
    # ------------------------------------------------------------------ orthogonal regularisation with ALL its options at once (round 11, seed C17-k): active codes
    # only AND a sub-sampling limit below the number of activated codes AND a codebook larger than that - the penalty is over a random subset OF THE
    # ACTIVATED codes (the randperm of the call is replayed from the RNG state); option pairs alone do not tell `ids[perm]` from `perm`
    gst = torch.get_rng_state()
    for oi in range((8 if not ctx.thorough else 32) * scale):
        o_heads = [1, 2][oi % 2]
        o_max = [2, 3][(oi // 2) % 2]
        o_masked = (oi // 4) % 2 == 1
        kw_o = dict(dim=3 * o_heads, codebook_dim=3, heads=o_heads, codebook_size=12, ema_update=False, learnable_codebook=True, orthogonal_reg_weight=[10.0, 0.5][oi % 2],
                    orthogonal_reg_active_codes_only=True, orthogonal_reg_max_codes=o_max, commitment_weight=1.0)
        try:
            torch.manual_seed(6100 + oi)
            vq_o = VectorQuantize(**kw_o)
            vq_o.train()
            x_o = torch.randn(2, 6, 3 * o_heads)
            kwargs_o = dict(return_loss_breakdown=True)
            m_o = None
            if o_masked:
                m_o = torch.tensor([[j < L for j in range(6)] for L in (4, 6)])
                kwargs_o['mask'] = m_o
            st_o = torch.get_rng_state()
            with torch.no_grad():
                out_o, idx_o, loss_o, bd_o = vq_o(x_o, **kwargs_o)
                after_o = torch.get_rng_state()
                cb_o = vq_o._codebook.embed
                sel_o = idx_o[m_o] if m_o is not None else idx_o
                act_o = torch.unique(sel_o)
                codes_o = cb_o[:, act_o]
                n_act = int(act_o.numel())
                if n_act > o_max:
                    torch.set_rng_state(st_o)
                    ids_o = torch.randperm(n_act)[:o_max]
                    torch.set_rng_state(after_o)
                    codes_o = codes_o[:, ids_o]
                nc_o = F.normalize(codes_o.double(), dim=-1)
                cs_o = torch.einsum('h i d, h j d -> h i j', nc_o, nc_o)
                want_o = float((cs_o ** 2).sum() / (codes_o.shape[0] * codes_o.shape[1] ** 2) - 1 / codes_o.shape[1])
            ev += 1
            dist['vq_orth_active_and_limited'] = dist.get('vq_orth_active_and_limited', 0) + 1
            nt += (o_max < n_act < 12)
            if not close(bd_o.orthogonal_reg, want_o, 1e-4):
                fail(f'vq:orth-active-and-limited:heads={o_heads}:masked={o_masked}', f'VectorQuantize({kw_o}) masked={o_masked}: {n_act} activated codes, limit {o_max}: reported orthogonal term '
                     f'{float(bd_o.orthogonal_reg):.6g} != penalty over the replayed random subset of the ACTIVATED codes {want_o:.6g}', dict(kw=kw_o, masked=o_masked))
        except Exception as ex:
            fail(f'vq:orth-active-and-limited:exception:{type(ex).__name__}', repr(ex)[:300], dict(kw=kw_o))
    torch.set_rng_state(gst)
    # ------------------------------------------------------------------ ResidualVQ: per-layer entries
    for ci in range((6 if not ctx.thorough else 40) * scale):
        nq = rng.choice([2, 3])
        cw = rng.choice([1.0, 0.5])
        rvq = ResidualVQ(dim=3, num_quantizers=nq, codebook_size=5, commitment_weight=cw)
        rvq.train()
        x = torch.randn(2, 4, 3)
        with torch.no_grad():
            out, idx, losses, codes = rvq(x, return_all_codes=True, freeze_codebook=True)
            r = x.clone()
            ev += 1
            dist['rvq'] += 1
            for k in range(nq):
                want = cw * float(((codes[k] - r) ** 2).double().mean())
                if not close(losses[..., k].sum(), want):
                    fail('rvq:per-layer-loss', f'ResidualVQ layer {k}: reported {float(losses[..., k].sum()):.6g} != commitment_weight * mse(residual, code) = {want:.6g}', dict(layer=k))
                r = r - codes[k]
    # ------------------------------------------------------------------ in-place codebook optimiser with a LARGE step: the reported loss is commitment_weight x
    # mse(input, codebook[returned indices]) for the codebook the call ends with (index, vector and loss refer to one codebook)
    from vlib import callzoo as _cz
    try:
        for kw_i, x_i, out_i, idx_i, loss_i, com_i, cb_i in _cz.inplace_big_step_cases(torch, rng, 4 if not ctx.thorough else 12):
            want_c = float(((cb_i[idx_i.reshape(-1)].reshape(x_i.shape) - x_i) ** 2).double().mean())
            ev += 1
            dist['inplace_big_step_losses'] = dist.get('inplace_big_step_losses', 0) + 1
            if not close(com_i, want_c, 1e-4) or not close(loss_i, kw_i['commitment_weight'] * want_c, 1e-4):
                fail('vq-inplace-big-step:loss', f'VectorQuantize(in-place optimiser, large step): reported commitment {float(com_i):.6g} / loss {float(loss_i):.6g} != mse(input, codebook[indices]) = {want_c:.6g} '
                     f'x weight {kw_i["commitment_weight"]}', dict(kind='inplace-big-step'))
    except Exception as ex:
        fail(f'vq-inplace-big-step:exception:{type(ex).__name__}', repr(ex), dict(kind='inplace-big-step'))
    # ------------------------------------------------------------------ SimVQ / ResidualSimVQ
    for ci in range((6 if not ctx.thorough else 40) * scale):
        w = [0.25, 1.0, 0.0][ci % 3]
        cw = rng.choice([1.0, 0.5])
        coupled_tr = None
        if ci % 3 == 2:
            # a code transform that COUPLES the codes (batch statistics over the codebook rows in training mode): the loss is against the selected entry of
            # code_transform(frozen_codebook) as a whole
            from torch import nn as _nn
            coupled_tr = _nn.Sequential(_nn.Linear(3, 5), _nn.BatchNorm1d(5), _nn.ReLU(), _nn.Linear(5, 3))
            dist['simvq_coupled_transform'] = dist.get('simvq_coupled_transform', 0) + 1
        q = SimVQ(dim=3, codebook_size=6, input_to_quantize_commit_loss_weight=w, commitment_weight=cw, rotation_trick=ci % 2 == 0, codebook_transform=coupled_tr)
        q.train()
        x = torch.randn(2, 4, 3)
        with torch.no_grad():
            out, idx, loss = q(x)
            code = q.codebook[idx]
            msev = float(((code - x) ** 2).double().mean())
        want = cw * (msev + w * msev)
        ev += 1
        dist['simvq'] += 1
        nt += 1
        if not close(loss, want):
            fail(f'simvq:w={w}', f'SimVQ(w={w}, commitment_weight={cw}): reported {float(loss):.6g} != commitment_weight * (mse + w * mse) = {want:.6g}', dict(w=w, cw=cw))
        cases.append(f'(if Qclose_rel {qlit(Fraction(1, 20000))} (Qred ({qlit(Fraction(cw))} * (1 + {qlit(Fraction(w))}) * qmse {qvec(code.reshape(-1).double().tolist())} {qvec(x.reshape(-1).double().tolist())})) {qlit(float(loss))} then 0 else 1)%nat')
        meta.append(dict(kind='simvq', w=w, cw=cw))
        rq = ResidualSimVQ(dim=3, num_quantizers=2, codebook_size=6, input_to_quantize_commit_loss_weight=w, commitment_weight=cw)
        rq.train()
        with torch.no_grad():
            out, idx, losses, codes = rq(x, return_all_codes=True)
            r = x.clone()
            dist['rsimvq'] += 1
            for k in range(2):
                mk = float(((codes[k] - r) ** 2).double().mean())
                if not close(losses[..., k], cw * (1 + w) * mk):
                    fail('rsimvq:per-layer-loss', f'ResidualSimVQ layer {k}: reported {float(losses[..., k]):.6g} != {cw * (1 + w) * mk:.6g}', dict(layer=k))
                r = r - codes[k]
    # ------------------------------------------------------------------ LFQ / ResidualLFQ
    goals, gmeta = [], {}
    for ci in range((16 if not ctx.thorough else 120) * scale):
        cd = rng.choice([1, 2, 3])
        ncb = [1, 1, 2][ci % 3]
        sph = ci % 4 == 1
        soft = ci % 5 == 2
        masked = ci % 3 == 2
        ew, gamma, cw = rng.choice([0.1, 1.0]), rng.choice([1.0, 0.5, 2.0]), rng.choice([0.0, 0.25])
        inv_t = rng.choice([1.0, 5.0, 100.0])
        scale_ = rng.choice([1.0, 0.5])
        if ci < 8:      # small cases whose per-token entropy is certified against the real-valued formula
            cd, ncb, sph, soft, masked, inv_t = 1, 1, False, False, False, [1.0, 2.0][ci % 2]
        live = ci % 2 == 1
        if live:
            # loss-weight SCHEDULES: the public weight attributes are changed on the live module (a commitment warm-up from 0, an entropy weight decay);
            # the reported losses follow the weights the module has NOW, whatever it was constructed with
            q = LFQ(codebook_size=2 ** cd, num_codebooks=ncb, dim=cd * ncb, entropy_loss_weight=1.0, diversity_gamma=1.0, commitment_loss_weight=[0.0, 0.5][(ci // 2) % 2], spherical=sph,
                    experimental_softplus_entropy_loss=soft, codebook_scale=scale_)
            q.train()
            with torch.no_grad():
                q(torch.randn(2, 3, cd * ncb))          # one call under the constructor weights first
            q.entropy_loss_weight, q.diversity_gamma, q.commitment_loss_weight = ew, gamma, cw
            dist['live_weight_schedules'] = dist.get('live_weight_schedules', 0) + 1
        else:
            q = LFQ(codebook_size=2 ** cd, num_codebooks=ncb, dim=cd * ncb, entropy_loss_weight=ew, diversity_gamma=gamma, commitment_loss_weight=cw, spherical=sph,
                    experimental_softplus_entropy_loss=soft, codebook_scale=scale_)
        q.train()
        b, nn_ = 2, 3
        x = torch.randn(b, nn_, cd * ncb)
        m = torch.tensor([True, False]) if masked else None       # LFQ masks are per-sample
        with torch.no_grad():
            ret, bd = q(x, inv_temperature=inv_t, return_loss_breakdown=True, mask=m)
            xi = x.reshape(b, nn_, ncb, cd)
            cbk = q.codebook
            if sph:
                xi = F.normalize(xi, dim=-1) * scale_
                cbk = F.normalize(cbk, dim=-1) * scale_
            quant = torch.where(xi > 0, scale_, -scale_) * torch.ones_like(xi)
            if sph:
                quant = F.normalize(quant, dim=-1) * scale_
            toks = (xi[m] if m is not None else xi).reshape(-1, ncb, cd)
            logits = 2 * inv_t * torch.einsum('t c d, j d -> t c j', toks.double(), cbk.double())
            prob = torch.softmax(logits, dim=-1)
            per = float(centropy(prob).mean())
            avg = prob.mean(dim=0)
            cbe = float(centropy(avg).mean())
            ent = per - gamma * cbe
            if soft:
                ent = float(F.softplus(torch.tensor(ent + q.entropy_loss_offset)))
            cm = ((xi - quant) ** 2)
            cm = float((cm[m] if m is not None else cm).double().mean()) if cw > 0 else 0.0
            want = ent * ew + cm * cw
        ev += 1
        dist['lfq'] += 1
        nt += 1
        key = f'lfq:spherical={sph}:softplus={soft}:masked={masked}:ncb={ncb}'
        if not close(bd.per_sample_entropy, per, 1e-4):
            fail(key + ':per-sample-entropy', f'LFQ: reported per-sample entropy {float(bd.per_sample_entropy):.6g} != mean per-token entropy {per:.6g}', dict(cd=cd, ncb=ncb))
        if not close(bd.batch_entropy, cbe, 1e-4):
            fail(key + ':batch-entropy', f'LFQ: reported batch entropy {float(bd.batch_entropy):.6g} != entropy of the mean distribution {cbe:.6g}', dict(cd=cd, ncb=ncb))
        if not close(bd.commitment, cm, 1e-4):
            fail(key + ':commitment', f'LFQ: reported commitment {float(bd.commitment):.6g} != mse(input, code) = {cm:.6g}', dict(cd=cd, ncb=ncb))
        if not close(ret.entropy_aux_loss, want, 1e-4):
            fail(key + ':aux', f'LFQ: aux loss {float(ret.entropy_aux_loss):.6g} != entropy_loss_weight * (per-token - gamma * batch) + commitment_weight * commitment = {want:.6g}', dict(cd=cd, ncb=ncb, ew=ew, gamma=gamma, cw=cw))
        # 0 <= per-token entropy <= batch entropy <= log(codebook size)
        dist['entropy_inequalities'] += 1
        pe, be = float(bd.per_sample_entropy), float(bd.batch_entropy)
        if not (-1e-6 <= pe <= be + 1e-5 and be <= math.log(2 ** cd) + 1e-5):
            fail(key + ':entropy-inequalities', f'LFQ: 0 <= {pe:.6g} <= {be:.6g} <= log K = {math.log(2 ** cd):.6g} violated', dict(cd=cd))
        # small cases: the reported per-token entropy is certified against the real-valued formula by interval
        if cd == 1 and ncb == 1 and not sph and inv_t <= 5.0 and m is None and len(goals) < 12:
            terms = []
            for t in range(toks.shape[0]):
                xv = float(toks[t, 0, 0])
                a = [f'(2 * {rlit(inv_t)} * {rlit(xv)} * {rlit(float(cbk[j, 0]))})' for j in range(2)]
                den = f'(exp {a[0]} + exp {a[1]})'
                for j in range(2):
                    pj = f'(exp {a[j]} / {den})'
                    terms.append(f'{pj} * ln {pj}')     # inputs keep every p above the 1e-5 clamp at these temperatures (checked below)
            if float(prob.min()) > 1e-4:
                prop = f'Rabs (- (({" + ".join(terms)}) / {toks.shape[0]}) - {rlit(float(bd.per_sample_entropy))}) <= 1 / 10000'
                goals.append((len(goals), prop))
                gmeta[len(goals) - 1] = dict(inv_t=inv_t, x=toks.reshape(-1).tolist(), reported=float(bd.per_sample_entropy))
        q.eval()
        with torch.no_grad():
            r0, bd0 = q(x, return_loss_breakdown=True)
        dist['eval_zero'] += 1
        if float(r0.entropy_aux_loss) != 0.0 or any(float(t) != 0.0 for t in bd0):
            fail(key + ':eval-nonzero', 'LFQ: a loss term is non-zero in evaluation mode', dict(cd=cd))
    # frac_per_sample_entropy < 1: the sub-sampled tokens are an oracle, captured by replaying the RNG state (the first draw of the forward)
    for ci in range((6 if not ctx.thorough else 30) * scale):
        frac = [0.5, 0.25, 0.75][ci % 3]
        q = LFQ(codebook_size=4, dim=2, frac_per_sample_entropy=frac, entropy_loss_weight=1.0, diversity_gamma=rng.choice([1.0, 0.5]))
        q.train()
        x = torch.randn(3, 4, 2)
        st = torch.get_rng_state()
        with torch.no_grad():
            ret, bd = q(x, inv_temperature=2.0, return_loss_breakdown=True)
            after = torch.get_rng_state()
            torch.set_rng_state(st)
            ntok = 12
            rand_mask = torch.randn(ntok).argsort(dim=-1) < int(ntok * frac)
            torch.set_rng_state(after)
            toks = x.reshape(ntok, 1, 2)[rand_mask]
            prob = torch.softmax(2 * 2.0 * torch.einsum('t c d, j d -> t c j', toks.double(), q.codebook.double()), dim=-1)
            per = float(centropy(prob).mean())
            cbe = float(centropy(prob.mean(dim=0)).mean())
        ev += 1
        dist['lfq_subsampled'] = dist.get('lfq_subsampled', 0) + 1
        if not close(bd.per_sample_entropy, per, 1e-4) or not close(bd.batch_entropy, cbe, 1e-4):
            fail(f'lfq:subsampled:frac={frac}', f'LFQ(frac_per_sample_entropy={frac}): reported entropies ({float(bd.per_sample_entropy):.6g}, {float(bd.batch_entropy):.6g}) != formulas on the sampled tokens ({per:.6g}, {cbe:.6g})', dict(frac=frac))
    dist['lfq_interval_goals'] = len(goals)
    for lab, why in certify(ctx, 'c17_iv', goals):
        fail('lfq:entropy-interval', f'LFQ per-token entropy {gmeta.get(lab)} is not within 1e-4 of the real-valued formula ({why})', gmeta.get(lab, {}))
    for ci in range((4 if not ctx.thorough else 20) * scale):
        rl = ResidualLFQ(dim=3, codebook_size=8, num_quantizers=2, commitment_loss_weight=0.25)
        rl.train()
        x = torch.randn(2, 3, 3)
        with torch.no_grad():
            out, idx, losses = rl(x)
            r = x.clone()
            dist['rlfq'] += 1
            ev += 1
            for k, layer in enumerate(rl.layers):
                layer.train()
                lk = layer(r).entropy_aux_loss
                if not close(losses[..., k], lk, 1e-5):
                    fail('rlfq:per-layer-loss', f'ResidualLFQ layer {k}: reported loss {float(losses[..., k]):.6g} != the layer\'s own aux loss on its residual {float(lk):.6g}', dict(layer=k))
                r = r - layer(r).quantized
    # ------------------------------------------------------------------ LatentQuantize
    for ci in range((6 if not ctx.thorough else 30) * scale):
        cwl, qwl = rng.choice([0.1, 1.0, 0.0]), rng.choice([0.1, 0.5])
        lq = LatentQuantize(levels=[4, 3], dim=2, commitment_loss_weight=cwl, quantization_loss_weight=qwl)
        lq.train()
        z = torch.randn(2, 2, 5) * 0.4
        with torch.no_grad():
            out, idx, loss = lq(z)
            msev = float(((out - z) ** 2).double().mean())
        want = cwl * msev + qwl * msev
        ev += 1
        dist['latent'] += 1
        if not close(loss, want):
            fail('latent:loss', f'LatentQuantize: reported {float(loss):.6g} != commitment_weight * mse + quantization_weight * mse = {want:.6g}', dict(cw=cwl, qw=qwl))
        lq.eval()
        with torch.no_grad():
            _, _, l0 = lq(z)
        dist['eval_zero'] += 1
        if float(l0) != 0.0:
            fail('latent:eval-nonzero', 'LatentQuantize: loss is non-zero in evaluation mode', {})
    # SimVQ in evaluation mode
    for q in (SimVQ(dim=3, codebook_size=6), ResidualSimVQ(dim=3, num_quantizers=2, codebook_size=6)):
        q.eval()
        with torch.no_grad():
            r = q(torch.randn(2, 4, 3))
        dist['eval_zero'] += 1
        if float(torch.as_tensor(r[2]).abs().sum()) != 0.0:
            fail(f'{type(q).__name__}:eval-nonzero', f'{type(q).__name__}: commitment loss is non-zero in evaluation mode ({float(torch.as_tensor(r[2]).abs().sum()):.4g})', dict(cls=type(q).__name__))
    bad, broken = core.run_cases(ctx, 'c17', HEADER, cases, per_file=60)
    for name, out_ in broken:
        fail(f'coq-eval:{name}', 'case file did not evaluate: ' + out_, {'file': name})
    for i, code in sorted(bad.items()):
        fail(f'{meta[i]["kind"]}:mse-in-coq', f'{meta[i]}: the reported term differs from the mse formula evaluated in Coq on exact rationals', dict(meta[i], term=cases[i][:20000]))
    return {'evaluations': ev, 'distinct_nontrivial': nt,
            'rule': 'reported losses (total and breakdown tuples) vs the documented formulas recomputed independently from inputs, selected codes, codebook, weights, temperatures and masks: VectorQuantize (mse / cross-entropy commitment, orthogonal penalty incl. active-codes-only and sub-sampling, heads, masks), '
                    'ResidualVQ per layer, SimVQ / ResidualSimVQ, LFQ (spherical, multiple codebooks, softplus, masks; entropy inequalities), ResidualLFQ, LatentQuantize; mse terms evaluated in Coq over Q, small LFQ entropy cases certified by interval; every term zero in evaluation mode; non-trivial = non-zero training loss',
            'samples': samples, 'failures': failures, 'distribution': dist}


def replay_case(ctx, case):
    t = case.get('term')
    if t:
        bad, broken = core.run_cases(ctx, 'c17_replay', HEADER, [t], per_file=1)
        return (bool(broken) or 0 in bad), 'recorded term re-evaluated'
    return True, 're-run the check: %s' % (case,)

"""C01 — every vector is assigned its nearest code."""
import random
from fractions import Fraction
from vlib import core, vqrec
from vlib.core import qlit, qvec, qmat, coqbool, natlist, blist

OBLIGATIONS = dict(
    prop_file='Properties/C01.v',
    glue=['Glue/CoreGlue.v', 'Glue/EinopsGlueBase.v', 'Glue/EinopsGlueHeads.v'] + ['Glue/Pin_fp_C01.v', 'Glue/RequantGlue.v'],
    extra=['Model/CoreCheck.vo'],
    gen_items=['k_cdist', 'g_gumbel_noise', 'o_euclid_collectives', 'o_cosine_collectives', 'o_rpq_eval', 'p_select', 'pr_vq', 'o_vq_codebook_calls', 'fp_C01'],
)
ASSUMPTIONS = [
    'nn.Linear / LayerNorm projections, the QINCo MLP and SimVQ.code_transform are opaque: the harness applies the module\'s own sub-network and hands Coq its output ("after the quantizer\'s own input projection")',
    'float32 near-ties are accepted inside the band tol*(1+|x|^2+|c|^2+|c_i|^2), tol = 0 on the dyadic exact stream and 2e-6 on the natural stream (the freedom the property grants)',
]
HEADER = '''From Coq Require Import ZArith QArith List Bool.
From VQ Require Import Num Model.Vec Model.Core Model.CoreCheck.
Import ListNotations.
Open Scope Q_scope.
'''
TOL_NAT = Fraction(2, 10 ** 6)
TOL_Q = Fraction(1, 10 ** 5)


def term(cosine, tol, cb, xs, idx, quant=None, qtol=Fraction(0)):
    t = f'(if nearest_all_okb {coqbool(cosine)} {qlit(tol)} {qmat(cb)} {qmat(xs)} {natlist(idx)} then 0 else 1)%nat'
    if quant is not None:
        t = f'(({t}) + (if quant_okb {qlit(qtol)} {qmat(cb)} {natlist(idx)} {qmat(quant)} then 0 else 2))%nat'
    return t


CODES = {1: 'a returned index is not a nearest code (or out of range)', 2: 'the returned quantized vector is not the selected codebook entry',
         3: 'index not nearest AND quantized vector is not the selected entry'}


def nontrivial(cb, xs, idx):
    return len(set(idx)) >= 2


def vq_cases(ctx, rng, scale, add, dist, failures):
    import torch
    from vector_quantize_pytorch import VectorQuantize
    n = (36 if not ctx.thorough else 300) * scale
    for ci in range(n):
        d = rng.choice([1, 2, 3, 4])
        heads, sep = [(1, False), (2, False), (2, True), (3, False), (1, False), (3, True)][ci % 6]
        cosine = (ci // 6) % 3 == 1
        K = rng.choice([1, 2, 3, 5, 8])
        proj = (ci // 3) % 4 == 3
        layout = ['seq', 'cfirst', 'image', 'seq'][(ci // 2) % 4]
        exact = rng.random() < 0.5 and not proj and not cosine
        kw = dict(dim=(d * heads + (1 if proj else 0)), codebook_size=K, heads=heads, separate_codebook_per_head=sep, codebook_dim=d,
                  use_cosine_sim=cosine, decay=rng.choice([0.5, 0.8]), threshold_ema_dead_code=0,
                  channel_last=(layout != 'cfirst'), accept_image_fmap=(layout == 'image'))
        try:
            vq = VectorQuantize(**kw)
        except Exception as ex:
            failures.append({'key': 'vq:construct', 'what': f'{kw}: {ex!r}', 'case': dict(kw=kw)})
            continue
        if exact:
            vqrec.set_codebook_grid(vq, rng, dup=rng.random() < 0.3, zero=rng.random() < 0.3)
        else:
            # a short training history so that the codebook is "after arbitrary training"
            vq.train()
            for _ in range(rng.choice([0, 1, 3])):
                vq(make_input(rng, torch, layout, kw['dim'], exact=False))
        for mode in ('eval', 'train', 'frozen'):
            x = make_input(rng, torch, layout, kw['dim'], exact, vq if exact else None)
            vq.train(mode != 'eval')
            # ---- specification side, from the PUBLIC interface only: channel-last tokens -> the module's own projection -> heads -> normalisation
            with torch.no_grad():
                xs = {'seq': x, 'cfirst': x.movedim(1, -1), 'image': x.movedim(1, -1).reshape(x.shape[0], -1, x.shape[1])}[layout]
                xp = vq.project_in(xs)
                b_, n_ = xp.shape[0], xp.shape[1]
                xh = xp.reshape(b_, n_, heads, d)
                if cosine:
                    xh = torch.nn.functional.normalize(xh, p=2, dim=-1, eps=1e-6)
                before = vqrec.cb_state(vq._codebook)
            try:
                with torch.no_grad():
                    out, idx, _ = vq(x, **({'freeze_codebook': True} if mode == 'frozen' else {}))
            except Exception as ex:
                failures.append({'key': f'vq:exception:{type(ex).__name__}', 'what': f'VectorQuantize({kw}) {mode}: {ex!r}', 'case': dict(kw=kw)})
                break
            idx_s = idx.reshape(b_, n_, heads) if heads > 1 else idx.reshape(b_, n_, 1)
            out_s = {'seq': out, 'cfirst': out.movedim(1, -1), 'image': out.movedim(1, -1).reshape(b_, n_, -1)}[layout]
            codes = []
            for h in range(heads):
                cb = before['embed'][h if sep else 0]
                toks = xh[:, :, h].reshape(-1, d).double().tolist()
                ids = idx_s[:, :, h].reshape(-1).tolist()
                tol = Fraction(0) if (exact and mode != 'frozen') else TOL_NAT      # after the training call the codebook has left the dyadic grid: bisector points are float near-ties
                quant = None if proj else out_s.reshape(b_, n_, heads, d)[:, :, h].reshape(-1, d).double().tolist()
                add(term(cosine, tol, cb, toks, ids, quant, Fraction(0) if mode == 'eval' else TOL_Q),
                    dict(kind='vq', kw=kw, mode=mode, head=h, exact=exact, layout=layout), nontrivial(cb, toks, ids))
                codes.append(torch.tensor(cb, dtype=torch.float32)[idx_s[:, :, h].clamp(min=0)])
            if proj:
                with torch.no_grad():
                    want = vq.project_out(torch.cat(codes, dim=-1))
                if not torch.allclose(want, out_s, atol=1e-5, rtol=1e-4):
                    failures.append({'key': f'vq:projected-output:{mode}', 'what': f'VectorQuantize({kw}) {mode}: output differs from project_out(selected codes) by {(want - out_s).abs().max().item():g}',
                                     'case': dict(kw=kw, mode=mode)})
            dist['vq_' + mode] += 1
            dist['exact' if exact else 'natural'] += 1
            dist['cosine'] += cosine
            dist['layout_' + layout] += 1


def history_cases(ctx, rng, scale, add, dist, failures):
    """nearest-code selection along HISTORIES of one module: training steps with dead-code revival, and codebook writes between calls
    (load_state_dict, the `codebook` setter, a direct write) - every call must select against the codebook as it is at that call"""
    import torch, copy
    from vector_quantize_pytorch import VectorQuantize
    n = (10 if not ctx.thorough else 80) * scale
    for ci in range(n):
        cosine = ci % 3 == 1
        heads, sep = [(1, False), (2, False), (2, True)][(ci // 3) % 3]
        d = rng.choice([2, 3])
        K = rng.choice([4, 6, 8])
        thr = [0, 2, 1, 0.5][ci % 4]
        kw = dict(dim=d * heads, codebook_size=K, heads=heads, separate_codebook_per_head=sep, codebook_dim=d, use_cosine_sim=cosine,
                  decay=rng.choice([0.5, 0.8]), threshold_ema_dead_code=thr)
        torch.manual_seed(rng.randrange(10 ** 6))
        vq = VectorQuantize(**kw)
        ops = [rng.choice(['train', 'train', 'eval', 'frozen', 'load', 'setter', 'write']) for _ in range(rng.choice([4, 6]))]
        ops = [['eval', 'train'][ci % 2]] + ops + ['eval']
        if cosine and thr > 0:
            ops = ['train', 'train-tiny', 'eval'] + ops       # dead-code revival from a batch whose norms are below the l2norm eps
        for oi, op in enumerate(ops):
            if op == 'load':
                other = VectorQuantize(**kw)
                other.train()
                other(torch.randn(2, 3, kw['dim']))
                vq.load_state_dict(copy.deepcopy(other.state_dict()))
                dist['hist_writes'] += 1
                continue
            if op == 'setter':
                vq.codebook = torch.randn_like(vq._codebook.embed) if (heads > 1 and sep) else torch.randn(K, d)
                dist['hist_writes'] += 1
                continue
            if op == 'write':
                with torch.no_grad():
                    e = torch.randn_like(vq._codebook.embed)
                    vq._codebook.embed.data.copy_(torch.nn.functional.normalize(e, dim=-1) if cosine else e)
                dist['hist_writes'] += 1
                continue
            vq.train(op != 'eval')
            x = torch.randn(2, rng.choice([2, 4]), kw['dim']) * (1e-8 if op == 'train-tiny' else rng.choice([1., 3., 1e-8]))
            if cosine and oi > 0 and ops[oi - 1] in ('train', 'train-tiny'):
                # the library selects by the dot product with the stored code: that IS the cosine ranking only while every code is a unit vector,
                # which every EMA update (revived codes included) must re-establish
                nrm = vq._codebook.embed.norm(dim=-1)
                if not torch.allclose(nrm, torch.ones_like(nrm), atol=1e-3):
                    failures.append({'key': 'vq-history:cosine-codes-not-unit-norm', 'what': f'VectorQuantize({kw}) after ops {ops[:oi]}: cosine codebook holds codes of norm {float(nrm.min()):.3g} .. {float(nrm.max()):.3g}, '
                                     'so the dot-product selection is no longer the nearest code in cosine similarity', 'case': dict(kw=kw, ops=ops[:oi])})
                    break
            try:
                with torch.no_grad():
                    _, recs = vqrec.record_call(vq, x, **({'freeze_codebook': True} if op == 'frozen' else {}))
            except Exception as ex:
                failures.append({'key': f'vq-history:exception:{type(ex).__name__}', 'what': f'VectorQuantize({kw}) ops {ops[:oi + 1]}: {ex!r}', 'case': dict(kw=kw, ops=ops)})
                break
            for r in recs:
                for h in range(r.H):
                    cb = r.before['embed'][h]
                    add(term(cosine, TOL_NAT, cb, r.xs[h], r.idx[h], r.quant[h], TOL_Q),
                        dict(kind='vq-history', kw=kw, mode=op, head=h, exact=False, ops=ops[:oi + 1]), nontrivial(cb, r.xs[h], r.idx[h]))
            dist['hist_calls'] += 1
            dist['hist_revivals'] += int(op in ('train', 'train-tiny') and thr > 0 and any(r.before['embed'] != r.after['embed'] for r in recs))


def magnitude_cases(ctx, rng, scale, add, dist, failures):
    """codebook AND inputs at very small / very large magnitude (dyadic grids scaled by powers of two, so the check stays exact, tol 0), for
    EMA, learnable and orthogonally regularised Euclidean codebooks: an absolute epsilon inside the distance must not decide the winner"""
    import torch
    from vector_quantize_pytorch import VectorQuantize
    n = (12 if not ctx.thorough else 60) * scale
    for ci in range(n):
        mode = ['ema', 'learnable', 'orth'][ci % 3]
        mag = [2.0 ** -17, 2.0 ** -24, 2.0 ** 10, 2.0 ** -12][(ci // 3) % 4]
        d, K = rng.choice([2, 3]), rng.choice([4, 6, 8])
        kw = dict(dim=d, codebook_size=K, decay=0.5)
        if mode == 'learnable':
            kw.update(learnable_codebook=True, ema_update=False)
        elif mode == 'orth':
            kw.update(orthogonal_reg_weight=0.5)
        vq = VectorQuantize(**kw)
        vqrec.set_codebook_grid(vq, rng)
        with torch.no_grad():
            vq._codebook.embed.data.mul_(mag)
            vq._codebook.embed_avg.data.mul_(mag)
        for op in ('eval', 'frozen'):
            vq.train(op != 'eval')
            x = vqrec.grid(rng, (2, 4, d)) * mag
            try:
                with torch.no_grad():
                    _, recs = vqrec.record_call(vq, x, **({'freeze_codebook': True} if op == 'frozen' else {}))
            except Exception as ex:
                failures.append({'key': f'vq-magnitude:exception:{type(ex).__name__}', 'what': f'VectorQuantize({kw}) at magnitude {mag}: {ex!r}', 'case': dict(kw=kw, mag=mag)})
                break
            for r in recs:
                cb = r.before['embed'][0]
                add(term(False, Fraction(0), cb, r.xs[0], r.idx[0], r.quant[0], Fraction(0)), dict(kind='vq-magnitude', kw=kw, mode=op, exact=True, mag=mag, codebook_mode=mode),
                    nontrivial(cb, r.xs[0], r.idx[0]))
            dist['magnitude_cases'] = dist.get('magnitude_cases', 0) + 1


def cross_head_scale_cases(ctx, dist, failures):
    """multi-head COSINE quantizers whose heads carry sub-vectors of wildly different scale (1e-30 next to 1e16, all finite): the nearness of head h is
    the cosine similarity of ITS sub-vector with ITS codes, so every head is normalised on its own.  Observed at the PUBLIC input (no projections:
    codebook_dim * heads == dim) against a float64 per-head oracle; tokens whose two best similarities are closer than 1e-3 are skipped.
    (round 11, seed C01-k: normalising the whole (h d) vector before the split flushes the small head to zero)"""
    import torch
    from vector_quantize_pytorch import VectorQuantize
    scales = [1e-30, 1e-15, 1.0, 1e4, 1e16]
    for ci in range(12 if not ctx.thorough else 48):
        heads = [2, 3][ci % 2]
        sep = (ci // 2) % 2 == 1
        d, K = 4, 8
        mode = ['eval', 'frozen', 'train'][(ci // 4) % 3]
        torch.manual_seed(7300 + ci)
        vq = VectorQuantize(dim=d * heads, heads=heads, codebook_dim=d, codebook_size=K, use_cosine_sim=True, separate_codebook_per_head=sep)
        vq.train(mode != 'eval')
        x = torch.randn(2, 6, heads, d)
        for t in range(6):
            for h in range(heads):
                x[:, t, h] *= scales[(t + 2 * h + ci) % len(scales)]
        x = x.reshape(2, 6, heads * d)
        cb0 = vq._codebook.embed.detach().double().clone()
        try:
            with torch.no_grad():
                out, idx, _ = vq(x, **({'freeze_codebook': True} if mode == 'frozen' else {}))
        except Exception as ex:
            failures.append({'key': f'vq-cross-head-scales:exception:{type(ex).__name__}', 'what': repr(ex)[:200], 'case': dict(heads=heads, sep=sep)})
            continue
        dist['cross_head_scale_calls'] = dist.get('cross_head_scale_calls', 0) + 1
        xh = x.double().reshape(2, 6, heads, d)
        xn = xh / xh.norm(dim=-1, keepdim=True)
        wrong = []
        for h in range(heads):
            cbh = cb0[h if sep else 0]
            cbn = cbh / cbh.norm(dim=-1, keepdim=True).clamp(min=1e-12)
            sims = xn[:, :, h] @ cbn.T
            top2 = sims.topk(2, dim=-1).values
            clear = (top2[..., 0] - top2[..., 1]) > 1e-3
            want = sims.argmax(dim=-1)
            got = idx[..., h]
            bad = clear & (want != got)
            if bool(bad.any()):
                b_, t_ = [int(v) for v in bad.nonzero()[0]]
                wrong.append(f'head {h} token ({b_},{t_}) of scale {float(xh[b_, t_, h].norm()):.1e} (other heads {[float(xh[b_, t_, g].norm()) for g in range(heads) if g != h]}): '
                             f'index {int(got[b_, t_])} has similarity {float(sims[b_, t_, int(got[b_, t_])]):.3f}, the best code {int(want[b_, t_])} has {float(sims[b_, t_, int(want[b_, t_])]):.3f}')
        if wrong:
            failures.append({'key': f'vq-cross-head-scales:not-most-similar:sep={sep}', 'what': f'VectorQuantize(cosine, heads={heads}, separate={sep}) {mode}: ' + '; '.join(wrong[:2]),
                             'case': dict(heads=heads, sep=sep, mode=mode)})


def make_input(rng, torch, layout, dim, exact, vq=None):
    b, n = rng.choice([(1, 1), (2, 3), (2, 5), (3, 2)])
    shape = {'seq': (b, n, dim), 'cfirst': (b, dim, n), 'image': (b, dim, 2, n)}[layout]
    if exact:
        x = vqrec.grid(rng, shape)
        if vq is not None and rng.random() < 0.5 and vq.heads == 1 and layout == 'seq':
            # near-tie points: midpoints of code pairs (exact bisector points on the dyadic grid), duplicates, zeros
            cb = vq._codebook.embed[0]
            K = cb.shape[0]
            for i in range(b):
                for j in range(n):
                    r = rng.random()
                    if r < 0.4 and K > 1:
                        a, c = rng.sample(range(K), 2)
                        x[i, j] = (cb[a] + cb[c]) / 2
                    elif r < 0.5:
                        x[i, j] = 0
                    elif r < 0.6:
                        x[i, j] = cb[rng.randrange(K)]
        return x
    kind = rng.random()
    x = torch.randn(shape)
    if kind < 0.2:
        x = x * 0.01
    elif kind < 0.3:
        x[0] = 0
    return x


def residual_cases(ctx, rng, scale, add, dist, failures):
    import torch
    from vector_quantize_pytorch import ResidualVQ
    n = (10 if not ctx.thorough else 80) * scale
    for ci in range(n):
        shared = ci % 3 == 1
        implicit = ci % 3 == 2
        d = rng.choice([2, 3])
        nq = rng.choice([2, 3])
        K = rng.choice([3, 5]) if rng.random() < 0.7 or shared else None
        kw = dict(dim=d, num_quantizers=nq, codebook_size=(K if K else tuple(rng.choice([2, 4, 6]) for _ in range(nq))),
                  shared_codebook=shared, implicit_neural_codebook=implicit, threshold_ema_dead_code=0)
        if K is None:
            kw.pop('num_quantizers')
        if implicit:
            kw['mlp_kwargs'] = dict(dim_hidden=4, depth=1)
        try:
            rvq = ResidualVQ(**kw)
        except Exception as ex:
            failures.append({'key': 'rvq:construct', 'what': f'{kw}: {ex!r}', 'case': dict(kw=kw)})
            continue
        exact = (not implicit) and rng.random() < 0.5
        if exact:
            for layer in (rvq.layers[:1] if shared else rvq.layers):
                vqrec.set_codebook_grid(layer, rng)
        rvq.eval()
        x = vqrec.grid(rng, (2, 3, d)) if exact else torch.randn(3, 4, d)
        cbs = []
        for layer in rvq.layers:
            if layer._codebook not in cbs:
                cbs.append(layer._codebook)
        log = []
        origs = [cb.forward for cb in cbs]

        def mk(cb, orig):
            def wrapped(xin, *a, **k):
                fn = k.get('codebook_transform_fn')
                cap = {}
                if fn is not None:
                    def fn2(e):
                        t = fn(e)
                        cap['t'] = t.detach()
                        return t
                    k = dict(k, codebook_transform_fn=fn2)
                out = orig(xin, *a, **k)
                log.append((cb, vqrec.cb_state(cb), xin.detach(), out[1].detach(), out[0].detach(), cap.get('t')))
                return out
            return wrapped
        for cb, orig in zip(cbs, origs):
            cb.forward = mk(cb, orig)
        try:
            rvq(x)
        except Exception as ex:
            failures.append({'key': f'rvq:exception:{type(ex).__name__}', 'what': f'ResidualVQ({kw}): {ex!r}', 'case': dict(kw=kw)})
            continue
        finally:
            for cb in cbs:
                del cb.forward
        for li, (cb, st, xin, idx, quant, tcb) in enumerate(log):
            xs = xin.reshape(-1, xin.shape[-1]).double().tolist()
            ids = idx.reshape(-1).tolist()
            qs = quant.reshape(-1, quant.shape[-1]).double().tolist()
            if tcb is None:
                add(term(False, Fraction(0) if exact else TOL_NAT, st['embed'][0], xs, ids, qs, Fraction(0)),
                    dict(kind='rvq-layer', kw=kw, layer=li, exact=exact), len(set(ids)) >= 2)
            else:
                # implicit neural codebook: per-token codebook = the MLP's output for that token (opaque); metric has a 1e-6 shift
                t = tcb[0] if tcb.ndim == 5 else tcb  # h b n c d
                t = t.reshape(-1, t.shape[-2], t.shape[-1]).double().tolist()
                parts = [f'(if nearest_okb false {qlit(Fraction(1, 10 ** 4))} {qmat(t[k])} {qvec(xs[k])} {ids[k]}%nat && vclose {qlit(TOL_Q)} (nth {ids[k]}%nat {qmat(t[k])} []) {qvec(qs[k])} then 0 else 1)%nat'
                         for k in range(len(xs))]
                add('(' + ' + '.join(parts) + ')%nat', dict(kind='rvq-implicit', kw=kw, layer=li, exact=False), len(set(ids)) >= 2)
        dist['rvq_shared' if shared else ('rvq_implicit' if implicit else 'rvq')] += 1


def other_cases(ctx, rng, scale, add, dist, failures):
    import torch
    from torch import nn
    from vector_quantize_pytorch import SimVQ, ResidualSimVQ, RandomProjectionQuantizer, LatentQuantize
    n = (8 if not ctx.thorough else 60) * scale
    # in-place codebook optimiser with a LARGE step: the call's index and vector both refer to the codebook AFTER the step (the module quantizes again)
    from vlib import callzoo as _cz
    try:
        for kw_i, x_i, out_i, idx_i, loss_i, com_i, cb_i in _cz.inplace_big_step_cases(torch, rng, 4 if not ctx.thorough else 12):
            d2 = ((x_i.reshape(-1, 1, 3) - cb_i[None]) ** 2).sum(-1)
            near = d2.argmin(dim=-1)
            flat_idx = idx_i.reshape(-1)
            margin = (d2.gather(1, flat_idx[:, None])[:, 0] - d2.min(dim=-1).values)
            vec_ok = torch.allclose(out_i.reshape(-1, 3), cb_i[flat_idx], atol=1e-5)
            dist['inplace_big_step_calls'] = dist.get('inplace_big_step_calls', 0) + 1
            if bool((margin > 1e-5).any()) or not vec_ok:
                failures.append({'key': 'vq-inplace-big-step:index-and-vector-disagree', 'what': f'VectorQuantize(in-place optimiser, large step): {int((margin > 1e-5).sum())} of {flat_idx.numel()} returned indices are not a nearest code of the '
                                 f'codebook after the step; returned vector = codebook[index]: {vec_ok}', 'case': dict(kind='inplace-big-step')})
    except Exception as ex:
        failures.append({'key': f'vq-inplace-big-step:exception:{type(ex).__name__}', 'what': repr(ex), 'case': dict(kind='inplace-big-step')})
    # RE-ENTRANCY: a read-only forward hook on the codebook (a monitoring probe) runs another, differently shaped image through the same module while the
    # outer call is in flight: every pixel of the outer call still gets the index of ITS nearest code, in ITS position
    from vector_quantize_pytorch import VectorQuantize as _VQ
    for ri in range(3 if not ctx.thorough else 12):
        try:
            vq_r = _VQ(dim=3, codebook_size=7, accept_image_fmap=True, heads=[1, 2, 1][ri % 3], codebook_dim=(None if ri % 3 != 1 else 2), use_cosine_sim=(ri % 3 == 2))
            vq_r.eval()
            img = torch.randn(2, 3, 6, 4)
            probe = torch.randn(1, 3, 4, 6)
            st_r = {'busy': False}

            def hook_r(_m, _i, _o):
                if not st_r['busy']:
                    st_r['busy'] = True
                    try:
                        with torch.no_grad():
                            vq_r(probe)
                    finally:
                        st_r['busy'] = False
            with torch.no_grad():
                o_a, i_a, _ = vq_r(img)
                hh = vq_r._codebook.register_forward_hook(hook_r)
                try:
                    o_b, i_b, _ = vq_r(img)
                finally:
                    hh.remove()
            dist['reentrant_probe_calls'] = dist.get('reentrant_probe_calls', 0) + 1
            if i_a.shape != i_b.shape or not torch.equal(i_a, i_b) or o_a.shape != o_b.shape or not torch.equal(o_a, o_b):
                failures.append({'key': 'vq-image:reentrant-probe:indices-differ', 'what': f'VectorQuantize(accept_image_fmap=True) with a forward hook on its codebook that runs a 4x6 probe image through the module during a '
                                 f'6x4 call: indices {tuple(i_b.shape)} / output {tuple(o_b.shape)} differ from the call without the hook ({tuple(i_a.shape)} / {tuple(o_a.shape)})', 'case': dict(kind='reentrant')})
        except Exception as ex:
            failures.append({'key': f'vq-image:reentrant-probe:exception:{type(ex).__name__}', 'what': repr(ex), 'case': dict(kind='reentrant')})
    for ci in range(n):
        # SimVQ (linear or MLP transform), ResidualSimVQ layers
        d = rng.choice([2, 3, 4])
        K = rng.choice([3, 6, 9])
        mlp = rng.random() < 0.4
        fd = rng.choice([d, d + 1])
        tr = nn.Sequential(nn.Linear(fd, 5), nn.ReLU(), nn.Linear(5, d)) if mlp else None
        coupled = ci % 4 == 3
        if coupled:
            # a transform that COUPLES the codes (batch statistics over the rows of the frozen codebook): the returned vector is an entry of the codebook
            # code_transform(frozen_codebook) as a whole, not the transform of the selected rows alone
            tr = nn.Sequential(nn.Linear(fd, 5), nn.BatchNorm1d(5), nn.ReLU(), nn.Linear(5, d))
            dist['simvq_coupled_transform'] = dist.get('simvq_coupled_transform', 0) + 1
        cf = rng.random() < 0.3
        q = SimVQ(dim=d, codebook_size=K, codebook_transform=tr, frozen_codebook_dim=fd, channel_first=cf, rotation_trick=rng.random() < 0.5 and not coupled)
        q.train(rng.random() < 0.5 or coupled)
        x = torch.randn(2, d, 4) if cf else torch.randn(2, 4, d)
        with torch.no_grad():
            out, idx, loss = q(x)
            cb = q.codebook.double().tolist()
        xs = (x.movedim(1, -1) if cf else x).reshape(-1, d).double().tolist()
        qs = (out.movedim(1, -1) if cf else out).reshape(-1, d).double().tolist()
        # the rotation trick returns the code as a rotated and rescaled copy of the input: in float32 its error grows like eps / |u + q|^2 when the
        # input direction u is nearly opposite to the code direction q (an ill-conditioned reflection), so the band for "the returned vector is that
        # entry" follows the conditioning of the worst token of the call (1e-4 when well conditioned)
        with torch.no_grad():
            xn = torch.nn.functional.normalize((x.movedim(1, -1) if cf else x).reshape(-1, d), dim=-1)
            qn = torch.nn.functional.normalize(q.codebook[idx.reshape(-1)], dim=-1)
            cmin = float((xn + qn).norm(dim=-1).min())
        qtol_s = Fraction(1, 10 ** 4) if cmin > 0.5 else Fraction(min(0.05, max(1e-4, 2e-5 / max(cmin, 1e-3) ** 2))).limit_denominator(10 ** 6)
        add(term(False, TOL_NAT, cb, xs, idx.reshape(-1).tolist(), qs, qtol_s), dict(kind='simvq', mlp=mlp, channel_first=cf), len(set(idx.reshape(-1).tolist())) >= 2)
        dist['simvq'] += 1
        # frozen-module history on a second instance (vlib/callzoo.frozen_surgery): frozen, another checkpoint loaded while frozen, parameters written in
        # place, unfrozen again - at every stage the forward selects the nearest entry of the codebook the module has NOW (recomputed here from
        # code_transform(frozen_codebook), not read through a property that could be memoised)
        if ci % 2 == 0:
            from vlib import callzoo
            mk_q = lambda: SimVQ(dim=d, codebook_size=K, codebook_transform=(nn.Sequential(nn.Linear(fd, 5), nn.ReLU(), nn.Linear(5, d)) if mlp else None), frozen_codebook_dim=fd, channel_first=cf,
                                 rotation_trick=False)
            q2 = mk_q()
            for stage in callzoo.frozen_surgery(torch, q2, mk_q):
                x2 = torch.randn(2, d, 4) if cf else torch.randn(2, 4, d)
                with torch.no_grad():
                    out2, idx2, _ = q2(x2)
                    cb2 = q2.code_transform(q2.frozen_codebook).double().tolist()
                xs2 = (x2.movedim(1, -1) if cf else x2).reshape(-1, d).double().tolist()
                qs2 = (out2.movedim(1, -1) if cf else out2).reshape(-1, d).double().tolist()
                add(term(False, TOL_NAT, cb2, xs2, idx2.reshape(-1).tolist(), qs2, Fraction(1, 10 ** 4)), dict(kind='simvq-frozen-history', stage=stage, mlp=mlp, channel_first=cf), True)
                dist['simvq_frozen_history_calls'] = dist.get('simvq_frozen_history_calls', 0) + 1
        # ResidualSimVQ: each layer against the residual it received
        rq = ResidualSimVQ(dim=d, num_quantizers=2, codebook_size=K)
        rq.eval()
        x = torch.randn(2, 3, d)
        with torch.no_grad():
            out, idx, _, allc = rq(x, return_all_codes=True)
            res = x.clone()
            for li, layer in enumerate(rq.layers):
                cb = layer.codebook.double().tolist()
                xn = torch.nn.functional.normalize(res.reshape(-1, d), dim=-1)
                qn = torch.nn.functional.normalize(layer.codebook[idx[..., li].reshape(-1)], dim=-1)
                cmin = float((xn + qn).norm(dim=-1).min())
                qtol_r = Fraction(1, 10 ** 4) if cmin > 0.5 else Fraction(min(0.05, max(1e-4, 2e-5 / max(cmin, 1e-3) ** 2))).limit_denominator(10 ** 6)
                add(term(False, TOL_NAT, cb, res.reshape(-1, d).double().tolist(), idx[..., li].reshape(-1).tolist(),
                         allc[li].reshape(-1, d).double().tolist(), qtol_r), dict(kind='rsimvq', layer=li), True)
                res = res - allc[li]
        dist['rsimvq'] += 1
        # RandomProjectionQuantizer: cosine, separate codebooks, inner VQ forced to eval
        H = rng.choice([1, 2, 3])
        e = rng.choice([2, 3])
        rpq = RandomProjectionQuantizer(dim=4, codebook_size=K, codebook_dim=e, num_codebooks=H, norm=rng.random() < 0.5)
        rpq.train(rng.random() < 0.5)
        x = torch.randn(2, 3, 4)
        recs = []
        orig = rpq.vq._codebook.forward

        def wrapped(xin, *a, **k):
            out = orig(xin, *a, **k)
            recs.append((xin.detach(), out[1].detach(), out[0].detach()))
            return out
        rpq.vq._codebook.forward = wrapped
        try:
            with torch.no_grad():
                rpq(x)
        finally:
            del rpq.vq._codebook.forward
        xin, idx, quant = recs[0]
        emb = rpq.vq._codebook.embed
        for h in range(H):
            ed = xin.shape[-1]   # the inner VectorQuantize uses codebook_dim = its dim (and a projection), not RPQ's codebook_dim
            add(term(True, TOL_NAT, emb[h].double().tolist(), xin[h].reshape(-1, ed).double().tolist(), idx[h].reshape(-1).tolist(),
                     quant[h].reshape(-1, ed).double().tolist(), Fraction(0)), dict(kind='rpq', head=h, heads=H), True)
        dist['rpq'] += 1
        # LatentQuantize: each latent dimension takes the nearest of its values
        levels = [rng.choice([2, 3, 4, 5, 6]) for _ in range(rng.choice([1, 2, 3]))]
        if ci % 4 < 2:
            levels = [[5, 5, 8], [3, 6], [2, 4, 3], [6, 2]][ci % 4 + 2 * (ci // 4 % 2)]      # mixed level counts per latent
        dimq = len(levels) + rng.choice([0, 0, 1])
        lq = LatentQuantize(levels=levels, dim=dimq, optimize_values=rng.random() < 0.5)
        lq.train(rng.random() < 0.5)
        moved = ci % 2 == 0
        if moved:
            # "after arbitrary training": the per-latent values have moved off their initial grid (custom loss, checkpoint, direct assignment),
            # in particular 0.0 is no longer one of them
            with torch.no_grad():
                for v in lq.values_per_latent:
                    v.add_(torch.tensor([rng.choice([-3, -2, 2, 3, 5]) / 64 for _ in range(v.numel())]))
            dist['latent_moved_values'] = dist.get('latent_moved_values', 0) + 1
        exact = dimq == len(levels) and rng.random() < 0.5
        z = (vqrec.grid(rng, (2, dimq, 3), den=16, lim=12) if exact else torch.randn(2, dimq, 3) * 0.4)
        captured = []
        hk = lq.project_out.register_forward_pre_hook(lambda mod_, args: captured.append(args[0].detach().clone()))
        try:
            with torch.no_grad():
                out, idx, _ = lq(z)
                zp = lq.project_in(z.movedim(1, -1))           # b n (c d)
        finally:
            hk.remove()
        with torch.no_grad():
            zq = zp.reshape(-1, len(levels))
            values = [v.detach().double().tolist() for v in lq.values_per_latent]
            # the ASSIGNED entry per latent dimension is read off the quantized vector itself (the input of the output projection): it must be one
            # of that latent's values and the nearest one.  (How the flat index encodes it is the codec's subject: C02 / C04, finding D18.)
            codes = (captured[0] if captured else out.movedim(1, -1)).reshape(-1, len(levels)).double()
            parts = []
            for t in range(zq.shape[0]):
                for k in range(len(levels)):
                    cval = float(codes[t, k])
                    match = [j for j, vv in enumerate(values[k]) if abs(vv - cval) <= 1e-6]
                    if not match:
                        failures.append({'key': 'latent:quantized-value-not-an-entry', 'what': f'LatentQuantize(levels={levels}): the quantized value {cval!r} of latent {k} is not one of its values {values[k]}', 'case': dict(levels=levels)})
                        continue
                    parts.append(f'(if lq_okb {qlit(Fraction(0) if exact else Fraction(1, 10 ** 6))} {qvec(values[k])} {qlit(float(zq[t, k]))} {match[0]}%nat then 0 else 1)%nat')
            if parts:
                add('(' + ' + '.join(parts) + ')%nat', dict(kind='latent', levels=levels, exact=exact), True)
        dist['latent'] += 1


def correspond(ctx, scale):
    rng = ctx.rng
    cases, meta, failures, samples = [], [], [], []
    nt = [0]
    dist = {k: 0 for k in ('vq_eval', 'vq_train', 'vq_frozen', 'exact', 'natural', 'cosine', 'layout_seq', 'layout_cfirst', 'layout_image',
                           'rvq', 'rvq_shared', 'rvq_implicit', 'simvq', 'rsimvq', 'rpq', 'latent', 'hist_calls', 'hist_writes', 'hist_revivals')}

    def add(t, m, nontriv):
        cases.append(t)
        meta.append(m)
        nt[0] += bool(nontriv)
    vq_cases(ctx, rng, scale, add, dist, failures)
    history_cases(ctx, rng, scale, add, dist, failures)
    magnitude_cases(ctx, rng, scale, add, dist, failures)
    cross_head_scale_cases(ctx, dist, failures)
    residual_cases(ctx, rng, scale, add, dist, failures)
    other_cases(ctx, rng, scale, add, dist, failures)
    bad, broken = core.run_cases(ctx, 'c01', HEADER, cases, per_file=30)
    for name, out in broken:
        failures.append({'key': f'coq-eval:{name}', 'what': 'case file did not evaluate: ' + out, 'case': {'file': name}})
    for i, code in sorted(bad.items()):
        m = meta[i]
        failures.append({'key': f'{m["kind"]}:code{min(code, 3)}:exact={m.get("exact")}:mode={m.get("mode")}',
                         'what': f'{m}: {CODES.get(code, str(code) + " token(s) not assigned their nearest code")}',
                         'case': dict(m, code=code, term=cases[i][:30000])})
    return {'evaluations': len(cases), 'distinct_nontrivial': nt[0],
            'rule': 'one case = one codebook call (head / layer): every token\'s returned index is checked nearest under the metric and the returned vector equal to that entry, inside Coq on exact rationals; non-trivial = at least two distinct codes selected',
            'samples': [dict(meta[i]) for i in range(min(4, len(meta)))], 'failures': failures, 'distribution': dist}


def replay_case(ctx, case):
    t = case.get('term')
    if not t:
        return True, 'no recorded term; re-run the check'
    bad, broken = core.run_cases(ctx, 'c01_replay', HEADER, [t], per_file=1)
    if broken:
        return True, 'replay term did not evaluate: ' + broken[0][1]
    return (0 in bad), f'recorded call re-evaluated: code {bad.get(0, 0)}'

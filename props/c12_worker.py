"""worker of the C12 multi-process stratum: explicit dropout seeds inside a real gloo process group (the depth must depend on the seed only,
not on the world size)"""
import os


def worker(rank, world, initfile, outdir, seeds, cfg):
    import torch
    import torch.distributed as dist
    torch.set_num_threads(1)
    dist.init_process_group('gloo', init_method='file://' + initfile, rank=rank, world_size=world)
    from props import c12
    n, c, m = cfg
    out = {}
    for cls in ('ResidualVQ', 'ResidualFSQ', 'ResidualLFQ', 'ResidualSimVQ'):
        torch.manual_seed(7)
        q = c12.make(cls, n, c, m, False)
        for seed in seeds:
            try:
                flags, problems = c12.run_one(q, cls, n, seed, False)
                out[(cls, seed)] = (flags, problems)
            except Exception as ex:
                out[(cls, seed)] = (None, [repr(ex)])
        dist.barrier()
    torch.save(out, os.path.join(outdir, f'c12_rank{rank}.pt'))
    dist.barrier()
    dist.destroy_process_group()

"""C07 — gradient contract: straight-through or rotation trick, commitment, no leak."""
import math
from fractions import Fraction
from vlib import core
from vlib.core import qlit, qvec, coqbool

OBLIGATIONS = dict(
    prop_file='Properties/C07.v',
    glue=['Glue/GradGlue.v', 'Glue/Pin_p_grad.v', 'Glue/SteGlue.v'] + ['Glue/Pin_fp_C07.v'],
    extra=['Model/GradCheck.vo'],
    gen_items=['g_vq_maybe_detach', 'g_vq_rotate', 'k_safe_div', 'p_grad', 'k_fsq_bound', 'k_vq_ste', 'k_vq_sync_update', 'k_fsq_round_ste', 'k_simvq_ste', 'k_lq_ste', 'k_gumbel_st', 'k_lfq_ste', 'fp_C07'],
)
ASSUMPTIONS = [
    'torch autograd is MODELLED: every sub-expression the source wraps in .detach() / computes under no_grad is a constant of the differentiated map; the resulting affine maps are differentiated by hand (theorems) and validated against torch Jacobians / gradients',
    'Jacobian entries are compared within 1e-4 (abs+rel); blocks that must vanish (other positions, EMA / frozen codebook, frozen SimVQ codes) are compared exactly with 0',
]
HEADER = '''From Coq Require Import ZArith QArith List Bool.
From VQ Require Import Num Model.Vec Model.Core Model.CoreCheck Model.Grad Model.GradCheck.
Import ListNotations.
Open Scope Q_scope.
'''
TOL = Fraction(1, 10 ** 4)


def correspond(ctx, scale):
    import torch
    from torch import nn
    from torch.autograd.functional import jacobian
    from vector_quantize_pytorch import VectorQuantize, SimVQ, FSQ, LFQ, LatentQuantize, ResidualVQ, ResidualFSQ, ResidualLFQ, ResidualSimVQ
    rng = ctx.rng
    failures, samples, cases, meta = [], [], [], []
    ev = nt = 0
    dist = {'vq_jacobians': 0, 'jacobian_columns': 0, 'zero_blocks_checked': 0, 'commit_grads': 0, 'codebook_grads': 0, 'simvq': 0, 'fsq_lfq_latent': 0, 'residual': 0, 'vjp_large': 0}

    def fail(key, what, case):
        failures.append({'key': key, 'what': what, 'case': case})

    # ------------------------------------------------------------------ VectorQuantize: full Jacobians for small sizes
    n = (24 if not ctx.thorough else 160) * scale
    for ci in range(n):
        # mixed-radix enumeration (no modular aliasing): rotation(2) x heads(3) x codebook mode(4) = 24 = one quick pass is the full product
        rot = ci % 2 == 0
        heads, sep = [(1, False), (2, False), (2, True)][(ci // 2) % 3]
        lm = (ci // 6) % 4
        learnable = lm > 0
        cosine = (not learnable) and (ci // 24 + ci) % 3 == 1
        v = [0.0, 0.0, 0.5, 1.0][lm]
        d = rng.choice([2, 3])
        K = rng.choice([3, 5])
        kw = dict(dim=d * heads, codebook_dim=d, heads=heads, separate_codebook_per_head=sep, codebook_size=K, rotation_trick=rot, use_cosine_sim=cosine,
                  learnable_codebook=learnable, ema_update=not learnable, sync_update_v=v, commitment_weight=rng.choice([1.0, 0.25]))
        vq = VectorQuantize(**kw)
        vq.train()
        if ci % 2 == 1:
            # some history on this instance first (a training call with gradients and an eval call on other inputs): the gradient contract of a
            # call must not depend on what the instance did before
            xp = torch.randn(2, 3, d * heads, requires_grad=True)
            o_, _, l_ = vq(xp)
            (o_.sum() + l_.sum()).backward()
            vq.zero_grad()
            vq.eval()
            with torch.no_grad():
                vq(torch.randn(1, 2, d * heads))
            vq.train()
            dist['with_history'] = dist.get('with_history', 0) + 1
        b, nn_ = rng.choice([(1, 2), (2, 2), (1, 3)])
        x = torch.randn(b, nn_, d * heads)
        if ci % 7 == 0:
            x[0, 0] = 3.0 * x[0, 0]       # spread the norms (norm ratio != 1)

        def f_out(inp):
            return vq(inp, freeze_codebook=True)[0]
        try:
            J = jacobian(f_out, x)            # (b, n, D, b, n, D)
            xg = x.clone().requires_grad_(True)
            out, idx, loss = vq(xg, freeze_codebook=not learnable)
        except Exception as ex:
            fail(f'vq:exception:{type(ex).__name__}', f'VectorQuantize({kw}): {ex!r}', dict(kw=kw))
            continue
        ev += 1
        dist['vq_jacobians'] += 1
        nt += rot
        # per-call option `indices=` (cross-entropy to target codes): the quantized output and its Jacobian are the same as without it
        if heads == 1 and ci % 2 == 0:
            try:
                tgt = torch.randint(0, K, (b, nn_))
                J2 = jacobian(lambda inp: vq(inp, indices=tgt, freeze_codebook=True)[0], x)
                dist['jacobians_with_target_indices'] = dist.get('jacobians_with_target_indices', 0) + 1
                if not torch.allclose(J, J2, atol=1e-6, rtol=1e-5):
                    fail('vq:jacobian-changes-with-target-indices', f'VectorQuantize({kw}): passing indices= changes d out / d x (max diff {(J - J2).abs().max().item():.3g}; '
                         f'with indices the Jacobian has max |entry| {J2.abs().max().item():.3g})', dict(kw=kw))
            except Exception as ex:
                fail(f'vq:indices-call:exception:{type(ex).__name__}', f'VectorQuantize({kw}) with indices=: {ex!r}', dict(kw=kw))
        D = d * heads
        # cross-position blocks vanish exactly
        for b1 in range(b):
            for t1 in range(nn_):
                for b2 in range(b):
                    for t2 in range(nn_):
                        if (b1, t1) != (b2, t2):
                            dist['zero_blocks_checked'] += 1
                            if float(J[b1, t1, :, b2, t2, :].abs().max()) != 0.0:
                                fail('vq:gradient-leaks-between-positions', f'VectorQuantize({kw}): d out[{b1},{t1}] / d x[{b2},{t2}] is not zero', dict(kw=kw))
        # own block, head by head: columns vs the model
        with torch.no_grad():
            xin = vq.project_in(x).reshape(b, nn_, heads, d)
            if cosine:
                xin = torch.nn.functional.normalize(xin, dim=-1, eps=1e-6)
            cb = vq._codebook.embed
            ii = idx.reshape(b, nn_, heads) if heads > 1 else idx.reshape(b, nn_, 1)
        if not cosine:       # (with cosine the input normalisation adds its own Jacobian factor: covered by the zero-block and value checks)
            for b1 in range(b):
                for t1 in range(nn_):
                    for h in range(heads):
                        xv = xin[b1, t1, h].double().tolist()
                        qv = cb[h if sep else 0][int(ii[b1, t1, h])].double().tolist()
                        for k in range(d):
                            col = J[b1, t1, h * d:(h + 1) * d, b1, t1, h * d + k].double().tolist()
                            dx = [1.0 if j == k else 0.0 for j in range(d)]
                            cases.append(f'tangent_check {qlit(TOL)} true true {coqbool(rot)} {qlit(Fraction(v))} {qvec(xv)} {qvec(qv)} {qvec(dx)} {qvec(col)}')
                            meta.append(dict(kind='vq-jacobian-column', kw=kw, token=(b1, t1), head=h, k=k))
                            dist['jacobian_columns'] += 1
                        # other heads' features do not influence this head
                        for h2 in range(heads):
                            if h2 != h and float(J[b1, t1, h * d:(h + 1) * d, b1, t1, h2 * d:(h2 + 1) * d].abs().max()) != 0.0:
                                fail('vq:gradient-leaks-between-heads', f'VectorQuantize({kw}): head {h} output depends on head {h2} input', dict(kw=kw))
                        ov = out[b1, t1, h * d:(h + 1) * d].detach().double().tolist()
                        cases.append(f'value_check {qlit(TOL)} {coqbool(rot)} {qvec(xv)} {qvec(qv)} {qvec(ov)}')
                        meta.append(dict(kind='vq-forward-value', kw=kw, token=(b1, t1), head=h))
        if cosine:
            # cosine codebooks: out = est(l2norm(x)), so J = A . J_norm with J_norm = (I - xh xh^T)/|x|.  On directions v orthogonal to x the
            # normalisation acts as v/|x|, hence J v must equal the model's tangent of the estimator at the NORMALISED input in direction v/|x|;
            # along x itself the derivative vanishes (scale invariance)
            xraw = vq.project_in(x).reshape(b, nn_, heads, d).double()
            for b1 in range(b):
                for t1 in range(nn_):
                    for h in range(heads):
                        xr = xraw[b1, t1, h]
                        nrm = float(xr.norm())
                        if nrm < 1e-3 or d < 2:
                            continue
                        xh = xr / nrm
                        Mq = torch.linalg.qr(torch.cat([xh[:, None], torch.randn(d, d - 1, dtype=torch.float64)], dim=1))[0]
                        Jb = J[b1, t1, h * d:(h + 1) * d, b1, t1, h * d:(h + 1) * d].double()
                        qv = cb[h if sep else 0][int(ii[b1, t1, h])].double().tolist()
                        if float((Jb @ xh).abs().max()) > 1e-4:
                            fail('vq:cosine-radial-derivative', f'VectorQuantize({kw}): the output of a cosine codebook changes when the input is rescaled (radial derivative {float((Jb @ xh).abs().max()):.3g})', dict(kw=kw))
                        for c in range(1, d):
                            vdir = Mq[:, c]
                            col = (Jb @ vdir).tolist()
                            cases.append(f'tangent_check {qlit(Fraction(1, 10 ** 3))} true true {coqbool(rot)} {qlit(Fraction(v))} {qvec(xh.tolist())} {qvec(qv)} {qvec((vdir / nrm).tolist())} {qvec(col)}')
                            meta.append(dict(kind='vq-cosine-tangent', kw=kw, token=(b1, t1), head=h, k=c))
                            dist['cosine_tangent_columns'] = dist.get('cosine_tangent_columns', 0) + 1
        # commitment loss gradient w.r.t. the input (through the loss only) and w.r.t. the codebook
        if not cosine and heads == 1:
            vq.zero_grad()
            xg2 = x.clone().requires_grad_(True)
            _, idx2, loss2 = vq(xg2, freeze_codebook=not learnable)
            gx, = torch.autograd.grad(loss2.sum(), xg2, retain_graph=True, allow_unused=True)
            gx = torch.zeros_like(x) if gx is None else gx
            qsel = cb[0][idx2.reshape(-1)].reshape(b, nn_, d)
            xf, qf = x.reshape(-1).double().tolist(), qsel.reshape(-1).detach().double().tolist()
            w = kw['commitment_weight']
            cases.append(f'commit_x_check {qlit(TOL)} {qlit(Fraction(w))} {qvec(xf)} {qvec(qf)} {qvec(gx.reshape(-1).double().tolist())}')
            meta.append(dict(kind='commit-grad-input', kw=kw))
            dist['commit_grads'] += 1
            # codebook
            emb = vq._codebook.embed
            if emb.requires_grad:
                ge, = torch.autograd.grad(loss2.sum(), emb, allow_unused=True)
                per_tok = torch.zeros(b * nn_, d)
                # model: per selected row, weight*2/N*(q - x) accumulated over the tokens that selected it
                N = b * nn_ * d
                exp = torch.zeros_like(emb[0])
                for t, j in enumerate(idx2.reshape(-1).tolist()):
                    exp[j] += w * 2.0 / N * (qsel.reshape(-1, d)[t] - x.reshape(-1, d)[t]).detach()
                dist['codebook_grads'] += 1
                if ge is None or not torch.allclose(ge[0], exp, atol=1e-5, rtol=1e-4):
                    fail('vq:learnable-codebook-gradient', f'VectorQuantize({kw}): codebook gradient of the commitment loss differs from 2 w (q - x)/N on the selected rows', dict(kw=kw))
                cases.append(f'commit_q_check {qlit(TOL)} {qlit(Fraction(w))} true false {qvec(xf)} {qvec(qf)} {qvec([float(w * 2.0 / N * (a - c)) for a, c in zip(qf, xf)])}')
                meta.append(dict(kind='commit-grad-codes', kw=kw))
                # a learnable codebook that is FROZEN for this call must not receive gradient either
                vq.zero_grad()
                xg3 = x.clone().requires_grad_(True)
                o3, _, l3 = vq(xg3, freeze_codebook=True)
                gf = torch.autograd.grad(o3.sum() + l3.sum(), emb, allow_unused=True)[0]
                dist['codebook_grads'] += 1
                if gf is not None and float(gf.abs().max()) != 0.0:
                    fail('vq:frozen-learnable-codebook-receives-gradient', f'VectorQuantize({kw}): with freeze_codebook=True the learnable codebook received a gradient (max {float(gf.abs().max()):.3g})', dict(kw=kw))
            else:
                # EMA-maintained codebook: no gradient at all
                (out.sum() + loss.sum()).backward()
                if emb.grad is not None and float(emb.grad.abs().max()) != 0.0:
                    fail('vq:ema-codebook-receives-gradient', f'VectorQuantize({kw}): an EMA-maintained codebook received a gradient', dict(kw=kw))
                dist['codebook_grads'] += 1
        if len(samples) < 3:
            samples.append(dict(kw=kw, jacobian_block=J[0, 0, :, 0, 0, :].tolist()))
    # ------------------------------------------------------------------ NEARLY ANTIPODAL tokens (round 10, seed C07-j): the reflection axis of the rotation trick is
    # l2norm(x^ + q^); when a token points almost (not exactly) away from its code that sum is short - 1e-1 down to 1e-4 - and must still be normalised to
    # unit length (the library's floor is 1e-6).  One or two codes, the second one far away on the same side so that the first stays the nearest.
    TOL_ANTI = Fraction(1, 50)       # conditioning: the axis direction carries a float32 error of 6e-8 / |x^ + q^| <= 6e-4, the Jacobian four times that
    import math as _math
    for ai, delta in enumerate([1e-1, 1e-2, 1e-3, 5e-4, 3e-4, 2e-4, 1e-4] * (1 if not ctx.thorough else 3)):
        d = [2, 3][ai % 2]
        K = [1, 2][(ai // 2) % 2]
        vq = VectorQuantize(dim=d, codebook_size=K, rotation_trick=True, commitment_weight=1.0)
        vq.train()
        c0 = torch.zeros(d)
        c0[0], c0[1] = 0.8, 0.6                         # a unit code
        with torch.no_grad():
            vq._codebook.embed[0, 0].copy_(c0)
            if K == 2:
                vq._codebook.embed[0, 1].copy_(5.0 * c0)
        perp = torch.zeros(d)
        perp[0], perp[1] = -0.6, 0.8
        scale_x = [0.25, 1.0, 3.0][ai % 3]
        ang = _math.pi - delta * (1 + ai // 7)
        x = (scale_x * (_math.cos(ang) * c0 + _math.sin(ang) * perp)).reshape(1, 1, d)
        try:
            J = jacobian(lambda inp: vq(inp, freeze_codebook=True)[0], x)
            out, idx, _ = vq(x, freeze_codebook=True)
        except Exception as ex:
            fail(f'vq:antipodal:exception:{type(ex).__name__}', f'nearly antipodal token, delta {delta}: {ex!r}', dict(delta=delta, antipodal=True))
            continue
        ev += 1
        nt += 1
        dist['nearly_antipodal_jacobians'] = dist.get('nearly_antipodal_jacobians', 0) + 1
        if int(idx.reshape(-1)[0]) != 0:
            fail('vq:antipodal:setup', f'delta {delta}: the token is not assigned to code 0', dict(delta=delta, antipodal=True))
            continue
        xv = x[0, 0].double().tolist()
        qv = vq._codebook.embed[0, 0].double().tolist()
        for k in range(d):
            col = J[0, 0, :, 0, 0, k].double().tolist()
            dx = [1.0 if j == k else 0.0 for j in range(d)]
            cases.append(f'tangent_check {qlit(TOL_ANTI)} true true true {qlit(Fraction(0))} {qvec(xv)} {qvec(qv)} {qvec(dx)} {qvec(col)}')
            meta.append(dict(kind='vq-jacobian-column-nearly-antipodal', kw=dict(dim=d, codebook_size=K, delta=delta, scale=scale_x), token=(0, 0), head=0, k=k))
            dist['jacobian_columns'] += 1
        # the property as stated, directly: J^T J = (|q| / |x|)^2 I  (a norm-ratio scaled rotation)
        Jm = J[0, 0, :, 0, 0, :].double()
        ratio2 = float((torch.tensor(qv).norm() / torch.tensor(xv).norm()) ** 2)
        dev = float(((Jm.T @ Jm) / ratio2 - torch.eye(d, dtype=torch.float64)).abs().max())
        if not dev <= 0.02:
            fail(f'vq:antipodal:not-a-scaled-rotation:delta={delta}', f'VectorQuantize(dim={d}, codebook_size={K}) token at angle pi - {delta} from its code: J^T J / ratio^2 differs from I by {dev:.3g} '
                 '(the rotation trick must be a norm-ratio scaled rotation)', dict(delta=delta, antipodal=True, dim=d, K=K))
    # ------------------------------------------------------------------ EMA-maintained codebook that is a Parameter (orthogonal regularisation on):
    # the orthogonality penalty may send gradient into it, the commitment term must not ("EMA-maintained ... codebooks receive no gradient" from it)
    for oi_ in range(4 if not ctx.thorough else 16):
        kw_o = dict(dim=3, codebook_size=5, orthogonal_reg_weight=1.0, rotation_trick=(oi_ % 2 == 0), use_cosine_sim=(oi_ % 4 >= 2), decay=0.5)
        try:
            vq_o = VectorQuantize(**kw_o)
            vq_o.train()
            xo = torch.randn(2, 3, 3, requires_grad=True)
            _, _, _, bdo = vq_o(xo, return_loss_breakdown=True)
            go = torch.autograd.grad(bdo.commitment, vq_o._codebook.embed, allow_unused=True, retain_graph=True)[0]
            gx = torch.autograd.grad(bdo.commitment, xo, allow_unused=True)[0]
            ev += 1
            dist['orth_ema_commit_grads'] = dist.get('orth_ema_commit_grads', 0) + 1
            if go is not None and float(go.abs().max()) != 0.0:
                fail('vq:commitment-gradient-reaches-ema-codebook', f'VectorQuantize({kw_o}): the commitment term sends gradient (max {float(go.abs().max()):.3g}) into the EMA-maintained codebook', dict(kw=kw_o))
            if gx is None or float(gx.abs().max()) == 0.0:
                fail('vq:commitment-gradient-misses-input', f'VectorQuantize({kw_o}): the commitment term sends no gradient to the input', dict(kw=kw_o))
        except Exception as ex:
            fail(f'vq:orth-ema:exception:{type(ex).__name__}', f'VectorQuantize({kw_o}): {ex!r}', dict(kw=kw_o))
    # ------------------------------------------------------------------ SimVQ: two-sided loss; transform learns, frozen codes cannot
    for ci in range((6 if not ctx.thorough else 40) * scale):
        rot = ci % 2 == 0
        wq = [0.25, 1.0, 0.0][ci % 3]
        q = SimVQ(dim=3, codebook_size=5, rotation_trick=rot, input_to_quantize_commit_loss_weight=wq, commitment_weight=rng.choice([1.0, 0.5]))
        q.train()
        x = torch.randn(2, 3, 3, requires_grad=True)
        out, idx, loss = q(x)
        gx, = torch.autograd.grad(loss, x, retain_graph=True)
        code = q.codebook[idx].detach()
        N = x.numel()
        exp = q.commitment_weight * wq * 2.0 / N * (x.detach() - code)
        ev += 1
        dist['simvq'] += 1
        if not torch.allclose(gx, exp, atol=1e-5, rtol=1e-4):
            fail('simvq:input-gradient-of-loss', f'SimVQ(w={wq}): d loss / d x differs from weight * w * 2 (x - code) / N', dict(w=wq))
        gp = torch.autograd.grad(loss, list(q.code_transform.parameters()), retain_graph=True, allow_unused=True)
        if all(g is None or float(g.abs().max()) == 0.0 for g in gp):
            fail('simvq:transform-gets-no-gradient', 'SimVQ: the learnable code transform received no gradient from the loss', dict(w=wq))
        if q.frozen_codebook.requires_grad:
            fail('simvq:frozen-codebook-requires-grad', 'SimVQ: the frozen codebook requires grad', {})
        J = jacobian(lambda inp: q(inp)[0], x.detach())
        for t1 in range(3):
            for t2 in range(3):
                if t1 != t2 and float(J[0, t1, :, 0, t2, :].abs().max()) != 0.0:
                    fail('simvq:gradient-leaks-between-positions', 'SimVQ: output at one position depends on another position', {})
        if not rot and not torch.allclose(J[0, 0, :, 0, 0, :], torch.eye(3), atol=1e-6):
            fail('simvq:ste-not-identity', 'SimVQ (straight-through): Jacobian is not the identity', {})
    # ------------------------------------------------------------------ an EMA codebook whose buffer is ATTACHED to the caller's autograd graph: written through the
    # public `codebook` setter from a tensor that requires grad (a data-dependent init without .detach()), or assigned from state_dict(keep_vars=True)
    # of a learnable twin.  "EMA-maintained and frozen codebooks receive no gradient": nothing flows back into the tensor the codes came from
    for ci in range(4 if not ctx.thorough else 16):
        cos_g = ci % 2 == 1
        via = ['setter', 'assign-keep-vars'][(ci // 2) % 2]
        try:
            vq_g = VectorQuantize(dim=3, codebook_size=5, use_cosine_sim=cos_g, decay=0.5, commitment_use_cross_entropy_loss=(ci % 4 == 3))
            src = torch.randn(1, 5, 3, requires_grad=True)
            if via == 'setter':
                vq_g.codebook = (src * 1.0)[0] if not cos_g else torch.nn.functional.normalize(src * 1.0, dim=-1)[0]
                leaf = src
            else:
                if cos_g:
                    continue          # cosine codebooks cannot be learnable: no donor
                donor = VectorQuantize(dim=3, codebook_size=5, learnable_codebook=True, ema_update=False)
                vq_g.load_state_dict(donor.state_dict(keep_vars=True), assign=True)
                leaf = donor._codebook.embed
            for mode_g in ('eval', 'train-nograd-input', 'train', 'indices'):
                vq_g.train(mode_g != 'eval')
                xg = torch.randn(2, 3, 3, requires_grad=(mode_g == 'train'))
                kw_g = dict(freeze_codebook=True)
                if mode_g == 'indices':
                    kw_g['indices'] = torch.randint(0, 5, (2, 3))
                ret_g = vq_g(xg, **kw_g)
                terms = [t for t in (ret_g if isinstance(ret_g, tuple) else (ret_g,)) if isinstance(t, torch.Tensor) and t.dtype.is_floating_point and t.requires_grad]
                ev += 1
                dist['attached_codebook_calls'] = dist.get('attached_codebook_calls', 0) + 1
                if not terms:
                    continue
                g_leaf, = torch.autograd.grad(sum(t.sum() for t in terms), leaf, allow_unused=True, retain_graph=False)
                if g_leaf is not None and float(g_leaf.abs().max()) != 0.0:
                    fail(f'vq:gradient-reaches-source-of-ema-codebook:{via}', f'VectorQuantize(cosine={cos_g}) with its EMA codebook written via {via} from a tensor that requires grad, {mode_g} call: '
                         f'gradient of norm {float(g_leaf.norm()):g} reaches that tensor through the codebook', dict(via=via, cosine=cos_g, mode=mode_g))
                    break
        except Exception as ex:
            fail(f'vq:attached-codebook:exception:{type(ex).__name__}', f'{via}: {ex!r}', dict(via=via))
    # ------------------------------------------------------------------ STATELESS use: torch.func.functional_call with the parameters / buffers substituted by the
    # caller's own tensors (the standard torch.func recipe), and a codebook re-parametrised with torch.nn.utils.parametrize: a learnable codebook
    # receives the same gradient as in the ordinary stateful call
    from torch.func import functional_call as _fcall
    import torch.nn.utils.parametrize as _param
    for ci in range(4 if not ctx.thorough else 12):
        kw_f = [dict(rotation_trick=False), dict(rotation_trick=True), dict(rotation_trick=False, heads=2, codebook_dim=2, separate_codebook_per_head=True), dict(sync_update_v=0.2, rotation_trick=False)][ci % 4]
        try:
            vq_f = VectorQuantize(dim=4, codebook_size=5, learnable_codebook=True, ema_update=False, **kw_f)
            vq_f.train()
            xf = torch.randn(2, 3, 4, requires_grad=True)
            o1, i1, l1 = vq_f(xf)
            g_ref, = torch.autograd.grad(o1.pow(2).sum() + l1.sum(), vq_f._codebook.embed, allow_unused=True)
            subs = {k_: v_.detach().clone().requires_grad_(v_.dtype.is_floating_point and k_.endswith('embed')) for k_, v_ in list(vq_f.named_parameters()) + list(vq_f.named_buffers())}
            o2, i2, l2 = _fcall(vq_f, subs, (xf,))
            g_sub, = torch.autograd.grad(o2.pow(2).sum() + l2.sum(), subs['_codebook.embed'], allow_unused=True)
            ev += 1
            dist['functional_call_codebook_grads'] = dist.get('functional_call_codebook_grads', 0) + 1
            if (g_ref is None) != (g_sub is None) or (g_ref is not None and not torch.allclose(g_ref, g_sub, atol=1e-5, rtol=1e-4)):
                fail('vq:functional-call:codebook-gradient', f'VectorQuantize(learnable, {kw_f}): under torch.func.functional_call with substituted tensors the learnable codebook receives '
                     f'{"no gradient" if g_sub is None else "a different gradient"} (ordinary call: {"none" if g_ref is None else "norm %g" % float(g_ref.norm())})', dict(kw={k: str(v) for k, v in kw_f.items()}))
            vq_p = VectorQuantize(dim=4, codebook_size=5, learnable_codebook=True, ema_update=False, **kw_f)
            vq_p.train()

            class _Id(torch.nn.Module):
                def forward(self, w):
                    return w * 1.0
            _param.register_parametrization(vq_p._codebook, 'embed', _Id())
            o3, i3, l3 = vq_p(xf)
            leaf = vq_p._codebook.parametrizations.embed.original
            g_par, = torch.autograd.grad(o3.pow(2).sum() + l3.sum(), leaf, allow_unused=True)
            dist['parametrized_codebook_grads'] = dist.get('parametrized_codebook_grads', 0) + 1
            if g_par is None or float(g_par.abs().max()) == 0.0:
                fail('vq:parametrized-codebook:no-gradient', f'VectorQuantize(learnable, {kw_f}) with its codebook re-parametrised (torch.nn.utils.parametrize, identity): the codebook receives no gradient', dict(kw={k: str(v) for k, v in kw_f.items()}))
        except Exception as ex:
            fail(f'vq:functional-call:exception:{type(ex).__name__}', repr(ex), dict(kw={k: str(v) for k, v in kw_f.items()}))
    # ------------------------------------------------------------------ parameters frozen by the caller (requires_grad_(False): a frozen tokenizer behind a
    # trainable encoder): the gradient that reaches the INPUT is the same as with trainable parameters - whether anything else needs a gradient is
    # not a reason to skip the straight-through / rotation step
    import copy as _copy
    frozen_mk = [('simvq-ste', lambda: SimVQ(dim=3, codebook_size=5, rotation_trick=False)), ('simvq-rot', lambda: SimVQ(dim=3, codebook_size=5, rotation_trick=True)),
                 ('rsimvq', lambda: ResidualSimVQ(dim=3, num_quantizers=2, codebook_size=6, rotation_trick=False)),
                 ('vq-learnable', lambda: VectorQuantize(dim=3, codebook_size=5, learnable_codebook=True, ema_update=False, rotation_trick=False)),
                 ('vq-proj-rot', lambda: VectorQuantize(dim=4, codebook_dim=2, codebook_size=5, rotation_trick=True)),
                 ('vq-orth-ema', lambda: VectorQuantize(dim=3, codebook_size=5, orthogonal_reg_weight=0.5)),
                 ('lfq-proj', lambda: LFQ(dim=4, codebook_size=8)), ('fsq-proj', lambda: FSQ([5, 4], dim=3)), ('rvq-proj', lambda: ResidualVQ(dim=4, codebook_dim=2, num_quantizers=2, codebook_size=5))]
    for fname, fmk in frozen_mk:
        for which in ('all', 'first-parameter'):
            try:
                qa = fmk()
                qa.train()
                qb = _copy.deepcopy(qa)
                if which == 'all':
                    qb.requires_grad_(False)
                else:
                    next(iter(qb.parameters())).requires_grad_(False)
                xj = torch.randn(1, 2, qa.dim if hasattr(qa, 'dim') and isinstance(qa.dim, int) else (4 if 'proj' in fname and fname != 'fsq-proj' else 3))
                st = torch.get_rng_state()
                Ja = jacobian(lambda inp: qa(inp, freeze_codebook=True)[0] if fname.startswith(('vq', 'rvq')) else qa(inp)[0], xj)
                torch.set_rng_state(st)
                Jb = jacobian(lambda inp: qb(inp, freeze_codebook=True)[0] if fname.startswith(('vq', 'rvq')) else qb(inp)[0], xj)
                ev += 1
                dist['frozen_parameter_jacobians'] = dist.get('frozen_parameter_jacobians', 0) + 1
                if not torch.allclose(Ja, Jb, atol=1e-5, rtol=1e-4):
                    fail(f'{fname}:input-jacobian-depends-on-frozen-parameters:{which}', f'{fname}: with requires_grad_(False) on {which} of its parameters the Jacobian of the output with respect to the input '
                         f'differs from the trainable twin (max abs diff {(Ja - Jb).abs().max().item():g}; norm {Jb.norm().item():g} vs {Ja.norm().item():g})', dict(module=fname, which=which))
            except Exception as ex:
                fail(f'{fname}:frozen-parameters:exception:{type(ex).__name__}', f'{fname} ({which}): {ex!r}', dict(module=fname))
    # ------------------------------------------------------------------ FSQ / LFQ / LatentQuantize: derivative of the bounding / activation function
    for ci in range((8 if not ctx.thorough else 60) * scale):
        L = [2, 3, 4, 5, 8, 7][ci % 6]
        q = FSQ([L, L])
        q.train()
        z = (torch.randn(1, 4, 2) * 1.2).requires_grad_(True)
        out, _ = q(z)
        J = jacobian(lambda inp: q(inp)[0], z.detach())
        eps = 1e-3
        half_l = (L - 1) * (1 + eps) / 2
        off = 0.5 if L % 2 == 0 else 0.0
        shift = math.atanh(off / half_l)
        ev += 1
        dist['fsq_lfq_latent'] += 1
        for t in range(4):
            for k in range(2):
                want = half_l * (1 - math.tanh(float(z[0, t, k]) + shift) ** 2) / (L // 2)
                got = float(J[0, t, k, 0, t, k])
                if abs(got - want) > 1e-4 * (1 + abs(want)):
                    fail(f'fsq:gradient:L={L}', f'FSQ([{L},{L}]): d out / d z = {got} differs from half_l (1 - tanh^2(z + shift)) / (L//2) = {want}', dict(L=L))
                for t2 in range(4):
                    for k2 in range(2):
                        if (t2, k2) != (t, k) and float(J[0, t, k, 0, t2, k2]) != 0.0:
                            fail('fsq:gradient-leaks', f'FSQ([{L},{L}]): output ({t},{k}) depends on input ({t2},{k2})', dict(L=L))
        # LFQ with and without activation
        act = nn.Tanh() if ci % 2 == 0 else nn.Identity()
        lq = LFQ(codebook_size=4, dim=2, straight_through_activation=act)
        lq.train()
        x = torch.randn(1, 3, 2)
        J = jacobian(lambda inp: lq(inp)[0], x)
        for t in range(3):
            for k in range(2):
                want = (1 - math.tanh(float(x[0, t, k])) ** 2) if ci % 2 == 0 else 1.0
                if abs(float(J[0, t, k, 0, t, k]) - want) > 1e-5:
                    fail('lfq:gradient', f'LFQ(activation={type(act).__name__}): d out / d x = {float(J[0, t, k, 0, t, k])} differs from the derivative of the activation {want}', {})
                if float(J[0, t, k].abs().sum() - J[0, t, k, 0, t, k].abs()) != 0.0:
                    fail('lfq:gradient-leaks', 'LFQ: output depends on another position / dimension', {})
        la = LatentQuantize(levels=[4, 3], dim=2)
        la.train()
        xz = torch.randn(1, 2, 3) * 0.3
        J = jacobian(lambda inp: la(inp)[0], xz)
        eye_ok = all(abs(float(J[0, k, t, 0, k, t]) - 1.0) < 1e-6 for k in range(2) for t in range(3))
        off_ok = float(J.abs().sum()) - sum(abs(float(J[0, k, t, 0, k, t])) for k in range(2) for t in range(3)) == 0.0
        if not (eye_ok and off_ok):
            fail('latent:ste', 'LatentQuantize: Jacobian of the output w.r.t. the input is not the identity (straight-through)', {})
    # ------------------------------------------------------------------ residual forms and larger sizes: vector-Jacobian products, no leak between positions
    for ci in range((6 if not ctx.thorough else 40) * scale):
        mk = [lambda: ResidualVQ(dim=4, num_quantizers=2, codebook_size=6, rotation_trick=(ci % 2 == 0)), lambda: ResidualFSQ(levels=[5, 3], num_quantizers=2, dim=2),
              lambda: ResidualLFQ(dim=3, codebook_size=8, num_quantizers=2), lambda: ResidualSimVQ(dim=3, num_quantizers=2, codebook_size=6),
              lambda: VectorQuantize(dim=16, codebook_size=32, heads=4, codebook_dim=6), lambda: VectorQuantize(dim=8, codebook_size=16, use_cosine_sim=True)][ci % 6]
        q = mk()
        q.train()
        dim = {0: 4, 1: 2, 2: 3, 3: 3, 4: 16, 5: 8}[ci % 6]
        x = torch.randn(2, 5, dim, requires_grad=True)
        kwargs = dict(freeze_codebook=True) if ci % 6 in (0, 4, 5) else {}
        out = q(x, **kwargs)[0]
        ev += 1
        dist['residual' if ci % 6 < 4 else 'vjp_large'] += 1
        for (bb, tt) in ((0, 0), (1, 3)):
            cot = torch.zeros_like(out)
            cot[bb, tt] = torch.randn(dim)
            g, = torch.autograd.grad(out, x, cot, retain_graph=True)
            m = torch.ones(2, 5, dtype=torch.bool)
            m[bb, tt] = False
            dist['zero_blocks_checked'] += int(m.sum())
            if float(g[m].abs().max()) != 0.0:
                fail(f'{type(q).__name__}:gradient-leaks-between-positions', f'{type(q).__name__}: a cotangent at position ({bb},{tt}) produced input gradient at another position', {})
    bad, broken = core.run_cases(ctx, 'c07', HEADER, cases, per_file=80)
    for name, out_ in broken:
        fail(f'coq-eval:{name}', 'case file did not evaluate: ' + out_, {'file': name})
    for i, code in sorted(bad.items()):
        m = meta[i]
        fail(f'{m["kind"]}:rot={m["kw"].get("rotation_trick")}:learnable={m["kw"].get("learnable_codebook")}', f'{m["kind"]} of VectorQuantize({m["kw"]}) {({k: v for k, v in m.items() if k not in ("kind", "kw")})}: torch autograd differs from the model',
             dict(m, term=cases[i][:20000]))
    return {'evaluations': ev, 'distinct_nontrivial': nt,
            'rule': 'full torch Jacobians (dims <= 3, tokens <= 4) of VectorQuantize (STE / rotation trick / learnable + sync_update_v / heads / cosine) compared column by column with the model evaluated in Coq over Q; forward values; commitment-loss gradients w.r.t. input and codebook; '
                    'EMA / frozen codebooks get no gradient; SimVQ two-sided loss and transform gradient; FSQ (all parities) / LFQ (with and without activation) / LatentQuantize closed-form derivatives; residual and larger forms by vector-Jacobian products; every cross-position block compared exactly with 0; '
                    'non-trivial = Jacobian is not a multiple of the identity (rotation trick)',
            'samples': samples, 'failures': failures, 'distribution': dist}


def replay_case(ctx, case):
    t = case.get('term')
    if not t:
        return True, 're-run the check: %s' % (case,)
    bad, broken = core.run_cases(ctx, 'c07_replay', HEADER, [t], per_file=1)
    if broken:
        return True, 'replay term did not evaluate: ' + broken[0][1]
    return (0 in bad), f'recorded Jacobian column / gradient re-evaluated against the model: code {bad.get(0, 0)}'

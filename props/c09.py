"""C09 — padding is inert: masked positions influence nothing."""
import os
import random, copy
from functools import partial
from fractions import Fraction
from vlib import core, vqrec
from vlib.core import qlit, qvec, qmat, coqbool, natlist, blist
from props import c03

OBLIGATIONS = dict(
    prop_file='Properties/C09.v',
    glue=['Glue/CoreGlue.v', 'Glue/Pin_p_mask.v', 'Glue/EinopsGlueBase.v', 'Glue/EinopsGlueMask.v', 'Glue/LensGlue.v'] + ['Glue/Pin_fp_C09.v', 'Glue/MaskGuardsGlue.v'],
    extra=['Model/CoreCheck.vo'],
    gen_items=['g_euclid_mask_onehot', 'g_cosine_mask_onehot', 'g_euclid_ema', 'g_cosine_ema', 'p_mask', 'p_kmeans', 'p_expire', 'pr_vq', 'k_lens_to_mask', 'g_vq_zero_padded_input', 'g_vq_mask_output', 'g_vq_mask_indices', 'fp_C09'],
)
ASSUMPTIONS = [
    'paired runs: two deep copies of one module receive the same mask and the same valid tokens but different (adversarial) padding; every observable is compared bit-exactly',
    'torch RNG consumption is identical in both runs of a pair (same seed before each call), so sampled replacements / seeds coincide unless padding leaks into the pool',
]
HEADER = c03.HEADER


def state_of(mod):
    return {k: v.detach().clone() for k, v in mod.state_dict().items()}


def tensors_of(ret):
    import torch
    out = []

    def rec(r):
        if isinstance(r, torch.Tensor):
            out.append(r.detach().clone())
        elif isinstance(r, (tuple, list)):
            for e in r:
                rec(e)
    rec(ret)
    return out


def configs():
    from torch.optim import SGD
    from vector_quantize_pytorch import VectorQuantize, ResidualVQ, GroupedResidualVQ, LFQ, ResidualLFQ
    C = []

    def add(name, mk, dim, kind='vq', known=None):
        C.append(dict(name=name, mk=mk, dim=dim, kind=kind))
    add('vq-plain', lambda: VectorQuantize(dim=4, codebook_size=6, decay=0.5), 4)
    add('vq-heads-shared', lambda: VectorQuantize(dim=4, codebook_size=6, heads=2, codebook_dim=2, decay=0.5), 4)
    add('vq-heads-separate', lambda: VectorQuantize(dim=4, codebook_size=5, heads=2, codebook_dim=2, separate_codebook_per_head=True, decay=0.5), 4)
    add('vq-cosine', lambda: VectorQuantize(dim=4, codebook_size=6, use_cosine_sim=True, decay=0.5), 4)
    add('vq-cosine-heads', lambda: VectorQuantize(dim=4, codebook_size=6, use_cosine_sim=True, heads=2, codebook_dim=2, decay=0.75), 4)
    add('vq-ce-commit', lambda: VectorQuantize(dim=4, codebook_size=6, commitment_use_cross_entropy_loss=True), 4)
    add('vq-ce-commit-heads', lambda: VectorQuantize(dim=4, codebook_size=6, heads=2, codebook_dim=2, commitment_use_cross_entropy_loss=True), 4)
    add('vq-learnable-inplace', lambda: VectorQuantize(dim=4, codebook_size=6, learnable_codebook=True, ema_update=False, in_place_codebook_optimizer=partial(SGD, lr=0.5)), 4)
    add('vq-learnable-inplace-heads', lambda: VectorQuantize(dim=4, codebook_size=6, heads=2, codebook_dim=2, learnable_codebook=True, ema_update=False,
                                                             in_place_codebook_optimizer=partial(SGD, lr=0.5)), 4)
    add('vq-orthogonal', lambda: VectorQuantize(dim=4, codebook_size=6, orthogonal_reg_weight=1.0, orthogonal_reg_active_codes_only=True, ema_update=False, learnable_codebook=True), 4)
    add('vq-expiry', lambda: VectorQuantize(dim=3, codebook_size=8, threshold_ema_dead_code=2, decay=0.25), 3)
    add('vq-expiry-cosine', lambda: VectorQuantize(dim=3, codebook_size=8, threshold_ema_dead_code=2, decay=0.25, use_cosine_sim=True), 3)
    add('vq-kmeans', lambda: VectorQuantize(dim=3, codebook_size=4, kmeans_init=True, kmeans_iters=4), 3)
    add('vq-kmeans-cosine-heads', lambda: VectorQuantize(dim=4, codebook_size=3, heads=2, codebook_dim=2, separate_codebook_per_head=True, kmeans_init=True, kmeans_iters=3, use_cosine_sim=True), 4)
    add('vq-keep-input', lambda: VectorQuantize(dim=4, codebook_size=6, return_zeros_for_masked_padding=False), 4)
    add('vq-projection', lambda: VectorQuantize(dim=5, codebook_size=6, codebook_dim=3), 5)
    add('vq-diversity', lambda: VectorQuantize(dim=4, codebook_size=6, codebook_diversity_loss_weight=1.0, codebook_diversity_temperature=1.0), 4)
    add('vq-stochastic', lambda: VectorQuantize(dim=4, codebook_size=6, stochastic_sample_codes=True, sample_codebook_temp=0.5), 4)
    add('rvq', lambda: ResidualVQ(dim=4, num_quantizers=3, codebook_size=5, decay=0.5), 4, 'rvq')
    add('rvq-proj', lambda: ResidualVQ(dim=5, codebook_dim=3, num_quantizers=2, codebook_size=5, decay=0.5), 5, 'rvq')
    add('rvq-shared-expiry', lambda: ResidualVQ(dim=3, num_quantizers=2, codebook_size=8, shared_codebook=True, threshold_ema_dead_code=2, decay=0.25), 3, 'rvq')
    add('rvq-expiry', lambda: ResidualVQ(dim=3, num_quantizers=2, codebook_size=8, threshold_ema_dead_code=2, decay=0.25), 3, 'rvq')
    add('grvq', lambda: GroupedResidualVQ(dim=4, groups=2, num_quantizers=2, codebook_size=5, decay=0.5), 4, 'grvq')
    add('lfq', lambda: LFQ(dim=3, codebook_size=8, commitment_loss_weight=0.25), 3, 'lfq')
    add('lfq-codebooks', lambda: LFQ(dim=4, codebook_size=4, num_codebooks=2, commitment_loss_weight=0.25, experimental_softplus_entropy_loss=True), 4, 'lfq')
    add('rlfq', lambda: ResidualLFQ(dim=3, codebook_size=8, num_quantizers=2, commitment_loss_weight=0.25), 3, 'rlfq')
    from vlib import zoo
    for zname, zc, zkw in zoo.configs():
        add(zname, (lambda zkw=zkw: VectorQuantize(**zkw())), zkw()['dim'])
    return C


def ragged_mask(rng, torch, b, n):
    lens = [rng.randrange(1, n + 1) for _ in range(b)]
    if b > 1 and len(set(lens)) == 1:
        lens[0] = 1 + (lens[0] % n)
    if max(lens) == n and b > 1 and rng.random() < 0.7:
        pass
    m = torch.tensor([[j < lens[i] for j in range(n)] for i in range(b)])
    if rng.random() < 0.25:      # holes inside the sequence, not only a suffix
        m = torch.tensor([[rng.random() < 0.6 for _ in range(n)] for _ in range(b)])
        m[:, 0] = True
    if bool(m.all()):
        m[-1, -1] = False
    return m


def paddings(rng, torch, x, m, mod):
    """two versions of x that agree on valid positions and differ (adversarially) on the padded ones"""
    fills = [1e4, -3e4, 0.0, 7.5, 1e25, -1e30, float(os.environ.get('VERIF_C09_FILL', '3e38'))]     # "arbitrary (huge, adversarial) padding values"
    a = torch.where(m[..., None], x, torch.full_like(x, rng.choice(fills)))
    bfill = torch.randn_like(x) * rng.choice([1e3, 1.0, 1e-3])
    b = torch.where(m[..., None], x, bfill)
    return a, b


def call(cfg, mod, x, m, train, seed, use_lens=False, extra=None):
    import torch
    mod.train(train)
    torch.manual_seed(seed)
    random.seed(seed)
    kw = dict(extra or {})
    if cfg['kind'] in ('vq',) and use_lens:
        kw['lens'] = m.sum(dim=-1)
    elif cfg['kind'] in ('lfq', 'rlfq'):
        kw['mask'] = m[:, 0].contiguous()
    else:
        kw['mask'] = m
    if cfg['kind'] == 'vq':
        kw['return_loss_breakdown'] = True
    if cfg['kind'] in ('lfq',):
        kw['return_loss_breakdown'] = True
    return mod(x, **kw)


def correspond(ctx, scale):
    import torch
    from vlib import impl
    rng = ctx.rng
    vqrec.PERMUTE_VIEWS = False      # the paired runs are compared bit for bit; memory layouts have their own tolerant check (6b)
    failures, samples, cases, meta = [], [], [], []
    evaluations = nontrivial = 0
    dist = {'pairs': 0, 'steps': 0, 'padded_positions_checked': 0, 'compact_equivalence': 0, 'model_cases': 0, 'lens_form': 0}
    reps = (2 if not ctx.thorough else 12) * scale
    for cfg in configs():
        for rep in range(reps):
            base = cfg['mk']()
            mA, mB = copy.deepcopy(base), copy.deepcopy(base)
            prefix_lens = rep % 2 == 0 and cfg['kind'] == 'vq'
            for t in range(rng.choice([2, 3, 5])):
                b, n = rng.choice([(2, 4), (3, 3), (2, 6)])
                x = torch.randn(b, n, cfg['dim'])
                m = ragged_mask(rng, torch, b, n)
                if cfg['kind'] in ('lfq', 'rlfq'):
                    # the LFQ family takes PER-SAMPLE masks: whole samples are padding
                    keep = [True] + [rng.random() < 0.5 for _ in range(b - 1)]
                    if all(keep):
                        keep[-1] = False
                    m = torch.tensor(keep)[:, None].expand(b, n).contiguous()
                if prefix_lens:
                    lens = m.sum(dim=-1).clamp(min=1)
                    m = torch.arange(n)[None, :] < lens[:, None]
                    if bool(m.all()):
                        m[-1, -1] = False
                xa, xb = paddings(rng, torch, x, m, base)
                train = not (t > 0 and rng.random() < 0.25)
                seed = rng.randrange(10 ** 6)
                dist['steps'] += 1
                evaluations += 1
                try:
                    recs = None
                    if cfg['kind'] == 'vq' and train and mA._codebook.ema_update and not prefix_lens:
                        mA.train(True)
                        torch.manual_seed(seed)
                        random.seed(seed)
                        ra, recs = vqrec.record_call(mA, xa, mask=m, return_loss_breakdown=True)
                    else:
                        ra = call(cfg, mA, xa, m, train, seed, use_lens=prefix_lens)
                    rb = call(cfg, mB, xb, m, train, seed, use_lens=prefix_lens)
                    dist['lens_form'] += prefix_lens
                except Exception as ex:
                    failures.append({'key': f'{cfg["name"]}:exception:{type(ex).__name__}', 'what': f'{cfg["name"]} step {t}: {ex!r}', 'case': dict(name=cfg['name'], step=t)})
                    break
                ta, tb = tensors_of(ra), tensors_of(rb)
                keyp = f'{cfg["name"]}:train={train}'
                if len(ta) != len(tb):
                    failures.append({'key': keyp + ':arity', 'what': 'different number of outputs', 'case': dict(name=cfg['name'])})
                    break
                quant_a, quant_b = ta[0], tb[0]
                # (1) observable outputs: valid positions equal, padded positions independent of the padding
                names = ['output', 'indices'] + [f'loss/term{i}' for i in range(len(ta) - 2)]
                for nm, u, v in zip(names, ta, tb):
                    if nm == 'output' and cfg['name'] == 'vq-keep-input':
                        u, v = torch.where(m[..., None], u, torch.zeros_like(u)), torch.where(m[..., None], v, torch.zeros_like(v))
                    if u.shape != v.shape or not torch.equal(torch.nan_to_num(u.float(), nan=1234.5), torch.nan_to_num(v.float(), nan=1234.5)):
                        d = (u.float() - v.float()).abs().max().item() if u.shape == v.shape else float('nan')
                        failures.append({'key': f'{keyp}:{nm}-depends-on-padding', 'what': f'{cfg["name"]} step {t} (train={train}): {nm} differs between two paddings of the same valid tokens (max abs diff {d:g})',
                                         'case': dict(name=cfg['name'], step=t, train=train, what=nm)})
                # (2) state
                ok, why = impl.blobs_equal(state_of(mA), state_of(mB))
                if not ok:
                    failures.append({'key': f'{keyp}:state-depends-on-padding:{why.split(":")[0].split(".")[-1]}', 'what': f'{cfg["name"]} step {t} (train={train}): persistent state depends on the padding: {why}',
                                     'case': dict(name=cfg['name'], step=t, train=train)})
                    mB.load_state_dict(mA.state_dict())   # re-synchronise so that one leak is reported once
                # (3) padded positions: index -1 and the documented fill
                idx_a = ta[1]
                pad = ~m
                dist['padded_positions_checked'] += int(pad.sum())
                if cfg['kind'] in ('vq', 'rvq', 'grvq'):
                    ia = idx_a if cfg['kind'] != 'grvq' else idx_a[0]
                    padidx = ia[pad] if ia.ndim == 2 else ia[pad.unsqueeze(-1).expand_as(ia)] if ia.ndim == 3 else None
                    if padidx is not None and padidx.numel() and not bool((padidx == -1).all()):
                        failures.append({'key': f'{keyp}:padded-index-not-minus-one', 'what': f'{cfg["name"]}: a padded position returned an index other than -1', 'case': dict(name=cfg['name'], step=t)})
                    if cfg['kind'] == 'vq':
                        want = xa if cfg['name'] == 'vq-keep-input' else torch.zeros_like(xa)
                        if not torch.equal(quant_a[pad], want[pad]):
                            failures.append({'key': f'{keyp}:padded-output-not-fill', 'what': f'{cfg["name"]}: output at a padded position is not the documented fill value', 'case': dict(name=cfg['name'], step=t)})
                    elif cfg['kind'] == 'rvq':
                        with torch.no_grad():
                            want = mA.project_out(torch.zeros(1, mA.project_out.in_features if hasattr(mA.project_out, 'in_features') else cfg['dim']))
                        if not torch.allclose(quant_a[pad], want.expand_as(quant_a[pad]), atol=1e-6):
                            failures.append({'key': f'{keyp}:padded-output-not-projected-zero', 'what': f'{cfg["name"]}: output at a padded position is not project_out(0)', 'case': dict(name=cfg['name'], step=t)})
                elif cfg['kind'] in ('lfq', 'rlfq'):
                    ia = idx_a
                    sel = ia[pad]
                    if sel.numel() and not bool((sel == -1).all()):
                        failures.append({'key': f'{cfg["name"]}:padded-index-not-minus-one', 'what': f'{cfg["name"]}: a padded position returned an index other than -1 (mask affects the losses only)',
                                         'case': dict(name=cfg['name'], step=t)})
                nontrivial += 1
                # (4) model: the recorded codebook call stepped on the valid tokens only (C03 machinery)
                if recs:
                    rec = recs[-1]
                    for h in range(rec.H):
                        if rec.before['initted']:
                            cases.append(c03.update_term(rec, h, mA._codebook, bool(mA.use_cosine_sim), Fraction(1, 10 ** 4), Fraction(1, 10 ** 4),
                                                         pool=[v for v, okv in zip(rec.xs[h], rec.mask[h]) if okv]))
                            meta.append(dict(name=cfg['name'], step=t, head=h))
                            dist['model_cases'] += 1
            dist['pairs'] += 1
        # (5) "as if only the valid tokens had been passed": one sample, prefix mask  vs  the truncated sequence without a mask
        if cfg['kind'] in ('vq', 'rvq') and 'stochastic' not in cfg['name']:   # sampling noise is drawn per position (padding included): compact equivalence holds in distribution only
            for rep in range(reps):
                base = cfg['mk']()
                mA, mB = copy.deepcopy(base), copy.deepcopy(base)
                n, L = 6, rng.randrange(1, 6)
                x = torch.randn(1, n, cfg['dim'])
                m = (torch.arange(n) < L)[None]
                xa = torch.where(m[..., None], x, torch.full_like(x, 1e4))
                seed = rng.randrange(10 ** 6)
                try:
                    ra = call(cfg, mA, xa, m, True, seed)
                    mB.train(True)
                    torch.manual_seed(seed)
                    random.seed(seed)
                    rb = mB(x[:, :L], **({'return_loss_breakdown': True} if cfg['kind'] == 'vq' else {}))
                except Exception as ex:
                    failures.append({'key': f'{cfg["name"]}:compact:exception:{type(ex).__name__}', 'what': repr(ex), 'case': dict(name=cfg['name'])})
                    continue
                dist['compact_equivalence'] += 1
                evaluations += 1
                ta, tb = tensors_of(ra), tensors_of(rb)
                problems = []
                if not torch.allclose(ta[0][:, :L], tb[0], atol=1e-5, rtol=1e-4):
                    problems.append('valid outputs')
                if not torch.equal(ta[1][:, :L], tb[1]):
                    problems.append('valid indices')
                for i, (u, v) in enumerate(zip(ta[2:], tb[2:])):
                    if u.shape == v.shape and not torch.allclose(u, v, atol=1e-5, rtol=1e-4):
                        problems.append(f'loss term {i}')
                sa, sb = state_of(mA), state_of(mB)
                for k in sa:
                    if sa[k].dtype.is_floating_point and not torch.allclose(sa[k], sb[k], atol=1e-5, rtol=1e-4):
                        problems.append('state ' + k)
                if problems:
                    failures.append({'key': f'{cfg["name"]}:compact:' + problems[0].split(' ')[0], 'what': f'{cfg["name"]}: masked call differs from the call on the valid tokens only in {problems}',
                                     'case': dict(name=cfg['name'], L=L)})
        # (6) ragged BATCH: the masked (b, n) call = the call on the valid tokens concatenated into ONE unpadded sequence (same tokens, same order):
        # outputs / indices at the valid positions, every loss term (means over the valid tokens) and all codebook statistics.  Since fix 710454f
        # zeroes padded inputs on entry, paired paddings alone cannot reveal a wrong mask ALIGNMENT any more; this comparison does.
        if cfg['kind'] in ('vq', 'rvq') and 'stochastic' not in cfg['name']:
            for rep in range(reps):
                base = cfg['mk']()
                cb0 = getattr(base, '_codebook', None) or getattr(base.layers[0], '_codebook', None) if hasattr(base, 'layers') or hasattr(base, '_codebook') else None
                if cb0 is not None and (float(getattr(cb0, 'threshold_ema_dead_code', 0)) > 0 or not bool(cb0.initted.all())):
                    break          # dead-code replacement / k-means seeding draw by position in the flattened batch: equal in distribution only
                mA, mB = copy.deepcopy(base), copy.deepcopy(base)
                b, n = 3, 5
                lens = [n, rng.randrange(1, n), rng.randrange(1, n + 1)]
                m = torch.arange(n)[None, :] < torch.tensor(lens)[:, None]
                x = torch.randn(b, n, cfg['dim'])
                xa = torch.where(m[..., None], x, torch.full_like(x, rng.choice([1e4, -3e4, 3e38])))
                seed = rng.randrange(10 ** 6)
                try:
                    ra = call(cfg, mA, xa, m, True, seed)
                    mB.train(True)
                    torch.manual_seed(seed)
                    random.seed(seed)
                    rb = mB(x[m][None], **({'return_loss_breakdown': True} if cfg['kind'] == 'vq' else {}))
                except Exception as ex:
                    failures.append({'key': f'{cfg["name"]}:ragged-compact:exception:{type(ex).__name__}', 'what': repr(ex), 'case': dict(name=cfg['name'])})
                    continue
                dist['ragged_compact_equivalence'] = dist.get('ragged_compact_equivalence', 0) + 1
                evaluations += 1
                ta, tb = tensors_of(ra), tensors_of(rb)
                problems = []
                if not torch.allclose(ta[0][m], tb[0][0], atol=1e-5, rtol=1e-4):
                    problems.append('valid outputs')
                if not torch.equal(ta[1][m], tb[1][0]):
                    problems.append('valid indices')
                for i, (u, v) in enumerate(zip(ta[2:], tb[2:])):
                    if u.shape == v.shape and not torch.allclose(u, v, atol=1e-5, rtol=1e-4):
                        problems.append(f'loss term {i}')
                sa, sb = state_of(mA), state_of(mB)
                for k in sa:
                    if sa[k].dtype.is_floating_point and not torch.allclose(sa[k], sb[k], atol=1e-5, rtol=1e-4):
                        problems.append('state ' + k)
                if problems:
                    failures.append({'key': f'{cfg["name"]}:ragged-compact:' + problems[0].split(' ')[0], 'what': f'{cfg["name"]}: masked ragged batch (lens {lens}) differs from the call on the concatenated valid tokens in {problems}',
                                     'case': dict(name=cfg['name'], lens=lens)})
        # (6b) memory layout: the same masked call on a dense PERMUTED VIEW of the input (conv features '(b, d, n)' viewed channel-last, a time-major batch
        # viewed batch-first) - an in-place write through reshape() lands in a copy there.  Compared with the contiguous call up to float rounding
        # (a different memory layout may change the order of float sums in the last bit), indices exactly.
        if cfg['kind'] in ('vq', 'rvq', 'grvq', 'lfq', 'rlfq') and 'stochastic' not in cfg['name'] and 'kmeans' not in cfg['name']:
            try:
                base_l = cfg['mk']()
                b, n = 3, 4
                if cfg['kind'] in ('lfq', 'rlfq'):
                    m_l = torch.tensor([True, False, True])[:, None].expand(b, n).contiguous()       # LFQ masks are per-sample
                else:
                    m_l = torch.arange(n)[None, :] < torch.tensor([n, 2, 1])[:, None]
                x_l = torch.randn(b, n, cfg['dim'])
                if cfg['kind'] not in ('lfq', 'rlfq'):
                    x_l = torch.where(m_l[..., None], x_l, torch.full_like(x_l, [50.0, float('inf'), 3e30][len(cfg['name']) % 3]))
                outs_l = []
                for vname, xv in [('contiguous', x_l), ('feature-permuted-view', x_l.permute(2, 0, 1).contiguous().permute(1, 2, 0)), ('batch-permuted-view', x_l.transpose(0, 1).contiguous().transpose(0, 1))]:
                    for train_l in (False, True):
                        mod_l = copy.deepcopy(base_l)
                        rl = call(cfg, mod_l, xv, m_l, train_l, 11)
                        outs_l.append((vname, train_l, tensors_of(rl), state_of(mod_l)))
                evaluations += 1
                dist['permuted_view_masked_calls'] = dist.get('permuted_view_masked_calls', 0) + 1
                for vname, train_l, tv, sv in outs_l[2:]:
                    _, _, t0, s0 = outs_l[0] if not train_l else outs_l[1]
                    bad_l = []
                    for i_, (u, v) in enumerate(zip(t0, tv)):
                        if u.shape != v.shape or (u.dtype.is_floating_point and not torch.allclose(u, v, atol=1e-5, rtol=1e-4, equal_nan=True)) or (not u.dtype.is_floating_point and not torch.equal(u, v)):
                            bad_l.append(['output', 'indices', 'loss'][min(i_, 2)])
                    for k_ in s0:
                        if s0[k_].dtype.is_floating_point and not torch.allclose(s0[k_], sv[k_], atol=1e-5, rtol=1e-4):
                            bad_l.append('state ' + k_)
                    if bad_l:
                        failures.append({'key': f'{cfg["name"]}:masked-call-depends-on-memory-layout:{bad_l[0].split(" ")[0]}', 'what': f'{cfg["name"]} (train={train_l}): the masked call on a {vname} of the same values differs from the contiguous call in {bad_l[:4]}',
                                         'case': dict(name=cfg['name'], variant=vname, train=train_l)})
                        break
            except Exception as ex:
                failures.append({'key': f'{cfg["name"]}:memory-layout:exception:{type(ex).__name__}', 'what': f'{cfg["name"]}: {ex!r}', 'case': dict(name=cfg['name'])})
        # (7) non-finite padding (inf / nan: uninitialised memory, an overflowed upstream activation) and the BACKWARD pass: outputs at valid positions,
        # every loss term, the input gradient at valid positions and every parameter gradient are those of the zero-padded call, and finite
        if cfg['kind'] in ('vq', 'rvq') and 'stochastic' not in cfg['name'] and 'kmeans' not in cfg['name'] and 'expiry' not in cfg['name']:
            base = cfg['mk']()
            if any(True for _ in base.parameters()):
                b, n = 3, 4
                m = torch.arange(n)[None, :] < torch.tensor([n, 2, 1])[:, None]
                x = torch.randn(b, n, cfg['dim'])
                ref = None
                for fill in (0.0, float('inf'), float('nan'), 3e38):
                    mod_f = copy.deepcopy(base)
                    mod_f.train()
                    xf = torch.where(m[..., None], x, torch.full_like(x, fill)).requires_grad_(True)
                    torch.manual_seed(7)
                    random.seed(7)
                    try:
                        rf = mod_f(xf, mask=m)
                        lossf = rf[2].sum()
                        if lossf.requires_grad:
                            lossf.backward()
                    except Exception as ex:
                        failures.append({'key': f'{cfg["name"]}:nonfinite-padding:exception:{type(ex).__name__}', 'what': f'{cfg["name"]} padding {fill}: {ex!r}', 'case': dict(name=cfg['name'], fill=str(fill))})
                        break
                    obs = {'output': rf[0].detach()[m], 'loss': rf[2].detach()}
                    if xf.grad is not None:
                        obs['input-gradient'] = xf.grad[m]
                    for pn, pp in mod_f.named_parameters():
                        if pp.grad is not None:
                            obs['grad:' + pn] = pp.grad.detach().clone()
                    evaluations += 1
                    dist['nonfinite_padding_backward'] = dist.get('nonfinite_padding_backward', 0) + 1
                    if ref is None:
                        ref = obs
                        continue
                    for k_, v_ in obs.items():
                        if k_ in ref and not (bool(torch.isfinite(v_).all()) and torch.allclose(v_, ref[k_], atol=1e-6, rtol=1e-5)):
                            failures.append({'key': f'{cfg["name"]}:nonfinite-padding:{k_.split(":")[0]}', 'what': f'{cfg["name"]}: with padding value {fill} the {k_} differs from the zero-padded call '
                                             f'({"non-finite" if not bool(torch.isfinite(v_).all()) else "different values"})', 'case': dict(name=cfg['name'], fill=str(fill))})
        if len(samples) < 4:
            samples.append(dict(config=cfg['name']))
    from vector_quantize_pytorch import VectorQuantize as _VQ
    # (7c) the cross entropy to caller-supplied target indices (`indices=`) under a mask, in EVALUATION mode as well as in training (round 11, seed
    # C09-k): the loss reads the distances of every position the targets do not ignore - padded rows must have been zeroed on entry in BOTH modes.  Real
    # targets at padded positions: the loss does not depend on the padding content; targets -1 there with inf padding: loss equal, gradients finite.
    from vector_quantize_pytorch import ResidualVQ as _RVQc
    ce_cfgs = [('vq-plain', lambda: _VQ(dim=4, codebook_size=6), 4, 0), ('vq-proj-learnable', lambda: _VQ(dim=4, codebook_dim=2, codebook_size=6, learnable_codebook=True, ema_update=False), 4, 0),
               ('vq-heads', lambda: _VQ(dim=4, codebook_dim=2, heads=2, codebook_size=6), 4, 2), ('rvq-proj', lambda: _RVQc(dim=4, codebook_dim=3, num_quantizers=2, codebook_size=6), 4, -2)]
    for cname, cmk, cdim, chq in ce_cfgs:
        for train_c in (False, True):
            try:
                torch.manual_seed(4400 + len(cname))
                base_c = cmk()
                b, n = 3, 5
                m = torch.arange(n)[None, :] < torch.tensor([n, 3, 1])[:, None]
                x = torch.randn(b, n, cdim)
                tshape = (b, n) if chq == 0 else (b, n, abs(chq))
                tgt_real = torch.randint(0, 6, tshape)
                tgt_ign = torch.where(m if chq == 0 else m[..., None], tgt_real, torch.full_like(tgt_real, -1))
                for tname, tgt in (('real-targets-at-padding', tgt_real), ('ignored-targets-at-padding', tgt_ign)):
                    ref_c = None
                    for fill in ((0.0, 3.0, 'randn', 1e4) if tname.startswith('real') else (0.0, float('inf'), float('nan'))):
                        mod_c = copy.deepcopy(base_c)
                        mod_c.train(train_c)
                        pad = torch.randn_like(x) * 5.0 if fill == 'randn' else torch.full_like(x, fill)
                        xf = torch.where(m[..., None], x, pad).requires_grad_(True)
                        torch.manual_seed(11)
                        try:
                            rc = mod_c(xf, mask=m, indices=tgt, **({'freeze_codebook': True} if train_c else {}))
                        except AssertionError:
                            dist['masked_ce_target_rejected'] = dist.get('masked_ce_target_rejected', 0) + 1
                            break          # a combination the class rejects loudly
                        loss_c = rc[1].sum()
                        grads = {}
                        if loss_c.requires_grad:
                            loss_c.backward()
                            grads = {'grad:' + pn: pp.grad.detach().clone() for pn, pp in mod_c.named_parameters() if pp.grad is not None}
                            if xf.grad is not None:
                                grads['input-gradient'] = xf.grad[m]
                        obs = dict(grads, loss=rc[1].detach().clone())
                        evaluations += 1
                        dist['masked_ce_target_calls'] = dist.get('masked_ce_target_calls', 0) + 1
                        if ref_c is None:
                            ref_c = obs
                            continue
                        for k_, v_ in obs.items():
                            if k_ in ref_c and not (bool(torch.isfinite(v_).all()) and torch.allclose(v_, ref_c[k_], atol=1e-6, rtol=1e-5)):
                                failures.append({'key': f'{cname}:masked-ce-targets:{tname}:{k_.split(":")[0]}:train={train_c}', 'what': f'{cname} train={train_c}, indices= with {tname}: with padding {fill} the {k_} '
                                                 f'{"is not finite" if not bool(torch.isfinite(v_).all()) else "differs from the zero-padded call (" + str(v_.reshape(-1)[:3].tolist()) + " vs " + str(ref_c[k_].reshape(-1)[:3].tolist()) + ")"}',
                                                 'case': dict(name=cname, train=train_c, targets=tname, fill=str(fill))})
            except Exception as ex:
                failures.append({'key': f'{cname}:masked-ce-targets:exception:{type(ex).__name__}', 'what': f'{cname} train={train_c}: {ex!r}'[:300], 'case': dict(name=cname, train=train_c)})
    # (7a) the FIRST call of a k-means codebook is a masked, frozen one (a frozen-codebook warm-up): the initialisation clusters the VALID tokens only - the
    # resulting state is the one of the same first call on the packed valid tokens (same generator state), whatever the amount of padding
    for ki in range(4 if not ctx.thorough else 16):
        cos_k = ki % 2 == 0
        try:
            kw_k = dict(dim=3, codebook_size=4, kmeans_init=True, kmeans_iters=3, use_cosine_sim=cos_k, decay=0.5)
            base_k = _VQ(**kw_k)
            xk = torch.randn(1, 12, 3)
            nvalid = 7
            mk_ = torch.arange(12)[None, :] < nvalid
            outs_k = []
            for variant in ('padded', 'padded-wider', 'packed'):
                mod_k = copy.deepcopy(base_k)
                mod_k.train(ki % 4 < 2)
                if variant == 'padded':
                    xin, kwc = torch.where(mk_[..., None], xk, torch.full_like(xk, 9.0)), dict(mask=mk_)
                elif variant == 'padded-wider':
                    xin = torch.cat([torch.where(mk_[..., None], xk, torch.full_like(xk, -4.0)), torch.full((1, 12, 3), 2.5)], dim=1)
                    kwc = dict(mask=torch.cat([mk_, torch.zeros(1, 12, dtype=torch.bool)], dim=1))
                else:
                    xin, kwc = xk[:, :nvalid], {}
                torch.manual_seed(99)
                random.seed(99)
                with torch.no_grad():
                    mod_k(xin, freeze_codebook=True, **kwc)
                outs_k.append((variant, state_of(mod_k)))
            evaluations += 1
            dist['kmeans_masked_frozen_first_calls'] = dist.get('kmeans_masked_frozen_first_calls', 0) + 1
            for variant, st_k in outs_k[:2]:
                bad_k = [k_ for k_ in st_k if st_k[k_].dtype.is_floating_point and not torch.allclose(st_k[k_], outs_k[2][1][k_], atol=1e-5, rtol=1e-4)]
                if bad_k:
                    failures.append({'key': f'vq-kmeans:masked-frozen-first-call:state-depends-on-padding:cos={cos_k}', 'what': f'VectorQuantize({kw_k}) whose first call is masked and frozen ({variant}): '
                                     f'{bad_k[:3]} differ from the first call on the packed valid tokens (padded rows took part in the k-means initialisation)', 'case': dict(kw=kw_k, variant=variant)})
                    break
        except Exception as ex:
            failures.append({'key': f'vq-kmeans:masked-frozen-first-call:exception:{type(ex).__name__}', 'what': repr(ex), 'case': dict(cos=cos_k)})
    # (7b) `lens=` in every integer dtype a caller may hold lengths in, with sequences LONGER than the narrow dtypes can count (uint8 beyond 256, int8
    # beyond 128): the mask is position < length in exact integer arithmetic, whatever the dtype of `lens`
    for lt_i, lens_dt in enumerate((torch.int64, torch.int32, torch.int16, torch.uint8, torch.int8, torch.uint8, torch.int8, torch.int16)):
        try:
            n_long = 300
            vq_l = _VQ(dim=2, codebook_size=4, decay=0.5)
            vq_l.eval()
            lens_v = torch.tensor([100, 37, 5]) if lt_i % 2 == 0 else torch.tensor([100, 0, 37])          # a sample of length ZERO next to non-empty ones
            x_long = torch.randn(3, n_long, 2)
            m_long = torch.arange(n_long)[None, :] < lens_v[:, None]
            with torch.no_grad():
                o_m, i_m, _ = vq_l(x_long, mask=m_long)
                o_l, i_l, _ = vq_l(x_long, lens=lens_v.to(lens_dt))
            evaluations += 1
            dist['lens_dtype_long_sequences'] = dist.get('lens_dtype_long_sequences', 0) + 1
            if not (torch.equal(i_m, i_l) and torch.equal(o_m, o_l)):
                failures.append({'key': f'vq:lens-dtype:{str(lens_dt).split(".")[-1]}', 'what': f'VectorQuantize with lens={lens_v.tolist()} as {lens_dt} on sequences of length {n_long}: '
                                 f'{int((i_m != i_l).sum())} positions differ from the call with the equivalent boolean mask', 'case': dict(dtype=str(lens_dt))})
        except Exception:
            pass        # a lens dtype the library rejects loudly is not a silent leak
    # (8) the input projection under a mask against the non-finite model (Model/NonFinite.v): rows, upstream gradients and the weight gradient of
    # the Linear layer as torch computed them vs the model's forward / backward in the order the SOURCE uses (Gen/o_*_mask_proj), special values included
    pcases, pmeta = projection_cases(ctx, rng, dist, failures)
    evaluations += len(pcases)
    pbad, pbroken = core.run_cases(ctx, 'c09_proj', PROJ_HEADER, pcases, per_file=20)
    for name, out in pbroken:
        failures.append({'key': f'coq-eval:{name}', 'what': 'case file did not evaluate: ' + out, 'case': {'file': name}})
    for i, code in sorted(pbad.items()):
        pm = pmeta[i]
        failures.append({'key': f'{pm["cls"]}-projection-model:code{code}:fill={pm["fill"]}', 'what': f'{pm["cls"]} {pm["kw"]} with padding value {pm["fill"]}: '
                         + ('weight gradient of the input projection' if code == 1 else 'output rows of the input projection') + ' differ from the non-finite model (zeroing order read from the source)',
                         'case': dict(pm, code=code, term=pcases[i][:20000])})
    bad, broken = core.run_cases(ctx, 'c09', HEADER, cases, per_file=40)
    for name, out in broken:
        failures.append({'key': f'coq-eval:{name}', 'what': 'case file did not evaluate: ' + out, 'case': {'file': name}})
    for i, code in sorted(bad.items()):
        mm = meta[i]
        failures.append({'key': f'{mm["name"]}:model-valid-only:code{code}', 'what': f'{mm["name"]} step {mm["step"]}: the masked call differs from the model stepped on the valid tokens only ({c03.CODES.get(code, code)})',
                         'case': dict(mm, code=code, term=cases[i][:30000])})
    return {'evaluations': evaluations, 'distinct_nontrivial': nontrivial,
            'rule': 'paired runs (same valid tokens, adversarially different padding, ragged masks / lens) on 26 configurations along multi-step training histories: outputs, indices, every loss term and state_dict bit-equal; '
                    'padded positions return -1 and the documented fill; masked call = call on the truncated sequence; recorded codebook calls stepped on the valid tokens through the Coq model; non-trivial = every pair (masks are ragged by construction)',
            'samples': samples, 'failures': failures, 'distribution': dist}


PROJ_HEADER = '''From Coq Require Import ZArith QArith List Bool String.
From VQ Require Import Num Model.Vec Model.NonFinite.
From VQ.Gen Require Import o_vq_mask_proj o_rvq_mask_proj.
Import ListNotations.
Open Scope Q_scope.
'''


def xlit(v):
    import math
    if math.isnan(v):
        return 'NaN'
    if math.isinf(v):
        return 'PInf' if v > 0 else 'NInf'
    return f'(Fin {qlit(Fraction(repr(float(v))))})'


def xvec(row):
    return '[' + '; '.join(xlit(v) for v in row) + ']'


def xmat(rows):
    return '[' + '; '.join(xvec(r) for r in rows) + ']'


def projection_cases(ctx, rng, dist, failures):
    import torch
    from vector_quantize_pytorch import VectorQuantize, ResidualVQ
    cases, meta = [], []
    plans = []
    for ci in range(6 if not ctx.thorough else 30):
        cls = 'vq' if ci % 2 == 0 else 'rvq'
        D, d = rng.choice([(3, 2), (4, 2), (2, 3), (4, 3)])
        kw = dict(dim=D, codebook_dim=d, codebook_size=rng.choice([3, 5]), decay=0.5)
        if cls == 'vq':
            kw['heads'] = 1
            if ci % 4 == 2:
                kw['use_cosine_sim'] = True
        else:
            kw['num_quantizers'] = rng.choice([1, 2])
        plans.append((cls, kw, [float('inf'), float('-inf'), float('nan'), 7.5, 0.0][ci % 5]))
    for cls, kw, fill in plans:
        try:
            mod = VectorQuantize(**kw) if cls == 'vq' else ResidualVQ(**kw)
            lin = mod.project_in if isinstance(mod.project_in, torch.nn.Linear) else mod.project_in[0]
            if not isinstance(lin, torch.nn.Linear):
                continue
            with torch.no_grad():
                lin.weight.copy_(vqrec.grid(rng, tuple(lin.weight.shape), 4, 8))
                lin.bias.copy_(vqrec.grid(rng, tuple(lin.bias.shape), 4, 8))
            mod.train()
            b, n = 2, 3
            lens = [n, rng.randrange(1, n)]
            m = torch.arange(n)[None, :] < torch.tensor(lens)[:, None]
            x = vqrec.grid(rng, (b, n, kw['dim']))
            x = torch.where(m[..., None], x, torch.full_like(x, fill))
            if fill != 0.0:
                x[1, -1, 0] = 3.0          # a padded row that mixes a finite entry with the special value
            cap = {}

            def hook(_m, inp, out):
                cap['in'] = inp[0].detach().clone()
                cap['out'] = out.detach().clone()
                out.register_hook(lambda g: cap.__setitem__('g', g.detach().clone()))
            h = lin.register_forward_hook(hook)
            try:
                ret = mod(x, mask=m)
                r = vqrec.grid(rng, tuple(ret[0].shape), 4, 8)
                ((ret[0] * r).sum() + ret[2].sum()).backward()
            finally:
                h.remove()
            if 'g' not in cap or lin.weight.grad is None:
                continue
        except Exception as ex:
            failures.append({'key': f'{cls}-projection:exception:{type(ex).__name__}', 'what': f'{cls} {kw} with padding value {fill}: {ex!r}', 'case': dict(kw=kw, fill=str(fill))})
            continue
        dout, din = lin.weight.shape
        order = 'o_vq_mask_proj' if cls == 'vq' else 'o_rvq_mask_proj'
        rows = lambda t: t.reshape(-1, t.shape[-1]).double().tolist()
        cases.append(f'proj_check (1 # 10000) (zero_first_of {order}) {dout}%nat {din}%nat {xmat(lin.weight.detach().double().tolist())} {xvec(lin.bias.detach().double().tolist())} '
                     f'{blist(m.reshape(-1).tolist())} {xmat(rows(x))} {xmat(rows(cap["g"]))} {xmat(rows(cap["out"]))} {xmat(lin.weight.grad.double().tolist())}')
        meta.append(dict(cls=cls, kw=kw, fill=str(fill), lens=lens))
        dist['projection_nonfinite_model'] = dist.get('projection_nonfinite_model', 0) + 1
    return cases, meta


def replay_case(ctx, case):
    if 'term' in case and str(case['term']).startswith('proj_check'):
        bad, broken = core.run_cases(ctx, 'c09_replay', PROJ_HEADER, [case['term']], per_file=1)
        if broken:
            return True, 'replay term did not evaluate: ' + broken[0][1]
        return (0 in bad), f'recorded projection case re-evaluated against the current model and call order: code {bad.get(0, 0)}'
    if 'term' in case:
        return c03.replay_case(ctx, case)
    return True, 're-run the check: %s' % (case,)

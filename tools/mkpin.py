#!/usr/bin/env python3
"""Development aid: freeze the CURRENT content of generated string/pattern/inventory items as glue lemmas
   Glue/Pin_<item>.v : `Lemma pin_<item> : <item> = <literal>. Proof. reflexivity. Qed.`
   The lemma is committed; on every run the item is regenerated from /repo, so a change of the pinned source
   text breaks the lemma (a broken obligation of every property whose Properties file imports it)."""
import sys, os, re
COQ = os.path.join(os.path.dirname(os.path.dirname(os.path.abspath(__file__))), 'coq')
for name in sys.argv[1:]:
    src = open(os.path.join(COQ, 'Gen', name + '.v')).read()
    m = re.search(r'Definition ' + name + r' : ([^\n]*?) :=\n(.*)\.\s*$', src, re.S)
    ty, body = m.group(1), m.group(2).strip()
    extra = 'From VQ Require Import Model.Inventory.\n' if 'kind' in ty else ''
    txt = f'''(* pinned source text of Gen item {name} (tools/mkpin.py); the item itself is regenerated from /repo on every run *)
From Coq Require Import List String.
{extra}From VQ.Gen Require Import {name}.
Import ListNotations.
Open Scope string_scope.
Definition pinned_{name} : {ty} :=
  {body}.
Lemma pin_{name} : {name} = pinned_{name}.
Proof. reflexivity. Qed.
'''
    open(os.path.join(COQ, 'Glue', f'Pin_{name}.v'), 'w').write(txt)
    print('pinned', name)

#!/bin/bash
# seedrun.sh <patch.diff> <PID> [PID...] : run the correspondence of the given properties against a patched copy of /repo (dev aid)
P=$1; shift
rm -rf /dev/shm/seed && mkdir -p /dev/shm/seed && cp -r /repo/vector_quantize_pytorch /dev/shm/seed/ && (cd /dev/shm/seed && git init -q . 2>/dev/null; patch -p1 -s < $P) || exit 1
for pid in "$@"; do echo "== $pid"; VQ_REPO=/dev/shm/seed /verif/dev.sh $pid 2>&1 | grep -v auto_act | tail -${SEEDTAIL:-8}; done
rm -rf /dev/shm/seed

#!/bin/bash
# seedrun.sh <patch.diff> <PID> [PID...] : run the correspondence of the given properties against a patched copy of /repo (dev aid)
P=$1; shift
D=/dev/shm/seed_$$
rm -rf $D && mkdir -p $D && (git -C /repo archive HEAD vector_quantize_pytorch | tar -x -C $D) && (cd $D && patch -p1 -s < $P) || { rm -rf $D; exit 1; }
for pid in "$@"; do echo "== $pid"; VQ_REPO=$D /verif/dev.sh $pid 2>&1 | grep -v auto_act | tail -${SEEDTAIL:-8}; done
rm -rf $D

#!/usr/bin/env python3
"""mkprompts.py <round-letter> [ids...] : write /tmp/mprompt<letter>_Cxx.txt, the task text for the independent sub-agent that seeds a breaking change.
The agent gets ONLY the property text (id, title, statement, quantifier, why_tests_cant), a generic description of what kinds of checks exist, and
one-line summaries of ideas already tried for that property (so that it looks elsewhere) - nothing from /verif itself."""
import json, os, sys
letter = sys.argv[1]
ids = sys.argv[2:] or ['C%02d' % i for i in range(1, 21)]
props = {json.loads(l)['id']: json.loads(l) for l in open('/verif/properties.jsonl')}
COVER = ("multi-step histories on one long-lived module (train / eval / frozen / decode / state_dict reload incl. assign=True, roll-back of a used module to an earlier checkpoint, "
         "checkpoints written under a different configuration, deepcopy followed by training the original, optimiser steps, direct codebook writes, reused argument buffers, constructor "
         "arguments mutated by the caller afterwards, hyper-parameter attributes changed on the live module, repeated seeds), calls that raise followed by valid calls, all pairs of constructor "
         "options for VectorQuantize, FSQ, LFQ and the residual stacks, inputs of mixed magnitude (1e-8 .. 3e38), exact zeros, on-grid and ON-CODE values (a code fed back as input, a prefix decode), "
         "uniform random draws forced to the ends of their range, half / bfloat16 / float64 inputs and module casts, very large calls (> 2^24 tokens on one code), first batches much larger or "
         "smaller than the codebook, ragged masks with interior holes, all-padding batches and huge / inf / nan padding followed by backward, parameters with exactly-zero rows or columns, "
         "world sizes 2-4 with masked and scarce batches; all pairs of PER-CALL options and ambient contexts (mask / lens, indices= targets, per-call temperature 0 and negative, freeze_codebook, "
         "return_loss_breakdown, return_all_codes, explicit dropout seeds, no_grad / inference_mode / grad-requiring inputs, CPU autocast, gradients left on the parameters by the caller, the caller "
         "writing in place into returned tensors), decode helpers and coarse-prefix decodes inside the histories, a second replica's forward interleaved at calls into process-global random "
         "generators, cosine Jacobians, cross-head independence of the sampling noise, inputs handed over as dense permuted views / strided slices / storage offsets / channels-last, "
         "modules whose parameters were frozen with requires_grad_(False) (then reloaded / written in place / unfrozen), a k-means exception granted only once, "
         "process-wide torch settings around calls (deterministic-algorithms mode incl. NaN-filled uninitialised memory, bfloat16 / float64 default dtype), train() / eval() toggled on single "
         "sub-modules or groups, checkpoints loaded from plain dicts without _metadata and through torch.save of the whole module, sign-symmetric / duplicated / collinear first batches, level counts "
         "in the hundreds under bfloat16 / float16 / autocast with saturated tokens, calls with codebook_transform_fn, k-means-initialised codebooks outside the EMA in process groups, and an "
         "inventory of every in-place write through a reshape / view handle; modules cast to float16 / bfloat16 and back, blanket .type(dtype) casts of all buffers, code transforms that couple the "
         "codes (BatchNorm), projections re-parametrised by weight_norm / prune hooks, codebooks written through the public setter from tensors that require grad, decoders called with 0-dim / -1 / "
         "python-int indices, lens= in narrow integer dtypes on long sequences, float64 inputs with detail below float32 resolution, integer / half inputs at pixel magnitudes, aged states (running "
         "sums decayed by 2^-40), histories of more than a thousand updates before a checkpoint, partial strict=False checkpoints before the first batch, one-bit codebooks and other size-1 axes, "
         "a throw-away module built before the process group exists, the caller writing in place into everything any layer returns, and configurations the library rejects today being re-probed "
         "on every run; tied buffers and tied stages between modules, torch.func.functional_call (single-dict and tuple form) and parametrize, re-entrant forward hooks that call the module "
         "on differently shaped inputs, throw-away instances (and pre-process-group probes) using public helpers with non-default arguments first, stage replacement on live stacks, negative zeros, "
         "subnormal inputs, boundary usages just below / at a threshold, view-returning seeding functions, per-layer temperatures, per-rank-seeded modules inside a process group, unsigned "
         "zero-length lens, codebooks beyond 2^24 entries, explicit default keyword arguments, the n-th identical pure call, residual stacks of ONE layer with shared codebooks, in-place codebook optimisers with very large steps (the codebook moves during the call), square channel-first inputs, dropout multiples that do not divide the number of quantizers, shared-heads k-means under ragged masks, extents cycled through 1..9 for every axis, float64 inputs with detail below the float32 subnormal range, grouped stacks on channel-first maps and videos, tokens within 1e-4 rad of antipodal to their code, fresh modules restored from another instance's checkpoint (k-means flag included), batches sharing a large common offset with near-tied codes (alone / halves / next to outliers), dropped layers whose parameters are poisoned with nan / inf / 1e37, manual EMA mode with an update pending at the checkpoint, target indices with ignored (-1) entries per head or position, sampling frequencies under per-call code transforms, RandomProjectionQuantizer with pass-through keyword arguments of the inner layer. In addition every function the property depends on is fingerprinted, so an edit is noticed - what matters "
         "is whether a concrete failing input is then found")
for pid in ids:
    p = props[pid]
    wt = f'/tmp/wt{letter}_{pid}'
    tried = []
    for d in sorted(os.listdir('/verif/seeded')):
        if d.startswith(pid + '-'):
            try:
                tried.append(json.load(open(f'/verif/seeded/{d}/meta.json'))['summary'][:260])
            except Exception:
                pass
    text = {k: p[k] for k in ('id', 'title', 'statement')}
    text['quantifier'] = {k: p['quantifier'][k] for k in ('over', 'text')}
    text['why_tests_cant'] = p['why_tests_cant']
    body = f"""You are testing how robust a Python library is against subtle regressions. The library is lucidrains/vector-quantize-pytorch (PyTorch vector/scalar quantization layers). You have your OWN scratch git worktree of it at {wt} (a detached checkout; work ONLY there; do not touch /repo or /verif, do not read anything under /verif). Run its code with:  cd {wt} && PYTHONPATH={wt} /venv/bin/python ...   (torch CPU; no network). The test-suite command is:  cd {wt} && PYTHONPATH={wt} /venv/bin/python -m pytest -q -p no:cacheprovider --timeout=900 tests   (takes 1-8 minutes; 63 tests).

Here is a semantic property the library is supposed to satisfy (JSON):
{json.dumps(text, indent=1)}

Your job: produce ONE small, realistic source change (1-12 changed lines inside {wt}/vector_quantize_pytorch/) that BREAKS this property while the package still imports and the existing test-suite still passes completely. This is a LATE round, and the people checking this property are thorough: they already run {COVER}. Single-operator flips, wrong-axis einops patterns, stale caches, sticky per-call options, reused random generators, dtype drift of buffers, size-threshold code paths, early returns for special call arguments or for special VALUES (zero residuals), buffers aliased through einops views or returned to the caller, rank-local guards around collectives, host-side mirrors of buffers, hyper-parameters turned into persistent state, flags cached at construction, closures shared through deepcopy and flags set before the work they announce have all been tried. Find something these would still miss - the violation must be a genuine, demonstrable violation of the property as stated (not merely of an implementation detail), for example:
 - TWO cooperating sites that each look fine alone;
 - a violation that needs a particular MULTI-STEP history or a particular combination of legal options and input values nobody would think of enumerating;
 - an "optimisation" that is wrong only sometimes (numerically: only for particular magnitudes or exact ties; structurally: only for particular shapes such as a batch of one, one code, one head, dim 1; temporally: only on the n-th call);
 - an interaction with a torch feature the checkers did not list (torch.compile is NOT available; think of anything NOT in the list above: the list is long, so look for a violation in the plain, central behaviour under an unusual but legal COMBINATION of ordinary options and sizes (three or four options at once, sizes such as codebook_size 1 or 2, dim 1, heads equal to dim, num_quantizers 1, a batch of one token), or a numerical mistake that shows only in a narrow but legal band of magnitudes / exact ties, or a mistake in a rarely used public method of the class (every public method and property is fair game)).
Do not make changes that merely crash; the code should run and silently violate the property. AVOID these already-tried ideas: {' || '.join(tried) if tried else '(none recorded)'}

Deliverables (write them into {wt}/_seeded/ , create the directory):
 1. patch.diff  - output of `git -C {wt} diff` (source change only, not the _seeded dir).
 2. demo.py - a small standalone program (run as `PYTHONPATH=<tree> /venv/bin/python demo.py`) that exits 0 and prints PASS when the property holds, and exits 1 printing what went wrong when it is violated. It must FAIL (exit 1) with your change applied and PASS (exit 0) on the unchanged code. Check that yourself both ways by reverting and re-applying your patch with `git -C {wt} apply -R _seeded/patch.diff` / `git -C {wt} apply _seeded/patch.diff` (do NOT use `git stash`: the stash is shared with other worktrees of the same repository and other people are using it).
 3. meta.json - {{"property": "<id>", "summary": "<one line: what was changed>", "needs": "<what specific condition is needed for the violation to manifest>", "tests_pass": true/false, "files": [...]}}.
Run the full test-suite once with your change applied and record whether all 63 tests pass (they must). If they do not, pick a different change. Run your python processes with OMP_NUM_THREADS=2 (the machine is shared).

Final report (short): the diff, what it needs to manifest, demo result with/without the change, test-suite result.
"""
    open(f'/tmp/mprompt{letter}_{pid}.txt', 'w').write(body)
    print('wrote', f'/tmp/mprompt{letter}_{pid}.txt', len(body))

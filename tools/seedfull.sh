#!/bin/bash
# seedfull.sh [ids...] : apply each kept seeded change to /repo itself, run the FULL quick check of its property (obligations + correspondence),
# undo the change straight afterwards.  Nothing else may use /repo while this runs.
cd /verif
# evidence of runs on a changed tree goes to a scratch directory: /verif/evidence only ever describes the unchanged tree
export VERIF_EVIDENCE_DIR=/dev/shm/seedfull_evidence_$$
ids=${@:-$(ls seeded)}
for id in $ids; do
  pid=${id%%-*}
  if ! (cd /repo && patch -p1 -s --no-backup-if-mismatch < /verif/seeded/$id/patch.diff > /dev/null 2>&1); then
    git -C /repo checkout -- . ; find /repo -name '*.orig' -o -name '*.rej' | xargs -r rm -f
    echo "$id PATCH-FAILED"; continue
  fi
  out=$(./check $pid 2>&1 | grep -v auto_act)
  rc=$?
  git -C /repo checkout -- . ; find /repo -name '*.orig' -o -name '*.rej' | xargs -r rm -f
  ob=$(echo "$out" | grep -o "obligations: [0-9]*/[0-9]* discharged; [0-9]* broken" | head -1)
  vio=$(echo "$out" | grep -c "^VIOLATION")
  nf=$(echo "$out" | grep "^VIOLATION" | grep -c "no-failing-input-found")
  br=$(echo "$out" | grep "BROKEN OBLIGATION" | head -1 | cut -c1-220)
  echo "$id | $ob | violation_lines=$vio no_failing_input=$nf | $br"
done
rm -rf $VERIF_EVIDENCE_DIR
# leave Gen/ consistent with the unchanged tree again
PYTHONPATH=/verif:/repo /venv/bin/python -W ignore -c "from vlib import core; core.Ctx('C10','quick',1).regen()" > /dev/null 2>&1

#!/bin/bash
# seedscan.sh [ids...] : run each kept seeded change against the correspondence of its own property and record the failure keys that are not known findings
cd /verif
ids=${@:-$(ls seeded)}
for id in $ids; do
  pid=${id%%-*}
  out=$(SEEDTAIL=400 VERIF_SHOW=40 tools/seedrun.sh /verif/seeded/$id/patch.diff $pid 2>&1 | grep -v auto_act)
  echo "$id $(echo "$out" | grep SUMMARY | cut -c1-400)"
done

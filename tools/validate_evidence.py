#!/usr/bin/env python3
"""validate_evidence.py [ids...] : every /verif/evidence/<id>.json validates against /root/.vp/EVIDENCE.schema.json, is a
clean proof-level record (discharged == obligations, no violations, no broken obligations) and names the level claimed in
MANIFEST.json.  Run before committing evidence:  python3-vt tools/validate_evidence.py"""
import json, os, sys
V = os.path.dirname(os.path.dirname(os.path.abspath(__file__)))
schema = json.load(open('/root/.vp/EVIDENCE.schema.json'))
man = json.load(open(os.path.join(V, 'MANIFEST.json')))
levels = {c['property_id']: c.get('level') for c in man['checks']} if 'checks' in man else {}
try:
    import jsonschema
except ImportError:
    jsonschema = None
ids = sys.argv[1:] or sorted(levels)
bad = 0
for pid in ids:
    p = os.path.join(V, 'evidence', pid + '.json')
    errs = []
    try:
        d = json.load(open(p))
    except Exception as ex:
        print(pid, 'UNREADABLE', ex); bad += 1; continue
    if jsonschema:
        errs += [e.message[:200] for e in jsonschema.Draft202012Validator(schema).iter_errors(d)]
    c = d.get('coverage', {})
    if d.get('property_id') != pid: errs.append('property_id mismatch')
    if levels.get(pid) and d.get('level') != levels[pid]: errs.append(f'level {d.get("level")} != manifest {levels[pid]}')
    if c.get('obligations') != c.get('discharged'): errs.append(f'discharged {c.get("discharged")} != obligations {c.get("obligations")}')
    if d.get('violations'): errs.append(f'violations={d["violations"]}')
    if c.get('broken_obligations'): errs.append('broken_obligations recorded')
    if not c.get('samples'): errs.append('no samples')
    if c.get('distinct_nontrivial', 0) > c.get('evaluations', 0): errs.append('distinct_nontrivial > evaluations')
    print(pid, d.get('tier'), d.get('seed'), f"obl={c.get('obligations')}/{c.get('discharged')} ev={c.get('evaluations')} nt={c.get('distinct_nontrivial')}", 'OK' if not errs else 'BAD: ' + '; '.join(errs))
    bad += bool(errs)
sys.exit(1 if bad else 0)

#!/bin/bash
# runs every registered quick (or thorough) check in sequence; prints one status line per property
cd /verif
TIER=${1:-quick}
for i in 01 02 03 04 05 06 07 08 09 10 11 12 13 14 15 16 17 18 19 20; do
  s=$(date +%s)
  out=$(./check C$i --tier $TIER 2>&1)
  rc=$?
  e=$(date +%s)
  echo "C$i rc=$rc $((e-s))s $(echo "$out" | grep -c '^KNOWN-FINDING') known $(echo "$out" | grep '^VIOLATION' | head -1)"
done

#!/bin/bash
# seedsweep.sh seed... : correspondence of every property on the unchanged tree under other generator seeds (robustness against false alarms)
cd /verif
for seed in "$@"; do
  for n in 01 02 03 04 05 06 07 08 09 10 11 12 13 14 15 16 17 18 19 20; do
    out=$(VERIF_SEED=$seed ./dev.sh C$n 2>&1 | grep -v auto_act)
    echo "seed=$seed C$n $(echo "$out" | grep SUMMARY | cut -c1-300)"
    echo "$out" | grep "^FAIL" | cut -c1-400
  done
done

#!/bin/bash
# probe.sh [ids...] : exercise /verif the way it is used - the offline environment, MANIFEST.setup_cmd, then every check's quick
# command once on the unchanged tree with its evidence file removed first; afterwards every rewritten evidence file is validated
# (tools/validate_evidence.py).  Output: one line per property + the validation table; logs under /dev/shm/probe_logs.
cd /verif
export CARGO_NET_OFFLINE=true GOPROXY=off PIP_NO_INDEX=1 VERIF_SEED=${VERIF_SEED:-1} VERIF_TIER=${VERIF_TIER:-quick}
L=/dev/shm/probe_logs; rm -rf $L; mkdir -p $L
if [ -n "$(git -C /repo status --porcelain)" ]; then echo "/repo working tree is not clean"; exit 2; fi
s=$(date +%s); bash -c "$(python3 -c "import json; print(json.load(open('MANIFEST.json'))['setup_cmd'])")" > $L/setup.log 2>&1; rc=$?
echo "setup rc=$rc $(( $(date +%s) - s ))s"; [ $rc = 0 ] || exit 1
ids=${@:-$(python3 -c "import json; print(' '.join(c['property_id'] for c in json.load(open('MANIFEST.json'))['checks']))")}
bad=0
for id in $ids; do
  cmd=$(python3 -c "import json,sys; print([c['quick_cmd'] for c in json.load(open('MANIFEST.json'))['checks'] if c['property_id']==sys.argv[1]][0])" $id)
  rm -f evidence/$id.json
  s=$(date +%s); bash -c "$cmd" > $L/$id.log 2>&1; rc=$?
  v=$(grep -c '^VIOLATION' $L/$id.log); k=$(grep -c '^KNOWN-FINDING' $L/$id.log)
  [ -f evidence/$id.json ] && ev=rewritten || ev=MISSING
  echo "$id rc=$rc $(( $(date +%s) - s ))s violation_lines=$v known=$k evidence=$ev"
  [ $rc = 0 ] && [ $v = 0 ] && [ $ev = rewritten ] || bad=1
done
python3-vt tools/validate_evidence.py $ids 2>&1 | grep -v auto_activate_base
[ "${PIPESTATUS[0]}" = 0 ] || bad=1
exit $bad

#!/usr/bin/env python3
"""seedmeta.py : fill seeded/<id>/meta.json (confirmed / detected_by / ran) from confirm.log and the last tools/seedscan.sh output (/tmp/seedscan.log or argv[1])"""
import json, os, re, sys
scan = {}
path = sys.argv[1] if len(sys.argv) > 1 else '/tmp/seedscan.log'
for line in open(path):
    m = re.match(r'(C\d\d-\w+) SUMMARY new_keys=(\d+) known_keys=(\d+) first_new=(\[.*)', line.strip())
    if m:
        scan[m.group(1)] = (int(m.group(2)), m.group(4))
root = '/verif/seeded'
for d in sorted(os.listdir(root)):
    mp = os.path.join(root, d, 'meta.json')
    if not os.path.exists(mp):
        continue
    meta = json.load(open(mp))
    cl = os.path.join(root, d, 'confirm.log')
    if os.path.exists(cl):
        meta['confirmed'] = open(cl).read()
    if d in scan:
        n, keys = scan[d]
        pid = d.split('-')[0]
        meta['detected_by'] = (f'./check {pid} : {n} new failure key(s), first: {keys[:300]}' if n else 'NOT DETECTED by the correspondence of ' + pid)
        meta['ran'] = f'tools/confirm_seed.sh (demo without / with the change, full test-suite with the change) and tools/seedscan.sh {d} (correspondence of {pid} against a patched copy of /repo)'
    json.dump(meta, open(mp, 'w'), indent=1)
    print(d, 'detected' if scan.get(d, (0,))[0] else 'NOT-DETECTED/unknown', '| confirmed:', 'yes' if 'exit 1' in meta.get('confirmed', '') and 'exit 0' in meta.get('confirmed', '') and '63 passed' in meta.get('confirmed', '') else 'INCOMPLETE')

#!/bin/bash
# confirm_seed.sh <worktree> <id> : confirm a seeded change (demo fails with / passes without, suite passes with), store under /verif/seeded/<id>/
WT=$1; ID=$2; OUT=/verif/seeded/$ID; mkdir -p $OUT
cp $WT/_seeded/patch.diff $WT/_seeded/demo.py $WT/_seeded/meta.json $OUT/ 2>/dev/null
cd $WT
git checkout -q -- vector_quantize_pytorch
PYTHONPATH=$WT timeout 900 /venv/bin/python -W ignore _seeded/demo.py > $OUT/demo_without.log 2>&1; echo "demo without change: exit $?" > $OUT/confirm.log
git apply _seeded/patch.diff
PYTHONPATH=$WT timeout 900 /venv/bin/python -W ignore _seeded/demo.py > $OUT/demo_with.log 2>&1; echo "demo with change: exit $?" >> $OUT/confirm.log
OMP_NUM_THREADS=2 MKL_NUM_THREADS=2 PYTHONPATH=$WT timeout 1800 /venv/bin/python -m pytest -q -p no:cacheprovider --timeout=900 tests 2>&1 | tail -2 >> $OUT/confirm.log
cat $OUT/confirm.log

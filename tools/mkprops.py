#!/usr/bin/env python3
"""Generate coq/Properties/<PID>.v from a spec: the property file restates every exported theorem in full
(the statement printed by Coq for the proved lemma) and closes it with `exact <lemma>`, followed by Print Assumptions.
usage: mkprops.py PID 'header-requires' name=Module.lemma ...   (development aid; the generated file is committed)"""
import sys, subprocess, re, os
COQ = os.path.join(os.path.dirname(os.path.dirname(os.path.abspath(__file__))), 'coq')

def refresh(pid):
    """re-derive every statement of an existing Properties/<pid>.v from the lemmas it cites (header, order and hand-written tail kept)"""
    src = open(os.path.join(COQ, 'Properties', pid + '.v')).read()
    title = re.search(r'\(\* ' + pid + r' -- (.*?)\n', src).group(1)
    first = src.index('\nTheorem ')
    header = src[src.index('*)') + 2:first].strip()
    blocks = list(re.finditer(r'(\(\* implicit \*\)\n)?Theorem (\w+) :\n(.*?)\nProof\. exact \(@([\w.]+)\)\. Qed\.\nPrint Assumptions \w+\.\n', src, re.S))
    tail = src[blocks[-1].end():]
    args = [('!' if (b.group(1) or '@' in b.group(3)) else '') + b.group(2) + '=' + b.group(4) for b in blocks]
    return title, header, args, tail


def main():
    tail = ''
    if sys.argv[1] in ('--refresh', '--add'):
        pid = sys.argv[2]
        title, requires, args, tail = refresh(pid)
        if sys.argv[1] == '--add':
            # --add PID 'From VQ Require Import X.' name=lemma ...   (extra import line may be empty)
            if sys.argv[3].strip() and sys.argv[3] not in requires:
                lines = requires.split('\n')
                k = max(i for i, l in enumerate(lines) if l.startswith('From '))
                lines.insert(k + 1, sys.argv[3])
                requires = '\n'.join(lines)
            args += sys.argv[4:]
        pairs = [a.split('=') for a in args]
    else:
        pid, title, requires = sys.argv[1], sys.argv[2], sys.argv[3]
        pairs = [a.split('=') for a in sys.argv[4:]]
    implicit = {n.lstrip('!') for n, _ in pairs if n.startswith('!')}
    script = requires + '\nSet Printing Width 110.\nSet Printing Depth 1000.\n'
    for name, lem in pairs:
        if name.startswith('!'):
            script += f'Set Printing Implicit.\nCheck @{lem}.\nUnset Printing Implicit.\n'
        else:
            script += f'Check @{lem}.\n'
    pairs = [(n.lstrip('!'), l) for n, l in pairs]
    p = subprocess.run(['coqtop', '-Q', '.', 'VQ', '-quiet'], input=script, cwd=COQ, capture_output=True, text=True)
    out = p.stdout
    blocks = re.split(r'\n(?=@?[\w.]+\n?\s*: )', '\n' + out)
    types = {}
    for lem in [l for _, l in pairs]:
        m = re.search(r'@?' + re.escape(lem.split('.')[-1]) + r'\s*:\s*(.*?)(?=\n\n|\n@?\w[\w.]*\s*\n?\s*:|\Z)', out, re.S)
        if not m:
            print('could not find type of', lem, file=sys.stderr); print(out[-2000:], file=sys.stderr); sys.exit(1)
        types[lem] = m.group(1).strip()
    txt = f'(* {pid} -- {title}\n   Only statements here: every theorem is closed by `exact <lemma proved in Proofs/ or Glue/>` and followed by\n   Print Assumptions.  GENERATED skeleton (tools/mkprops.py), statements are the ones Coq prints for the lemmas. *)\n'
    txt += requires + '\n\n'
    for name, lem in pairs:
        txt += ('(* implicit *)\n' if name in implicit else '') + f'Theorem {name} :\n  {types[lem]}.\nProof. exact (@{lem}). Qed.\nPrint Assumptions {name}.\n\n'
    open(os.path.join(COQ, 'Properties', pid + '.v'), 'w').write(txt.rstrip('\n') + '\n' + (tail if tail.strip() else ''))
    print('wrote', pid, len(pairs), 'theorems')

main()

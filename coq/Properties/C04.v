(* C04 — scalar-quantizer index codec is a bijection onto a fully reachable grid.
   This file contains only statements closed by [exact] and their Print Assumptions. *)
From Coq Require Import ZArith List Bool Reals SpecFloat.
From VQ Require Import Num Model.Vec Model.Codec Model.B32 Proofs.CodecProofs Proofs.B32Proofs Glue.CodecGlue.
From Coq Require Import Reals.
From VQ Require Import Model.GroupCat Model.CastBits Proofs.CastBitsProofs Glue.CastBitsGlue.
Import ListNotations.
Open Scope Z_scope.

(* mixed radix (FSQ, LatentQuantize): every level list, every index — unbounded *)
Theorem C04_index_to_levels_to_index : forall ls, Forall (fun l => 0 < l) ls ->
  forall i, 0 <= i < prod ls -> enc ls (dec ls i) = i /\ in_range ls (dec ls i).
Proof. exact mixed_radix_enc_dec. Qed.
Print Assumptions C04_index_to_levels_to_index.

Theorem C04_levels_to_index_to_levels : forall ls, Forall (fun l => 0 < l) ls ->
  forall ds, in_range ls ds -> dec ls (enc ls ds) = ds /\ 0 <= enc ls ds < prod ls.
Proof. exact mixed_radix_dec_enc. Qed.
Print Assumptions C04_levels_to_index_to_levels.

Theorem C04_distinct_indices_distinct_codes : forall ls i j,
  Forall (fun l => 2 <= l) ls -> 0 <= i < prod ls -> 0 <= j < prod ls ->
  fsq_code R_ops ls i = fsq_code R_ops ls j -> i = j.
Proof. exact fsq_codes_distinct. Qed.
Print Assumptions C04_distinct_indices_distinct_codes.

(* float32: the code's own arithmetic (after the repair) — bound on L in the statement, unbounded in the list *)
Theorem C04_fsq_codec_roundtrip_float32 : forall ls i,
  Forall (fun l => 2 <= l <= 128) ls -> 0 <= i < prod ls ->
  fsq_codes_to_index_intsum ConvRound ls (fsq_index_to_code_b32 ls i) = i.
Proof. exact fsq_codec_roundtrip_b32. Qed.
Print Assumptions C04_fsq_codec_roundtrip_float32.

Theorem C04_fsq_symmetric_codec_roundtrip_float32 : forall ls i,
  Forall (fun l => 2 <= l <= 128) ls -> 0 <= i < prod ls ->
  fsq_sym_codes_to_index ConvRound ls (fsq_sym_index_to_code_b32 ls i) = i.
Proof. exact fsq_sym_codec_roundtrip_b32. Qed.
Print Assumptions C04_fsq_symmetric_codec_roundtrip_float32.

Theorem C04_latent_codec_roundtrip_float32 : forall ls i,
  Forall (fun l => 2 <= l <= 128) ls -> 0 <= i < prod ls ->
  lq_codes_to_index_intsum ConvRound ls (lq_index_to_code_b32 ls i) = i.
Proof. exact lq_codec_roundtrip_b32. Qed.
Print Assumptions C04_latent_codec_roundtrip_float32.

Theorem C04_truncating_codec_refuted : exists ls i,
  Forall (fun l => 2 <= l <= 128) ls /\ 0 <= i < prod ls /\
  fsq_codes_to_index_floatsum ConvTrunc ls (fsq_index_to_code_b32 ls i) <> i.
Proof. exact fsq_truncating_codec_refuted. Qed.
Print Assumptions C04_truncating_codec_refuted.

(* grid: equally spaced inside [-1, 1], all values distinct *)
Theorem C04_grid_in_unit_interval : forall L k, 2 <= L -> 0 <= k < L -> (-1 <= grid_value L k <= 1)%R.
Proof. exact fsq_grid_in_unit_interval. Qed.
Print Assumptions C04_grid_in_unit_interval.

Theorem C04_grid_equally_spaced : forall L k, 2 <= L ->
  (grid_value L (k + 1) - grid_value L k = 1 / IZR (half_width L))%R.
Proof. exact fsq_grid_equally_spaced. Qed.
Print Assumptions C04_grid_equally_spaced.

Theorem C04_symmetric_grid : forall L k, 2 <= L -> 0 <= k < L ->
  (-1 <= sym_grid_value L k <= 1)%R /\ (sym_grid_value L 0 = -1)%R /\ (sym_grid_value L (L - 1) = 1)%R /\
  (sym_grid_value L (k + 1) - sym_grid_value L k = 2 / (IZR L - 1))%R.
Proof.
  intros L k HL Hk. split; [exact (fsq_sym_grid_in_unit_interval L k HL Hk)|].
  split; [exact (proj1 (fsq_sym_grid_endpoints L HL))|].
  split; [exact (proj2 (fsq_sym_grid_endpoints L HL))|exact (fsq_sym_grid_equally_spaced L k HL)].
Qed.
Print Assumptions C04_symmetric_grid.

(* LFQ: bit codec, most significant bit first, codes are +/- scale *)
Theorem C04_lfq_index_roundtrip : forall d i, 0 <= i < 2 ^ Z.of_nat d -> index_of (bits_of d i) = i.
Proof. exact lfq_index_of_bits_of. Qed.
Print Assumptions C04_lfq_index_roundtrip.

Theorem C04_lfq_bits_roundtrip : forall bs, bits_of (length bs) (index_of bs) = bs.
Proof. exact lfq_bits_of_index_of. Qed.
Print Assumptions C04_lfq_bits_roundtrip.

Theorem C04_lfq_msb_first : forall d i, bits_of (S d) i = Z.testbit i (Z.of_nat d) :: bits_of d i.
Proof. exact lfq_msb_first. Qed.
Print Assumptions C04_lfq_msb_first.

Theorem C04_lfq_codes_pm_scale : forall (s : R) (b : bool),
  lfq_code_of_bit R_ops s b = if b then s else (- s)%R.
Proof. exact lfq_code_pm_scale. Qed.
Print Assumptions C04_lfq_codes_pm_scale.

Theorem C04_lfq_forward_is_decoded : forall s x : R, (0 < s)%R ->
  lfq_quant R_ops s x = lfq_code_of_bit R_ops s (Rltb 0 x) /\ Rltb 0 (lfq_quant R_ops s x) = Rltb 0 x.
Proof. exact lfq_forward_code_is_decoded. Qed.
Print Assumptions C04_lfq_forward_is_decoded.

(* ties to the source (Gen) *)
Theorem C04_tie_dec : forall levels i,
  dec levels i = map2 (fun b l => Gen.k_fsq_level_indices.k_fsq_level_indices i b l) (basis levels) levels.
Proof. exact glue_dec. Qed.
Theorem C04_tie_level_value : forall L k,
  Gen.k_fsq_scale_and_shift_inverse.k_fsq_scale_and_shift_inverse R_ops false (IZR L) (IZR k) (IZR (Gen.k_fsq_half_width.k_fsq_half_width L))
  = fsq_level_value R_ops L k.
Proof. exact glue_scale_shift_inverse. Qed.
Theorem C04_tie_sym_level_value : forall L k hw,
  Gen.k_fsq_scale_and_shift_inverse.k_fsq_scale_and_shift_inverse R_ops true (IZR L) (IZR k) hw = fsq_sym_level_value R_ops L k.
Proof. exact glue_sym_scale_shift_inverse. Qed.
Theorem C04_tie_scale_shift_inverse_pair : forall (sym : bool) (L k hw : R), hw <> 0%R -> (L - 1 <> 0)%R ->
  Gen.k_fsq_scale_and_shift.k_fsq_scale_and_shift R_ops sym L
    (Gen.k_fsq_scale_and_shift_inverse.k_fsq_scale_and_shift_inverse R_ops sym L k hw) hw = k.
Proof. exact glue_scale_shift_roundtrip. Qed.
Theorem C04_tie_lfq_quantize : forall s x : R, Gen.k_lfq_quantize.k_lfq_quantize R_ops x s = lfq_quant R_ops s x.
Proof. exact glue_lfq_quantize. Qed.
Theorem C04_tie_lfq_bits_to_codes : forall (s : R) (b : bool),
  Gen.k_lfq_bits_to_codes.k_lfq_bits_to_codes R_ops (if b then 1%R else 0%R) s = lfq_code_of_bit R_ops s b.
Proof. exact glue_lfq_bits_to_codes. Qed.
Theorem C04_tie_fsq_dataflow : Gen.p_fsq_codec.p_fsq_codec = expected_fsq_codec.
Proof. exact pin_fsq_codec. Qed.
Theorem C04_tie_lfq_dataflow : Gen.p_lfq_codec.p_lfq_codec = expected_lfq_codec.
Proof. exact pin_lfq_codec. Qed.
Theorem C04_tie_lq_dataflow : Gen.p_lq_codec.p_lq_codec = expected_lq_codec.
Proof. exact pin_lq_codec. Qed.

(* the whole-function source footprint of this property is the pinned one (Gen/fp_C04.v is regenerated from /repo on every run) *)
From VQ Require Import Glue.Pin_fp_C04.
Theorem C04_tie_source_footprint : fp_C04.fp_C04 = pinned_fp_C04.
Proof. exact pin_fp_C04. Qed.
Print Assumptions C04_tie_source_footprint.

(* writes through reshape handles (Model/Strides.v): LFQ's sign fill and FSQ's offsets are functional; the inventory of in-place writes through view handles is pinned *)
From VQ Require Import Model.Strides Proofs.StridesProofs Glue.Pin_inv_view_writes.
Theorem C04_reshape_write_lands_when_contiguous :
  forall (A : Type) (zero : A) (b n d : nat) (m : storage A) (rows : nat -> bool) (i j k : nat),
       (i < b)%nat ->
       (j < n)%nat ->
       (k < d)%nat ->
       get A (write_through_reshape A zero m (contiguous b n d) rows) (contiguous b n d) i j k =
       where_rows A zero m (contiguous b n d) rows i j k.
Proof. exact (@StridesProofs.contiguous_write_lands). Qed.
Print Assumptions C04_reshape_write_lands_when_contiguous.

Theorem C04_reshape_write_lost_on_permuted_view :
  forall (A : Type) (zero : A) (b n d : nat) (m : storage A) (rows : nat -> bool),
       (2 <= b)%nat ->
       (2 <= n)%nat -> (1 <= d)%nat -> write_through_reshape A zero m (batch_permuted b n d) rows = m.
Proof. exact (@StridesProofs.permuted_write_is_lost). Qed.
Print Assumptions C04_reshape_write_lost_on_permuted_view.

Theorem C04_write_through_reshape_refuted :
  forall (A : Type) (zero one : A),
       one <> zero ->
       exists (t : t3) (m : storage A) (rows : nat -> bool) (i j k : nat),
         (i < nb t)%nat /\
         (j < nn t)%nat /\
         (k < nd t)%nat /\
         get A (write_through_reshape A zero m t rows) t i j k <> where_rows A zero m t rows i j k.
Proof. exact (@StridesProofs.write_through_reshape_refuted). Qed.
Print Assumptions C04_write_through_reshape_refuted.

Theorem C04_tie_no_new_write_through_view_handles :
  inv_view_writes.inv_view_writes = pinned_inv_view_writes.
Proof. exact (@Pin_inv_view_writes.pin_inv_view_writes). Qed.
Print Assumptions C04_tie_no_new_write_through_view_handles.

(* ---- LFQ under a precision cast (Model/CastBits.v): the index is read off the emitted code, whatever the cast does *)
Theorem C04_lfq_bit_from_code_decodes :
  forall (c : R -> R) (s x : R), (0 < s)%R -> decode_bit s (bit_from_code (code_of c s x)) = code_of c s x.
Proof. exact (@CastBitsProofs.bit_from_code_decodes). Qed.
Print Assumptions C04_lfq_bit_from_code_decodes.

Theorem C04_lfq_bit_from_input_refuted :
  exists (c : R -> R) (s x : R), (0 < s)%R /\ decode_bit s (bit_from_input x) <> code_of c s x.
Proof. exact (@CastBitsProofs.bit_from_input_refuted). Qed.
Print Assumptions C04_lfq_bit_from_input_refuted.

Theorem C04_lfq_bit_from_input_ok_when_sign_kept :
  forall (c : R -> R) (s x : R), ((0 < c x)%R <-> (0 < x)%R) -> decode_bit s (bit_from_input x) = code_of c s x.
Proof. exact (@CastBitsProofs.bit_from_input_ok_when_sign_kept). Qed.
Print Assumptions C04_lfq_bit_from_input_ok_when_sign_kept.

Theorem C04_lfq_index_bits_roundtrip :
  forall bs : list bool, index_to_bits (Datatypes.length bs) (bits_to_index bs) = bs.
Proof. exact (@CastBitsProofs.index_to_bits_of_bits). Qed.
Print Assumptions C04_lfq_index_bits_roundtrip.

Theorem C04_lfq_forward_roundtrip_under_any_cast :
  forall (c : R -> R) (s : R) (xs : list R), (0 < s)%R ->
  let '(q, n) := lfq_forward c s xs in (n < 2 ^ Datatypes.length xs)%nat /\ lfq_decode s (Datatypes.length xs) n = q.
Proof. exact (@CastBitsProofs.lfq_forward_roundtrip). Qed.
Print Assumptions C04_lfq_forward_roundtrip_under_any_cast.

Theorem C04_lfq_bits_from_input_forward_refuted :
  exists (c : R -> R) (s : R) (xs : list R), (0 < s)%R /\
  let '(q, n) := lfq_forward_bits_from_input c s xs in lfq_decode s (Datatypes.length xs) n <> q.
Proof. exact (@CastBitsProofs.lfq_forward_bits_from_input_refuted). Qed.
Print Assumptions C04_lfq_bits_from_input_forward_refuted.

Theorem C04_tie_lfq_bits_read_off_the_code :
  bit_source_of p_lfq_codec.p_lfq_codec = FromCode.
Proof. exact (@CastBitsGlue.source_bits_from_code). Qed.
Print Assumptions C04_tie_lfq_bits_read_off_the_code.

Theorem C04_lfq_source_forward_roundtrip :
  forall (c : R -> R) (s : R) (xs q : list R) (n : nat), (0 < s)%R ->
  forward_of (bit_source_of p_lfq_codec.p_lfq_codec) c s xs = Some (q, n) ->
  (n < 2 ^ Datatypes.length xs)%nat /\ lfq_decode s (Datatypes.length xs) n = q.
Proof. exact (@CastBitsGlue.source_forward_roundtrip). Qed.
Print Assumptions C04_lfq_source_forward_roundtrip.

(* C13 -- output shapes, dtypes and index ranges match the documentation
   Only statements here: every theorem is closed by `exact <lemma proved in Proofs/ or Glue/>` and followed by
   Print Assumptions.  GENERATED skeleton (tools/mkprops.py), statements are the ones Coq prints for the lemmas. *)
From Coq Require Import Arith List Bool String.
From VQ Require Import Model.Shapes Model.ShapesDoc Proofs.ShapesProofs Glue.ShapesGlue Glue.Pin_p_shapes.
From VQ Require Import Glue.Pin_fp_C13.
From Coq Require Import ZArith SpecFloat. From VQ Require Import Model.B32 Proofs.BF16Index.
From VQ Require Import Glue.FsqCastGlue.
From VQ Require Import Glue.MaskGuardsGlue.
Import ListNotations.

Theorem C13_output_shape_is_input_shape :
  forall (l : layout) (s : shape) (bnd : nat * nat * nat), to_seq l s = Some bnd -> from_seq l s bnd = s.
Proof. exact (@output_shape_is_input_shape). Qed.
Print Assumptions C13_output_shape_is_input_shape.

Theorem C13_index_shape_documented :
  forall (l : layout) (s : shape) (heads b n d : nat),
       to_seq l s = Some (b, n, d) -> idx_from_seq l s heads (b, n) = trailing heads (drop_feature l s).
Proof. exact (@index_shape_documented). Qed.
Print Assumptions C13_index_shape_documented.

Theorem C13_index_shape_any_rank :
  forall (l : layout) (s : shape) (heads b n d : nat),
       to_seq l s = Some (b, n, d) ->
       idx_from_seq l s heads (b, n) =
       idx_shape_doc match l with
                     | Seq => 2
                     | _ => 1
                     end s (if (1 <? heads)%nat then [heads] else []) None.
Proof. exact (@glue_idx_doc_matches_layout). Qed.
Print Assumptions C13_index_shape_any_rank.

Theorem C13_tokens_seen_by_codebook :
  forall (l : layout) (s : shape) (b n d : nat),
       to_seq l s = Some (b, n, d) -> (b * n)%nat = prod (drop_feature l s).
Proof. exact (@tokens_count). Qed.
Print Assumptions C13_tokens_seen_by_codebook.

Theorem C13_residual_layers_axis :
  forall (layers : nat) (s : shape),
       residual_idx layers s = (s ++ [layers])%list /\
       Datatypes.length (residual_idx layers s) = S (Datatypes.length s).
Proof. exact (@residual_index_shape). Qed.
Print Assumptions C13_residual_layers_axis.

Theorem C13_groups_axis :
  forall (groups : nat) (s : shape), grouped_idx groups s = groups :: s.
Proof. exact (@grouped_index_shape). Qed.
Print Assumptions C13_groups_axis.

Theorem C13_rotate_to_keeps_shape :
  forall m d : nat, (1 <= m)%nat -> (1 <= d)%nat -> rotate_to_shape (squeeze_at 1) m d = Some [m; d].
Proof. exact (@rotate_shape_squeeze_dim). Qed.
Print Assumptions C13_rotate_to_keeps_shape.

Theorem C13_rotate_to_bare_squeeze_refuted :
  rotate_to_shape squeeze_all 6 1 = Some [6%nat; 6%nat].
Proof. exact (@rotate_shape_bare_squeeze_refuted). Qed.
Print Assumptions C13_rotate_to_bare_squeeze_refuted.

Theorem C13_bare_squeeze_fine_when_nondegenerate :
  forall m d : nat, (2 <= m)%nat -> (2 <= d)%nat -> rotate_to_shape squeeze_all m d = Some [m; d].
Proof. exact (@rotate_shape_bare_squeeze_ok_otherwise). Qed.
Print Assumptions C13_bare_squeeze_fine_when_nondegenerate.

Theorem C13_squeeze_dim_unit :
  forall pre post : shape,
       squeeze_at (Datatypes.length pre) (pre ++ 1%nat :: post)%list = (pre ++ post)%list.
Proof. exact (@squeeze_at_unit). Qed.
Print Assumptions C13_squeeze_dim_unit.

Theorem C13_squeeze_dim_nonunit :
  forall (pre post : shape) (n : nat),
       n <> 1%nat -> squeeze_at (Datatypes.length pre) (pre ++ n :: post)%list = (pre ++ n :: post)%list.
Proof. exact (@squeeze_at_nonunit). Qed.
Print Assumptions C13_squeeze_dim_nonunit.

Theorem C13_broadcast_same :
  forall s : shape, broadcast s s = Some s.
Proof. exact (@broadcast_same). Qed.
Print Assumptions C13_broadcast_same.

Theorem C13_tie_rotate_squeeze :
  nth 0 p_shapes.p_shapes "" = "rotate_to.squeeze_args=1|".
Proof. exact (@glue_rotate_squeeze_is_dim1). Qed.
Print Assumptions C13_tie_rotate_squeeze.

Theorem C13_tie_shape_sites :
  p_shapes.p_shapes = pinned_p_shapes.
Proof. exact (@pin_p_shapes). Qed.
Print Assumptions C13_tie_shape_sites.

Theorem C13_tie_source_footprint :
  fp_C13.fp_C13 = pinned_fp_C13.
Proof. exact (@Pin_fp_C13.pin_fp_C13). Qed.
Print Assumptions C13_tie_source_footprint.

Theorem C13_b32_top_level_index_exact :
  forall L : Z,
       258 <= L <= 1000 -> Z.even L = true -> sf_eqb (b32_top_level_sum L) (b32_of_Z (L - 1)) = true.
Proof. exact (@BF16Index.b32_top_level_exact). Qed.
Print Assumptions C13_b32_top_level_index_exact.

Theorem C13_bf16_top_level_index_wrong :
  forall L : Z, 258 <= L <= 1000 -> Z.even L = true -> sf_round_he (bf16_top_level_sum L) <> L - 1.
Proof. exact (@BF16Index.bf16_top_level_wrong). Qed.
Print Assumptions C13_bf16_top_level_index_wrong.

Theorem C13_bf16_top_level_512 :
  sf_round_he (bf16_top_level_sum 512) = 512.
Proof. exact (@BF16Index.bf16_top_level_512). Qed.
Print Assumptions C13_bf16_top_level_512.

Theorem C13_tie_fsq_index_before_cast :
  index_before_cast o_fsq_index_cast.o_fsq_index_cast = true.
Proof. exact (@FsqCastGlue.fsq_index_before_cast). Qed.
Print Assumptions C13_tie_fsq_index_before_cast.

Theorem C13_tie_index_masking_guarded_by_mask_only :
  forall m : bool,
       g_vq_zero_padded_input.g_vq_zero_padded_input m = m /\
       g_vq_mask_output.g_vq_mask_output m = m /\ g_vq_mask_indices.g_vq_mask_indices m = m.
Proof. exact (@MaskGuardsGlue.vq_mask_guards_are_mask_given). Qed.
Print Assumptions C13_tie_index_masking_guarded_by_mask_only.

Theorem C13_tie_mask_guard_atoms :
  g_vq_zero_padded_input.g_vq_zero_padded_input_atoms = ["exists_mask"] /\
       g_vq_mask_output.g_vq_mask_output_atoms = ["exists_mask"] /\
       g_vq_mask_indices.g_vq_mask_indices_atoms = ["exists_mask"].
Proof. exact (@MaskGuardsGlue.vq_mask_guard_atoms). Qed.
Print Assumptions C13_tie_mask_guard_atoms.

(* index range: indices are argmax / argmin positions of non-empty score lists (C01_argmax_in_range), mixed-radix digits
   sums below prod(levels) (C04), and -1 exactly at padded (C09) or dropped (C12) entries *)

(* C13 -- output shapes, dtypes and index ranges match the documentation
   Only statements here: every theorem is closed by `exact <lemma proved in Proofs/ or Glue/>` and followed by
   Print Assumptions.  GENERATED skeleton (tools/mkprops.py), statements are the ones Coq prints for the lemmas. *)
From Coq Require Import Arith List Bool String.
From VQ Require Import Model.Shapes Model.ShapesDoc Proofs.ShapesProofs Glue.ShapesGlue Glue.Pin_p_shapes.
From VQ Require Import Glue.Pin_fp_C13.
Import ListNotations.

Theorem C13_output_shape_is_input_shape :
  forall (l : layout) (s : shape) (bnd : nat * nat * nat), to_seq l s = Some bnd -> from_seq l s bnd = s.
Proof. exact (@output_shape_is_input_shape). Qed.
Print Assumptions C13_output_shape_is_input_shape.

Theorem C13_index_shape_documented :
  forall (l : layout) (s : shape) (heads b n d : nat),
       to_seq l s = Some (b, n, d) -> idx_from_seq l s heads (b, n) = trailing heads (drop_feature l s).
Proof. exact (@index_shape_documented). Qed.
Print Assumptions C13_index_shape_documented.

Theorem C13_index_shape_any_rank :
  forall (l : layout) (s : shape) (heads b n d : nat),
       to_seq l s = Some (b, n, d) ->
       idx_from_seq l s heads (b, n) =
       idx_shape_doc match l with
                     | Seq => 2
                     | _ => 1
                     end s (if (1 <? heads)%nat then [heads] else []) None.
Proof. exact (@glue_idx_doc_matches_layout). Qed.
Print Assumptions C13_index_shape_any_rank.

Theorem C13_tokens_seen_by_codebook :
  forall (l : layout) (s : shape) (b n d : nat),
       to_seq l s = Some (b, n, d) -> b * n = prod (drop_feature l s).
Proof. exact (@tokens_count). Qed.
Print Assumptions C13_tokens_seen_by_codebook.

Theorem C13_residual_layers_axis :
  forall (layers : nat) (s : shape),
       residual_idx layers s = (s ++ [layers])%list /\
       Datatypes.length (residual_idx layers s) = S (Datatypes.length s).
Proof. exact (@residual_index_shape). Qed.
Print Assumptions C13_residual_layers_axis.

Theorem C13_groups_axis :
  forall (groups : nat) (s : shape), grouped_idx groups s = groups :: s.
Proof. exact (@grouped_index_shape). Qed.
Print Assumptions C13_groups_axis.

Theorem C13_rotate_to_keeps_shape :
  forall m d : nat, 1 <= m -> 1 <= d -> rotate_to_shape (squeeze_at 1) m d = Some [m; d].
Proof. exact (@rotate_shape_squeeze_dim). Qed.
Print Assumptions C13_rotate_to_keeps_shape.

Theorem C13_rotate_to_bare_squeeze_refuted :
  rotate_to_shape squeeze_all 6 1 = Some [6; 6].
Proof. exact (@rotate_shape_bare_squeeze_refuted). Qed.
Print Assumptions C13_rotate_to_bare_squeeze_refuted.

Theorem C13_bare_squeeze_fine_when_nondegenerate :
  forall m d : nat, 2 <= m -> 2 <= d -> rotate_to_shape squeeze_all m d = Some [m; d].
Proof. exact (@rotate_shape_bare_squeeze_ok_otherwise). Qed.
Print Assumptions C13_bare_squeeze_fine_when_nondegenerate.

Theorem C13_squeeze_dim_unit :
  forall pre post : shape,
       squeeze_at (Datatypes.length pre) (pre ++ 1 :: post)%list = (pre ++ post)%list.
Proof. exact (@squeeze_at_unit). Qed.
Print Assumptions C13_squeeze_dim_unit.

Theorem C13_squeeze_dim_nonunit :
  forall (pre post : shape) (n : nat),
       n <> 1 -> squeeze_at (Datatypes.length pre) (pre ++ n :: post)%list = (pre ++ n :: post)%list.
Proof. exact (@squeeze_at_nonunit). Qed.
Print Assumptions C13_squeeze_dim_nonunit.

Theorem C13_broadcast_same :
  forall s : shape, broadcast s s = Some s.
Proof. exact (@broadcast_same). Qed.
Print Assumptions C13_broadcast_same.

Theorem C13_tie_rotate_squeeze :
  nth 0 p_shapes.p_shapes "" = "rotate_to.squeeze_args=1|".
Proof. exact (@glue_rotate_squeeze_is_dim1). Qed.
Print Assumptions C13_tie_rotate_squeeze.

Theorem C13_tie_shape_sites :
  p_shapes.p_shapes = pinned_p_shapes.
Proof. exact (@pin_p_shapes). Qed.
Print Assumptions C13_tie_shape_sites.

Theorem C13_tie_source_footprint :
  fp_C13.fp_C13 = pinned_fp_C13.
Proof. exact (@Pin_fp_C13.pin_fp_C13). Qed.
Print Assumptions C13_tie_source_footprint.

(* index range: indices are argmax / argmin positions of non-empty score lists (C01_argmax_in_range), mixed-radix digits
   sums below prod(levels) (C04), and -1 exactly at padded (C09) or dropped (C12) entries *)

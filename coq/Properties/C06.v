(* C06 -- residual quantizers decompose the input greedily and additively
   Only statements here: every theorem is closed by `exact <lemma proved in Proofs/ or Glue/>` and followed by
   Print Assumptions.  GENERATED skeleton (tools/mkprops.py), statements are the ones Coq prints for the lemmas. *)
From Coq Require Import ZArith List Bool String Reals.
From VQ Require Import Num Model.Vec Model.Core Model.Residual Proofs.CoreNearest Proofs.ResidualProofs Glue.CoreGlue Glue.Pin_p_residual.
From VQ Require Import Glue.Pin_fp_C06.
From VQ Require Import Model.Strides Proofs.StridesProofs Glue.Pin_inv_view_writes.
From VQ Require Import Model.GroupCat Proofs.GroupCatProofs Glue.GroupCatGlue.
Import ListNotations.
Open Scope R_scope.

Theorem C06_one_entry_per_layer :
  forall (qs : list layer) (r acc : Rv),
       Datatypes.length (indices_of (rloop R_ops qs r acc)) = Datatypes.length qs /\
       Datatypes.length (codes_of (rloop R_ops qs r acc)) = Datatypes.length qs /\
       Datatypes.length (residuals_of (rloop R_ops qs r acc)) = Datatypes.length qs.
Proof. exact (@rloop_one_entry_per_layer). Qed.
Print Assumptions C06_one_entry_per_layer.

Theorem C06_layer_quantizes_its_residual :
  forall (d : nat) (qs : list layer) (x : Rv) (k : nat),
       dim_ok d qs ->
       Datatypes.length x = d ->
       (k < Datatypes.length qs)%nat ->
       let l := rloop R_ops qs x (vzero R_ops d) in
       nth k (residuals_of l) [] = vsub R_ops x (vsum R_ops d (firstn k (codes_of l))) /\
       (nth k (indices_of l) 0%Z, nth k (codes_of l) []) =
       nth k qs (fun _ _ : vec R => (0%Z, [])) (nth k (residuals_of l) [])
         (vsum R_ops d (firstn k (codes_of l))).
Proof. exact (@residual_invariant). Qed.
Print Assumptions C06_layer_quantizes_its_residual.

Theorem C06_output_is_sum_of_codes :
  forall (d : nat) (qs : list layer) (kept : nat) (x : Rv),
       fst (fst (rforward R_ops d qs kept x)) =
       vsum R_ops d (codes_of (rloop R_ops (firstn kept qs) x (vzero R_ops d))).
Proof. exact (@rforward_output_is_sum). Qed.
Print Assumptions C06_output_is_sum_of_codes.

Theorem C06_all_codes_sum_to_output :
  forall (d : nat) (qs : list layer) (kept : nat) (x : Rv),
       dim_ok d qs ->
       Datatypes.length x = d ->
       vsum R_ops d (snd (rforward R_ops d qs kept x)) = fst (fst (rforward R_ops d qs kept x)).
Proof. exact (@rforward_all_codes_sum). Qed.
Print Assumptions C06_all_codes_sum_to_output.

Theorem C06_entries_with_dropout :
  forall (d : nat) (qs : list layer) (kept : nat) (x : Rv),
       Datatypes.length (snd (fst (rforward R_ops d qs kept x))) = Datatypes.length qs /\
       Datatypes.length (snd (rforward R_ops d qs kept x)) = Datatypes.length qs.
Proof. exact (@rforward_entries). Qed.
Print Assumptions C06_entries_with_dropout.

Theorem C06_layer_index_nearest_for_residual :
  forall (d : nat) (cbs : list (list Rv)) (x : Rv) (k : nat),
       Forall (fun cb : list Rv => cb <> [] /\ Forall (fun c : Rv => Datatypes.length c = d) cb) cbs ->
       Datatypes.length x = d ->
       (k < Datatypes.length cbs)%nat ->
       let qs := map (vq_layer R_ops (negcdist R_ops sqrt)) cbs in
       let l := rloop R_ops qs x (vzero R_ops d) in
       exists i : nat,
         nth k (indices_of l) 0%Z = Z.of_nat i /\
         nearest_rel (nth k cbs []) (nth k (residuals_of l) []) i /\
         nth k (codes_of l) [] = nth i (nth k cbs []) [].
Proof. exact (@layer_index_is_nearest_for_residual). Qed.
Print Assumptions C06_layer_index_nearest_for_residual.

Theorem C06_scalar_layer_scale :
  forall (q : Rv -> Z * Rv) (s : R) (r acc : Rv),
       scaled_layer R_ops q s r acc = (fst (q (vdivs R_ops r s)), vscale R_ops s (snd (q (vdivs R_ops r s)))).
Proof. exact (@scaled_layer_law). Qed.
Print Assumptions C06_scalar_layer_scale.

Theorem C06_groups_independent :
  forall (A : Type) (n : nat) (fs : list (Rv -> Rv * A)) (x : Rv) (g : nat) (a0 : A),
       (g < Datatypes.length fs)%nat ->
       nth g (snd (grouped n fs x)) a0 =
       snd (nth g fs (fun _ : Rv => ([], a0)) (nth g (chunks n (Datatypes.length fs) x) [])) /\
       fst (grouped n fs x) =
       List.concat
         (map2 (fun (f : Rv -> Rv * A) (c : Rv) => fst (f c)) fs (chunks n (Datatypes.length fs) x)).
Proof. exact (@grouped_is_independent). Qed.
Print Assumptions C06_groups_independent.

Theorem C06_group_chunks_consecutive :
  forall (n g k : nat) (x : Rv),
       (k < g)%nat ->
       Datatypes.length x = (n * g)%nat -> nth k (chunks n g x) [] = firstn n (skipn (k * n) x).
Proof. exact (@grouped_chunk_content). Qed.
Print Assumptions C06_group_chunks_consecutive.

Theorem C06_chunks_cover_input :
  forall (n g : nat) (x : Rv), Datatypes.length x = (n * g)%nat -> List.concat (chunks n g x) = x.
Proof. exact (@chunks_concat). Qed.
Print Assumptions C06_chunks_cover_input.

Theorem C06_dropped_layers_null :
  forall (d : nat) (qs : list layer) (kept : nat) (x : Rv) (k : nat),
       (kept <= k < Datatypes.length qs)%nat ->
       nth k (snd (fst (rforward R_ops d qs kept x))) 0%Z = (-1)%Z /\
       nth k (snd (rforward R_ops d qs kept x)) [] = vzero R_ops d.
Proof. exact (@rforward_dropped_layers). Qed.
Print Assumptions C06_dropped_layers_null.

Theorem C06_kept_prefix_unchanged :
  forall (d : nat) (qs : list layer) (kept : nat) (x : Rv) (k : nat),
       (k < kept)%nat ->
       (k < Datatypes.length qs)%nat ->
       nth k (snd (fst (rforward R_ops d qs kept x))) 0%Z =
       nth k (snd (fst (rforward R_ops d qs (Datatypes.length qs) x))) 0%Z /\
       nth k (snd (rforward R_ops d qs kept x)) [] =
       nth k (snd (rforward R_ops d qs (Datatypes.length qs) x)) [].
Proof. exact (@rforward_kept_prefix). Qed.
Print Assumptions C06_kept_prefix_unchanged.

Theorem C06_tie_residual_dataflow :
  p_residual.p_residual = pinned_p_residual.
Proof. exact (@pin_p_residual). Qed.
Print Assumptions C06_tie_residual_dataflow.

Theorem C06_tie_cdist :
  forall x2 y2 xy : R, k_cdist.k_cdist R_ops sqrt x2 y2 xy = sqrt (Rmax 0 (x2 + y2 - 2 * xy)).
Proof. exact (@glue_cdist). Qed.
Print Assumptions C06_tie_cdist.

Theorem C06_tie_source_footprint :
  fp_C06.fp_C06 = pinned_fp_C06.
Proof. exact (@Pin_fp_C06.pin_fp_C06). Qed.
Print Assumptions C06_tie_source_footprint.

Theorem C06_reshape_write_lands_when_contiguous :
  forall (A : Type) (zero : A) (b n d : nat) (m : storage A) (rows : nat -> bool) (i j k : nat),
       (i < b)%nat ->
       (j < n)%nat ->
       (k < d)%nat ->
       get A (write_through_reshape A zero m (contiguous b n d) rows) (contiguous b n d) i j k =
       where_rows A zero m (contiguous b n d) rows i j k.
Proof. exact (@StridesProofs.contiguous_write_lands). Qed.
Print Assumptions C06_reshape_write_lands_when_contiguous.

Theorem C06_reshape_write_lost_on_permuted_view :
  forall (A : Type) (zero : A) (b n d : nat) (m : storage A) (rows : nat -> bool),
       (2 <= b)%nat ->
       (2 <= n)%nat -> (1 <= d)%nat -> write_through_reshape A zero m (batch_permuted b n d) rows = m.
Proof. exact (@StridesProofs.permuted_write_is_lost). Qed.
Print Assumptions C06_reshape_write_lost_on_permuted_view.

Theorem C06_write_through_reshape_refuted :
  forall (A : Type) (zero one : A),
       one <> zero ->
       exists (t : t3) (m : storage A) (rows : nat -> bool) (i j k : nat),
         (i < nb t)%nat /\
         (j < nn t)%nat /\
         (k < nd t)%nat /\
         get A (write_through_reshape A zero m t rows) t i j k <> where_rows A zero m t rows i j k.
Proof. exact (@StridesProofs.write_through_reshape_refuted). Qed.
Print Assumptions C06_write_through_reshape_refuted.

Theorem C06_tie_no_new_write_through_view_handles :
  inv_view_writes.inv_view_writes = pinned_inv_view_writes.
Proof. exact (@Pin_inv_view_writes.pin_inv_view_writes). Qed.
Print Assumptions C06_tie_no_new_write_through_view_handles.

(* implicit *)
Theorem C06_grouped_chunk_is_the_group_stack_channel_first :
  forall (A : Type) (dg : nat) (Ys : nat -> nat -> nat -> nat -> A) (g b c p : nat),
       (c < dg)%nat -> @chunk_ax1 A dg (@cat_ax1 A dg Ys) g b c p = Ys g b c p.
Proof. exact (@GroupCatProofs.chunk_of_cat_ax1). Qed.
Print Assumptions C06_grouped_chunk_is_the_group_stack_channel_first.

(* implicit *)
Theorem C06_grouped_chunk_is_the_group_stack_channel_last :
  forall (A : Type) (dg : nat) (Ys : nat -> nat -> nat -> nat -> A) (g b p c : nat),
       (c < dg)%nat -> @chunk_last A dg (@cat_last A dg Ys) g b p c = Ys g b p c.
Proof. exact (@GroupCatProofs.chunk_of_cat_last). Qed.
Print Assumptions C06_grouped_chunk_is_the_group_stack_channel_last.

Theorem C06_grouped_forward_on_last_axis_refuted :
  exists (dg : nat) (Ys : nat -> nat -> nat -> nat -> nat) (g b c p : nat),
         (c < dg)%nat /\ chunk_ax1 dg (cat_last dg Ys) g b c p <> Ys g b c p.
Proof. exact (@GroupCatProofs.forward_cat_last_refuted). Qed.
Print Assumptions C06_grouped_forward_on_last_axis_refuted.

Theorem C06_tie_grouped_forward_axes :
  forall image : bool,
       map (fun tag : string => forward_axis tag image p_residual.p_residual) ["grvq"; "grfsq"; "grlfq"] =
       map (fun _ : string => Some (if image then Ax1 else AxLast)) ["grvq"; "grfsq"; "grlfq"].
Proof. exact (@GroupCatGlue.source_forward_axes). Qed.
Print Assumptions C06_tie_grouped_forward_axes.

Theorem C06_tie_grouped_split_dims :
  forallb (fun tag : string => split_dim_ok tag p_residual.p_residual) ["grvq"; "grfsq"; "grlfq"] = true.
Proof. exact (@GroupCatGlue.source_split_dims). Qed.
Print Assumptions C06_tie_grouped_split_dims.

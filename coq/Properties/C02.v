(* C02 -- returned indices decode back to the quantized output
   Only statements here: every theorem is closed by `exact <lemma proved in Proofs/ or Glue/>` and followed by
   Print Assumptions.  GENERATED skeleton (tools/mkprops.py), statements are the ones Coq prints for the lemmas. *)
From Coq Require Import ZArith List Bool String Reals.
From VQ Require Import Num Model.Vec Model.Core Model.Residual Proofs.CoreNearest Proofs.ResidualProofs Proofs.CodecProofs Glue.CoreGlue Glue.Pin_p_residual Glue.Pin_p_decode.
From VQ Require Import Model.Einops Model.Layout Glue.EinopsGlueBase Glue.EinopsGlueMore.
From VQ Require Import Model.Machine Model.History Proofs.HistoryProofs.
From VQ Require Import Glue.Pin_fp_C02.
From VQ Require Import Model.Memo Proofs.MemoProofs Glue.Pin_p_simvq_codebook.
From VQ Require Import Model.GroupCat Proofs.GroupCatProofs Glue.GroupCatGlue.
Import ListNotations.
Open Scope R_scope.

Theorem C02_residual_decode_reproduces_forward :
  forall (d : nat) (cbs : list (list Rv)) (kept : nat) (x : Rv),
       Forall (fun cb : list Rv => cb <> [] /\ Forall (fun c : Rv => Datatypes.length c = d) cb) cbs ->
       Datatypes.length x = d ->
       let qs := map (vq_layer R_ops (negcdist R_ops sqrt)) cbs in
       rdecode R_ops d (map vq_table cbs) (snd (fst (rforward R_ops d qs kept x))) =
       fst (fst (rforward R_ops d qs kept x)).
Proof. exact (@decode_reproduces_forward). Qed.
Print Assumptions C02_residual_decode_reproduces_forward.

Theorem C02_minus_one_is_zero :
  forall (d : nat) (table : Z -> Rv), decode_entry R_ops d table (-1) = vzero R_ops d.
Proof. exact (@decode_minus_one_is_zero). Qed.
Print Assumptions C02_minus_one_is_zero.

Theorem C02_prefix_is_partial_sum :
  forall (d : nat) (tables : list (Z -> Rv)) (idx : list Z) (k : nat),
       (k <= Datatypes.length idx)%nat ->
       Datatypes.length idx = Datatypes.length tables ->
       Forall (fun i : Z => i <> (-1)%Z) (firstn k idx) ->
       Forall (fun t : Z -> Rv => forall i : Z, Datatypes.length (t i) = d) tables ->
       rdecode R_ops d tables (firstn k idx) =
       vsum R_ops d (firstn k (map2 (fun (t : Z -> Rv) (i : Z) => t i) tables idx)).
Proof. exact (@decode_prefix_is_partial_sum). Qed.
Print Assumptions C02_prefix_is_partial_sum.

Theorem C02_dropped_layers_report_minus_one :
  forall (d : nat) (qs : list layer) (kept : nat) (x : Rv) (k : nat),
       (kept <= k < Datatypes.length qs)%nat ->
       nth k (snd (fst (rforward R_ops d qs kept x))) 0%Z = (-1)%Z /\
       nth k (snd (rforward R_ops d qs kept x)) [] = vzero R_ops d.
Proof. exact (@rforward_dropped_layers). Qed.
Print Assumptions C02_dropped_layers_report_minus_one.

Theorem C02_all_codes_sum_to_output :
  forall (d : nat) (qs : list layer) (kept : nat) (x : Rv),
       dim_ok d qs ->
       Datatypes.length x = d ->
       vsum R_ops d (snd (rforward R_ops d qs kept x)) = fst (fst (rforward R_ops d qs kept x)).
Proof. exact (@rforward_all_codes_sum). Qed.
Print Assumptions C02_all_codes_sum_to_output.

Theorem C02_layer_code_is_table_entry :
  forall (d : nat) (cbs : list (list Rv)) (x : Rv) (k : nat),
       Forall (fun cb : list Rv => cb <> [] /\ Forall (fun c : Rv => Datatypes.length c = d) cb) cbs ->
       Datatypes.length x = d ->
       (k < Datatypes.length cbs)%nat ->
       let qs := map (vq_layer R_ops (negcdist R_ops sqrt)) cbs in
       let l := rloop R_ops qs x (vzero R_ops d) in
       exists i : nat,
         nth k (indices_of l) 0%Z = Z.of_nat i /\
         nearest_rel (nth k cbs []) (nth k (residuals_of l) []) i /\
         nth k (codes_of l) [] = nth i (nth k cbs []) [].
Proof. exact (@layer_index_is_nearest_for_residual). Qed.
Print Assumptions C02_layer_code_is_table_entry.

Theorem C02_index_codec_roundtrip :
  forall ls : list Z,
       Forall (fun l : Z => (0 < l)%Z) ls ->
       forall i : Z,
       (0 <= i < Codec.prod ls)%Z -> Codec.enc ls (Codec.dec ls i) = i /\ Codec.in_range ls (Codec.dec ls i).
Proof. exact (@mixed_radix_enc_dec). Qed.
Print Assumptions C02_index_codec_roundtrip.

Theorem C02_index_codec_inverse :
  forall ls : list Z,
       Forall (fun l : Z => (0 < l)%Z) ls ->
       forall ds : list Z,
       Codec.in_range ls ds ->
       Codec.dec ls (Codec.enc ls ds) = ds /\ (0 <= Codec.enc ls ds < Codec.prod ls)%Z.
Proof. exact (@mixed_radix_dec_enc). Qed.
Print Assumptions C02_index_codec_inverse.

Theorem C02_distinct_indices_distinct_codes :
  forall (ls : list Z) (i j : Z),
       Forall (fun l : Z => (2 <= l)%Z) ls ->
       (0 <= i < Codec.prod ls)%Z ->
       (0 <= j < Codec.prod ls)%Z -> Codec.fsq_code R_ops ls i = Codec.fsq_code R_ops ls j -> i = j.
Proof. exact (@fsq_codes_distinct). Qed.
Print Assumptions C02_distinct_indices_distinct_codes.

Theorem C02_tie_residual_decoders :
  p_residual.p_residual = pinned_p_residual.
Proof. exact (@pin_p_residual). Qed.
Print Assumptions C02_tie_residual_decoders.

Theorem C02_tie_public_decoders :
  p_decode.p_decode = pinned_p_decode.
Proof. exact (@pin_p_decode). Qed.
Print Assumptions C02_tie_public_decoders.

(* implicit *)
Theorem C02_src_rvq_minus_one_mask :
  forall A : Type,
       @is_layer_mask A pr_more.pr_more "ResidualVQ.get_codes_from_indices:arg:all_codes.masked_fill".
Proof. exact (@EinopsGlueMore.einops_rvq_layer_mask). Qed.
Print Assumptions C02_src_rvq_minus_one_mask.

(* implicit *)
Theorem C02_src_rfsq_minus_one_mask :
  forall A : Type,
       @is_layer_mask A pr_more.pr_more "ResidualFSQ.get_codes_from_indices:arg:all_codes.masked_fill".
Proof. exact (@EinopsGlueMore.einops_rfsq_layer_mask). Qed.
Print Assumptions C02_src_rfsq_minus_one_mask.

(* implicit *)
Theorem C02_src_rlfq_minus_one_mask :
  forall A : Type,
       @is_layer_mask A pr_more.pr_more "ResidualLFQ.get_codes_from_indices:arg:all_codes.masked_fill".
Proof. exact (@EinopsGlueMore.einops_rlfq_layer_mask). Qed.
Print Assumptions C02_src_rlfq_minus_one_mask.

(* implicit *)
Theorem C02_src_rsvq_minus_one_mask :
  forall A : Type,
       @is_layer_mask A pr_more.pr_more "ResidualSimVQ.get_codes_from_indices:arg:all_codes.masked_fill".
Proof. exact (@EinopsGlueMore.einops_rsvq_layer_mask). Qed.
Print Assumptions C02_src_rsvq_minus_one_mask.

(* implicit *)
Theorem C02_src_rfsq_layer_axis :
  forall A : Type,
       exists p : pattern,
         role_pattern pr_more.pr_more "ResidualFSQ.get_codes_from_indices:indices" "rearrange" 0 =
         @Some pattern p /\
         wf_rearrange p = true /\
         (forall (e : env) (J : nat -> nat -> nat -> A) (b n q : nat),
          (b < e "b")%nat ->
          (n < e "...")%nat -> (q < e "q")%nat -> @rearr A p e (@of3 A J) [b; n; q] = J b q n).
Proof. exact (@EinopsGlueMore.einops_rfsq_layer_axis). Qed.
Print Assumptions C02_src_rfsq_layer_axis.

(* implicit *)
Theorem C02_src_rsvq_decode_layout :
  forall A : Type,
       exists p : pattern,
         role_pattern pr_more.pr_more "ResidualSimVQ.get_codes_from_indices:all_codes" "rearrange" 0 =
         @Some pattern p /\
         wf_rearrange p = true /\
         (forall (e : env) (Q : nat -> nat -> nat -> nat -> A) (q b d n : nat),
          (q < e "q")%nat ->
          (b < e "b")%nat ->
          (d < e "d")%nat -> (n < e "...")%nat -> @rearr A p e (@of4 A Q) [q; b; d; n] = Q q b n d).
Proof. exact (@EinopsGlueMore.einops_rsvq_decode_out). Qed.
Print Assumptions C02_src_rsvq_decode_layout.

(* implicit *)
Theorem C02_src_simvq_decode_layout :
  forall A : Type, @is_cfirst_out A pr_more.pr_more "SimVQ.indices_to_codes:quantized" 0.
Proof. exact (@EinopsGlueMore.einops_simvq_decode_out). Qed.
Print Assumptions C02_src_simvq_decode_layout.

(* implicit *)
Theorem C02_src_lq_decode_layout :
  forall A : Type, @is_cfirst_out A pr_more.pr_more "LatentQuantize.indices_to_codes:codes" 1.
Proof. exact (@EinopsGlueMore.einops_lq_decode_out). Qed.
Print Assumptions C02_src_lq_decode_layout.

(* implicit *)
Theorem C02_src_fsq_decode_layout :
  forall A : Type, @is_cfirst_out A pr_scalar.pr_scalar "FSQ.indices_to_codes:codes" 1.
Proof. exact (@EinopsGlueMore.einops_fsq_decode_out). Qed.
Print Assumptions C02_src_fsq_decode_layout.

(* implicit *)
Theorem C02_src_lfq_decode_layout :
  forall A : Type, @is_cfirst_out A pr_scalar.pr_scalar "LFQ.indices_to_codes:codes" 1.
Proof. exact (@EinopsGlueMore.einops_lfq_decode_out). Qed.
Print Assumptions C02_src_lfq_decode_layout.

(* implicit *)
Theorem C02_history_decode_reads_current_codebook :
  forall (F : Type) (o : ops F) (fsqrt : F -> F) (cfg : ccfg F) (s : cstate F) 
         (hs : list (hop F)) (s0 : cstate F) (idx : list nat) (cs : list (vec F)),
       @In (cstate F * op F * out F) (s0, @Decode F idx, @Codes F cs) (@htrace F o fsqrt cfg s hs) ->
       cs = @decode F s0 idx.
Proof. exact (@HistoryProofs.history_decode_reads_current_codebook). Qed.
Print Assumptions C02_history_decode_reads_current_codebook.

Theorem C02_tie_source_footprint :
  fp_C02.fp_C02 = pinned_fp_C02.
Proof. exact (@Pin_fp_C02.pin_fp_C02). Qed.
Print Assumptions C02_tie_source_footprint.

Theorem C02_derived_codebook_calls_use_current_parameters :
  forall (P C : Type) (f : P -> C) (h : list (mop P)) (s : mstate P C),
       Forall (fun pc : P * C => snd pc = f (fst pc)) (run P C (step_plain P C f) s h).
Proof. exact (@MemoProofs.plain_calls_use_current). Qed.
Print Assumptions C02_derived_codebook_calls_use_current_parameters.

Theorem C02_memoised_derived_codebook_refuted :
  forall (P C : Type) (f : P -> C) (p p' : P),
       f p <> f p' ->
       exists (h : list (mop P)) (s : mstate P C),
         ~ Forall (fun pc : P * C => snd pc = f (fst pc)) (run P C (step_memo P C f) s h).
Proof. exact (@MemoProofs.memo_refuted). Qed.
Print Assumptions C02_memoised_derived_codebook_refuted.

Theorem C02_tie_simvq_codebook_derivation_pinned :
  p_simvq_codebook.p_simvq_codebook = pinned_p_simvq_codebook.
Proof. exact (@Pin_p_simvq_codebook.pin_p_simvq_codebook). Qed.
Print Assumptions C02_tie_simvq_codebook_derivation_pinned.

(* implicit *)
Theorem C02_grouped_decode_is_channel_last_output :
  forall (A : Type) (dg : nat) (X : nat -> nat -> nat -> A) (b p c : nat),
       (0 < dg)%nat ->
       @cat_last A dg (fun g : nat => @to_last A (@chunk_ax1 A dg X g)) b p c = @to_last A X b p c.
Proof. exact (@GroupCatProofs.decode_cat_last_is_to_last). Qed.
Print Assumptions C02_grouped_decode_is_channel_last_output.

Theorem C02_grouped_decode_shape :
  forall G B P dg : nat, cat_shape AxLast G (B, P, dg) = (B, P, (G * dg)%nat).
Proof. exact (@GroupCatProofs.decode_shape_last). Qed.
Print Assumptions C02_grouped_decode_shape.

Theorem C02_grouped_decode_on_axis_1_has_wrong_shape :
  forall G B P dg : nat,
       (1 < G)%nat -> (0 < dg)%nat -> cat_shape Ax1 G (B, P, dg) <> (B, P, (G * dg)%nat).
Proof. exact (@GroupCatProofs.decode_shape_ax1_wrong). Qed.
Print Assumptions C02_grouped_decode_on_axis_1_has_wrong_shape.

Theorem C02_tie_grouped_decode_axes :
  forall image : bool,
       decode_axis "grvq" image p_residual.p_residual = Some AxLast /\
       decode_axis "grlfq" image p_residual.p_residual = Some AxLast.
Proof. exact (@GroupCatGlue.source_decode_axes_vq_lfq). Qed.
Print Assumptions C02_tie_grouped_decode_axes.

Theorem C02_tie_grouped_fsq_decode_axis_sequences :
  decode_axis "grfsq" false p_residual.p_residual = Some AxLast.
Proof. exact (@GroupCatGlue.source_decode_axis_fsq_sequences). Qed.
Print Assumptions C02_tie_grouped_fsq_decode_axis_sequences.

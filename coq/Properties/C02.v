(* C02 -- returned indices decode back to the quantized output
   Only statements here: every theorem is closed by `exact <lemma proved in Proofs/ or Glue/>` and followed by
   Print Assumptions.  GENERATED skeleton (tools/mkprops.py), statements are the ones Coq prints for the lemmas. *)
From Coq Require Import ZArith List Bool String Reals.
From VQ Require Import Num Model.Vec Model.Core Model.Residual Proofs.CoreNearest Proofs.ResidualProofs Proofs.CodecProofs Glue.CoreGlue Glue.Pin_p_residual Glue.Pin_p_decode.
Import ListNotations.
Open Scope R_scope.

Theorem C02_residual_decode_reproduces_forward :
  forall (d : nat) (cbs : list (list Rv)) (kept : nat) (x : Rv),
       Forall (fun cb : list Rv => cb <> [] /\ Forall (fun c : Rv => Datatypes.length c = d) cb) cbs ->
       Datatypes.length x = d ->
       let qs := map (vq_layer R_ops (negcdist R_ops sqrt)) cbs in
       rdecode R_ops d (map vq_table cbs) (snd (fst (rforward R_ops d qs kept x))) =
       fst (fst (rforward R_ops d qs kept x)).
Proof. exact (@decode_reproduces_forward). Qed.
Print Assumptions C02_residual_decode_reproduces_forward.

Theorem C02_minus_one_is_zero :
  forall (d : nat) (table : Z -> Rv), decode_entry R_ops d table (-1) = vzero R_ops d.
Proof. exact (@decode_minus_one_is_zero). Qed.
Print Assumptions C02_minus_one_is_zero.

Theorem C02_prefix_is_partial_sum :
  forall (d : nat) (tables : list (Z -> Rv)) (idx : list Z) (k : nat),
       (k <= Datatypes.length idx)%nat ->
       Datatypes.length idx = Datatypes.length tables ->
       Forall (fun i : Z => i <> (-1)%Z) (firstn k idx) ->
       Forall (fun t : Z -> Rv => forall i : Z, Datatypes.length (t i) = d) tables ->
       rdecode R_ops d tables (firstn k idx) =
       vsum R_ops d (firstn k (map2 (fun (t : Z -> Rv) (i : Z) => t i) tables idx)).
Proof. exact (@decode_prefix_is_partial_sum). Qed.
Print Assumptions C02_prefix_is_partial_sum.

Theorem C02_dropped_layers_report_minus_one :
  forall (d : nat) (qs : list layer) (kept : nat) (x : Rv) (k : nat),
       (kept <= k < Datatypes.length qs)%nat ->
       nth k (snd (fst (rforward R_ops d qs kept x))) 0%Z = (-1)%Z /\
       nth k (snd (rforward R_ops d qs kept x)) [] = vzero R_ops d.
Proof. exact (@rforward_dropped_layers). Qed.
Print Assumptions C02_dropped_layers_report_minus_one.

Theorem C02_all_codes_sum_to_output :
  forall (d : nat) (qs : list layer) (kept : nat) (x : Rv),
       dim_ok d qs ->
       Datatypes.length x = d ->
       vsum R_ops d (snd (rforward R_ops d qs kept x)) = fst (fst (rforward R_ops d qs kept x)).
Proof. exact (@rforward_all_codes_sum). Qed.
Print Assumptions C02_all_codes_sum_to_output.

Theorem C02_layer_code_is_table_entry :
  forall (d : nat) (cbs : list (list Rv)) (x : Rv) (k : nat),
       Forall (fun cb : list Rv => cb <> [] /\ Forall (fun c : Rv => Datatypes.length c = d) cb) cbs ->
       Datatypes.length x = d ->
       (k < Datatypes.length cbs)%nat ->
       let qs := map (vq_layer R_ops (negcdist R_ops sqrt)) cbs in
       let l := rloop R_ops qs x (vzero R_ops d) in
       exists i : nat,
         nth k (indices_of l) 0%Z = Z.of_nat i /\
         nearest_rel (nth k cbs []) (nth k (residuals_of l) []) i /\
         nth k (codes_of l) [] = nth i (nth k cbs []) [].
Proof. exact (@layer_index_is_nearest_for_residual). Qed.
Print Assumptions C02_layer_code_is_table_entry.

Theorem C02_index_codec_roundtrip :
  forall ls : list Z,
       Forall (fun l : Z => (0 < l)%Z) ls ->
       forall i : Z,
       (0 <= i < Codec.prod ls)%Z -> Codec.enc ls (Codec.dec ls i) = i /\ Codec.in_range ls (Codec.dec ls i).
Proof. exact (@mixed_radix_enc_dec). Qed.
Print Assumptions C02_index_codec_roundtrip.

Theorem C02_index_codec_inverse :
  forall ls : list Z,
       Forall (fun l : Z => (0 < l)%Z) ls ->
       forall ds : list Z,
       Codec.in_range ls ds ->
       Codec.dec ls (Codec.enc ls ds) = ds /\ (0 <= Codec.enc ls ds < Codec.prod ls)%Z.
Proof. exact (@mixed_radix_dec_enc). Qed.
Print Assumptions C02_index_codec_inverse.

Theorem C02_distinct_indices_distinct_codes :
  forall (ls : list Z) (i j : Z),
       Forall (fun l : Z => (2 <= l)%Z) ls ->
       (0 <= i < Codec.prod ls)%Z ->
       (0 <= j < Codec.prod ls)%Z -> Codec.fsq_code R_ops ls i = Codec.fsq_code R_ops ls j -> i = j.
Proof. exact (@fsq_codes_distinct). Qed.
Print Assumptions C02_distinct_indices_distinct_codes.

Theorem C02_tie_residual_decoders :
  p_residual.p_residual =
       ["rvq.loop:(quantizer_index, (vq, maybe_mlp)) in enumerate(zip(self.layers, maybe_code_transforms))";
        "rvq.body:quantized, *rest = vq(residual, mask=mask, indices=layer_indices, sample_codebook_temp=sample_codebook_temp, freeze_codebook=freeze_codebook, codebook_transform_fn=maybe_mlp)";
        "rvq.body:residual = residual - quantized.detach()";
        "rvq.body:quantized_out = quantized_out + quantized";
        "rvq.body:maybe_mlp = partial(maybe_mlp, condition=quantized_out)";
        "rvq.init:x = self.project_in(x)"; "rvq.init:quantized_out = 0.0"; "rvq.init:residual = x";
        "rvq.init:quantized_out = self.project_out(quantized_out)";
        "rvq.stack:all_losses, all_indices = map(partial(torch.stack, dim=-1), (all_losses, all_indices))";
        "rvq.stack:indices = torch.stack(indices)"; "rvq.decode:mask = indices == -1.0";
        "rvq.decode:indices = indices.masked_fill(mask, 0)";
        "rvq.decode:all_codes = all_codes.masked_fill(rearrange(mask, 'b n q -> q b n 1'), 0.0)";
        "rvq.decode:indices = F.pad(indices, (0, self.num_quantizers - quantize_dim), value=-1)";
        "rvq.decode:all_codes = get_at('q [c] d, b n q -> q b n d', self.codebooks, indices)";
        "rvq.decode:all_codes = []"; "rvq.decode:quantized_out = 0.0";
        "rvq.decode:all_codes = torch.stack(all_codes)"; "rvq.decode:quantized_out += layer_codes";
        "rvq.decode:codes = maybe_transform_mlp(codes, condition=quantized_out)";
        "rvq.decode:layer_codes = get_at('b n [c] d, b n -> b n d', codes, indices)";
        "rvq.decode:layer_codes = get_at('[c] d, b n -> b n d', codes, indices)";
        "rvq.output:self.project_out(codes_summed) ; codes = self.get_codes_from_indices(indices) ; codes_summed = reduce(codes, 'q ... -> ...', 'sum')";
        "rfsq.loop:(quantizer_index, (layer, scale)) in enumerate(zip(self.layers, self.scales))";
        "rfsq.body:quantized, indices = layer(residual / scale)"; "rfsq.body:quantized = quantized * scale";
        "rfsq.body:residual = residual - quantized.detach()";
        "rfsq.body:quantized_out = quantized_out + quantized"; "rfsq.init:x = self.project_in(x)";
        "rfsq.init:quantized_out = 0.0"; "rfsq.init:residual = x";
        "rfsq.init:quantized_out = self.project_out(quantized_out)";
        "rfsq.stack:all_indices = torch.stack(all_indices, dim=-1)";
        "rfsq.init:x = rearrange(x, 'b d ... -> b ... d')";
        "rfsq.init:x = (x / clamp_value).tanh() * clamp_value";
        "rfsq.init:quantized_out = rearrange(quantized_out, 'b ... d -> b d ...')";
        "rfsq.decode:mask = indices == -1"; "rfsq.decode:indices = indices.masked_fill(mask, 0)";
        "rfsq.decode:all_codes = get_at('q [c] d, b n q -> q b n d', self.codebooks, indices)";
        "rfsq.decode:all_codes = all_codes.masked_fill(rearrange(mask, 'b n q -> q b n 1'), 0.0)";
        "rfsq.decode:scales = rearrange(self.scales, 'q d -> q 1 1 d')";
        "rfsq.decode:all_codes = all_codes * scales";
        "rfsq.decode:indices = rearrange(indices, 'b q ... -> b ... q')";
        "rfsq.decode:indices = F.pad(indices, (0, self.num_quantizers - quantize_dim), value=-1)";
        "rfsq.output:self.project_out(codes_summed) ; codes = self.get_codes_from_indices(indices) ; codes_summed = reduce(codes, 'q ... -> ...', 'sum')";
        "rlfq.loop:(quantizer_index, layer) in enumerate(self.layers)";
        "rlfq.body:quantized, indices, loss = layer(residual, mask=mask)";
        "rlfq.body:residual = residual - quantized.detach()";
        "rlfq.body:quantized_out = quantized_out + quantized"; "rlfq.init:x = self.project_in(x)";
        "rlfq.init:quantized_out = 0.0"; "rlfq.init:residual = x";
        "rlfq.init:quantized_out = self.project_out(quantized_out)";
        "rlfq.stack:all_losses, all_indices = map(partial(torch.stack, dim=-1), (all_losses, all_indices))";
        "rlfq.decode:mask = indices == -1.0"; "rlfq.decode:indices = indices.masked_fill(mask, 0)";
        "rlfq.decode:all_codes = get_at('q [c] d, b n q -> q b n d', self.codebooks, indices)";
        "rlfq.decode:all_codes = all_codes.masked_fill(rearrange(mask, 'b n q -> q b n 1'), 0.0)";
        "rlfq.decode:indices = F.pad(indices, (0, self.num_quantizers - quantize_dim), value=-1)";
        "rlfq.output:self.project_out(codes_summed) ; codes = self.get_codes_from_indices(indices) ; codes_summed = reduce(codes, 'q ... -> ...', 'sum')";
        "rsvq.loop:(quantizer_index, sim_vq) in enumerate(self.layers)";
        "rsvq.body:quantized, *rest = sim_vq(residual)";
        "rsvq.body:residual = residual - quantized.detach()";
        "rsvq.body:quantized_out = quantized_out + quantized"; "rsvq.init:quantized_out = 0.0";
        "rsvq.init:residual = x";
        "rsvq.stack:all_losses, all_indices = map(partial(torch.stack, dim=-1), (all_losses, all_indices))";
        "rsvq.decode:mask = indices == -1.0"; "rsvq.decode:indices = indices.masked_fill(mask, 0)";
        "rsvq.decode:all_codes = get_at('q [c] d, b n q -> q b n d', self.codebooks, indices)";
        "rsvq.decode:all_codes = all_codes.masked_fill(rearrange(mask, 'b n q -> q b n 1'), 0.0)";
        "rsvq.decode:all_codes = inverse(all_codes, 'q b * d')";
        "rsvq.decode:indices = F.pad(indices, (0, self.num_quantizers - quantize_dim), value=-1)";
        "rsvq.decode:all_codes = rearrange(all_codes, 'q b ... d -> q b d ...')";
        "rsvq.output:summed_residual_codes ; all_codes = self.get_codes_from_indices(indices) ; summed_residual_codes = reduce(all_codes, 'q ... -> ...', 'sum')";
        "rfsq.scales:scales.append((levels_tensor - 1) ** (-ind))"; "rlfq.scale:2 ** (-ind)";
        "grvq.fwd:x = x.chunk(self.groups, dim=split_dim)";
        "grvq.fwd:forward_kwargs = dict(return_all_codes=return_all_codes, sample_codebook_temp=sample_codebook_temp, mask=mask, freeze_codebook=freeze_codebook, rand_quantize_dropout_fixed_seed=get_maybe_sync_seed(device) if self.training else None)";
        "grvq.fwd:out = tuple((rvq(chunk, indices=chunk_indices, **forward_kwargs) for rvq, chunk, chunk_indices in zip_longest(self.rvqs, x, indices)))";
        "grvq.fwd:out = tuple(zip(*out))"; "grvq.fwd:quantized = torch.cat(quantized, dim=split_dim)";
        "grvq.fwd:all_indices = torch.stack(all_indices)";
        "grvq.split_dim:1 if self.accept_image_fmap else -1"; "grvq.decode:torch.cat(outputs, dim=-1)";
        "grfsq.fwd:x = x.chunk(self.groups, dim=split_dim)";
        "grfsq.fwd:forward_kwargs = dict(return_all_codes=return_all_codes, rand_quantize_dropout_fixed_seed=get_maybe_sync_seed(device) if self.training else None)";
        "grfsq.fwd:out = tuple((rvq(chunk, **forward_kwargs) for rvq, chunk in zip(self.rvqs, x)))";
        "grfsq.fwd:out = tuple(zip(*out))"; "grfsq.fwd:quantized = torch.cat(quantized, dim=split_dim)";
        "grfsq.fwd:all_indices = torch.stack(all_indices)";
        "grfsq.split_dim:1 if self.accept_image_fmap else -1";
        "grfsq.decode:torch.cat(outputs, dim=self.split_dim)";
        "grlfq.fwd:x = x.chunk(self.groups, dim=split_dim)";
        "grlfq.fwd:forward_kwargs = dict(mask=mask, return_all_codes=return_all_codes, rand_quantize_dropout_fixed_seed=get_maybe_sync_seed(device) if self.training else None)";
        "grlfq.fwd:out = tuple((rvq(chunk, **forward_kwargs) for rvq, chunk in zip(self.rvqs, x)))";
        "grlfq.fwd:out = tuple(zip(*out))"; "grlfq.fwd:quantized = torch.cat(quantized, dim=split_dim)";
        "grlfq.fwd:all_indices = torch.stack(all_indices)";
        "grlfq.split_dim:1 if self.accept_image_fmap else -1";
        "grlfq.decode:torch.cat(outputs, dim=self.split_dim)"].
Proof. exact (@pin_p_residual). Qed.
Print Assumptions C02_tie_residual_decoders.

Theorem C02_tie_public_decoders :
  p_decode.p_decode =
       ["VectorQuantize.get_codes_from_indices:codebook = self.codebook";
        "VectorQuantize.get_codes_from_indices:is_multiheaded = codebook.ndim > 2";
        "VectorQuantize.get_codes_from_indices:if not is_multiheaded:     codes = codebook[indices]     if self.heads > 1:         codes = rearrange(codes, '... h d -> ... (h d)') else:     indices, unpack_one = pack_one(indices, 'b * h')     indices = rearrange(indices, 'b n h -> b h n')     indices = repeat(indices, 'b h n -> b h n d', d=codebook.shape[-1])     codebook = repeat(codebook, 'h n d -> b h n d', b=indices.shape[0])     codes = codebook.gather(2, indices)     codes = rearrange(codes, 'b h n d -> b n (h d)')     codes = unpack_one(codes, 'b * d')";
        "VectorQuantize.get_codes_from_indices:if not self.channel_last:     codes = rearrange(codes, 'b ... d -> b d ...')";
        "VectorQuantize.get_codes_from_indices:return codes";
        "VectorQuantize.get_output_from_indices:codes = self.get_codes_from_indices(indices)";
        "VectorQuantize.get_output_from_indices:if self.channel_last:     return self.project_out(codes)";
        "VectorQuantize.get_output_from_indices:codes = rearrange(codes, 'b d ... -> b ... d')";
        "VectorQuantize.get_output_from_indices:return rearrange(self.project_out(codes), 'b ... d -> b d ...')";
        "SimVQ.indices_to_codes:implicit_codebook = self.codebook";
        "SimVQ.indices_to_codes:frozen_codes = get_at('[c] d, b ... -> b ... d', self.frozen_codebook, indices)";
        "SimVQ.indices_to_codes:quantized = self.code_transform(frozen_codes)";
        "SimVQ.indices_to_codes:if self.channel_first:     quantized = rearrange(quantized, 'b ... d -> b d ...')";
        "SimVQ.indices_to_codes:return quantized"; "FSQ.indices_to_codes:assert exists(indices)";
        "FSQ.indices_to_codes:is_img_or_video = indices.ndim >= 3 + int(self.keep_num_codebooks_dim)";
        "FSQ.indices_to_codes:codes = self._indices_to_codes(indices)";
        "FSQ.indices_to_codes:if self.keep_num_codebooks_dim:     codes = rearrange(codes, '... c d -> ... (c d)')";
        "FSQ.indices_to_codes:codes = self.project_out(codes)";
        "FSQ.indices_to_codes:if is_img_or_video or self.channel_first:     codes = rearrange(codes, 'b ... d -> b d ...')";
        "FSQ.indices_to_codes:return codes";
        "LFQ.indices_to_codes:is_img_or_video = indices.ndim >= 3 + int(self.keep_num_codebooks_dim)";
        "LFQ.indices_to_codes:should_transpose = default(self.channel_first, is_img_or_video)";
        "LFQ.indices_to_codes:if not self.keep_num_codebooks_dim:     indices = rearrange(indices, '... -> ... 1')";
        "LFQ.indices_to_codes:bits = (indices[..., None].int() & self.mask != 0).to(self.dtype)";
        "LFQ.indices_to_codes:codes = self.bits_to_codes(bits)";
        "LFQ.indices_to_codes:codes = self.maybe_l2norm(codes)";
        "LFQ.indices_to_codes:codes = rearrange(codes, '... c d -> ... (c d)')";
        "LFQ.indices_to_codes:if project_out:     codes = self.project_out(codes)";
        "LFQ.indices_to_codes:if should_transpose:     codes = rearrange(codes, 'b ... d -> b d ...')";
        "LFQ.indices_to_codes:return codes";
        "LatentQuantize.indices_to_codes:indices = rearrange(indices, '... -> ... 1')";
        "LatentQuantize.indices_to_codes:codes_non_centered = indices // self._basis % self._levels";
        "LatentQuantize.indices_to_codes:codes = self._scale_and_shift_inverse(codes_non_centered)";
        "LatentQuantize.indices_to_codes:if self.keep_num_codebooks_dim:     codes = rearrange(codes, '... c d -> ... (c d)')";
        "LatentQuantize.indices_to_codes:if project_out:     codes = self.project_out(codes)";
        "LatentQuantize.indices_to_codes:codes = rearrange(codes, 'b ... d -> b d ...')";
        "LatentQuantize.indices_to_codes:return codes"].
Proof. exact (@pin_p_decode). Qed.
Print Assumptions C02_tie_public_decoders.


(* C16 -- multi-process training keeps codebooks synchronised
   Only statements here: every theorem is closed by `exact <lemma proved in Proofs/ or Glue/>` and followed by
   Print Assumptions.  GENERATED skeleton (tools/mkprops.py), statements are the ones Coq prints for the lemmas. *)
From Coq Require Import ZArith Reals List Bool String.
From VQ Require Import Num Model.Vec Model.Core Model.Dist Proofs.DistProofs Glue.CoreGlue Glue.Pin_p_dist Glue.Pin_o_euclid_collectives Glue.Pin_o_cosine_collectives Glue.Pin_o_kmeans_collectives.
From VQ Require Import Glue.Pin_fp_C16.
Import ListNotations.
Open Scope R_scope.

Theorem C16_counts_additive :
  forall (K : nat) (a b : list (nat * bool)),
       counts R_ops K (a ++ b) = vadd R_ops (counts R_ops K a) (counts R_ops K b).
Proof. exact (@counts_app). Qed.
Print Assumptions C16_counts_additive.

Theorem C16_sums_additive :
  forall (d : nat) (xa xb : list Rv) (a b : list (nat * bool)) (j : nat),
       Datatypes.length xa = Datatypes.length a ->
       Forall (fun v : Rv => Datatypes.length v = d) xa ->
       Forall (fun v : Rv => Datatypes.length v = d) xb ->
       sum_j R_ops d (xa ++ xb) (a ++ b) j = vadd R_ops (sum_j R_ops d xa a j) (sum_j R_ops d xb b j).
Proof. exact (@sum_j_app). Qed.
Print Assumptions C16_sums_additive.

Theorem C16_reduced_counts_are_global :
  forall (K : nat) (ranks : list rb),
       vsum_all R_ops K (map (fun b : rb => counts R_ops K (snd b)) ranks) =
       counts R_ops K (snd (concat_batch ranks)).
Proof. exact (@reduced_counts_are_global). Qed.
Print Assumptions C16_reduced_counts_are_global.

Theorem C16_reduced_sums_are_global :
  forall (K d : nat) (ranks : list rb),
       ranks_ok d ranks ->
       msum_all R_ops K d (map (fun b : rb => sums R_ops K d (fst b) (snd b)) ranks) =
       sums R_ops K d (fst (concat_batch ranks)) (snd (concat_batch ranks)).
Proof. exact (@reduced_sums_are_global). Qed.
Print Assumptions C16_reduced_sums_are_global.

Theorem C16_equals_single_process_on_concatenation :
  forall (decay : R) (d : nat) (s : cstate R) (ranks : list rb) (r : nat),
       ranks_ok d ranks ->
       dist_accumulate R_ops decay d true true s ranks r =
       ema_accumulate R_ops decay d s (fst (concat_batch ranks)) (snd (concat_batch ranks)).
Proof. exact (@dist_equals_single_process). Qed.
Print Assumptions C16_equals_single_process_on_concatenation.

Theorem C16_ranks_agree :
  forall (decay : R) (d : nat) (s : cstate R) (ranks : list rb) (r r' : nat),
       ranks_ok d ranks ->
       dist_accumulate R_ops decay d true true s ranks r = dist_accumulate R_ops decay d true true s ranks r'.
Proof. exact (@ranks_agree). Qed.
Print Assumptions C16_ranks_agree.

Theorem C16_ranks_agree_after_any_history :
  forall (decay : R) (d : nat) (hist : list (list rb)) (s : cstate R) (r r' : nat),
       Forall (ranks_ok d) hist -> dist_run decay d hist s r = dist_run decay d hist s r'.
Proof. exact (@ranks_agree_after_any_history). Qed.
Print Assumptions C16_ranks_agree_after_any_history.

Theorem C16_missing_sum_reduce_refuted :
  exists (s : cstate R) (ranks : list rb),
         ranks_ok 1 ranks /\
         dist_accumulate R_ops (/ 2) 1 true false s ranks 0 <>
         dist_accumulate R_ops (/ 2) 1 true false s ranks 1.
Proof. exact (@missing_sum_reduce_refuted). Qed.
Print Assumptions C16_missing_sum_reduce_refuted.

Theorem C16_missing_count_reduce_refuted :
  exists (s : cstate R) (ranks : list rb),
         ranks_ok 1 ranks /\
         dist_accumulate R_ops (/ 2) 1 false true s ranks 0 <>
         dist_accumulate R_ops (/ 2) 1 false true s ranks 1.
Proof. exact (@missing_count_reduce_refuted). Qed.
Print Assumptions C16_missing_count_reduce_refuted.

Theorem C16_synchronised_kmeans_equals_single_process :
  forall (score : Rv -> Rv -> R) (means : list Rv) (datas : list (list Rv)) (d : nat),
       Forall (fun data : list Rv => Forall (fun v : Rv => Datatypes.length v = d) data) datas ->
       Forall (fun v : Rv => Datatypes.length v = d) means ->
       List.concat datas <> [] ->
       means <> [] ->
       dist_kmeans_means R_ops score means datas =
       kmeans_iter R_ops score (fun v : vec R => v) (List.concat datas) means.
Proof. exact (@dist_kmeans_equals_single_process). Qed.
Print Assumptions C16_synchronised_kmeans_equals_single_process.

Theorem C16_lfq_rank_mean :
  forall (n : nat) (ps : list Rv) (i : nat),
       ps <> [] ->
       Forall (fun p : Rv => Datatypes.length p = n) ps ->
       (i < n)%nat ->
       nth i (rank_mean R_ops n ps) 0 =
       fsum R_ops (map (fun p : Rv => nth i p 0) ps) / INR (Datatypes.length ps).
Proof. exact (@rank_mean_is_mean). Qed.
Print Assumptions C16_lfq_rank_mean.

Theorem C16_tie_step_order :
  map fst o_euclid_collectives.o_euclid_collectives = step_order /\
       map fst o_cosine_collectives.o_cosine_collectives = step_order.
Proof. exact (@glue_step_order). Qed.
Print Assumptions C16_tie_step_order.

Theorem C16_tie_euclid_collectives :
  o_euclid_collectives.o_euclid_collectives = pinned_o_euclid_collectives.
Proof. exact (@pin_o_euclid_collectives). Qed.
Print Assumptions C16_tie_euclid_collectives.

Theorem C16_tie_cosine_collectives :
  o_cosine_collectives.o_cosine_collectives = pinned_o_cosine_collectives.
Proof. exact (@pin_o_cosine_collectives). Qed.
Print Assumptions C16_tie_cosine_collectives.

Theorem C16_tie_kmeans_collectives :
  o_kmeans_collectives.o_kmeans_collectives = pinned_o_kmeans_collectives.
Proof. exact (@pin_o_kmeans_collectives). Qed.
Print Assumptions C16_tie_kmeans_collectives.

Theorem C16_tie_distributed_wiring :
  p_dist.p_dist = pinned_p_dist.
Proof. exact (@pin_p_dist). Qed.
Print Assumptions C16_tie_distributed_wiring.

Theorem C16_tie_source_footprint :
  fp_C16.fp_C16 = pinned_fp_C16.
Proof. exact (@Pin_fp_C16.pin_fp_C16). Qed.
Print Assumptions C16_tie_source_footprint.

(* C11 -- dead codes are revived from the batch; live codes are untouched
   Only statements here: every theorem is closed by `exact <lemma proved in Proofs/ or Glue/>` and followed by
   Print Assumptions.  GENERATED skeleton (tools/mkprops.py), statements are the ones Coq prints for the lemmas. *)
From Coq Require Import ZArith List Bool String Reals.
From VQ Require Import Num Model.Vec Model.Core Proofs.CoreExpire Proofs.CorePure Glue.CoreGlue Glue.Pin_p_expire.
From VQ Require Import Glue.Pin_fp_C11.
From VQ Require Import Glue.Pin_p_rvq_flags.
Import ListNotations.
Open Scope R_scope.

Theorem C11_live_untouched :
  forall (thr reset : R) (picks es eas : list (vec R)) (cs : Rv) (j : nat),
       Datatypes.length es = Datatypes.length cs ->
       Datatypes.length eas = Datatypes.length cs ->
       (j < Datatypes.length cs)%nat ->
       ~ nth j cs 0 < thr ->
       nth j (rowsE (expire_rows R_ops thr reset picks es eas cs)) [] = nth j es [] /\
       nth j (rowsA (expire_rows R_ops thr reset picks es eas cs)) [] = nth j eas [] /\
       nth j (rowsC (expire_rows R_ops thr reset picks es eas cs)) 0 = nth j cs 0.
Proof. exact (@expire_live_untouched). Qed.
Print Assumptions C11_live_untouched.

Theorem C11_dead_revived :
  forall (thr reset : R) (picks : list Rv) (es eas : list (vec R)) (cs : Rv) (j : nat),
       Datatypes.length es = Datatypes.length cs ->
       Datatypes.length eas = Datatypes.length cs ->
       (j < Datatypes.length cs)%nat ->
       (dead_total thr cs <= Datatypes.length picks)%nat ->
       nth j cs 0 < thr ->
       let p := nth (dead_before thr cs j) picks [] in
       (dead_before thr cs j < Datatypes.length picks)%nat /\
       nth j (rowsE (expire_rows R_ops thr reset picks es eas cs)) [] = p /\
       nth j (rowsC (expire_rows R_ops thr reset picks es eas cs)) 0 = reset /\
       nth j (rowsA (expire_rows R_ops thr reset picks es eas cs)) [] = vscale R_ops reset p.
Proof. exact (@expire_dead_revived). Qed.
Print Assumptions C11_dead_revived.

Theorem C11_dead_from_pool :
  forall (thr reset : R) (picks : list Rv) (es eas : list (vec R)) (cs : Rv) (j : nat) (pool : list Rv),
       Datatypes.length es = Datatypes.length cs ->
       Datatypes.length eas = Datatypes.length cs ->
       (j < Datatypes.length cs)%nat ->
       (dead_total thr cs <= Datatypes.length picks)%nat ->
       Forall (fun p : Rv => In p pool) picks ->
       nth j cs 0 < thr -> In (nth j (rowsE (expire_rows R_ops thr reset picks es eas cs)) []) pool.
Proof. exact (@expire_dead_from_pool). Qed.
Print Assumptions C11_dead_from_pool.

Theorem C11_no_reexpire :
  forall (thr reset : R) (picks es eas : list (vec R)) (cs : Rv),
       Datatypes.length es = Datatypes.length cs ->
       Datatypes.length eas = Datatypes.length cs ->
       (dead_total thr cs <= Datatypes.length picks)%nat ->
       thr <= reset -> any_expired R_ops thr (rowsC (expire_rows R_ops thr reset picks es eas cs)) = false.
Proof. exact (@expire_no_reexpire). Qed.
Print Assumptions C11_no_reexpire.

Theorem C11_threshold_zero :
  forall (cosine : bool) (reset : R) (picks : list (vec R)) (s : cstate R),
       expire R_ops cosine 0 reset picks s = s.
Proof. exact (@expire_threshold_zero). Qed.
Print Assumptions C11_threshold_zero.

Theorem C11_nothing_dead :
  forall (cosine : bool) (thr reset : R) (picks : list (vec R)) (s : cstate R),
       any_expired R_ops thr (cluster_size s) = false -> expire R_ops cosine thr reset picks s = s.
Proof. exact (@expire_nothing_dead). Qed.
Print Assumptions C11_nothing_dead.

Theorem C11_only_in_unfrozen_training :
  forall (cfg : ccfg R) (training freeze : bool),
       g_expire cfg training freeze = true ->
       training = true /\ freeze = false /\ c_ema_update cfg = true /\ c_manual cfg = false.
Proof. exact (@expire_guard). Qed.
Print Assumptions C11_only_in_unfrozen_training.

Theorem C11_never_in_pure_calls :
  forall (F : Type) (o : ops F) (fsqrt : F -> F) (cfg : ccfg F) (training freeze has_mask : bool)
         (s : cstate F) (xs : list (vec F)) (valid : list bool) (idx : list nat) 
         (picks : list (vec F)),
       negb training || freeze = true ->
       cb_update o fsqrt cfg training freeze has_mask s xs valid idx picks = s.
Proof. exact (@update_pure). Qed.
Print Assumptions C11_never_in_pure_calls.

Theorem C11_step_order :
  forall (cfg : ccfg R) (has_mask : bool) (s1 : cstate R) (xs : list Rv) (valid : list bool)
         (idx : list nat) (picks : list Rv),
       g_expire cfg true false = true ->
       cb_update R_ops sqrt cfg true false has_mask s1 xs valid idx picks =
       expire R_ops (c_cosine cfg) (c_thr cfg) (c_reset cfg) picks
         (normalise R_ops (c_eps cfg) (post_of R_ops sqrt cfg)
            (ema_accumulate R_ops (c_decay cfg) (dim_of xs) s1 xs
               (combine idx (if has_mask then valid else map (fun _ : Rv => true) xs)))).
Proof. exact (@update_order). Qed.
Print Assumptions C11_step_order.

Theorem C11_shared_frozen_pure :
  forall (F : Type) (o : ops F) (fsqrt : F -> F) (cfg : ccfg F) (training freeze temp_pos : bool)
         (s : cstate F) (layers : list (list (vec F) * option (list bool) * oracle F)) 
         (picks : list (vec F)),
       initted s = true ->
       negb training || freeze = true ->
       Machine.shared_forward o fsqrt cfg training freeze temp_pos s layers picks = s.
Proof. exact (@shared_forward_pure). Qed.
Print Assumptions C11_shared_frozen_pure.

Theorem C11_tie_compare :
  forall c thr : R, k_expire_cmp.k_expire_cmp R_ops c thr = true <-> c < thr.
Proof. exact (@glue_expire_cmp). Qed.
Print Assumptions C11_tie_compare.

Theorem C11_tie_replace_guard :
  forall thr0 anyexp : bool,
       g_euclid_replace.g_euclid_replace thr0 anyexp = negb thr0 && anyexp /\
       g_cosine_replace.g_cosine_replace thr0 anyexp = negb thr0 && anyexp.
Proof. exact (@glue_replace_guard). Qed.
Print Assumptions C11_tie_replace_guard.

Theorem C11_tie_replace_guard_atoms :
  g_euclid_replace.g_euclid_replace_atoms =
       ["self_threshold_ema_dead_code_eq_0"; "torch_any_expired_codes"] /\
       g_cosine_replace.g_cosine_replace_atoms =
       ["self_threshold_ema_dead_code_eq_0"; "torch_any_expired_codes"].
Proof. exact (@glue_replace_guard_atoms). Qed.
Print Assumptions C11_tie_replace_guard_atoms.

Theorem C11_tie_update_guard :
  forall freeze ema manual training : bool,
       g_euclid_update_ema.g_euclid_update_ema freeze ema manual training =
       training && ema && negb freeze && negb manual /\
       g_cosine_update_ema.g_cosine_update_ema freeze ema manual training =
       training && ema && negb freeze && negb manual /\
       g_euclid_expire.g_euclid_expire freeze ema manual training =
       training && ema && negb freeze && negb manual /\
       g_cosine_expire.g_cosine_expire freeze ema manual training =
       training && ema && negb freeze && negb manual.
Proof. exact (@glue_update_guard). Qed.
Print Assumptions C11_tie_update_guard.

Theorem C11_tie_update_guard_atoms :
  g_euclid_update_ema.g_euclid_update_ema_atoms =
       ["freeze_codebook"; "self_ema_update"; "self_manual_ema_update"; "self_training"] /\
       g_cosine_update_ema.g_cosine_update_ema_atoms =
       ["freeze_codebook"; "self_ema_update"; "self_manual_ema_update"; "self_training"] /\
       g_euclid_expire.g_euclid_expire_atoms =
       ["freeze_codebook"; "self_ema_update"; "self_manual_ema_update"; "self_training"] /\
       g_cosine_expire.g_cosine_expire_atoms =
       ["freeze_codebook"; "self_ema_update"; "self_manual_ema_update"; "self_training"].
Proof. exact (@glue_update_guard_atoms). Qed.
Print Assumptions C11_tie_update_guard_atoms.

Theorem C11_tie_shared_guards :
  forall freeze shared training : bool,
       g_rvq_shared_update.g_rvq_shared_update freeze shared training = training && shared && negb freeze /\
       g_rvq_shared_expire.g_rvq_shared_expire freeze shared training = training && shared && negb freeze /\
       g_rvq_shared_opt.g_rvq_shared_opt freeze shared training = training && shared && negb freeze.
Proof. exact (@glue_shared_guards). Qed.
Print Assumptions C11_tie_shared_guards.

Theorem C11_tie_shared_guards_atoms :
  g_rvq_shared_update.g_rvq_shared_update_atoms =
       ["freeze_codebook"; "self_shared_codebook"; "self_training"] /\
       g_rvq_shared_expire.g_rvq_shared_expire_atoms =
       ["freeze_codebook"; "self_shared_codebook"; "self_training"] /\
       g_rvq_shared_opt.g_rvq_shared_opt_atoms = ["freeze_codebook"; "self_shared_codebook"; "self_training"].
Proof. exact (@glue_shared_guards_atoms). Qed.
Print Assumptions C11_tie_shared_guards_atoms.

Theorem C11_tie_step_order :
  map fst o_euclid_collectives.o_euclid_collectives = step_order /\
       map fst o_cosine_collectives.o_cosine_collectives = step_order.
Proof. exact (@glue_step_order). Qed.
Print Assumptions C11_tie_step_order.

Theorem C11_tie_expire_dataflow :
  p_expire.p_expire = pinned_p_expire.
Proof. exact (@pin_p_expire). Qed.
Print Assumptions C11_tie_expire_dataflow.

Theorem C11_tie_source_footprint :
  fp_C11.fp_C11 = pinned_fp_C11.
Proof. exact (@Pin_fp_C11.pin_fp_C11). Qed.
Print Assumptions C11_tie_source_footprint.

Theorem C11_tie_residual_stack_flags_are_the_constructor_arguments :
  p_rvq_flags.p_rvq_flags = pinned_p_rvq_flags.
Proof. exact (@Pin_p_rvq_flags.pin_p_rvq_flags). Qed.
Print Assumptions C11_tie_residual_stack_flags_are_the_constructor_arguments.

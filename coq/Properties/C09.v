(* C09 -- padding is inert: masked positions influence nothing
   Only statements here: every theorem is closed by `exact <lemma proved in Proofs/ or Glue/>` and followed by
   Print Assumptions.  GENERATED skeleton (tools/mkprops.py), statements are the ones Coq prints for the lemmas. *)
From Coq Require Import ZArith List Bool String Reals.
From VQ Require Import Num Model.Vec Model.Core Proofs.CoreEMA Proofs.CoreMask Glue.CoreGlue Glue.Pin_p_mask.
From VQ Require Import Model.Einops Glue.EinopsGlueBase Glue.EinopsGlueMask.
From VQ Require Import Glue.LensGlue.
From VQ Require Import Glue.Pin_fp_C09.
From VQ Require Import Proofs.EinopsProofs Proofs.EinopsRepeat.
From VQ Require Import Model.NonFinite Proofs.NonFiniteProofs Glue.NonFiniteGlue.
From VQ Require Import Glue.Pin_o_vq_mask_proj Glue.Pin_o_rvq_mask_proj.
From VQ Require Import Model.Strides Proofs.StridesProofs Glue.Pin_inv_view_writes.
From VQ Require Import Proofs.StridesGeneral.
From VQ Require Import Proofs.LensWrap.
From VQ Require Import Glue.MaskGuardsGlue.
Import ListNotations.
Open Scope R_scope.

Theorem C09_stats_are_those_of_valid_tokens :
  forall (decay : R) (d : nat) (s : cstate R) (xs : list Rv) (idx : list nat) (valid : list bool),
       wf d s ->
       Forall (fun v : Rv => Datatypes.length v = d) xs ->
       Datatypes.length xs = Datatypes.length valid ->
       Datatypes.length idx = Datatypes.length valid ->
       let ims := combine idx valid in
       ema_accumulate R_ops decay d s xs ims =
       ema_accumulate R_ops decay d s (valid_only ims xs) (filter (fun im : nat * bool => snd im) ims).
Proof. exact (@accumulate_masked_is_filtered). Qed.
Print Assumptions C09_stats_are_those_of_valid_tokens.

Theorem C09_stats_padding_independent :
  forall (decay : R) (d : nat) (s : cstate R) (xs xs' : list Rv) (idx idx' : list nat)
         (valid : list bool),
       wf d s ->
       Forall (fun v : Rv => Datatypes.length v = d) xs ->
       Forall (fun v : Rv => Datatypes.length v = d) xs' ->
       agree_on_valid valid xs xs' ->
       agree_on_valid valid idx idx' ->
       ema_accumulate R_ops decay d s xs (combine idx valid) =
       ema_accumulate R_ops decay d s xs' (combine idx' valid).
Proof. exact (@accumulate_padding_independent). Qed.
Print Assumptions C09_stats_padding_independent.

Theorem C09_update_padding_independent :
  forall (cfg : ccfg R) (training freeze : bool) (s : cstate R) (d : nat) (xs xs' : list Rv)
         (idx idx' : list nat) (valid : list bool) (picks : list Rv),
       wf d s ->
       xs <> [] ->
       Forall (fun v : Rv => Datatypes.length v = d) xs ->
       Forall (fun v : Rv => Datatypes.length v = d) xs' ->
       agree_on_valid valid xs xs' ->
       agree_on_valid valid idx idx' ->
       cb_update R_ops sqrt cfg training freeze true s xs valid idx picks =
       cb_update R_ops sqrt cfg training freeze true s xs' valid idx' picks.
Proof. exact (@update_padding_independent). Qed.
Print Assumptions C09_update_padding_independent.

Theorem C09_kmeans_sees_valid_only :
  forall (A : Type) (valid : list bool) (a b : list A),
       agree_on_valid valid a b -> keep valid a = keep valid b.
Proof. exact (@keep_padding_independent). Qed.
Print Assumptions C09_kmeans_sees_valid_only.

Theorem C09_mask_alignment_with_folded_heads :
  forall (H N : nat) (mask : list (list bool)) (b h n : nat),
       Forall (fun row : list bool => Datatypes.length row = N) mask ->
       (b < Datatypes.length mask)%nat ->
       (h < H)%nat ->
       (n < N)%nat -> nth ((b * H + h) * N + n) (mask_flat H mask) false = nth n (nth b mask []) false.
Proof. exact (@mask_flat_alignment). Qed.
Print Assumptions C09_mask_alignment_with_folded_heads.

Theorem C09_mask_flat_length :
  forall (H N : nat) (mask : list (list bool)),
       Forall (fun row : list bool => Datatypes.length row = N) mask ->
       Datatypes.length (mask_flat H mask) = (Datatypes.length mask * H * N)%nat.
Proof. exact (@mask_flat_length). Qed.
Print Assumptions C09_mask_flat_length.

Theorem C09_padded_output_is_fill :
  forall (A : Type) (valid : list bool) (computed fill : list A) (t : nat) (a0 : A),
       Datatypes.length computed = Datatypes.length valid ->
       Datatypes.length fill = Datatypes.length valid ->
       nth t valid true = false ->
       (t < Datatypes.length valid)%nat -> nth t (mask_out valid computed fill) a0 = nth t fill a0.
Proof. exact (@mask_out_padded). Qed.
Print Assumptions C09_padded_output_is_fill.

Theorem C09_valid_output_kept :
  forall (A : Type) (valid : list bool) (computed fill : list A) (t : nat) (a0 : A),
       Datatypes.length computed = Datatypes.length valid ->
       Datatypes.length fill = Datatypes.length valid ->
       nth t valid false = true -> nth t (mask_out valid computed fill) a0 = nth t computed a0.
Proof. exact (@mask_out_valid). Qed.
Print Assumptions C09_valid_output_kept.

Theorem C09_output_padding_independent :
  forall (A : Type) (valid : list bool) (c c' fill : list A),
       agree_on_valid valid c c' ->
       Datatypes.length fill = Datatypes.length valid -> mask_out valid c fill = mask_out valid c' fill.
Proof. exact (@mask_out_padding_independent). Qed.
Print Assumptions C09_output_padding_independent.

Theorem C09_masked_mean_loss :
  forall (valid : list bool) (v v' : Rv),
       agree_on_valid valid v v' -> masked_mean valid v = masked_mean valid v'.
Proof. exact (@masked_mean_padding_independent). Qed.
Print Assumptions C09_masked_mean_loss.

Theorem C09_masked_counts :
  forall (ims : list (nat * bool)) (j : nat),
       count_j R_ops ims j = count_j R_ops (filter (fun im : nat * bool => snd im) ims) j.
Proof. exact (@count_masked). Qed.
Print Assumptions C09_masked_counts.

Theorem C09_masked_sums :
  forall (d : nat) (xs : list Rv) (ims : list (nat * bool)) (j : nat),
       Datatypes.length xs = Datatypes.length ims ->
       Forall (fun v : Rv => Datatypes.length v = d) xs ->
       sum_j R_ops d xs ims j =
       sum_j R_ops d (valid_only ims xs) (filter (fun im : nat * bool => snd im) ims) j.
Proof. exact (@sum_masked). Qed.
Print Assumptions C09_masked_sums.

Theorem C09_tie_mask_guard :
  forall has_mask freeze ema training : bool,
       g_euclid_mask_onehot.g_euclid_mask_onehot has_mask freeze ema training =
       training && ema && negb freeze && has_mask /\
       g_cosine_mask_onehot.g_cosine_mask_onehot has_mask freeze ema training =
       training && ema && negb freeze && has_mask.
Proof. exact (@glue_mask_onehot_guard). Qed.
Print Assumptions C09_tie_mask_guard.

Theorem C09_tie_mask_guard_atoms :
  g_euclid_mask_onehot.g_euclid_mask_onehot_atoms =
       ["exists_mask"; "freeze_codebook"; "self_ema_update"; "self_training"] /\
       g_cosine_mask_onehot.g_cosine_mask_onehot_atoms =
       ["exists_mask"; "freeze_codebook"; "self_ema_update"; "self_training"].
Proof. exact (@glue_mask_onehot_guard_atoms). Qed.
Print Assumptions C09_tie_mask_guard_atoms.

Theorem C09_tie_mask_dataflow :
  p_mask.p_mask = pinned_p_mask.
Proof. exact (@pin_p_mask). Qed.
Print Assumptions C09_tie_mask_dataflow.

(* implicit *)
Theorem C09_src_mask_replication :
  forall A : Type,
       exists p : pattern,
         role_pattern pr_vq.pr_vq "VectorQuantize.forward:loss_mask" "repeat" 0 = @Some pattern p /\
         wf_repeat p = true /\
         (forall (e : env) (M : nat -> nat -> A) (c bh n : nat),
          (0 < e "h")%nat ->
          (c < e "c")%nat ->
          (bh < e "b" * e "h")%nat ->
          (n < e "n")%nat -> @rearr A p e (@of2 A M) [c; bh; n] = M (bh / e "h")%nat n).
Proof. exact (@EinopsGlueMask.einops_mask_repeat). Qed.
Print Assumptions C09_src_mask_replication.

Theorem C09_src_mask_replication_both_sites :
  find_role pr_vq.pr_vq "VectorQuantize.forward:loss_mask" "repeat" 0 =
       find_role pr_vq.pr_vq "VectorQuantize.forward:loss_mask" "repeat" 1.
Proof. exact (@EinopsGlueMask.einops_mask_repeat_same). Qed.
Print Assumptions C09_src_mask_replication_both_sites.

Theorem C09_src_lens_to_mask :
  forall n len : Z, k_lens_to_mask.k_lens_to_mask n len = true <-> (n < len)%Z.
Proof. exact (@LensGlue.glue_lens_to_mask). Qed.
Print Assumptions C09_src_lens_to_mask.

Theorem C09_src_lens_mask_is_prefix :
  forall n m len : Z,
       (n <= m)%Z -> k_lens_to_mask.k_lens_to_mask m len = true -> k_lens_to_mask.k_lens_to_mask n len = true.
Proof. exact (@LensGlue.lens_mask_is_prefix). Qed.
Print Assumptions C09_src_lens_mask_is_prefix.

Theorem C09_tie_source_footprint :
  fp_C09.fp_C09 = pinned_fp_C09.
Proof. exact (@Pin_fp_C09.pin_fp_C09). Qed.
Print Assumptions C09_tie_source_footprint.

(* implicit *)
Theorem C09_mask_replication_is_broadcast :
  forall (p : pattern) (e : env) (A : Type) (X : list nat -> A) (o1 o2 : list nat),
       wf_repeat p = true ->
       (forall n : string,
        @In string n (names_of (lhs p)) -> lookup (sdecode e (rhs p) o1) n = lookup (sdecode e (rhs p) o2) n) ->
       @rearr A p e X o1 = @rearr A p e X o2.
Proof. exact (@EinopsRepeat.repeat_broadcasts). Qed.
Print Assumptions C09_mask_replication_is_broadcast.

(* implicit *)
Theorem C09_vq_projection_wgrad_finite :
  forall (dout din : nat) (valid : list bool) (xs gs : list (list X)),
       rows_fin_on valid xs ->
       all_fin gs ->
       @mfin R (@proj_wgrad R R_ops (zero_first_of o_vq_mask_proj.o_vq_mask_proj) dout din valid xs gs) =
       true.
Proof. exact (@NonFiniteGlue.vq_projection_wgrad_finite). Qed.
Print Assumptions C09_vq_projection_wgrad_finite.

(* implicit *)
Theorem C09_rvq_projection_wgrad_finite :
  forall (dout din : nat) (valid : list bool) (xs gs : list (list X)),
       rows_fin_on valid xs ->
       all_fin gs ->
       @mfin R (@proj_wgrad R R_ops (zero_first_of o_rvq_mask_proj.o_rvq_mask_proj) dout din valid xs gs) =
       true.
Proof. exact (@NonFiniteGlue.rvq_projection_wgrad_finite). Qed.
Print Assumptions C09_rvq_projection_wgrad_finite.

(* implicit *)
Theorem C09_vq_projection_padding_independent :
  forall (dout din : nat) (W : list (list X)) (b : list X) (valid : list bool)
         (xs xs' gs : list (list X)),
       agree valid xs xs' ->
       @proj_out R R_ops (zero_first_of o_vq_mask_proj.o_vq_mask_proj) W b valid xs =
       @proj_out R R_ops (zero_first_of o_vq_mask_proj.o_vq_mask_proj) W b valid xs' /\
       @proj_wgrad R R_ops (zero_first_of o_vq_mask_proj.o_vq_mask_proj) dout din valid xs gs =
       @proj_wgrad R R_ops (zero_first_of o_vq_mask_proj.o_vq_mask_proj) dout din valid xs' gs.
Proof. exact (@NonFiniteGlue.vq_projection_padding_independent). Qed.
Print Assumptions C09_vq_projection_padding_independent.

(* implicit *)
Theorem C09_rvq_projection_padding_independent :
  forall (dout din : nat) (W : list (list X)) (b : list X) (valid : list bool)
         (xs xs' gs : list (list X)),
       agree valid xs xs' ->
       @proj_out R R_ops (zero_first_of o_rvq_mask_proj.o_rvq_mask_proj) W b valid xs =
       @proj_out R R_ops (zero_first_of o_rvq_mask_proj.o_rvq_mask_proj) W b valid xs' /\
       @proj_wgrad R R_ops (zero_first_of o_rvq_mask_proj.o_rvq_mask_proj) dout din valid xs gs =
       @proj_wgrad R R_ops (zero_first_of o_rvq_mask_proj.o_rvq_mask_proj) dout din valid xs' gs.
Proof. exact (@NonFiniteGlue.rvq_projection_padding_independent). Qed.
Print Assumptions C09_rvq_projection_padding_independent.

(* implicit *)
Theorem C09_zero_after_wgrad_refuted :
  exists (valid : list bool) (xs gs : list (list X)),
         rows_fin_on valid xs /\ all_fin gs /\ @mfin R (@proj_wgrad R R_ops false 1 1 valid xs gs) = false.
Proof. exact (@NonFiniteProofs.zero_after_wgrad_refuted). Qed.
Print Assumptions C09_zero_after_wgrad_refuted.

(* implicit *)
Theorem C09_zero_after_out_padding_independent :
  forall (W : list (list X)) (b : list X) (valid : list bool) (xs xs' : list (list X)),
       agree valid xs xs' -> @proj_out R R_ops false W b valid xs = @proj_out R R_ops false W b valid xs'.
Proof. exact (@NonFiniteProofs.zero_after_out_padding_independent). Qed.
Print Assumptions C09_zero_after_out_padding_independent.

(* implicit *)
Theorem C09_projection_out_finite :
  forall (W : list (list X)) (b : list X) (valid : list bool) (xs : list (list X)),
       @mfin R W = true ->
       @vfin R b = true -> rows_fin_on valid xs -> all_fin (@proj_out R R_ops true W b valid xs).
Proof. exact (@NonFiniteProofs.zero_first_out_finite). Qed.
Print Assumptions C09_projection_out_finite.

(* implicit *)
Theorem C09_tie_vq_mask_proj_pin :
  o_vq_mask_proj.o_vq_mask_proj = pinned_o_vq_mask_proj.
Proof. exact (@Pin_o_vq_mask_proj.pin_o_vq_mask_proj). Qed.
Print Assumptions C09_tie_vq_mask_proj_pin.

(* implicit *)
Theorem C09_tie_rvq_mask_proj_pin :
  o_rvq_mask_proj.o_rvq_mask_proj = pinned_o_rvq_mask_proj.
Proof. exact (@Pin_o_rvq_mask_proj.pin_o_rvq_mask_proj). Qed.
Print Assumptions C09_tie_rvq_mask_proj_pin.

Theorem C09_reshape_write_lands_when_contiguous :
  forall (A : Type) (zero : A) (b n d : nat) (m : storage A) (rows : nat -> bool) (i j k : nat),
       (i < b)%nat ->
       (j < n)%nat ->
       (k < d)%nat ->
       get A (write_through_reshape A zero m (contiguous b n d) rows) (contiguous b n d) i j k =
       where_rows A zero m (contiguous b n d) rows i j k.
Proof. exact (@StridesProofs.contiguous_write_lands). Qed.
Print Assumptions C09_reshape_write_lands_when_contiguous.

Theorem C09_reshape_write_lost_on_permuted_view :
  forall (A : Type) (zero : A) (b n d : nat) (m : storage A) (rows : nat -> bool),
       (2 <= b)%nat ->
       (2 <= n)%nat -> (1 <= d)%nat -> write_through_reshape A zero m (batch_permuted b n d) rows = m.
Proof. exact (@StridesProofs.permuted_write_is_lost). Qed.
Print Assumptions C09_reshape_write_lost_on_permuted_view.

Theorem C09_write_through_reshape_refuted :
  forall (A : Type) (zero one : A),
       one <> zero ->
       exists (t : t3) (m : storage A) (rows : nat -> bool) (i j k : nat),
         (i < nb t)%nat /\
         (j < nn t)%nat /\
         (k < nd t)%nat /\
         get A (write_through_reshape A zero m t rows) t i j k <> where_rows A zero m t rows i j k.
Proof. exact (@StridesProofs.write_through_reshape_refuted). Qed.
Print Assumptions C09_write_through_reshape_refuted.

Theorem C09_tie_no_new_write_through_view_handles :
  inv_view_writes.inv_view_writes = pinned_inv_view_writes.
Proof. exact (@Pin_inv_view_writes.pin_inv_view_writes). Qed.
Print Assumptions C09_tie_no_new_write_through_view_handles.

Theorem C09_mergeable_write_lands :
  forall (A : Type) (zero : A) (t : t3) (m : storage A) (rows : nat -> bool) (i j k : nat),
       sb t = (nn t * sn t)%nat ->
       injective_addressing t ->
       (i < nb t)%nat ->
       (j < nn t)%nat ->
       (k < nd t)%nat ->
       get A (write_through_reshape A zero m t rows) t i j k = where_rows A zero m t rows i j k.
Proof. exact (@StridesGeneral.mergeable_write_lands). Qed.
Print Assumptions C09_mergeable_write_lands.

Theorem C09_feature_permuted_write_lands :
  forall (A : Type) (zero : A) (b n d : nat) (m : storage A) (rows : nat -> bool) (i j k : nat),
       (i < b)%nat ->
       (j < n)%nat ->
       (k < d)%nat ->
       get A (write_through_reshape A zero m (feature_permuted b n d) rows) (feature_permuted b n d) i j k =
       where_rows A zero m (feature_permuted b n d) rows i j k.
Proof. exact (@StridesGeneral.feature_permuted_write_lands). Qed.
Print Assumptions C09_feature_permuted_write_lands.

Theorem C09_expanded_write_aliases :
  forall (A : Type) (zero one : A),
       one <> zero ->
       exists (t : t3) (m : storage A) (rows : nat -> bool) (i j k : nat),
         sb t = (nn t * sn t)%nat /\
         (i < nb t)%nat /\
         (j < nn t)%nat /\
         (k < nd t)%nat /\
         get A (write_through_reshape A zero m t rows) t i j k <> where_rows A zero m t rows i j k.
Proof. exact (@StridesGeneral.expanded_write_aliases). Qed.
Print Assumptions C09_expanded_write_aliases.

Theorem C09_lens_kernel_is_exact_integer_spec :
  forall pos len : Z, k_lens_to_mask.k_lens_to_mask pos len = mask_spec pos len.
Proof. exact (@LensWrap.source_kernel_is_spec). Qed.
Print Assumptions C09_lens_kernel_is_exact_integer_spec.

Theorem C09_lens_uint8_positions_refuted :
  exists pos len : Z,
         (0 <= len < 256)%Z /\
         (len <= pos)%Z /\ mask_u8_positions pos len = true /\ mask_spec pos len = false.
Proof. exact (@LensWrap.u8_positions_refuted). Qed.
Print Assumptions C09_lens_uint8_positions_refuted.

Theorem C09_lens_uint8_predecessor_refuted :
  exists pos len : Z,
         len = 0%Z /\ (0 <= pos)%Z /\ mask_u8_pred pos len = true /\ mask_spec pos len = false.
Proof. exact (@LensWrap.u8_pred_refuted). Qed.
Print Assumptions C09_lens_uint8_predecessor_refuted.

Theorem C09_lens_uint8_positions_ok_in_range :
  forall pos len : Z, (0 <= pos < 256)%Z -> mask_u8_positions pos len = mask_spec pos len.
Proof. exact (@LensWrap.u8_positions_ok). Qed.
Print Assumptions C09_lens_uint8_positions_ok_in_range.

Theorem C09_tie_mask_applications_guarded_by_mask_only :
  forall m : bool,
       g_vq_zero_padded_input.g_vq_zero_padded_input m = m /\
       g_vq_mask_output.g_vq_mask_output m = m /\ g_vq_mask_indices.g_vq_mask_indices m = m.
Proof. exact (@MaskGuardsGlue.vq_mask_guards_are_mask_given). Qed.
Print Assumptions C09_tie_mask_applications_guarded_by_mask_only.

Theorem C09_tie_vq_mask_application_guard_atoms :
  g_vq_zero_padded_input.g_vq_zero_padded_input_atoms = ["exists_mask"] /\
       g_vq_mask_output.g_vq_mask_output_atoms = ["exists_mask"] /\
       g_vq_mask_indices.g_vq_mask_indices_atoms = ["exists_mask"].
Proof. exact (@MaskGuardsGlue.vq_mask_guard_atoms). Qed.
Print Assumptions C09_tie_vq_mask_application_guard_atoms.

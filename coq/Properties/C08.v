(* C08 -- evaluation, frozen-codebook calls and decoding are pure
   Only statements here: every theorem is closed by `exact <lemma proved in Proofs/ or Glue/>` and followed by
   Print Assumptions.  GENERATED skeleton (tools/mkprops.py), statements are the ones Coq prints for the lemmas. *)
From Coq Require Import ZArith List Bool String.
From VQ Require Import Num Model.Vec Model.Core Model.Machine Proofs.CorePure Glue.CoreGlue.
From VQ Require Import Glue.Pin_w_euclid Glue.Pin_w_cosine Glue.Pin_w_vq Glue.Pin_w_fsq Glue.Pin_w_lfq Glue.Pin_w_simvq Glue.Pin_w_rpq Glue.Pin_w_rvq Glue.Pin_w_rfsq Glue.Pin_w_rlfq Glue.Pin_w_rsvq Glue.Pin_w_lq Glue.Pin_o_rpq_eval.
From VQ Require Import Model.History Proofs.HistoryProofs.
From VQ Require Import Glue.Pin_fp_C08.
From VQ Require Import Model.Alias Proofs.AliasProofs Glue.Pin_w_euclid Glue.Pin_w_cosine.
From VQ Require Import Model.Inventory Glue.InventoryFacts.
Import ListNotations.

Theorem C08_call_pure :
  forall (F : Type) (o : ops F) (fsqrt : F -> F) (cfg : ccfg F) (training freeze temp_pos : bool)
         (s : cstate F) (xs : list (vec F)) (mask : option (list bool)) (w : oracle F),
       initted s = true ->
       negb training || freeze = true ->
       fst (cb_forward o fsqrt cfg training freeze temp_pos s xs mask w) = s.
Proof. exact (@forward_pure). Qed.
Print Assumptions C08_call_pure.

Theorem C08_step_pure :
  forall (F : Type) (o : ops F) (fsqrt : F -> F) (cfg : ccfg F) (s : cstate F) (p : op F),
       initted s = true -> is_pure p = true -> fst (step o fsqrt cfg s p) = s.
Proof. exact (@step_pure). Qed.
Print Assumptions C08_step_pure.

Theorem C08_every_pure_history :
  forall (F : Type) (o : ops F) (fsqrt : F -> F) (cfg : ccfg F) (s : cstate F) (ps : list (op F)),
       initted s = true -> forallb is_pure ps = true -> run o fsqrt cfg s ps = s.
Proof. exact (@run_pure). Qed.
Print Assumptions C08_every_pure_history.

Theorem C08_pure_ops_invisible_in_any_interleaving :
  forall (F : Type) (o : ops F) (fsqrt : F -> F) (cfg : ccfg F) (s : cstate F) (ps : list (op F)),
       initted s = true ->
       run o fsqrt cfg s ps = run o fsqrt cfg s (filter (fun p : op F => negb (is_pure p)) ps).
Proof. exact (@run_ignores_pure). Qed.
Print Assumptions C08_pure_ops_invisible_in_any_interleaving.

Theorem C08_kmeans_exception :
  forall (F : Type) (o : ops F) (fsqrt : F -> F) (cfg : ccfg F) (training freeze temp_pos : bool)
         (s : cstate F) (xs : list (vec F)) (mask : option (list bool)) (w : oracle F),
       initted s = false ->
       negb training || freeze = true ->
       fst (cb_forward o fsqrt cfg training freeze temp_pos s xs mask w) =
       init_embed o (score_of o fsqrt cfg) (post_of o fsqrt cfg) (c_kmeans_iters cfg)
         (keep match mask with
               | Some m => m
               | None => map (fun _ : vec F => true) xs
               end xs) (w_seeds w) s /\
       initted (fst (cb_forward o fsqrt cfg training freeze temp_pos s xs mask w)) = true.
Proof. exact (@forward_kmeans_exception). Qed.
Print Assumptions C08_kmeans_exception.

Theorem C08_initialised_once :
  forall (F : Type) (o : ops F) (fsqrt : F -> F) (cfg : ccfg F) (s : cstate F) (ps : list (op F)),
       initted s = true -> initted (run o fsqrt cfg s ps) = true.
Proof. exact (@initted_forever). Qed.
Print Assumptions C08_initialised_once.

Theorem C08_no_reinitialisation :
  forall (F : Type) (o : ops F) (fsqrt : F -> F) (cfg : ccfg F) (s : cstate F)
         (training freeze temp_pos : bool) (xs : list (vec F)) (mask : option (list bool)) 
         (w : oracle F) (seeds' : list (vec F)),
       initted s = true ->
       step o fsqrt cfg s (Call training freeze temp_pos xs mask w) =
       step o fsqrt cfg s
         (Call training freeze temp_pos xs mask
            {| w_seeds := seeds'; w_picks := w_picks w; w_sample := w_sample w |}).
Proof. exact (@no_reinit). Qed.
Print Assumptions C08_no_reinitialisation.

Theorem C08_eval_repeatable :
  forall (F : Type) (o : ops F) (fsqrt : F -> F) (cfg : ccfg F) (freeze temp_pos : bool) 
         (s : cstate F) (xs : list (vec F)) (mask : option (list bool)) (w w' : oracle F),
       initted s = true ->
       snd (step o fsqrt cfg s (Call false freeze temp_pos xs mask w)) =
       snd (step o fsqrt cfg s (Call false freeze temp_pos xs mask w')).
Proof. exact (@pure_call_repeatable). Qed.
Print Assumptions C08_eval_repeatable.

Theorem C08_frozen_repeatable :
  forall (F : Type) (o : ops F) (fsqrt : F -> F) (cfg : ccfg F) (temp_pos : bool) 
         (s : cstate F) (xs : list (vec F)) (mask : option (list bool)) (w w' : oracle F),
       initted s = true ->
       c_stochastic cfg = false ->
       snd (step o fsqrt cfg s (Call true true temp_pos xs mask w)) =
       snd (step o fsqrt cfg s (Call true true temp_pos xs mask w')).
Proof. exact (@frozen_call_repeatable_deterministic). Qed.
Print Assumptions C08_frozen_repeatable.

Theorem C08_decode_pure :
  forall (F : Type) (o : ops F) (fsqrt : F -> F) (cfg : ccfg F) (s : cstate F) (idx : list nat),
       fst (step o fsqrt cfg s (Decode idx)) = s.
Proof. exact (@decode_pure). Qed.
Print Assumptions C08_decode_pure.

Theorem C08_inplace_optimiser_pure :
  forall (F : Type) (should training freeze manual : bool) (e newp : list (vec F)),
       negb training || freeze = true -> inplace_opt should training freeze manual e newp = e.
Proof. exact (@inplace_opt_pure). Qed.
Print Assumptions C08_inplace_optimiser_pure.

Theorem C08_shared_codebook_pure :
  forall (F : Type) (o : ops F) (fsqrt : F -> F) (cfg : ccfg F) (training freeze temp_pos : bool)
         (s : cstate F) (layers : list (list (vec F) * option (list bool) * oracle F)) 
         (picks : list (vec F)),
       initted s = true ->
       negb training || freeze = true ->
       shared_forward o fsqrt cfg training freeze temp_pos s layers picks = s.
Proof. exact (@shared_forward_pure). Qed.
Print Assumptions C08_shared_codebook_pure.

Theorem C08_guards_off :
  forall (F : Type) (cfg : ccfg F) (training freeze : bool),
       negb training || freeze = true ->
       g_ema cfg training freeze = false /\
       g_update cfg training freeze = false /\ g_expire cfg training freeze = false.
Proof. exact (@guards_off). Qed.
Print Assumptions C08_guards_off.

Theorem C08_tie_ema_guard :
  forall freeze ema training : bool,
       g_euclid_ema.g_euclid_ema freeze ema training = training && ema && negb freeze /\
       g_cosine_ema.g_cosine_ema freeze ema training = training && ema && negb freeze.
Proof. exact (@glue_ema_guard). Qed.
Print Assumptions C08_tie_ema_guard.

Theorem C08_tie_ema_guard_atoms :
  g_euclid_ema.g_euclid_ema_atoms = ["freeze_codebook"; "self_ema_update"; "self_training"] /\
       g_cosine_ema.g_cosine_ema_atoms = ["freeze_codebook"; "self_ema_update"; "self_training"].
Proof. exact (@glue_ema_guard_atoms). Qed.
Print Assumptions C08_tie_ema_guard_atoms.

Theorem C08_tie_update_guard :
  forall freeze ema manual training : bool,
       g_euclid_update_ema.g_euclid_update_ema freeze ema manual training =
       training && ema && negb freeze && negb manual /\
       g_cosine_update_ema.g_cosine_update_ema freeze ema manual training =
       training && ema && negb freeze && negb manual /\
       g_euclid_expire.g_euclid_expire freeze ema manual training =
       training && ema && negb freeze && negb manual /\
       g_cosine_expire.g_cosine_expire freeze ema manual training =
       training && ema && negb freeze && negb manual.
Proof. exact (@glue_update_guard). Qed.
Print Assumptions C08_tie_update_guard.

Theorem C08_tie_update_guard_atoms :
  g_euclid_update_ema.g_euclid_update_ema_atoms =
       ["freeze_codebook"; "self_ema_update"; "self_manual_ema_update"; "self_training"] /\
       g_cosine_update_ema.g_cosine_update_ema_atoms =
       ["freeze_codebook"; "self_ema_update"; "self_manual_ema_update"; "self_training"] /\
       g_euclid_expire.g_euclid_expire_atoms =
       ["freeze_codebook"; "self_ema_update"; "self_manual_ema_update"; "self_training"] /\
       g_cosine_expire.g_cosine_expire_atoms =
       ["freeze_codebook"; "self_ema_update"; "self_manual_ema_update"; "self_training"].
Proof. exact (@glue_update_guard_atoms). Qed.
Print Assumptions C08_tie_update_guard_atoms.

Theorem C08_tie_kmeans_guard :
  forall init : bool,
       g_euclid_kmeans.g_euclid_kmeans init = negb init /\ g_cosine_kmeans.g_cosine_kmeans init = negb init.
Proof. exact (@glue_kmeans_guard). Qed.
Print Assumptions C08_tie_kmeans_guard.

Theorem C08_tie_kmeans_guard_atoms :
  g_euclid_kmeans.g_euclid_kmeans_atoms = ["self_initted"] /\
       g_cosine_kmeans.g_cosine_kmeans_atoms = ["self_initted"].
Proof. exact (@glue_kmeans_guard_atoms). Qed.
Print Assumptions C08_tie_kmeans_guard_atoms.

Theorem C08_tie_gumbel_guard :
  forall stochastic temp_pos training : bool,
       g_gumbel_noise.g_gumbel_noise stochastic temp_pos training = training && stochastic && temp_pos.
Proof. exact (@glue_gumbel_guard). Qed.
Print Assumptions C08_tie_gumbel_guard.

Theorem C08_tie_shared_guards :
  forall freeze shared training : bool,
       g_rvq_shared_update.g_rvq_shared_update freeze shared training = training && shared && negb freeze /\
       g_rvq_shared_expire.g_rvq_shared_expire freeze shared training = training && shared && negb freeze /\
       g_rvq_shared_opt.g_rvq_shared_opt freeze shared training = training && shared && negb freeze.
Proof. exact (@glue_shared_guards). Qed.
Print Assumptions C08_tie_shared_guards.

Theorem C08_tie_shared_guards_atoms :
  g_rvq_shared_update.g_rvq_shared_update_atoms =
       ["freeze_codebook"; "self_shared_codebook"; "self_training"] /\
       g_rvq_shared_expire.g_rvq_shared_expire_atoms =
       ["freeze_codebook"; "self_shared_codebook"; "self_training"] /\
       g_rvq_shared_opt.g_rvq_shared_opt_atoms = ["freeze_codebook"; "self_shared_codebook"; "self_training"].
Proof. exact (@glue_shared_guards_atoms). Qed.
Print Assumptions C08_tie_shared_guards_atoms.

Theorem C08_tie_inplace_guards :
  forall freeze manual training should : bool,
       g_vq_inplace_opt.g_vq_inplace_opt freeze training should = should && training && negb freeze /\
       g_vq_inplace_step.g_vq_inplace_step freeze manual training should =
       should && training && negb freeze && negb manual.
Proof. exact (@glue_inplace_guards). Qed.
Print Assumptions C08_tie_inplace_guards.

Theorem C08_tie_inplace_guards_atoms :
  g_vq_inplace_opt.g_vq_inplace_opt_atoms =
       ["freeze_codebook"; "self_training"; "should_inplace_optimize"] /\
       g_vq_inplace_step.g_vq_inplace_step_atoms =
       ["freeze_codebook"; "self_manual_in_place_optimizer_update"; "self_training";
        "should_inplace_optimize"].
Proof. exact (@glue_inplace_guards_atoms). Qed.
Print Assumptions C08_tie_inplace_guards_atoms.

Theorem C08_writes_euclid :
  w_euclid.w_euclid = pinned_w_euclid.
Proof. exact (@pin_w_euclid). Qed.
Print Assumptions C08_writes_euclid.

Theorem C08_writes_cosine :
  w_cosine.w_cosine = pinned_w_cosine.
Proof. exact (@pin_w_cosine). Qed.
Print Assumptions C08_writes_cosine.

Theorem C08_writes_vq :
  w_vq.w_vq = pinned_w_vq.
Proof. exact (@pin_w_vq). Qed.
Print Assumptions C08_writes_vq.

Theorem C08_no_writes_fsq :
  w_fsq.w_fsq = pinned_w_fsq.
Proof. exact (@pin_w_fsq). Qed.
Print Assumptions C08_no_writes_fsq.

Theorem C08_no_writes_lfq :
  w_lfq.w_lfq = pinned_w_lfq.
Proof. exact (@pin_w_lfq). Qed.
Print Assumptions C08_no_writes_lfq.

Theorem C08_no_writes_simvq :
  w_simvq.w_simvq = pinned_w_simvq.
Proof. exact (@pin_w_simvq). Qed.
Print Assumptions C08_no_writes_simvq.

Theorem C08_writes_rpq :
  w_rpq.w_rpq = pinned_w_rpq.
Proof. exact (@pin_w_rpq). Qed.
Print Assumptions C08_writes_rpq.

Theorem C08_writes_rvq :
  w_rvq.w_rvq = pinned_w_rvq.
Proof. exact (@pin_w_rvq). Qed.
Print Assumptions C08_writes_rvq.

Theorem C08_no_writes_rfsq :
  w_rfsq.w_rfsq = pinned_w_rfsq.
Proof. exact (@pin_w_rfsq). Qed.
Print Assumptions C08_no_writes_rfsq.

Theorem C08_no_writes_rlfq :
  w_rlfq.w_rlfq = pinned_w_rlfq.
Proof. exact (@pin_w_rlfq). Qed.
Print Assumptions C08_no_writes_rlfq.

Theorem C08_no_writes_rsvq :
  w_rsvq.w_rsvq = pinned_w_rsvq.
Proof. exact (@pin_w_rsvq). Qed.
Print Assumptions C08_no_writes_rsvq.

Theorem C08_writes_latent :
  w_lq.w_lq = pinned_w_lq.
Proof. exact (@pin_w_lq). Qed.
Print Assumptions C08_writes_latent.

Theorem C08_rpq_forces_eval :
  o_rpq_eval.o_rpq_eval = pinned_o_rpq_eval.
Proof. exact (@pin_o_rpq_eval). Qed.
Print Assumptions C08_rpq_forces_eval.

(* implicit *)
Theorem C08_history_with_writes_ignores_pure :
  forall (F : Type) (o : ops F) (fsqrt : F -> F) (cfg : ccfg F) (s : cstate F) (hs : list (hop F)),
       @initted F s = true ->
       @Forall (hop F)
         (fun h : hop F => match h with
                           | HStep _ => True
                           | HWrite s' => @initted F s' = true
                           end) hs ->
       @hrun F o fsqrt cfg s hs =
       @hrun F o fsqrt cfg s (@filter (hop F) (fun h : hop F => negb (@hop_pure F h)) hs).
Proof. exact (@HistoryProofs.history_ignores_pure). Qed.
Print Assumptions C08_history_with_writes_ignores_pure.

Theorem C08_tie_source_footprint :
  fp_C08.fp_C08 = pinned_fp_C08.
Proof. exact (@Pin_fp_C08.pin_fp_C08). Qed.
Print Assumptions C08_tie_source_footprint.

Theorem C08_in_place_update_seen_by_every_observer :
  forall (V : Type) (st : store V) (m1 m2 : binding) (f g : nat) (v : V),
       m1 f = m2 g -> read V (fst (write_in_place V st m1 f v)) m2 g = v.
Proof. exact (@AliasProofs.in_place_seen_by_all). Qed.
Print Assumptions C08_in_place_update_seen_by_every_observer.

Theorem C08_in_place_update_frame :
  forall (V : Type) (st : store V) (m1 m2 : binding) (f g : nat) (v : V),
       m2 g <> m1 f -> read V (fst (write_in_place V st m1 f v)) m2 g = read V st m2 g.
Proof. exact (@AliasProofs.in_place_frame). Qed.
Print Assumptions C08_in_place_update_frame.

Theorem C08_rebinding_unties_observers :
  forall (V : Type) (st : store V) (m1 m2 : binding) (f g fresh : nat) (v : V),
       m1 f = m2 g -> fresh <> m2 g -> read V (fst (rebind V st m1 f fresh v)) m2 g = read V st m2 g.
Proof. exact (@AliasProofs.rebind_unties). Qed.
Print Assumptions C08_rebinding_unties_observers.

Theorem C08_rebinding_refuted :
  forall (V : Type) (old new : V),
       old <> new ->
       exists (st : store V) (m1 m2 : binding) (f fresh : nat),
         m1 f = m2 f /\ read V (fst (rebind V st m1 f fresh new)) m2 f <> new.
Proof. exact (@AliasProofs.rebind_refuted). Qed.
Print Assumptions C08_rebinding_refuted.

Theorem C08_tie_euclid_write_sites_pinned :
  w_euclid.w_euclid = pinned_w_euclid.
Proof. exact (@Pin_w_euclid.pin_w_euclid). Qed.
Print Assumptions C08_tie_euclid_write_sites_pinned.

Theorem C08_tie_cosine_write_sites_pinned :
  w_cosine.w_cosine = pinned_w_cosine.
Proof. exact (@Pin_w_cosine.pin_w_cosine). Qed.
Print Assumptions C08_tie_cosine_write_sites_pinned.

Theorem C08_tie_initialised_flag_is_checkpointed :
  forallb (fun n : string => has inv_euclid.inv_euclid n Buffer true)
         ["initted"; "cluster_size"; "embed_avg"; "embed"] = true /\
       forallb (fun n : string => has inv_cosine.inv_cosine n Buffer true)
         ["initted"; "cluster_size"; "embed_avg"; "embed"] = true.
Proof. exact (@InventoryFacts.codebook_state_persistent). Qed.
Print Assumptions C08_tie_initialised_flag_is_checkpointed.

(* C18 -- finite inputs give finite outputs, gradients and state
   Only statements here: every theorem is closed by `exact <lemma proved in Proofs/ or Glue/>` and followed by
   Print Assumptions.  GENERATED skeleton (tools/mkprops.py), statements are the ones Coq prints for the lemmas. *)
From Coq Require Import ZArith Reals List Bool String.
From VQ Require Import Num Model.Vec Model.Core Model.Scalar Proofs.FiniteProofs Proofs.CoreEMA Proofs.ScalarProofs Glue.CoreGlue Glue.Pin_p_clamps.
From VQ Require Import Glue.Pin_fp_C18.
From VQ Require Import Model.GroupCat Model.IgnoreCE Proofs.IgnoreCEProofs Glue.IgnoreCEGlue.
Import ListNotations.
Open Scope R_scope.

Theorem C18_safe_div_divisor_positive :
  forall den eps : R, 0 < eps -> eps <= fmax R_ops den eps.
Proof. exact (@safe_div_divisor_positive). Qed.
Print Assumptions C18_safe_div_divisor_positive.

Theorem C18_safe_div_bounded :
  forall num den eps : R, 0 < eps -> Rabs (k_safe_div.k_safe_div R_ops num den eps) <= Rabs num / eps.
Proof. exact (@safe_div_bounded). Qed.
Print Assumptions C18_safe_div_bounded.

Theorem C18_l2norm_of_zero_vector :
  forall (eps : R) (d : nat), 0 < eps -> l2n R_ops sqrt eps (repeat 0 d) = repeat 0 d.
Proof. exact (@l2n_zero_vector). Qed.
Print Assumptions C18_l2norm_of_zero_vector.

Theorem C18_l2norm_divisor_positive :
  forall (eps : R) (x : Rv), 0 < eps -> eps <= fmax R_ops (sqrt (sqnorm R_ops x)) eps.
Proof. exact (@l2n_divisor_positive). Qed.
Print Assumptions C18_l2norm_divisor_positive.

Theorem C18_cdist_sqrt_argument_nonneg :
  forall x2 y2 xy : R, 0 <= fmax R_ops (x2 + y2 + xy * -2) 0.
Proof. exact (@cdist_sqrt_argument_nonneg). Qed.
Print Assumptions C18_cdist_sqrt_argument_nonneg.

Theorem C18_cdist_nonneg :
  forall x2 y2 xy : R, 0 <= k_cdist.k_cdist R_ops sqrt x2 y2 xy.
Proof. exact (@cdist_nonneg). Qed.
Print Assumptions C18_cdist_nonneg.

Theorem C18_laplace_divisor_positive :
  forall (eps tot : R) (K : nat), 0 < eps -> 0 <= tot -> (0 < K)%nat -> 0 < tot + INR K * eps.
Proof. exact (@laplace_divisor_positive). Qed.
Print Assumptions C18_laplace_divisor_positive.

Theorem C18_never_hit_code_well_defined :
  forall (eps : R) (cs : Rv) (j : nat),
       0 < eps ->
       Forall (fun c : R => 0 <= c) cs ->
       0 < fsum R_ops cs -> (j < Datatypes.length cs)%nat -> 0 < smoothed_j eps cs j.
Proof. exact (@smoothed_positive). Qed.
Print Assumptions C18_never_hit_code_well_defined.

Theorem C18_kmeans_divisor_nonzero :
  forall b : R, (if Reqb b 0 then 1 else b) <> 0.
Proof. exact (@kmeans_divisor_nonzero). Qed.
Print Assumptions C18_kmeans_divisor_nonzero.

Theorem C18_log_argument_positive :
  forall t eps : R, 0 < eps -> 0 < Rmax t eps.
Proof. exact (@log_argument_positive). Qed.
Print Assumptions C18_log_argument_positive.

Theorem C18_fsq_atanh_argument_in_range :
  forall (eps : R) (L : Z), (2 <= L)%Z -> 0 < eps -> -1 < fsq_offset L / fsq_half_l eps L < 1.
Proof. exact (@fsq_atanh_argument_in_range). Qed.
Print Assumptions C18_fsq_atanh_argument_in_range.

Theorem C18_fsq_output_bounded :
  forall (eps : R) (L : Z) (z : R),
       (2 <= L)%Z -> 0 < eps -> Rabs (fsq_bound eps L z) < fsq_half_l eps L + 1.
Proof. exact (@fsq_output_bounded). Qed.
Print Assumptions C18_fsq_output_bounded.

Theorem C18_tanh_in_open_unit_interval :
  forall x : R, -1 < th x < 1.
Proof. exact (@th_range). Qed.
Print Assumptions C18_tanh_in_open_unit_interval.

Theorem C18_ema_is_convex_combination :
  forall old new decay : R,
       0 <= decay <= 1 -> Rmin old new <= k_ema_inplace.k_ema_inplace R_ops old new decay <= Rmax old new.
Proof. exact (@ema_convex). Qed.
Print Assumptions C18_ema_is_convex_combination.

Theorem C18_ema_bounded :
  forall old new decay M : R,
       0 <= decay <= 1 ->
       Rabs old <= M -> Rabs new <= M -> Rabs (k_ema_inplace.k_ema_inplace R_ops old new decay) <= M.
Proof. exact (@ema_bounded). Qed.
Print Assumptions C18_ema_bounded.

Theorem C18_ema_bounded_along_any_history :
  forall (decay : R) (news : Rv) (c0 M : R),
       0 <= decay <= 1 ->
       Rabs c0 <= M -> Forall (fun n : R => Rabs n <= M) news -> Rabs (ema_hist decay news c0) <= M.
Proof. exact (@ema_hist_bounded). Qed.
Print Assumptions C18_ema_bounded_along_any_history.

Theorem C18_tie_safe_div :
  forall num den eps : R, k_safe_div.k_safe_div R_ops num den eps = num / Rmax den eps.
Proof. exact (@glue_safe_div). Qed.
Print Assumptions C18_tie_safe_div.

Theorem C18_tie_cdist :
  forall x2 y2 xy : R, k_cdist.k_cdist R_ops sqrt x2 y2 xy = sqrt (Rmax 0 (x2 + y2 - 2 * xy)).
Proof. exact (@glue_cdist). Qed.
Print Assumptions C18_tie_cdist.

Theorem C18_tie_laplace :
  forall x n eps denom : R,
       denom + n * eps <> 0 -> k_laplace.k_laplace R_ops x n eps denom = (x + eps) / (denom + n * eps).
Proof. exact (@glue_laplace). Qed.
Print Assumptions C18_tie_laplace.

Theorem C18_tie_ema :
  forall old new decay : R,
       k_ema_inplace.k_ema_inplace R_ops old new decay = decay * old + (1 - decay) * new.
Proof. exact (@glue_ema_inplace). Qed.
Print Assumptions C18_tie_ema.

Theorem C18_tie_clamps :
  p_clamps.p_clamps = pinned_p_clamps.
Proof. exact (@pin_p_clamps). Qed.
Print Assumptions C18_tie_clamps.

Theorem C18_tie_source_footprint :
  fp_C18.fp_C18 = pinned_fp_C18.
Proof. exact (@Pin_fp_C18.pin_fp_C18). Qed.
Print Assumptions C18_tie_source_footprint.

Theorem C18_ce_with_ignored_targets_defined :
  forall heads : list (list target), some_valid heads -> exists v : R, ce_joint heads = Some v.
Proof. exact (@IgnoreCEProofs.ce_joint_defined). Qed.
Print Assumptions C18_ce_with_ignored_targets_defined.

Theorem C18_ce_undefined_only_without_valid_target :
  forall heads : list (list target), ce_joint heads = None <-> nvalid (List.concat heads) = 0%nat.
Proof. exact (@IgnoreCEProofs.ce_joint_undefined_iff). Qed.
Print Assumptions C18_ce_undefined_only_without_valid_target.

Theorem C18_ce_between_bounds_of_valid_targets :
  forall (heads : list (list target)) (lo hi v : R),
       (forall (h : list target) (x : R), In h heads -> In (true, x) h -> lo <= x <= hi) ->
       ce_joint heads = Some v -> lo <= v <= hi.
Proof. exact (@IgnoreCEProofs.ce_joint_between). Qed.
Print Assumptions C18_ce_between_bounds_of_valid_targets.

Theorem C18_ce_per_head_average_refuted :
  exists heads : list (list target),
         some_valid heads /\ ce_per_head heads = None /\ (exists v : R, ce_joint heads = Some v).
Proof. exact (@IgnoreCEProofs.ce_per_head_refuted). Qed.
Print Assumptions C18_ce_per_head_average_refuted.

Theorem C18_ce_per_head_agrees_on_equal_counts :
  forall (heads : list (list target)) (k : nat),
       (0 < k)%nat ->
       heads <> [] ->
       Forall (fun h : list target => nvalid h = k) heads -> ce_per_head heads = ce_joint heads.
Proof. exact (@IgnoreCEProofs.ce_per_head_agrees_on_equal_counts). Qed.
Print Assumptions C18_ce_per_head_agrees_on_equal_counts.

Theorem C18_tie_source_ce_is_joint :
  ce_mode_of p_losses.p_losses = Joint.
Proof. exact (@IgnoreCEGlue.source_ce_is_joint). Qed.
Print Assumptions C18_tie_source_ce_is_joint.

Theorem C18_source_ce_defined :
  forall heads : list (list target),
       some_valid heads -> exists v : R, ce_of_mode (ce_mode_of p_losses.p_losses) heads = Some v.
Proof. exact (@IgnoreCEGlue.source_ce_defined). Qed.
Print Assumptions C18_source_ce_defined.

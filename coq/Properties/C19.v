(* C19 -- stochastic code sampling follows the softmax-temperature law
   Only statements here: every theorem is closed by `exact <lemma proved in Proofs/ or Glue/>` and followed by
   Print Assumptions.  GENERATED skeleton (tools/mkprops.py), statements are the ones Coq prints for the lemmas. *)
From Coq Require Import ZArith Reals List Bool String.
From Coquelicot Require Import Coquelicot.
From VQ Require Import Num Model.Vec Model.Gumbel Proofs.GumbelProofs Proofs.CoreNearest Glue.CoreGlue Glue.Pin_p_gumbel.
From VQ Require Import Glue.Pin_fp_C19.
Import ListNotations.
Open Scope R_scope.

Theorem C19_deterministic_fallback :
  forall (eps : R) (stochastic temp_pos training : bool) (T : R) (ls us : Rv),
       stochastic = false \/ temp_pos = false \/ training = false ->
       gselect eps stochastic temp_pos training T ls us = argmax_first R_ops ls.
Proof. exact (@gumbel_fallback). Qed.
Print Assumptions C19_deterministic_fallback.

Theorem C19_stochastic_selection :
  forall (eps T : R) (ls us : Rv),
       gselect eps true true true T ls us = argmax_first R_ops (sampling_logits eps T ls us).
Proof. exact (@gumbel_active). Qed.
Print Assumptions C19_stochastic_selection.

Theorem C19_fallback_is_nearest_code :
  forall (cb : list Rv) (x : Rv),
       cb <> [] ->
       shaped (Datatypes.length x) cb -> nearest_rel cb x (Core.select R_ops (Core.negcdist R_ops sqrt) cb x).
Proof. exact (@select_euclid_nearest). Qed.
Print Assumptions C19_fallback_is_nearest_code.

Theorem C19_noise_away_from_clamps :
  forall eps u : R, 0 < eps -> eps <= u -> u < 1 -> eps <= - ln u -> gnoise eps u = - ln (- ln u).
Proof. exact (@gnoise_unclamped). Qed.
Print Assumptions C19_noise_away_from_clamps.

Theorem C19_gumbel_max_is_exponential_race :
  forall T li lj ui uj : R,
       0 < T ->
       0 < ui < 1 ->
       0 < uj < 1 ->
       li / T + - ln (- ln ui) <= lj / T + - ln (- ln uj) <->
       - ln uj / sweight T lj <= - ln ui / sweight T li.
Proof. exact (@gumbel_max_is_exponential_race). Qed.
Print Assumptions C19_gumbel_max_is_exponential_race.

Theorem C19_selected_wins_every_race :
  forall (eps T : R) (ls us : Rv) (i : nat),
       ls <> [] ->
       Datatypes.length us = Datatypes.length ls ->
       (i < Datatypes.length ls)%nat ->
       let j := gselect eps true true true T ls us in
       nth i (sampling_logits eps T ls us) 0 <= nth j (sampling_logits eps T ls us) 0.
Proof. exact (@selected_wins_all_races). Qed.
Print Assumptions C19_selected_wins_every_race.

Theorem C19_race_integrand :
  forall (ws : Rv) (wj t : R),
       wj * exp (- wj * t) * fold_right Rmult 1 (map (fun w : R => exp (- w * t)) ws) =
       wj * exp (- (wj + fold_right Rplus 0 ws) * t).
Proof. exact (@race_integrand). Qed.
Print Assumptions C19_race_integrand.

Theorem C19_race_integral :
  forall wj W a : R,
       0 < W -> 0 <= a -> is_RInt (fun t : R => wj * exp (- W * t)) 0 a (wj / W * (1 - exp (- W * a))).
Proof. exact (@race_integral_finite). Qed.
Print Assumptions C19_race_integral.

Theorem C19_race_integral_limit_is_softmax_weight :
  forall wj W : R, 0 < W -> is_lim (fun a : R => wj / W * (1 - exp (- W * a))) p_infty (wj / W).
Proof. exact (@race_integral_limit). Qed.
Print Assumptions C19_race_integral_limit_is_softmax_weight.

Theorem C19_softmax_weights_sum_to_one :
  forall (T : R) (ls : Rv),
       ls <> [] ->
       fold_right Rplus 0 (map (fun l : R => sweight T l / fold_right Rplus 0 (map (sweight T) ls)) ls) = 1.
Proof. exact (@softmax_weights_sum_to_one). Qed.
Print Assumptions C19_softmax_weights_sum_to_one.

Theorem C19_tie_gumbel_guard :
  forall stochastic temp_pos training : bool,
       g_gumbel_noise.g_gumbel_noise stochastic temp_pos training = training && stochastic && temp_pos.
Proof. exact (@glue_gumbel_guard). Qed.
Print Assumptions C19_tie_gumbel_guard.

Theorem C19_tie_gumbel_guard_atoms :
  g_gumbel_noise.g_gumbel_noise_atoms = ["stochastic"; "temperature_gt_0"; "training"].
Proof. exact (@glue_gumbel_guard_atoms). Qed.
Print Assumptions C19_tie_gumbel_guard_atoms.

Theorem C19_tie_sampling_dataflow :
  p_gumbel.p_gumbel = pinned_p_gumbel.
Proof. exact (@pin_p_gumbel). Qed.
Print Assumptions C19_tie_sampling_dataflow.

Theorem C19_tie_source_footprint :
  fp_C19.fp_C19 = pinned_fp_C19.
Proof. exact (@Pin_fp_C19.pin_fp_C19). Qed.
Print Assumptions C19_tie_source_footprint.

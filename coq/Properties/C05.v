(* C05 -- FSQ and LFQ quantize each scalar to the level the papers prescribe
   Only statements here: every theorem is closed by `exact <lemma proved in Proofs/ or Glue/>` and followed by
   Print Assumptions.  GENERATED skeleton (tools/mkprops.py), statements are the ones Coq prints for the lemmas. *)
From Coq Require Import ZArith Reals List Bool String.
From Flocq Require Import Core.
From VQ Require Import Num Model.Vec Model.Scalar Proofs.ScalarProofs Glue.ScalarGlue Glue.Pin_p_fsq_quantize Glue.Pin_k_fsq_offset.
From VQ Require Import Model.Einops Model.Layout Glue.EinopsGlueBase Glue.EinopsGlueScalar.
From VQ Require Import Glue.Pin_fp_C05.
From VQ Require Import Model.Strides Proofs.StridesProofs Glue.Pin_inv_view_writes.
From VQ Require Import Proofs.StridesGeneral.
Import ListNotations.
Open Scope R_scope.

Theorem C05_bound_is_papers_function :
  forall (eps : R) (L : Z) (z : R),
       fsq_bound eps L z = th (z + fsq_shift eps L) * fsq_half_l eps L - fsq_offset L.
Proof. exact (@fsq_bound_formula). Qed.
Print Assumptions C05_bound_is_papers_function.

Theorem C05_bound_range :
  forall (eps : R) (L : Z) (z : R),
       (2 <= L)%Z ->
       0 < eps -> - fsq_half_l eps L - fsq_offset L < fsq_bound eps L z < fsq_half_l eps L - fsq_offset L.
Proof. exact (@fsq_bound_range). Qed.
Print Assumptions C05_bound_range.

Theorem C05_bound_increasing :
  forall (eps : R) (L : Z) (z z' : R),
       (2 <= L)%Z -> 0 < eps -> z < z' -> fsq_bound eps L z < fsq_bound eps L z'.
Proof. exact (@fsq_bound_increasing). Qed.
Print Assumptions C05_bound_increasing.

Theorem C05_zero_maps_to_zero :
  forall (eps : R) (L : Z), (2 <= L)%Z -> 0 < eps -> fsq_bound eps L 0 = 0.
Proof. exact (@fsq_bound_zero). Qed.
Print Assumptions C05_zero_maps_to_zero.

Theorem C05_output_is_round_of_bound_over_half_width :
  forall (eps : R) (L : Z) (z : R),
       (2 <= L)%Z -> fsq_q eps L z = (IZR (fsq_level eps L z) - IZR (L / 2)) / IZR (L / 2).
Proof. exact (@fsq_q_is_grid_value). Qed.
Print Assumptions C05_output_is_round_of_bound_over_half_width.

Theorem C05_monotone_step_function :
  forall (eps : R) (L : Z) (z z' : R),
       (2 <= L)%Z -> 0 < eps -> z <= z' -> fsq_q eps L z <= fsq_q eps L z'.
Proof. exact (@fsq_monotone). Qed.
Print Assumptions C05_monotone_step_function.

Theorem C05_level_is_one_of_L :
  forall (eps : R) (L : Z) (z : R), (2 <= L)%Z -> eps_ok eps L -> (0 <= fsq_level eps L z < L)%Z.
Proof. exact (@fsq_level_in_range). Qed.
Print Assumptions C05_level_is_one_of_L.

Theorem C05_inside_unit_interval :
  forall (eps : R) (L : Z) (z : R), (2 <= L)%Z -> eps_ok eps L -> -1 <= fsq_q eps L z <= 1.
Proof. exact (@fsq_q_in_unit_interval). Qed.
Print Assumptions C05_inside_unit_interval.

Theorem C05_every_level_reachable :
  forall (eps : R) (L k : Z),
       (2 <= L)%Z -> eps_ok eps L -> (0 <= k < L)%Z -> exists z : R, fsq_level eps L z = k.
Proof. exact (@fsq_every_level_reachable). Qed.
Print Assumptions C05_every_level_reachable.

Theorem C05_thresholds :
  forall (eps : R) (L : Z) (z : R) (m : Z),
       (2 <= L)%Z ->
       0 < eps ->
       (fsq_bound eps L z < IZR m + / 2 -> (rnd (fsq_bound eps L z) <= m)%Z) /\
       (IZR m + / 2 < fsq_bound eps L z -> (m + 1 <= rnd (fsq_bound eps L z))%Z).
Proof. exact (@fsq_threshold). Qed.
Print Assumptions C05_thresholds.

Theorem C05_odd_symmetric_for_odd_L :
  forall (eps : R) (L : Z) (z : R),
       (2 <= L)%Z -> 0 < eps -> Z.even L = false -> fsq_q eps L (- z) = - fsq_q eps L z.
Proof. exact (@fsq_odd_symmetric). Qed.
Print Assumptions C05_odd_symmetric_for_odd_L.

Theorem C05_saturates :
  forall (eps : R) (L : Z),
       (2 <= L)%Z ->
       eps_ok eps L ->
       exists Zmax Zmin : R,
         (forall z : R, Zmax <= z -> fsq_level eps L z = (L - 1)%Z) /\
         (forall z : R, z <= Zmin -> fsq_level eps L z = 0%Z).
Proof. exact (@fsq_saturates). Qed.
Print Assumptions C05_saturates.

Theorem C05_symmetric_mode_grid_value :
  forall (L : Z) (z : R), (2 <= L)%Z -> fsq_sym_q L z = 2 / (IZR L - 1) * IZR (fsq_sym_level L z) - 1.
Proof. exact (@fsq_sym_is_grid_value). Qed.
Print Assumptions C05_symmetric_mode_grid_value.

Theorem C05_symmetric_mode_level_range :
  forall (L : Z) (z : R), (2 <= L)%Z -> (0 <= fsq_sym_level L z < L)%Z.
Proof. exact (@fsq_sym_level_in_range). Qed.
Print Assumptions C05_symmetric_mode_level_range.

Theorem C05_symmetric_mode_nearest_grid_point_to_tanh :
  forall (L : Z) (z : R), (2 <= L)%Z -> Rabs (fsq_sym_q L z - th z) <= / (IZR L - 1).
Proof. exact (@fsq_sym_nearest_grid_point). Qed.
Print Assumptions C05_symmetric_mode_nearest_grid_point_to_tanh.

Theorem C05_symmetric_mode_monotone :
  forall (L : Z) (z z' : R), (2 <= L)%Z -> z <= z' -> fsq_sym_q L z <= fsq_sym_q L z'.
Proof. exact (@fsq_sym_monotone). Qed.
Print Assumptions C05_symmetric_mode_monotone.

Theorem C05_lfq_sign :
  forall s x : R, (0 < x -> lfq_q s x = s) /\ (x <= 0 -> lfq_q s x = - s).
Proof. exact (@lfq_sign). Qed.
Print Assumptions C05_lfq_sign.

Theorem C05_lfq_two_values :
  forall s x : R, lfq_q s x = s \/ lfq_q s x = - s.
Proof. exact (@lfq_two_values). Qed.
Print Assumptions C05_lfq_two_values.

Theorem C05_pointwise_per_dimension :
  forall (eps : R) (levels : list Z) (zs : list R) (i : nat),
       (i < Datatypes.length levels)%nat ->
       (i < Datatypes.length zs)%nat ->
       nth i (map2 (fun (L : Z) (z : R) => fsq_q eps L z) levels zs) 0 =
       fsq_q eps (nth i levels 0%Z) (nth i zs 0).
Proof. exact (@fsq_vector_is_map). Qed.
Print Assumptions C05_pointwise_per_dimension.

Theorem C05_th_is_tanh :
  forall x : R, th x = tanh x.
Proof. exact (@th_is_tanh). Qed.
Print Assumptions C05_th_is_tanh.

Theorem C05_th_atanh_inverse :
  forall y : R, -1 < y < 1 -> th (ath y) = y.
Proof. exact (@th_ath). Qed.
Print Assumptions C05_th_atanh_inverse.

Theorem C05_tie_bound_kernel :
  forall (eps : R) (L : Z) (z : R),
       k_fsq_bound.k_fsq_bound R_ops ath th z eps (IZR L) (fsq_offset L) =
       th (z + ath (fsq_offset L / ((IZR L - 1) * (1 + eps) / 2))) * ((IZR L - 1) * (1 + eps) / 2) -
       fsq_offset L.
Proof. exact (@glue_fsq_bound). Qed.
Print Assumptions C05_tie_bound_kernel.

Theorem C05_tie_sym_kernel :
  forall (L : Z) (z : R),
       k_fsq_sym_bound.k_fsq_sym_bound R_ops th (fun x : R => IZR (Zfloor x)) z (IZR L) =
       2 / (IZR L - 1) * IZR (Zfloor ((IZR L - 1) * (th z + 1) / 2 + 1 / 2)) - 1.
Proof. exact (@glue_fsq_sym_bound). Qed.
Print Assumptions C05_tie_sym_kernel.

Theorem C05_tie_lfq_kernel :
  forall s x : R, k_lfq_quantize.k_lfq_quantize R_ops x s = (if Rlt_dec 0 x then s else - s).
Proof. exact (@glue_lfq). Qed.
Print Assumptions C05_tie_lfq_kernel.

Theorem C05_tie_half_width :
  forall L : Z, k_fsq_half_width.k_fsq_half_width L = (L / 2)%Z.
Proof. exact (@glue_half_width). Qed.
Print Assumptions C05_tie_half_width.

Theorem C05_tie_quantize_branches :
  p_fsq_quantize.p_fsq_quantize = pinned_p_fsq_quantize.
Proof. exact (@pin_p_fsq_quantize). Qed.
Print Assumptions C05_tie_quantize_branches.

Theorem C05_tie_offset :
  k_fsq_offset.k_fsq_offset = pinned_k_fsq_offset.
Proof. exact (@pin_k_fsq_offset). Qed.
Print Assumptions C05_tie_offset.

(* implicit *)
Theorem C05_src_fsq_split :
  forall A : Type,
       exists p : pattern,
         role_pattern pr_scalar.pr_scalar "FSQ.forward:z" "rearrange" 1 = @Some pattern p /\
         wf_rearrange p = true /\
         (forall (e : env) (X : nat -> nat -> nat -> A) (b n c d : nat),
          (b < e "b")%nat ->
          (n < e "n")%nat ->
          (c < e "c")%nat ->
          (d < e "d")%nat -> @rearr A p e (@of3 A X) [b; n; c; d] = @cb_split A (e "d") X b n c d).
Proof. exact (@EinopsGlueScalar.einops_fsq_split). Qed.
Print Assumptions C05_src_fsq_split.

(* implicit *)
Theorem C05_src_fsq_merge :
  forall A : Type,
       exists p : pattern,
         role_pattern pr_scalar.pr_scalar "FSQ.forward:codes" "rearrange" 0 = @Some pattern p /\
         wf_rearrange p = true /\
         (forall (e : env) (Q : nat -> nat -> nat -> nat -> A) (b n x : nat),
          (b < e "b")%nat ->
          (n < e "n")%nat ->
          (x < e "c" * e "d")%nat -> @rearr A p e (@of4 A Q) [b; n; x] = @cb_merge A (e "d") Q b n x).
Proof. exact (@EinopsGlueScalar.einops_fsq_merge). Qed.
Print Assumptions C05_src_fsq_merge.

(* implicit *)
Theorem C05_src_lfq_split :
  forall A : Type,
       exists p : pattern,
         role_pattern pr_scalar.pr_scalar "LFQ.forward:x" "rearrange" 1 = @Some pattern p /\
         wf_rearrange p = true /\
         (forall (e : env) (X : nat -> nat -> nat -> A) (b n c d : nat),
          (b < e "b")%nat ->
          (n < e "n")%nat ->
          (c < e "c")%nat ->
          (d < e "d")%nat -> @rearr A p e (@of3 A X) [b; n; c; d] = @cb_split A (e "d") X b n c d).
Proof. exact (@EinopsGlueScalar.einops_lfq_split). Qed.
Print Assumptions C05_src_lfq_split.

(* implicit *)
Theorem C05_src_lfq_merge :
  forall A : Type,
       exists p : pattern,
         role_pattern pr_scalar.pr_scalar "LFQ.forward:x" "rearrange" 2 = @Some pattern p /\
         wf_rearrange p = true /\
         (forall (e : env) (Q : nat -> nat -> nat -> nat -> A) (b n x : nat),
          (b < e "b")%nat ->
          (n < e "n")%nat ->
          (x < e "c" * e "d")%nat -> @rearr A p e (@of4 A Q) [b; n; x] = @cb_merge A (e "d") Q b n x).
Proof. exact (@EinopsGlueScalar.einops_lfq_merge). Qed.
Print Assumptions C05_src_lfq_merge.

Theorem C05_tie_lfq_training_value :
  forall a q : R, k_lfq_ste.k_lfq_ste R_ops (fun v : R => v) a q = q.
Proof. exact (@ScalarGlue.glue_lfq_ste_value). Qed.
Print Assumptions C05_tie_lfq_training_value.

Theorem C05_tie_source_footprint :
  fp_C05.fp_C05 = pinned_fp_C05.
Proof. exact (@Pin_fp_C05.pin_fp_C05). Qed.
Print Assumptions C05_tie_source_footprint.

Theorem C05_reshape_write_lands_when_contiguous :
  forall (A : Type) (zero : A) (b n d : nat) (m : storage A) (rows : nat -> bool) (i j k : nat),
       (i < b)%nat ->
       (j < n)%nat ->
       (k < d)%nat ->
       get A (write_through_reshape A zero m (contiguous b n d) rows) (contiguous b n d) i j k =
       where_rows A zero m (contiguous b n d) rows i j k.
Proof. exact (@StridesProofs.contiguous_write_lands). Qed.
Print Assumptions C05_reshape_write_lands_when_contiguous.

Theorem C05_reshape_write_lost_on_permuted_view :
  forall (A : Type) (zero : A) (b n d : nat) (m : storage A) (rows : nat -> bool),
       (2 <= b)%nat ->
       (2 <= n)%nat -> (1 <= d)%nat -> write_through_reshape A zero m (batch_permuted b n d) rows = m.
Proof. exact (@StridesProofs.permuted_write_is_lost). Qed.
Print Assumptions C05_reshape_write_lost_on_permuted_view.

Theorem C05_write_through_reshape_refuted :
  forall (A : Type) (zero one : A),
       one <> zero ->
       exists (t : t3) (m : storage A) (rows : nat -> bool) (i j k : nat),
         (i < nb t)%nat /\
         (j < nn t)%nat /\
         (k < nd t)%nat /\
         get A (write_through_reshape A zero m t rows) t i j k <> where_rows A zero m t rows i j k.
Proof. exact (@StridesProofs.write_through_reshape_refuted). Qed.
Print Assumptions C05_write_through_reshape_refuted.

Theorem C05_tie_no_new_write_through_view_handles :
  inv_view_writes.inv_view_writes = pinned_inv_view_writes.
Proof. exact (@Pin_inv_view_writes.pin_inv_view_writes). Qed.
Print Assumptions C05_tie_no_new_write_through_view_handles.

Theorem C05_mergeable_write_lands :
  forall (A : Type) (zero : A) (t : t3) (m : storage A) (rows : nat -> bool) (i j k : nat),
       sb t = (nn t * sn t)%nat ->
       injective_addressing t ->
       (i < nb t)%nat ->
       (j < nn t)%nat ->
       (k < nd t)%nat ->
       get A (write_through_reshape A zero m t rows) t i j k = where_rows A zero m t rows i j k.
Proof. exact (@StridesGeneral.mergeable_write_lands). Qed.
Print Assumptions C05_mergeable_write_lands.

Theorem C05_feature_permuted_write_lands :
  forall (A : Type) (zero : A) (b n d : nat) (m : storage A) (rows : nat -> bool) (i j k : nat),
       (i < b)%nat ->
       (j < n)%nat ->
       (k < d)%nat ->
       get A (write_through_reshape A zero m (feature_permuted b n d) rows) (feature_permuted b n d) i j k =
       where_rows A zero m (feature_permuted b n d) rows i j k.
Proof. exact (@StridesGeneral.feature_permuted_write_lands). Qed.
Print Assumptions C05_feature_permuted_write_lands.

Theorem C05_expanded_write_aliases :
  forall (A : Type) (zero one : A),
       one <> zero ->
       exists (t : t3) (m : storage A) (rows : nat -> bool) (i j k : nat),
         sb t = (nn t * sn t)%nat /\
         (i < nb t)%nat /\
         (j < nn t)%nat /\
         (k < nd t)%nat /\
         get A (write_through_reshape A zero m t rows) t i j k <> where_rows A zero m t rows i j k.
Proof. exact (@StridesGeneral.expanded_write_aliases). Qed.
Print Assumptions C05_expanded_write_aliases.

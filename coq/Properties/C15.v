(* C15 -- checkpoint round trip preserves behaviour
   Only statements here: every theorem is closed by `exact <lemma proved in Proofs/ or Glue/>` and followed by
   Print Assumptions.  GENERATED skeleton (tools/mkprops.py), statements are the ones Coq prints for the lemmas. *)
From Coq Require Import ZArith List Bool String.
From VQ Require Import Model.Inventory Model.Params Proofs.ParamsProofs Glue.InventoryFacts.
From VQ Require Import Glue.Pin_inv_euclid Glue.Pin_inv_cosine Glue.Pin_inv_vq Glue.Pin_inv_fsq Glue.Pin_inv_lfq Glue.Pin_inv_simvq Glue.Pin_inv_rpq Glue.Pin_inv_rfsq Glue.Pin_inv_lq.
From VQ Require Import Glue.Pin_npinit_vq Glue.Pin_npinit_fsq Glue.Pin_npinit_lfq Glue.Pin_npinit_rfsq Glue.Pin_npinit_lq.
From VQ Require Import Glue.Pin_fp_C15.
Import ListNotations.

(* implicit *)

(* implicit *)
Theorem C15_roundtrip :
  forall (V : Type) (inv : list entry) (ctor s : @store V),
       @ctor_invariant V inv ctor s -> forall n : string, @rebuild V inv ctor (@persist V inv s) n = s n.
Proof. exact (@roundtrip). Qed.
Print Assumptions C15_roundtrip.

(* implicit *)
Theorem C15_invariant_preserved_by_every_history :
  forall (V : Type) (inv : list entry) (fw : string -> bool) (ctor : @store V) 
         (ps : list (@sop V)) (s : @store V),
       (forall n : string, fw n = true -> is_persistent inv n = true) ->
       (forall n : string, is_param inv n = true -> is_persistent inv n = true) ->
       @ctor_invariant V inv ctor s -> @ctor_invariant V inv ctor (@srun V inv fw s ps).
Proof. exact (@ctor_invariant_preserved). Qed.
Print Assumptions C15_invariant_preserved_by_every_history.

(* implicit *)
Theorem C15_roundtrip_after_any_history :
  forall (V : Type) (inv : list entry) (fw : string -> bool) (ctor : @store V) (ps : list (@sop V)),
       (forall n : string, fw n = true -> is_persistent inv n = true) ->
       (forall n : string, is_param inv n = true -> is_persistent inv n = true) ->
       forall n : string,
       @rebuild V inv ctor (@persist V inv (@srun V inv fw ctor ps)) n = @srun V inv fw ctor ps n.
Proof. exact (@roundtrip_after_any_history). Qed.
Print Assumptions C15_roundtrip_after_any_history.

(* implicit *)
Theorem C15_same_store_same_future :
  forall (V : Type) (inv : list entry) (fw : string -> bool) (s s' : @store V) (ps : list (@sop V)),
       (forall n : string, s n = s' n) -> forall n : string, @srun V inv fw s ps n = @srun V inv fw s' ps n.
Proof. exact (@same_store_same_future). Qed.
Print Assumptions C15_same_store_same_future.

(* implicit *)
Theorem C15_nonpersistent_written_entry_breaks_roundtrip :
  forall (V : Type) (inv : list entry) (ctor : @store V) (n : string) (v v0 : V),
       is_persistent inv n = false ->
       ctor n = @Some V v0 ->
       v <> v0 -> @rebuild V inv ctor (@persist V inv (@supd V ctor n v)) n <> @supd V ctor n v n.
Proof. exact (@nonpersistent_written_breaks_roundtrip). Qed.
Print Assumptions C15_nonpersistent_written_entry_breaks_roundtrip.

Theorem C15_codebook_state_is_persistent :
  forallb (fun n : string => has inv_euclid.inv_euclid n Buffer true)
         ["initted"; "cluster_size"; "embed_avg"; "embed"] = true /\
       forallb (fun n : string => has inv_cosine.inv_cosine n Buffer true)
         ["initted"; "cluster_size"; "embed_avg"; "embed"] = true.
Proof. exact (@codebook_state_persistent). Qed.
Print Assumptions C15_codebook_state_is_persistent.

Theorem C15_codebook_entries_all_persistent :
  forallb (fun e : string * kind * bool => snd e) inv_euclid.inv_euclid = true /\
       forallb (fun e : string * kind * bool => snd e) inv_cosine.inv_cosine = true.
Proof. exact (@codebook_every_entry_persistent). Qed.
Print Assumptions C15_codebook_entries_all_persistent.

Theorem C15_all_parameters_persistent :
  forallb params_persistent
         [inv_euclid.inv_euclid; inv_cosine.inv_cosine; inv_vq.inv_vq; inv_fsq.inv_fsq; inv_lfq.inv_lfq;
          inv_simvq.inv_simvq; inv_rpq.inv_rpq; inv_rfsq.inv_rfsq; inv_lq.inv_lq; inv_rvq.inv_rvq;
          inv_rlfq.inv_rlfq; inv_rsvq.inv_rsvq] = true.
Proof. exact (@all_params_persistent). Qed.
Print Assumptions C15_all_parameters_persistent.

Theorem C15_vq_inventory :
  names inv_vq.inv_vq = ["zero"] /\ persistent_names inv_vq.inv_vq = [].
Proof. exact (@vq_inventory). Qed.
Print Assumptions C15_vq_inventory.

Theorem C15_fsq_tables_rebuilt_by_constructor :
  names inv_fsq.inv_fsq = ["_basis"; "_levels"; "implicit_codebook"] /\
       param_names inv_fsq.inv_fsq = [] /\ persistent_names inv_fsq.inv_fsq = [].
Proof. exact (@fsq_implicit_tables_are_buffers). Qed.
Print Assumptions C15_fsq_tables_rebuilt_by_constructor.

Theorem C15_lfq_tables :
  names inv_lfq.inv_lfq = ["codebook"; "mask"; "zero"] /\
       param_names inv_lfq.inv_lfq = [] /\ persistent_names inv_lfq.inv_lfq = ["mask"].
Proof. exact (@lfq_tables_are_buffers). Qed.
Print Assumptions C15_lfq_tables.

Theorem C15_rfsq_scales :
  names inv_rfsq.inv_rfsq = ["scales"] /\
       param_names inv_rfsq.inv_rfsq = [] /\ persistent_names inv_rfsq.inv_rfsq = [].
Proof. exact (@rfsq_scales_buffer). Qed.
Print Assumptions C15_rfsq_scales.

Theorem C15_latent_inventory :
  param_names inv_lq.inv_lq = ["values_per_latent"] /\
       persistent_names inv_lq.inv_lq = ["values_per_latent"] /\
       buffer_names inv_lq.inv_lq =
       ["_basis"; "_levels"; "commitment_loss_weight"; "implicit_codebook"; "quantization_loss_weight"].
Proof. exact (@lq_inventory). Qed.
Print Assumptions C15_latent_inventory.

Theorem C15_simvq_frozen_codebook_persistent :
  has inv_simvq.inv_simvq "frozen_codebook" Buffer true = true /\
       is_param inv_simvq.inv_simvq "frozen_codebook" = false /\ param_names inv_simvq.inv_simvq = [].
Proof. exact (@simvq_frozen_codebook_is_persistent_buffer). Qed.
Print Assumptions C15_simvq_frozen_codebook_persistent.

Theorem C15_rpq_projection_persistent :
  has inv_rpq.inv_rpq "rand_projs" Buffer true = true /\
       is_param inv_rpq.inv_rpq "rand_projs" = false /\ param_names inv_rpq.inv_rpq = [].
Proof. exact (@rpq_projection_is_persistent_buffer). Qed.
Print Assumptions C15_rpq_projection_persistent.

Theorem C15_wrappers_own_no_state :
  inv_rvq.inv_rvq = [] /\ inv_rlfq.inv_rlfq = [] /\ inv_rsvq.inv_rsvq = [].
Proof. exact (@residual_wrappers_own_no_state). Qed.
Print Assumptions C15_wrappers_own_no_state.

Theorem C15_nonpersistent_init_vq :
  npinit_vq.npinit_vq = pinned_npinit_vq.
Proof. exact (@pin_npinit_vq). Qed.
Print Assumptions C15_nonpersistent_init_vq.

Theorem C15_nonpersistent_init_fsq :
  npinit_fsq.npinit_fsq = pinned_npinit_fsq.
Proof. exact (@pin_npinit_fsq). Qed.
Print Assumptions C15_nonpersistent_init_fsq.

Theorem C15_nonpersistent_init_lfq :
  npinit_lfq.npinit_lfq = pinned_npinit_lfq.
Proof. exact (@pin_npinit_lfq). Qed.
Print Assumptions C15_nonpersistent_init_lfq.

Theorem C15_nonpersistent_init_rfsq :
  npinit_rfsq.npinit_rfsq = pinned_npinit_rfsq.
Proof. exact (@pin_npinit_rfsq). Qed.
Print Assumptions C15_nonpersistent_init_rfsq.

Theorem C15_nonpersistent_init_latent :
  npinit_lq.npinit_lq = pinned_npinit_lq.
Proof. exact (@pin_npinit_lq). Qed.
Print Assumptions C15_nonpersistent_init_latent.

Theorem C15_inventory_euclid :
  inv_euclid.inv_euclid = pinned_inv_euclid.
Proof. exact (@pin_inv_euclid). Qed.
Print Assumptions C15_inventory_euclid.

Theorem C15_inventory_cosine :
  inv_cosine.inv_cosine = pinned_inv_cosine.
Proof. exact (@pin_inv_cosine). Qed.
Print Assumptions C15_inventory_cosine.

Theorem C15_tie_source_footprint :
  fp_C15.fp_C15 = pinned_fp_C15.
Proof. exact (@Pin_fp_C15.pin_fp_C15). Qed.
Print Assumptions C15_tie_source_footprint.

(* C14 -- k-means initialisation happens exactly once, from the data
   Only statements here: every theorem is closed by `exact <lemma proved in Proofs/ or Glue/>` and followed by
   Print Assumptions.  GENERATED skeleton (tools/mkprops.py), statements are the ones Coq prints for the lemmas. *)
From Coq Require Import ZArith List Bool String Reals.
From VQ Require Import Num Model.Vec Model.Core Model.Machine Model.Inventory Proofs.CoreKmeans Proofs.CorePure Glue.CoreGlue Glue.Pin_p_kmeans Glue.Pin_inv_euclid Glue.Pin_inv_cosine.
From VQ Require Import Glue.Pin_fp_C14.
From VQ Require Import Model.InitOrder Proofs.InitOrderProofs Glue.InitOrderGlue.
Import ListNotations.
Open Scope R_scope.

Theorem C14_counts_add_up :
  forall (score : vec R -> vec R -> R) (iters : nat) (data seeds : list Rv) (bins : Rv),
       seeds <> [] ->
       (0 < iters)%nat ->
       fsum R_ops (snd (kmeans R_ops score idv iters data seeds bins)) = INR (Datatypes.length data).
Proof. exact (@kmeans_bins_total). Qed.
Print Assumptions C14_counts_add_up.

Theorem C14_counts_nonneg :
  forall (score : vec R -> vec R -> R) (data means : list Rv) (j : nat),
       0 <= nth j (snd (kmeans_iter R_ops score idv data means)) 0.
Proof. exact (@kmeans_iter_bins_nonneg). Qed.
Print Assumptions C14_counts_nonneg.

Theorem C14_state_written :
  forall (score : vec R -> vec R -> R) (iters : nat) (data seeds : list Rv) (s : cstate R),
       let r := kmeans R_ops score idv iters data seeds (map (fun _ : Rv => 0) seeds) in
       let s' := init_embed R_ops score idv iters data seeds s in
       embed s' = fst r /\
       cluster_size s' = snd r /\
       initted s' = true /\ embed_avg s' = map2 (fun (m : vec R) (b : R) => vscale R_ops b m) (fst r) (snd r).
Proof. exact (@init_embed_writes). Qed.
Print Assumptions C14_state_written.

Theorem C14_weighted_sum :
  forall (score : vec R -> vec R -> R) (iters : nat) (data seeds : list Rv) (bins : Rv) (d : nat),
       shapedv d data ->
       shapedv d seeds ->
       data <> [] ->
       seeds <> [] ->
       (0 < iters)%nat ->
       wsum_means d (fst (kmeans R_ops score idv iters data seeds bins))
         (snd (kmeans R_ops score idv iters data seeds bins)) = vsum R_ops d data.
Proof. exact (@kmeans_weighted_sum). Qed.
Print Assumptions C14_weighted_sum.

Theorem C14_codes_in_convex_hull :
  forall (score : vec R -> vec R -> R) (iters : nat) (data seeds : list Rv) (bins : Rv) (d : nat),
       shapedv d data ->
       data <> [] ->
       Forall (fun s : Rv => In s data) seeds ->
       Forall (in_hull d data) (fst (kmeans R_ops score idv iters data seeds bins)).
Proof. exact (@kmeans_in_hull). Qed.
Print Assumptions C14_codes_in_convex_hull.

Theorem C14_mean_or_kept :
  forall (score : vec R -> vec R -> R) (data means : list Rv) (j d : nat),
       shapedv d data ->
       shapedv d means ->
       data <> [] ->
       (j < Datatypes.length means)%nat ->
       let ims := map (fun x : vec R => (select R_ops score means x, true)) data in
       let b := nth j (snd (kmeans_iter R_ops score idv data means)) 0 in
       (b = 0 -> nth j (fst (kmeans_iter R_ops score idv data means)) [] = nth j means []) /\
       (b <> 0 ->
        nth j (fst (kmeans_iter R_ops score idv data means)) [] = vdivs R_ops (sum_j R_ops d data ims j) b).
Proof. exact (@kmeans_iter_mean_law). Qed.
Print Assumptions C14_mean_or_kept.

Theorem C14_valid_tokens_only :
  forall (A : Type) (mask : list bool) (xs : list A) (x : A),
       In x (keep mask xs) -> exists i : nat, nth_error xs i = Some x /\ nth i mask false = true.
Proof. exact (@keep_valid_only). Qed.
Print Assumptions C14_valid_tokens_only.

Theorem C14_first_call_initialises :
  forall (F : Type) (o : ops F) (fsqrt : F -> F) (cfg : ccfg F) (training freeze temp_pos : bool)
         (s : cstate F) (xs : list (vec F)) (mask : option (list bool)) (w : oracle F),
       initted s = false ->
       negb training || freeze = true ->
       fst (cb_forward o fsqrt cfg training freeze temp_pos s xs mask w) =
       init_embed o (score_of o fsqrt cfg) (post_of o fsqrt cfg) (c_kmeans_iters cfg)
         (keep match mask with
               | Some m => m
               | None => map (fun _ : vec F => true) xs
               end xs) (w_seeds w) s /\
       initted (fst (cb_forward o fsqrt cfg training freeze temp_pos s xs mask w)) = true.
Proof. exact (@forward_kmeans_exception). Qed.
Print Assumptions C14_first_call_initialises.

Theorem C14_flag_set_by_first_call :
  forall (F : Type) (o : ops F) (fsqrt : F -> F) (cfg : ccfg F) (s : cstate F)
         (training freeze temp_pos : bool) (xs : list (vec F)) (mask : option (list bool)) 
         (w : oracle F), initted (fst (step o fsqrt cfg s (Call training freeze temp_pos xs mask w))) = true.
Proof. exact (@initted_after_first_call). Qed.
Print Assumptions C14_flag_set_by_first_call.

Theorem C14_exactly_once :
  forall (F : Type) (o : ops F) (fsqrt : F -> F) (cfg : ccfg F) (s : cstate F) (ps : list (op F)),
       initted s = true -> initted (run o fsqrt cfg s ps) = true.
Proof. exact (@initted_forever). Qed.
Print Assumptions C14_exactly_once.

Theorem C14_never_again :
  forall (F : Type) (o : ops F) (fsqrt : F -> F) (cfg : ccfg F) (s : cstate F)
         (training freeze temp_pos : bool) (xs : list (vec F)) (mask : option (list bool)) 
         (w : oracle F) (seeds' : list (vec F)),
       initted s = true ->
       step o fsqrt cfg s (Call training freeze temp_pos xs mask w) =
       step o fsqrt cfg s
         (Call training freeze temp_pos xs mask
            {| w_seeds := seeds'; w_picks := w_picks w; w_sample := w_sample w |}).
Proof. exact (@no_reinit). Qed.
Print Assumptions C14_never_again.

Theorem C14_tie_kmeans_guard :
  forall init : bool,
       g_euclid_kmeans.g_euclid_kmeans init = negb init /\ g_cosine_kmeans.g_cosine_kmeans init = negb init.
Proof. exact (@glue_kmeans_guard). Qed.
Print Assumptions C14_tie_kmeans_guard.

Theorem C14_tie_kmeans_guard_atoms :
  g_euclid_kmeans.g_euclid_kmeans_atoms = ["self_initted"] /\
       g_cosine_kmeans.g_cosine_kmeans_atoms = ["self_initted"].
Proof. exact (@glue_kmeans_guard_atoms). Qed.
Print Assumptions C14_tie_kmeans_guard_atoms.

(* implicit *)
Theorem C14_tie_kmeans_dataflow :
  p_kmeans.p_kmeans = pinned_p_kmeans.
Proof. exact (@pin_p_kmeans). Qed.
Print Assumptions C14_tie_kmeans_dataflow.

Theorem C14_initted_is_persistent_euclid :
  inv_euclid.inv_euclid = pinned_inv_euclid.
Proof. exact (@pin_inv_euclid). Qed.
Print Assumptions C14_initted_is_persistent_euclid.

Theorem C14_initted_is_persistent_cosine :
  inv_cosine.inv_cosine = pinned_inv_cosine.
Proof. exact (@pin_inv_cosine). Qed.
Print Assumptions C14_initted_is_persistent_cosine.

Theorem C14_tie_source_footprint :
  fp_C14.fp_C14 = pinned_fp_C14.
Proof. exact (@Pin_fp_C14.pin_fp_C14). Qed.
Print Assumptions C14_tie_source_footprint.

Theorem C14_euclid_failed_init_writes_nothing :
  forall (k : nat) (c : string * string),
       nth_error o_euclid_init.o_euclid_init k = Some c ->
       is_write c = false ->
       written k o_euclid_init.o_euclid_init = [] /\ flag_set k o_euclid_init.o_euclid_init = false.
Proof. exact (@InitOrderGlue.euclid_failed_init_writes_nothing). Qed.
Print Assumptions C14_euclid_failed_init_writes_nothing.

Theorem C14_cosine_failed_init_writes_nothing :
  forall (k : nat) (c : string * string),
       nth_error o_cosine_init.o_cosine_init k = Some c ->
       is_write c = false ->
       written k o_cosine_init.o_cosine_init = [] /\ flag_set k o_cosine_init.o_cosine_init = false.
Proof. exact (@InitOrderGlue.cosine_failed_init_writes_nothing). Qed.
Print Assumptions C14_cosine_failed_init_writes_nothing.

Theorem C14_euclid_flag_implies_complete :
  forall k : nat,
       flag_set k o_euclid_init.o_euclid_init = true ->
       (Datatypes.length o_euclid_init.o_euclid_init <= k)%nat.
Proof. exact (@InitOrderGlue.euclid_flag_implies_complete). Qed.
Print Assumptions C14_euclid_flag_implies_complete.

Theorem C14_cosine_flag_implies_complete :
  forall k : nat,
       flag_set k o_cosine_init.o_cosine_init = true ->
       (Datatypes.length o_cosine_init.o_cosine_init <= k)%nat.
Proof. exact (@InitOrderGlue.cosine_flag_implies_complete). Qed.
Print Assumptions C14_cosine_flag_implies_complete.

Theorem C14_failed_compute_writes_nothing :
  forall (calls : list (string * string)) (k : nat) (c : string * string),
       computes_before_writes calls = true ->
       nth_error calls k = Some c -> is_write c = false -> written k calls = [].
Proof. exact (@InitOrderProofs.failed_compute_writes_nothing). Qed.
Print Assumptions C14_failed_compute_writes_nothing.

Theorem C14_early_flag_refuted :
  exists (calls : list (string * string)) (k : nat) (c : string * string),
         nth_error calls k = Some c /\ is_write c = false /\ flag_set k calls = true.
Proof. exact (@InitOrderProofs.early_flag_refuted). Qed.
Print Assumptions C14_early_flag_refuted.

(* C20 -- non-learned codebooks stay fixed
   Only statements here: every theorem is closed by `exact <lemma proved in Proofs/ or Glue/>` and followed by
   Print Assumptions.  GENERATED skeleton (tools/mkprops.py), statements are the ones Coq prints for the lemmas. *)
From Coq Require Import ZArith List Bool String.
From VQ Require Import Num Model.Vec Model.Core Model.Machine Model.Inventory Model.Params Proofs.ParamsProofs Proofs.CorePure Glue.CoreGlue Glue.InventoryFacts.
From VQ Require Import Glue.Pin_w_simvq Glue.Pin_w_rpq Glue.Pin_w_fsq Glue.Pin_w_lfq Glue.Pin_w_rfsq Glue.Pin_w_rlfq Glue.Pin_w_rsvq Glue.Pin_o_rpq_eval Glue.Pin_p_simvq_codebook.
From VQ Require Import Glue.Pin_fp_C20.
Import ListNotations.

(* implicit *)

(* implicit *)
Theorem C20_untouched_by_every_history :
  forall (V : Type) (inv : list entry) (fw : string -> bool) (ps : list (@sop V)) 
         (s : @store V) (n : string), fw n = false -> is_param inv n = false -> @srun V inv fw s ps n = s n.
Proof. exact (@untouched_forever). Qed.
Print Assumptions C20_untouched_by_every_history.

(* implicit *)
Theorem C20_optimiser_writes_parameters_only :
  forall (V : Type) (inv : list entry) (fw : string -> bool) (ws : list (string * V)) 
         (s : @store V) (n : string), is_param inv n = false -> @sstep V inv fw s (@SOpt V ws) n = s n.
Proof. exact (@optimiser_writes_parameters_only). Qed.
Print Assumptions C20_optimiser_writes_parameters_only.

Theorem C20_simvq_frozen_codebook_is_buffer :
  has inv_simvq.inv_simvq "frozen_codebook" Buffer true = true /\
       is_param inv_simvq.inv_simvq "frozen_codebook" = false /\ param_names inv_simvq.inv_simvq = [].
Proof. exact (@simvq_frozen_codebook_is_persistent_buffer). Qed.
Print Assumptions C20_simvq_frozen_codebook_is_buffer.

Theorem C20_simvq_forward_has_no_write_site :
  w_simvq.w_simvq = pinned_w_simvq.
Proof. exact (@pin_w_simvq). Qed.
Print Assumptions C20_simvq_forward_has_no_write_site.

Theorem C20_residual_simvq_no_write_site :
  w_rsvq.w_rsvq = pinned_w_rsvq.
Proof. exact (@pin_w_rsvq). Qed.
Print Assumptions C20_residual_simvq_no_write_site.

Theorem C20_simvq_effective_codebook_is_transform_of_frozen :
  p_simvq_codebook.p_simvq_codebook = pinned_p_simvq_codebook.
Proof. exact (@pin_p_simvq_codebook). Qed.
Print Assumptions C20_simvq_effective_codebook_is_transform_of_frozen.

Theorem C20_rpq_projection_is_buffer :
  has inv_rpq.inv_rpq "rand_projs" Buffer true = true /\
       is_param inv_rpq.inv_rpq "rand_projs" = false /\ param_names inv_rpq.inv_rpq = [].
Proof. exact (@rpq_projection_is_persistent_buffer). Qed.
Print Assumptions C20_rpq_projection_is_buffer.

Theorem C20_rpq_only_write_is_eval :
  w_rpq.w_rpq = pinned_w_rpq.
Proof. exact (@pin_w_rpq). Qed.
Print Assumptions C20_rpq_only_write_is_eval.

Theorem C20_rpq_forces_eval_before_call :
  o_rpq_eval.o_rpq_eval = pinned_o_rpq_eval.
Proof. exact (@pin_o_rpq_eval). Qed.
Print Assumptions C20_rpq_forces_eval_before_call.

Theorem C20_rpq_inner_codebook_pure_in_eval :
  forall (F : Type) (o : ops F) (fsqrt : F -> F) (cfg : ccfg F) (training freeze temp_pos : bool)
         (s : cstate F) (xs : list (vec F)) (mask : option (list bool)) (w : oracle F),
       initted s = true ->
       negb training || freeze = true ->
       fst (cb_forward o fsqrt cfg training freeze temp_pos s xs mask w) = s.
Proof. exact (@forward_pure). Qed.
Print Assumptions C20_rpq_inner_codebook_pure_in_eval.

Theorem C20_rpq_inner_history_pure :
  forall (F : Type) (o : ops F) (fsqrt : F -> F) (cfg : ccfg F) (s : cstate F) (ps : list (op F)),
       initted s = true -> forallb is_pure ps = true -> run o fsqrt cfg s ps = s.
Proof. exact (@run_pure). Qed.
Print Assumptions C20_rpq_inner_history_pure.

Theorem C20_rpq_equal_inputs_equal_indices :
  forall (F : Type) (o : ops F) (fsqrt : F -> F) (cfg : ccfg F) (freeze temp_pos : bool) 
         (s : cstate F) (xs : list (vec F)) (mask : option (list bool)) (w w' : oracle F),
       initted s = true ->
       snd (step o fsqrt cfg s (Call false freeze temp_pos xs mask w)) =
       snd (step o fsqrt cfg s (Call false freeze temp_pos xs mask w')).
Proof. exact (@pure_call_repeatable). Qed.
Print Assumptions C20_rpq_equal_inputs_equal_indices.

Theorem C20_codebook_is_param_only_if_learnable :
  forall learnable : bool,
       g_euclid_embed_is_param.g_euclid_embed_is_param learnable = learnable /\
       g_cosine_embed_is_param.g_cosine_embed_is_param learnable = learnable.
Proof. exact (@embed_is_param_iff_learnable). Qed.
Print Assumptions C20_codebook_is_param_only_if_learnable.

Theorem C20_fsq_tables_are_buffers :
  names inv_fsq.inv_fsq = ["_basis"; "_levels"; "implicit_codebook"] /\
       param_names inv_fsq.inv_fsq = [] /\ persistent_names inv_fsq.inv_fsq = [].
Proof. exact (@fsq_implicit_tables_are_buffers). Qed.
Print Assumptions C20_fsq_tables_are_buffers.

Theorem C20_fsq_no_write_site :
  w_fsq.w_fsq = pinned_w_fsq.
Proof. exact (@pin_w_fsq). Qed.
Print Assumptions C20_fsq_no_write_site.

Theorem C20_lfq_tables_are_buffers :
  names inv_lfq.inv_lfq = ["codebook"; "mask"; "zero"] /\
       param_names inv_lfq.inv_lfq = [] /\ persistent_names inv_lfq.inv_lfq = ["mask"].
Proof. exact (@lfq_tables_are_buffers). Qed.
Print Assumptions C20_lfq_tables_are_buffers.

Theorem C20_lfq_no_write_site :
  w_lfq.w_lfq = pinned_w_lfq.
Proof. exact (@pin_w_lfq). Qed.
Print Assumptions C20_lfq_no_write_site.

Theorem C20_rfsq_scales_buffer :
  names inv_rfsq.inv_rfsq = ["scales"] /\
       param_names inv_rfsq.inv_rfsq = [] /\ persistent_names inv_rfsq.inv_rfsq = [].
Proof. exact (@rfsq_scales_buffer). Qed.
Print Assumptions C20_rfsq_scales_buffer.

Theorem C20_rfsq_no_write_site :
  w_rfsq.w_rfsq = pinned_w_rfsq.
Proof. exact (@pin_w_rfsq). Qed.
Print Assumptions C20_rfsq_no_write_site.

Theorem C20_rlfq_no_write_site :
  w_rlfq.w_rlfq = pinned_w_rlfq.
Proof. exact (@pin_w_rlfq). Qed.
Print Assumptions C20_rlfq_no_write_site.

Theorem C20_tie_source_footprint :
  fp_C20.fp_C20 = pinned_fp_C20.
Proof. exact (@Pin_fp_C20.pin_fp_C20). Qed.
Print Assumptions C20_tie_source_footprint.

(* instances: the frozen SimVQ codebook / the RPQ projection / the FSQ and LFQ tables keep their value through every
   history of forwards (no write site) and optimiser steps (not parameters) *)
Theorem C20_simvq_frozen_fixed : forall (V : Type) (ps : list (@sop V)) (s : @store V),
  srun inv_simvq.inv_simvq (fun _ => false) s ps "frozen_codebook"%string = s "frozen_codebook"%string.
Proof. intros. apply untouched_forever; reflexivity. Qed.
Print Assumptions C20_simvq_frozen_fixed.
Theorem C20_rpq_projection_fixed : forall (V : Type) (ps : list (@sop V)) (s : @store V),
  srun inv_rpq.inv_rpq (fun _ => false) s ps "rand_projs"%string = s "rand_projs"%string.
Proof. intros. apply untouched_forever; reflexivity. Qed.
Print Assumptions C20_rpq_projection_fixed.
Theorem C20_fsq_lfq_tables_fixed : forall (V : Type) (ps : list (@sop V)) (s : @store V) (n : string),
  In n ["_levels"; "_basis"; "implicit_codebook"]%string ->
  srun inv_fsq.inv_fsq (fun _ => false) s ps n = s n.
Proof. intros V ps s n H. apply untouched_forever; [reflexivity|]. simpl in H. repeat (destruct H as [H|H]; [subst n; reflexivity|]). contradiction. Qed.
Print Assumptions C20_fsq_lfq_tables_fixed.
Theorem C20_lfq_tables_fixed : forall (V : Type) (ps : list (@sop V)) (s : @store V) (n : string),
  In n ["codebook"; "mask"]%string -> srun inv_lfq.inv_lfq (fun _ => false) s ps n = s n.
Proof. intros V ps s n H. apply untouched_forever; [reflexivity|]. simpl in H. repeat (destruct H as [H|H]; [subst n; reflexivity|]). contradiction. Qed.
Print Assumptions C20_lfq_tables_fixed.

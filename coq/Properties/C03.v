(* C03 -- EMA codebook update follows the moving-average law
   Only statements here: every theorem is closed by `exact <lemma proved in Proofs/ or Glue/>` and followed by
   Print Assumptions.  GENERATED skeleton (tools/mkprops.py), statements are the ones Coq prints for the lemmas. *)
From Coq Require Import ZArith List Bool String Reals.
From VQ Require Import Num Model.Vec Model.Core Proofs.CoreEMA Glue.CoreGlue.
From VQ Require Import Glue.Pin_fp_C03.
From VQ Require Import Model.Blocks Proofs.BlockProofs.
From VQ Require Import Model.B32 Proofs.B32Saturation.
From VQ Require Import Model.Alias Proofs.AliasProofs Glue.Pin_w_euclid Glue.Pin_w_cosine.
From VQ Require Import Glue.Pin_p_rvq_flags.
Import ListNotations.
Open Scope R_scope.

Theorem C03_counts_law :
  forall (decay : R) (d : nat) (s : cstate R) (xs : list Rv) (ims : list (nat * bool)) (j : nat),
       (j < Datatypes.length (cluster_size s))%nat ->
       nth j (cluster_size (ema_accumulate R_ops decay d s xs ims)) 0 =
       decay * nth j (cluster_size s) 0 + (1 - decay) * count_j R_ops ims j.
Proof. exact (@ema_counts_law). Qed.
Print Assumptions C03_counts_law.

Theorem C03_sums_law :
  forall (decay : R) (d : nat) (s : cstate R) (xs : list Rv) (ims : list (nat * bool)) (j i : nat),
       wf d s ->
       Forall (fun v : Rv => Datatypes.length v = d) xs ->
       (j < Datatypes.length (cluster_size s))%nat ->
       (i < d)%nat ->
       nth i (nth j (embed_avg (ema_accumulate R_ops decay d s xs ims)) []) 0 =
       decay * nth i (nth j (embed_avg s) []) 0 + (1 - decay) * nth i (sum_j R_ops d xs ims j) 0.
Proof. exact (@ema_sums_law). Qed.
Print Assumptions C03_sums_law.

Theorem C03_codebook_is_sum_over_smoothed_count :
  forall (eps : R) (s : cstate R) (j i d : nat),
       wf d s ->
       (j < Datatypes.length (cluster_size s))%nat ->
       (i < d)%nat ->
       nth i (nth j (embed (normalise R_ops eps (fun v : vec R => v) s)) []) 0 =
       nth i (nth j (embed_avg s) []) 0 / smoothed_j eps (cluster_size s) j.
Proof. exact (@normalise_law). Qed.
Print Assumptions C03_codebook_is_sum_over_smoothed_count.

Theorem C03_smoothed_count :
  forall (eps : R) (cs : Rv) (j : nat),
       (j < Datatypes.length cs)%nat -> nth j (smoothed R_ops eps cs) 0 = smoothed_j eps cs j.
Proof. exact (@smoothed_law). Qed.
Print Assumptions C03_smoothed_count.

Theorem C03_closed_form :
  forall (decay eps : R) (d : nat) (bs : list (list Rv * list (nat * bool))) (s : cstate R) (j : nat),
       (j < Datatypes.length (cluster_size s))%nat ->
       nth j (cluster_size (train_hist decay eps d bs s)) 0 =
       decay ^ Datatypes.length bs * nth j (cluster_size s) 0 +
       (1 - decay) * wsum decay (map (fun b : list Rv * list (nat * bool) => count_j R_ops (snd b) j) bs).
Proof. exact (@hist_counts_closed_form). Qed.
Print Assumptions C03_closed_form.

Theorem C03_scalar_closed_form :
  forall (decay : R) (news : Rv) (c0 : R),
       ema_hist decay news c0 = decay ^ Datatypes.length news * c0 + (1 - decay) * wsum decay news.
Proof. exact (@ema_hist_closed_form). Qed.
Print Assumptions C03_scalar_closed_form.

Theorem C03_never_hit :
  forall (decay eps : R) (d : nat) (bs : list (list Rv * list (nat * bool))) (s : cstate R) (j : nat),
       (j < Datatypes.length (cluster_size s))%nat ->
       Forall (fun b : list Rv * list (nat * bool) => count_j R_ops (snd b) j = 0) bs ->
       nth j (cluster_size (train_hist decay eps d bs s)) 0 =
       decay ^ Datatypes.length bs * nth j (cluster_size s) 0.
Proof. exact (@hist_never_hit). Qed.
Print Assumptions C03_never_hit.

Theorem C03_never_hit_stays_defined :
  forall (eps : R) (cs : Rv) (j : nat),
       0 < eps ->
       Forall (fun c : R => 0 <= c) cs ->
       0 < fsum R_ops cs -> (j < Datatypes.length cs)%nat -> 0 < smoothed_j eps cs j.
Proof. exact (@smoothed_positive). Qed.
Print Assumptions C03_never_hit_stays_defined.

Theorem C03_smoothed_mass :
  forall (eps : R) (cs : Rv),
       fsum R_ops cs + INR (Datatypes.length cs) * eps <> 0 ->
       fsum R_ops (smoothed R_ops eps cs) = fsum R_ops cs.
Proof. exact (@smoothed_mass). Qed.
Print Assumptions C03_smoothed_mass.

Theorem C03_decay_one :
  forall (eps : R) (d : nat) (bs : list (list Rv * list (nat * bool))) (s : cstate R),
       wf d s ->
       Forall (fun b : list Rv * list (nat * bool) => Forall (fun v : Rv => Datatypes.length v = d) (fst b))
         bs ->
       cluster_size (train_hist 1 eps d bs s) = cluster_size s /\
       embed_avg (train_hist 1 eps d bs s) = embed_avg s /\
       (bs <> [] -> embed (train_hist 1 eps d bs s) = embed (normalise R_ops eps (fun v : vec R => v) s)).
Proof. exact (@hist_decay_one). Qed.
Print Assumptions C03_decay_one.

Theorem C03_decay_one_fresh_codebook_never_moves :
  forall (eps : R) (d : nat) (bs : list (list Rv * list (nat * bool))) (s : cstate R),
       0 < eps ->
       (0 < Datatypes.length (cluster_size s))%nat ->
       wf d s ->
       Forall (fun b : list Rv * list (nat * bool) => Forall (fun v : Rv => Datatypes.length v = d) (fst b))
         bs ->
       Forall (fun c : R => c = 1) (cluster_size s) ->
       embed_avg s = embed s -> embed (train_hist 1 eps d bs s) = embed s.
Proof. exact (@hist_decay_one_fresh). Qed.
Print Assumptions C03_decay_one_fresh_codebook_never_moves.

Theorem C03_shared_codebook :
  forall (decay eps : R) (d : nat) (layers : list (list Rv * list (nat * bool))) 
         (s : cstate R) (j : nat),
       (j < Datatypes.length (cluster_size s))%nat ->
       nth j (cluster_size (shared_step decay eps d layers s)) 0 =
       decay ^ Datatypes.length layers * nth j (cluster_size s) 0 +
       (1 - decay) * wsum decay (map (fun b : list Rv * list (nat * bool) => count_j R_ops (snd b) j) layers).
Proof. exact (@shared_counts_closed_form). Qed.
Print Assumptions C03_shared_codebook.

Theorem C03_masked_counts :
  forall (ims : list (nat * bool)) (j : nat),
       count_j R_ops ims j = count_j R_ops (filter (fun im : nat * bool => snd im) ims) j.
Proof. exact (@count_masked). Qed.
Print Assumptions C03_masked_counts.

Theorem C03_masked_sums :
  forall (d : nat) (xs : list Rv) (ims : list (nat * bool)) (j : nat),
       Datatypes.length xs = Datatypes.length ims ->
       Forall (fun v : Rv => Datatypes.length v = d) xs ->
       sum_j R_ops d xs ims j =
       sum_j R_ops d (valid_only ims xs) (filter (fun im : nat * bool => snd im) ims) j.
Proof. exact (@sum_masked). Qed.
Print Assumptions C03_masked_sums.

Theorem C03_counts_are_valid_hits :
  forall (ims : list (nat * bool)) (j : nat),
       count_j R_ops ims j =
       INR (Datatypes.length (filter (fun im : nat * bool => snd im && (fst im =? j)%nat) ims)).
Proof. exact (@count_is_number_of_valid_hits). Qed.
Print Assumptions C03_counts_are_valid_hits.

Theorem C03_tie_ema_kernel :
  forall old new decay : R,
       k_ema_inplace.k_ema_inplace R_ops old new decay = decay * old + (1 - decay) * new.
Proof. exact (@glue_ema_inplace). Qed.
Print Assumptions C03_tie_ema_kernel.

Theorem C03_tie_laplace_kernel :
  forall x n eps denom : R,
       denom + n * eps <> 0 -> k_laplace.k_laplace R_ops x n eps denom = (x + eps) / (denom + n * eps).
Proof. exact (@glue_laplace). Qed.
Print Assumptions C03_tie_laplace_kernel.

Theorem C03_tie_ema_guard :
  forall freeze ema training : bool,
       g_euclid_ema.g_euclid_ema freeze ema training = training && ema && negb freeze /\
       g_cosine_ema.g_cosine_ema freeze ema training = training && ema && negb freeze.
Proof. exact (@glue_ema_guard). Qed.
Print Assumptions C03_tie_ema_guard.

Theorem C03_tie_ema_guard_atoms :
  g_euclid_ema.g_euclid_ema_atoms = ["freeze_codebook"; "self_ema_update"; "self_training"] /\
       g_cosine_ema.g_cosine_ema_atoms = ["freeze_codebook"; "self_ema_update"; "self_training"].
Proof. exact (@glue_ema_guard_atoms). Qed.
Print Assumptions C03_tie_ema_guard_atoms.

Theorem C03_tie_update_guard :
  forall freeze ema manual training : bool,
       g_euclid_update_ema.g_euclid_update_ema freeze ema manual training =
       training && ema && negb freeze && negb manual /\
       g_cosine_update_ema.g_cosine_update_ema freeze ema manual training =
       training && ema && negb freeze && negb manual /\
       g_euclid_expire.g_euclid_expire freeze ema manual training =
       training && ema && negb freeze && negb manual /\
       g_cosine_expire.g_cosine_expire freeze ema manual training =
       training && ema && negb freeze && negb manual.
Proof. exact (@glue_update_guard). Qed.
Print Assumptions C03_tie_update_guard.

Theorem C03_tie_update_guard_atoms :
  g_euclid_update_ema.g_euclid_update_ema_atoms =
       ["freeze_codebook"; "self_ema_update"; "self_manual_ema_update"; "self_training"] /\
       g_cosine_update_ema.g_cosine_update_ema_atoms =
       ["freeze_codebook"; "self_ema_update"; "self_manual_ema_update"; "self_training"] /\
       g_euclid_expire.g_euclid_expire_atoms =
       ["freeze_codebook"; "self_ema_update"; "self_manual_ema_update"; "self_training"] /\
       g_cosine_expire.g_cosine_expire_atoms =
       ["freeze_codebook"; "self_ema_update"; "self_manual_ema_update"; "self_training"].
Proof. exact (@glue_update_guard_atoms). Qed.
Print Assumptions C03_tie_update_guard_atoms.

Theorem C03_tie_mask_guard :
  forall has_mask freeze ema training : bool,
       g_euclid_mask_onehot.g_euclid_mask_onehot has_mask freeze ema training =
       training && ema && negb freeze && has_mask /\
       g_cosine_mask_onehot.g_cosine_mask_onehot has_mask freeze ema training =
       training && ema && negb freeze && has_mask.
Proof. exact (@glue_mask_onehot_guard). Qed.
Print Assumptions C03_tie_mask_guard.

Theorem C03_tie_mask_guard_atoms :
  g_euclid_mask_onehot.g_euclid_mask_onehot_atoms =
       ["exists_mask"; "freeze_codebook"; "self_ema_update"; "self_training"] /\
       g_cosine_mask_onehot.g_cosine_mask_onehot_atoms =
       ["exists_mask"; "freeze_codebook"; "self_ema_update"; "self_training"].
Proof. exact (@glue_mask_onehot_guard_atoms). Qed.
Print Assumptions C03_tie_mask_guard_atoms.

Theorem C03_tie_shared_guards :
  forall freeze shared training : bool,
       g_rvq_shared_update.g_rvq_shared_update freeze shared training = training && shared && negb freeze /\
       g_rvq_shared_expire.g_rvq_shared_expire freeze shared training = training && shared && negb freeze /\
       g_rvq_shared_opt.g_rvq_shared_opt freeze shared training = training && shared && negb freeze.
Proof. exact (@glue_shared_guards). Qed.
Print Assumptions C03_tie_shared_guards.

Theorem C03_tie_shared_guards_atoms :
  g_rvq_shared_update.g_rvq_shared_update_atoms =
       ["freeze_codebook"; "self_shared_codebook"; "self_training"] /\
       g_rvq_shared_expire.g_rvq_shared_expire_atoms =
       ["freeze_codebook"; "self_shared_codebook"; "self_training"] /\
       g_rvq_shared_opt.g_rvq_shared_opt_atoms = ["freeze_codebook"; "self_shared_codebook"; "self_training"].
Proof. exact (@glue_shared_guards_atoms). Qed.
Print Assumptions C03_tie_shared_guards_atoms.

Theorem C03_tie_step_order :
  map fst o_euclid_collectives.o_euclid_collectives = step_order /\
       map fst o_cosine_collectives.o_cosine_collectives = step_order.
Proof. exact (@glue_step_order). Qed.
Print Assumptions C03_tie_step_order.

Theorem C03_tie_update_ema_expr :
  k_update_ema_denom.k_update_ema_denom =
       ["laplace_smoothing(self.cluster_size, self.codebook_size, self.eps) * self.cluster_size.sum(dim=-1, keepdim=True)";
        "self.embed_avg / rearrange(cluster_size, '... -> ... 1')"].
Proof. exact (@glue_update_ema_expr). Qed.
Print Assumptions C03_tie_update_ema_expr.

Theorem C03_tie_source_footprint :
  fp_C03.fp_C03 = pinned_fp_C03.
Proof. exact (@Pin_fp_C03.pin_fp_C03). Qed.
Print Assumptions C03_tie_source_footprint.

(* implicit *)
Theorem C03_block_counts :
  forall (bs : list (nblock R)) (j : nat),
       @count_j R R_ops (@combine nat bool (@expand_idx R bs) (@expand_valid R bs)) j =
       @bcount_j R R_ops (@map (nblock R) (block R) rblock bs) j.
Proof. exact (@BlockProofs.block_counts). Qed.
Print Assumptions C03_block_counts.

(* implicit *)
Theorem C03_block_sums :
  forall (d : nat) (bs : list (nblock R)) (j : nat),
       @Forall (Rv * nat * bool * nat)
         (fun b : Rv * nat * bool * nat =>
          @Datatypes.length R (@fst Rv nat (@fst (Rv * nat) bool (@fst (Rv * nat * bool) nat b))) = d) bs ->
       @sum_j R R_ops d (@expand_xs R bs) (@combine nat bool (@expand_idx R bs) (@expand_valid R bs)) j =
       @bsum_j R R_ops d (@map (nblock R) (block R) rblock bs) j.
Proof. exact (@BlockProofs.block_sums). Qed.
Print Assumptions C03_block_sums.

(* implicit *)
Theorem C03_block_update_correct :
  forall (cfg : ccfg R) (d : nat) (s : cstate R) (bs : list (nblock R)) (picks : list Rv),
       @Forall (Rv * nat * bool * nat)
         (fun b : Rv * nat * bool * nat =>
          @Datatypes.length R (@fst Rv nat (@fst (Rv * nat) bool (@fst (Rv * nat * bool) nat b))) = d) bs ->
       @dim_of R (@expand_xs R bs) = d ->
       @c_ema_update R cfg = true ->
       @c_manual R cfg = false ->
       @c_thr R cfg = 0 ->
       @cb_update R R_ops sqrt cfg true false true s (@expand_xs R bs) (@expand_valid R bs)
         (@expand_idx R bs) picks = @block_update R R_ops sqrt cfg d s (@map (nblock R) (block R) rblock bs).
Proof. exact (@BlockProofs.block_update_correct). Qed.
Print Assumptions C03_block_update_correct.

(* implicit *)
Theorem C03_block_single_code_count :
  forall (decay : R) (d : nat) (s : cstate R) (x : Rv) (j n : nat),
       @Datatypes.length R x = d ->
       (j < @Datatypes.length R (@cluster_size R s))%nat ->
       @nth R j
         (@cluster_size R
            (@ema_accumulate R R_ops decay d s (@repeat Rv x n) (@repeat (nat * bool) (j, true) n))) 0 =
       decay * @nth R j (@cluster_size R s) 0 + (1 - decay) * INR n.
Proof. exact (@BlockProofs.block_single_code_count). Qed.
Print Assumptions C03_block_single_code_count.

Theorem C03_b32_counter_saturates :
  forall n : nat, Nat.iter n (fun s : sf => b32_add s b32_one) b32_2p24 = b32_2p24.
Proof. exact (@B32Saturation.b32_counter_saturates). Qed.
Print Assumptions C03_b32_counter_saturates.

Theorem C03_b32_below_2p24_exact :
  b32_add (b32_of_Z 16777215) b32_one = b32_2p24.
Proof. exact (@B32Saturation.b32_below_2p24_exact). Qed.
Print Assumptions C03_b32_below_2p24_exact.

Theorem C03_in_place_update_seen_by_every_observer :
  forall (V : Type) (st : store V) (m1 m2 : binding) (f g : nat) (v : V),
       m1 f = m2 g -> read V (fst (write_in_place V st m1 f v)) m2 g = v.
Proof. exact (@AliasProofs.in_place_seen_by_all). Qed.
Print Assumptions C03_in_place_update_seen_by_every_observer.

Theorem C03_in_place_update_frame :
  forall (V : Type) (st : store V) (m1 m2 : binding) (f g : nat) (v : V),
       m2 g <> m1 f -> read V (fst (write_in_place V st m1 f v)) m2 g = read V st m2 g.
Proof. exact (@AliasProofs.in_place_frame). Qed.
Print Assumptions C03_in_place_update_frame.

Theorem C03_rebinding_unties_observers :
  forall (V : Type) (st : store V) (m1 m2 : binding) (f g fresh : nat) (v : V),
       m1 f = m2 g -> fresh <> m2 g -> read V (fst (rebind V st m1 f fresh v)) m2 g = read V st m2 g.
Proof. exact (@AliasProofs.rebind_unties). Qed.
Print Assumptions C03_rebinding_unties_observers.

Theorem C03_rebinding_refuted :
  forall (V : Type) (old new : V),
       old <> new ->
       exists (st : store V) (m1 m2 : binding) (f fresh : nat),
         m1 f = m2 f /\ read V (fst (rebind V st m1 f fresh new)) m2 f <> new.
Proof. exact (@AliasProofs.rebind_refuted). Qed.
Print Assumptions C03_rebinding_refuted.

Theorem C03_tie_euclid_write_sites_pinned :
  w_euclid.w_euclid = pinned_w_euclid.
Proof. exact (@Pin_w_euclid.pin_w_euclid). Qed.
Print Assumptions C03_tie_euclid_write_sites_pinned.

Theorem C03_tie_cosine_write_sites_pinned :
  w_cosine.w_cosine = pinned_w_cosine.
Proof. exact (@Pin_w_cosine.pin_w_cosine). Qed.
Print Assumptions C03_tie_cosine_write_sites_pinned.

Theorem C03_tie_residual_stack_flags_are_the_constructor_arguments :
  p_rvq_flags.p_rvq_flags = pinned_p_rvq_flags.
Proof. exact (@Pin_p_rvq_flags.pin_p_rvq_flags). Qed.
Print Assumptions C03_tie_residual_stack_flags_are_the_constructor_arguments.

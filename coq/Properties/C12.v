(* C12 — quantize-dropout keeps a prefix of layers and nulls the rest. *)
From Coq Require Import ZArith List Bool String.
From VQ Require Import Model.Dropout Proofs.DropoutProofs Glue.DropoutGlue.
Import ListNotations.
Open Scope Z_scope.

Theorem C12_prefix : forall n m r qi, 1 <= m -> 0 <= r < n -> 0 <= qi < n ->
  skipped qi (drop_index m r) = false <-> qi < kept n m r.
Proof. exact dropout_prefix. Qed.
Print Assumptions C12_prefix.

Theorem C12_depth_bounds : forall n cutoff m r, 1 <= m -> 0 <= cutoff -> cutoff <= r < n -> cutoff < kept n m r <= n.
Proof. exact dropout_kept_bounds. Qed.
Print Assumptions C12_depth_bounds.

Theorem C12_depth_multiple : forall n m r, 1 <= m -> 0 <= r < n -> (m | kept n m r) \/ kept n m r = n.
Proof. exact dropout_kept_multiple. Qed.
Print Assumptions C12_depth_multiple.

Theorem C12_dropped_is_suffix : forall idx qi qj, skipped qi idx = true -> qi <= qj -> skipped qj idx = true.
Proof. exact dropout_suffix. Qed.
Print Assumptions C12_dropped_is_suffix.

(* every admissible depth is produced by some in-contract value of the random draw; that every in-contract value
   is produced by some seed in [0, 10000) is finite data checked in Cases/c12_randrange.v on every run *)
Theorem C12_every_admissible_depth : forall n cutoff m k, 1 <= m -> 0 <= cutoff -> cutoff < k <= n ->
  ((m | k) \/ k = n) -> cutoff < n -> exists r, cutoff <= r < n /\ kept n m r = k.
Proof. exact dropout_every_admissible_depth. Qed.
Print Assumptions C12_every_admissible_depth.

Theorem C12_never : forall training enabled return_loss (flag : bool) (n : Z),
  (training = false \/ return_loss = true \/ enabled = false) -> should_dropout training enabled return_loss = false.
Proof. exact dropout_never. Qed.
Print Assumptions C12_never.

Theorem C12_single_layer : forall flag, dropout_enabled flag 1 = false.
Proof. exact dropout_single_layer. Qed.

(* ties: the four copies of the arithmetic and guards in the source equal the model *)
Theorem C12_tie_skip : forall qi r,
  Gen.k_rvq_skip.k_rvq_skip qi r = skipped qi r /\ Gen.k_rfsq_skip.k_rfsq_skip qi r = skipped qi r /\
  Gen.k_rlfq_skip.k_rlfq_skip qi r = skipped qi r /\ Gen.k_rsvq_skip.k_rsvq_skip qi r = skipped qi r.
Proof. exact glue_skip. Qed.
Theorem C12_tie_drop_index : forall r m,
  Gen.k_rvq_drop_index.k_rvq_drop_index r m = drop_index m r /\ Gen.k_rfsq_drop_index.k_rfsq_drop_index r m = drop_index m r /\
  Gen.k_rlfq_drop_index.k_rlfq_drop_index r m = drop_index m r /\ Gen.k_rsvq_drop_index.k_rsvq_drop_index r m = drop_index m r.
Proof. exact glue_drop_index. Qed.
Theorem C12_tie_should_dropout : forall rl qd tr,
  Gen.g_rvq_should_dropout.g_rvq_should_dropout rl qd tr = should_dropout tr qd rl /\
  Gen.g_rfsq_should_dropout.g_rfsq_should_dropout qd tr = should_dropout tr qd false /\
  Gen.g_rlfq_should_dropout.g_rlfq_should_dropout qd tr = should_dropout tr qd false /\
  Gen.g_rsvq_should_dropout.g_rsvq_should_dropout qd tr = should_dropout tr qd false.
Proof. exact glue_should_dropout. Qed.
Theorem C12_tie_guard_atoms :
  Gen.g_rvq_should_dropout.g_rvq_should_dropout_atoms = ["return_loss"; "self_quantize_dropout"; "self_training"]%string /\
  Gen.g_rfsq_should_dropout.g_rfsq_should_dropout_atoms = ["self_quantize_dropout"; "self_training"]%string /\
  Gen.g_rlfq_should_dropout.g_rlfq_should_dropout_atoms = ["self_quantize_dropout"; "self_training"]%string /\
  Gen.g_rsvq_should_dropout.g_rsvq_should_dropout_atoms = ["self_quantize_dropout"; "self_training"]%string.
Proof. exact glue_should_dropout_atoms. Qed.
Theorem C12_tie_enabled : forall gt1 flag : bool,
  Gen.g_rvq_dropout_enabled.g_rvq_dropout_enabled gt1 flag = (flag && gt1)%bool /\ Gen.g_rfsq_dropout_enabled.g_rfsq_dropout_enabled gt1 flag = (flag && gt1)%bool /\
  Gen.g_rlfq_dropout_enabled.g_rlfq_dropout_enabled gt1 flag = (flag && gt1)%bool /\ Gen.g_rsvq_dropout_enabled.g_rsvq_dropout_enabled gt1 flag = (flag && gt1)%bool.
Proof. exact glue_dropout_enabled. Qed.
Theorem C12_tie_enabled_atoms :
  Gen.g_rvq_dropout_enabled.g_rvq_dropout_enabled_atoms = ["num_quantizers_gt_1"; "quantize_dropout"]%string /\
  Gen.g_rfsq_dropout_enabled.g_rfsq_dropout_enabled_atoms = ["num_quantizers_gt_1"; "quantize_dropout"]%string /\
  Gen.g_rlfq_dropout_enabled.g_rlfq_dropout_enabled_atoms = ["num_quantizers_gt_1"; "quantize_dropout"]%string /\
  Gen.g_rsvq_dropout_enabled.g_rsvq_dropout_enabled_atoms = ["num_quantizers_gt_1"; "quantize_dropout"]%string.
Proof. exact glue_dropout_enabled_atoms. Qed.

(* the whole-function source footprint of this property is the pinned one (Gen/fp_C12.v is regenerated from /repo on every run) *)
From VQ Require Import Glue.Pin_fp_C12.
Theorem C12_tie_source_footprint : fp_C12.fp_C12 = pinned_fp_C12.
Proof. exact pin_fp_C12. Qed.
Print Assumptions C12_tie_source_footprint.

(* "k depends only on the seed" under interleaving: the residual forwards construct a private random.Random(seed) (Gen/o_*_rng, regenerated),
   so under EVERY interleaving of two calls each call's depth is that of its own seed; the process-global generator is refuted (seed C12-e) *)
From VQ Require Import Model.RngSched Proofs.RngSchedProofs Glue.RngGlue.
Theorem C12_tie_private_rng :
  uses_private_rng Gen.o_rvq_rng.o_rvq_rng = true /\ uses_private_rng Gen.o_rfsq_rng.o_rfsq_rng = true /\
  uses_private_rng Gen.o_rlfq_rng.o_rlfq_rng = true /\ uses_private_rng Gen.o_rsvq_rng.o_rsvq_rng = true.
Proof. exact residual_forwards_use_private_rng. Qed.
Print Assumptions C12_tie_private_rng.

Theorem C12_rvq_depth_schedule_independent :
  forall (St : Type) (seedf : Z -> St) (draw : St -> Z * St) (s1 s2 : Z) (sched : list op),
  In sched (merge (prog false s1) (prog true s2)) ->
  res1 St (run St (step_of St seedf draw Gen.o_rvq_rng.o_rvq_rng) sched) = Some (depth_of St seedf draw s1)
  /\ res2 St (run St (step_of St seedf draw Gen.o_rvq_rng.o_rvq_rng) sched) = Some (depth_of St seedf draw s2).
Proof. exact rvq_depth_schedule_independent. Qed.
Print Assumptions C12_rvq_depth_schedule_independent.

Theorem C12_rfsq_depth_schedule_independent :
  forall (St : Type) (seedf : Z -> St) (draw : St -> Z * St) (s1 s2 : Z) (sched : list op),
  In sched (merge (prog false s1) (prog true s2)) ->
  res1 St (run St (step_of St seedf draw Gen.o_rfsq_rng.o_rfsq_rng) sched) = Some (depth_of St seedf draw s1)
  /\ res2 St (run St (step_of St seedf draw Gen.o_rfsq_rng.o_rfsq_rng) sched) = Some (depth_of St seedf draw s2).
Proof. exact rfsq_depth_schedule_independent. Qed.
Print Assumptions C12_rfsq_depth_schedule_independent.

Theorem C12_rlfq_depth_schedule_independent :
  forall (St : Type) (seedf : Z -> St) (draw : St -> Z * St) (s1 s2 : Z) (sched : list op),
  In sched (merge (prog false s1) (prog true s2)) ->
  res1 St (run St (step_of St seedf draw Gen.o_rlfq_rng.o_rlfq_rng) sched) = Some (depth_of St seedf draw s1)
  /\ res2 St (run St (step_of St seedf draw Gen.o_rlfq_rng.o_rlfq_rng) sched) = Some (depth_of St seedf draw s2).
Proof. exact rlfq_depth_schedule_independent. Qed.
Print Assumptions C12_rlfq_depth_schedule_independent.

Theorem C12_rsvq_depth_schedule_independent :
  forall (St : Type) (seedf : Z -> St) (draw : St -> Z * St) (s1 s2 : Z) (sched : list op),
  In sched (merge (prog false s1) (prog true s2)) ->
  res1 St (run St (step_of St seedf draw Gen.o_rsvq_rng.o_rsvq_rng) sched) = Some (depth_of St seedf draw s1)
  /\ res2 St (run St (step_of St seedf draw Gen.o_rsvq_rng.o_rsvq_rng) sched) = Some (depth_of St seedf draw s2).
Proof. exact rsvq_depth_schedule_independent. Qed.
Print Assumptions C12_rsvq_depth_schedule_independent.

Theorem C12_shared_sequential_ok :
  forall (St : Type) (seedf : Z -> St) (draw : St -> Z * St) (s1 s2 : Z),
  res1 St (run St (step_shared St seedf draw) (prog false s1 ++ prog true s2)) = Some (depth_of St seedf draw s1)
  /\ res2 St (run St (step_shared St seedf draw) (prog false s1 ++ prog true s2)) = Some (depth_of St seedf draw s2).
Proof. exact shared_sequential_ok. Qed.
Print Assumptions C12_shared_sequential_ok.

Theorem C12_shared_schedule_refuted :
  forall (St : Type) (seedf : Z -> St) (draw : St -> Z * St) (s1 s2 : Z),
  depth_of St seedf draw s1 <> depth_of St seedf draw s2 ->
  exists sched, In sched (merge (prog false s1) (prog true s2))
    /\ res1 St (run St (step_shared St seedf draw) sched) <> Some (depth_of St seedf draw s1).
Proof. exact shared_schedule_dependent. Qed.
Print Assumptions C12_shared_schedule_refuted.

(* ---- a dropped layer is not read (Model/DropIndep.v): arbitrary layers, arbitrary parameters *)
From VQ Require Import Model.GroupCat Model.DropIndep Proofs.DropIndepProofs Glue.DropIndepGlue.

Theorem C12_results_independent_of_dropped_layers :
  forall (P St I L : Type) (run : P -> St -> St * I * L) (null_i : I) (null_l : L) (r : nat) (ps ps' : list P) (s : St),
  Datatypes.length ps = Datatypes.length ps' -> firstn (S r) ps = firstn (S r) ps' ->
  forward run null_i null_l r ps s = forward run null_i null_l r ps' s.
Proof. exact (@DropIndepProofs.forward_independent_of_dropped_layers). Qed.
Print Assumptions C12_results_independent_of_dropped_layers.

Theorem C12_dropped_entries_are_null :
  forall (P St I L : Type) (run : P -> St -> St * I * L) (null_i : I) (null_l : L) (r : nat) (ps : list P) (s : St) (k : nat),
  (r < k < Datatypes.length ps)%nat ->
  let '(_, is_, ls) := forward run null_i null_l r ps s in nth_error is_ k = Some null_i /\ nth_error ls k = Some null_l.
Proof. exact (@DropIndepProofs.dropped_entries_are_null). Qed.
Print Assumptions C12_dropped_entries_are_null.

Theorem C12_one_entry_per_layer :
  forall (P St I L : Type) (run : P -> St -> St * I * L) (null_i : I) (null_l : L) (r : nat) (ps : list P) (s : St),
  let '(_, is_, ls) := forward run null_i null_l r ps s in
  Datatypes.length is_ = Datatypes.length ps /\ Datatypes.length ls = Datatypes.length ps.
Proof. exact (@DropIndepProofs.forward_lengths). Qed.
Print Assumptions C12_one_entry_per_layer.

Theorem C12_dropped_entry_computed_from_the_layer_refuted :
  exists (run : nat -> nat -> nat * nat * nat) (leak : nat -> nat) (r : nat) (ps ps' : list nat) (s : nat),
  Datatypes.length ps = Datatypes.length ps' /\ firstn (S r) ps = firstn (S r) ps' /\
  forward_leaky run 0%nat leak r ps s <> forward_leaky run 0%nat leak r ps' s.
Proof. exact (@DropIndepProofs.forward_leaky_refuted). Qed.
Print Assumptions C12_dropped_entry_computed_from_the_layer_refuted.

Theorem C12_leaky_agrees_when_leak_is_null :
  forall (P St I L : Type) (run : P -> St -> St * I * L) (null_i : I) (null_l : L) (leak : P -> L) (r : nat) (ps : list P) (s : St),
  (forall p, In p ps -> leak p = null_l) -> forward_leaky run null_i leak r ps s = forward run null_i null_l r ps s.
Proof. exact (@DropIndepProofs.forward_leaky_agrees_when_leak_is_null). Qed.
Print Assumptions C12_leaky_agrees_when_leak_is_null.

Theorem C12_tie_dropped_branches_read_nothing_of_the_layer :
  (branch_pure "rvq" true o_dropped_branch.o_dropped_branch && branch_pure "rfsq" false o_dropped_branch.o_dropped_branch &&
   branch_pure "rlfq" true o_dropped_branch.o_dropped_branch && branch_pure "rsvq" true o_dropped_branch.o_dropped_branch)%bool = true.
Proof. exact (@DropIndepGlue.source_dropped_branches_pure). Qed.
Print Assumptions C12_tie_dropped_branches_read_nothing_of_the_layer.

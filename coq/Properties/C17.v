(* C17 -- auxiliary losses equal their definitions
   Only statements here: every theorem is closed by `exact <lemma proved in Proofs/ or Glue/>` and followed by
   Print Assumptions.  GENERATED skeleton (tools/mkprops.py), statements are the ones Coq prints for the lemmas. *)
From Coq Require Import ZArith Reals List Bool String.
From VQ Require Import Num Model.Vec Model.Losses Proofs.LossProofs Glue.LossGlue Glue.Pin_p_losses.
From VQ Require Import Proofs.StretchJensen.
From VQ Require Import Proofs.StretchEntropyFull.
From VQ Require Import Glue.Pin_fp_C17.
From VQ Require Import Glue.LfqLossGlue.
From VQ Require Import Model.Requant Proofs.RequantProofs Glue.RequantGlue.
Import ListNotations.
Open Scope R_scope.

Theorem C17_no_commitment_term_in_eval :
  forall (has_commit : bool) (cw mse : R), commit_term has_commit false cw mse = 0.
Proof. exact (@commit_zero_in_eval). Qed.
Print Assumptions C17_no_commitment_term_in_eval.

Theorem C17_commitment_term_in_training :
  forall cw mse : R, commit_term true true cw mse = cw * mse.
Proof. exact (@commit_present_in_training). Qed.
Print Assumptions C17_commitment_term_in_training.

Theorem C17_mse_nonneg :
  forall a b : list R, a <> [] -> Datatypes.length a = Datatypes.length b -> 0 <= mse_all a b.
Proof. exact (@mse_nonneg). Qed.
Print Assumptions C17_mse_nonneg.

Theorem C17_mse_symmetric :
  forall a b : list R, Datatypes.length a = Datatypes.length b -> mse_all a b = mse_all b a.
Proof. exact (@mse_symmetric). Qed.
Print Assumptions C17_mse_symmetric.

Theorem C17_mse_zero_iff_equal :
  forall a b : list R, a <> [] -> Datatypes.length a = Datatypes.length b -> mse_all a b = 0 <-> a = b.
Proof. exact (@mse_zero_iff_equal). Qed.
Print Assumptions C17_mse_zero_iff_equal.

Theorem C17_simvq_loss_value :
  forall (cw w : R) (x q : list R), simvq_loss cw w x q = cw * (1 + w) * mse_all x q.
Proof. exact (@simvq_loss_value). Qed.
Print Assumptions C17_simvq_loss_value.

Theorem C17_entropy_nonneg :
  forall (eps : R) (p : list R),
       0 < eps <= 1 -> Forall (fun x : R => 0 <= x <= 1) p -> 0 <= centropy eps p.
Proof. exact (@centropy_nonneg). Qed.
Print Assumptions C17_entropy_nonneg.

Theorem C17_entropy_at_most_log_codebook_size :
  forall (eps : R) (p : list R),
       0 < eps ->
       is_dist p ->
       Forall (fun x : R => eps <= x) p -> p <> [] -> centropy eps p <= ln (INR (Datatypes.length p)).
Proof. exact (@centropy_le_log_size). Qed.
Print Assumptions C17_entropy_at_most_log_codebook_size.

Theorem C17_confident_prediction_zero_entropy :
  forall (eps : R) (K j : nat),
       0 < eps <= 1 ->
       (j < K)%nat -> centropy eps (map (fun i : nat => if (i =? j)%nat then 1 else 0) (seq 0 K)) = 0.
Proof. exact (@centropy_one_hot). Qed.
Print Assumptions C17_confident_prediction_zero_entropy.

Theorem C17_uniform_entropy_is_log_size :
  forall (eps : R) (K : nat),
       (0 < K)%nat -> 0 < eps -> eps <= / INR K -> centropy eps (repeat (/ INR K) K) = ln (INR K).
Proof. exact (@centropy_uniform). Qed.
Print Assumptions C17_uniform_entropy_is_log_size.

Theorem C17_entropy_term_concave :
  forall a b : R, 0 < a -> 0 < b -> (- a * ln a + - b * ln b) / 2 <= - ((a + b) / 2) * ln ((a + b) / 2).
Proof. exact (@entropy_term_concave). Qed.
Print Assumptions C17_entropy_term_concave.

Theorem C17_per_token_entropy_le_batch_entropy_partial :
  forall (eps : R) (p q : list R),
       0 < eps ->
       Datatypes.length p = Datatypes.length q ->
       Forall (fun x : R => eps <= x) p ->
       Forall (fun x : R => eps <= x) q ->
       (centropy eps p + centropy eps q) / 2 <= centropy eps (map2 (fun a b : R => (a + b) / 2) p q).
Proof. exact (@per_token_entropy_le_batch_entropy_two). Qed.
Print Assumptions C17_per_token_entropy_le_batch_entropy_partial.

Theorem C17_orthogonal_penalty_identical_codes :
  forall (c : list R) (n : nat),
       (0 < n)%nat -> dot R_ops c c = 1 -> orth_penalty (repeat c n) = 1 - 1 / INR n.
Proof. exact (@orth_penalty_identical). Qed.
Print Assumptions C17_orthogonal_penalty_identical_codes.

Theorem C17_tie_commit_guard :
  forall has_commit training : bool,
       g_vq_commit.g_vq_commit has_commit training = training && has_commit.
Proof. exact (@glue_commit_guard). Qed.
Print Assumptions C17_tie_commit_guard.

Theorem C17_tie_commit_guard_atoms :
  g_vq_commit.g_vq_commit_atoms = ["self_has_commitment_loss"; "self_training"].
Proof. exact (@glue_commit_guard_atoms). Qed.
Print Assumptions C17_tie_commit_guard_atoms.

Theorem C17_tie_loss_assembly :
  p_losses.p_losses = pinned_p_losses.
Proof. exact (@pin_p_losses). Qed.
Print Assumptions C17_tie_loss_assembly.

Theorem C17_entropy_term_jensen :
  forall ts : list R,
       ts <> [] ->
       Forall (fun t : R => 0 < t) ts ->
       rmean (map (fun t : R => - t * ln t) ts) <= - rmean ts * ln (rmean ts).
Proof. exact (@entropy_term_jensen). Qed.
Print Assumptions C17_entropy_term_jensen.

Theorem C17_per_token_entropy_le_batch_entropy :
  forall (eps : R) (K : nat) (ps : list (list R)),
       0 < eps ->
       ps <> [] -> dists_ok eps K ps -> rmean (map (centropy eps) ps) <= centropy eps (mean_dist ps).
Proof. exact (@per_token_entropy_le_batch_entropy). Qed.
Print Assumptions C17_per_token_entropy_le_batch_entropy.

Theorem C17_entropy_chain_full :
  forall (eps : R) (ps : list (list R)),
       0 < eps <= 1 ->
       ps <> [] ->
       Forall is_dist ps ->
       same_length ps ->
       0 <= rmean (map (centropy eps) ps) /\
       rmean (map (centropy eps) ps) <= centropy eps (mean_dist ps) <=
       ln (INR (Datatypes.length (mean_dist ps))).
Proof. exact (@StretchEntropyFull.entropy_chain_full). Qed.
Print Assumptions C17_entropy_chain_full.

Theorem C17_tie_source_footprint :
  fp_C17.fp_C17 = pinned_fp_C17.
Proof. exact (@Pin_fp_C17.pin_fp_C17). Qed.
Print Assumptions C17_tie_source_footprint.

Theorem C17_lfq_commit_follows_live_weight :
  forall cw mse : R,
       0 < cw -> lfq_commit_term true cw mse = mse /\ lfq_commit_contribution true cw mse = cw * mse.
Proof. exact (@LfqLossGlue.lfq_commit_follows_live_weight). Qed.
Print Assumptions C17_lfq_commit_follows_live_weight.

Theorem C17_lfq_commit_zero_weight :
  forall (training : bool) (cw mse : R), cw <= 0 -> lfq_commit_term training cw mse = 0.
Proof. exact (@LfqLossGlue.lfq_commit_zero_weight). Qed.
Print Assumptions C17_lfq_commit_zero_weight.

Theorem C17_lfq_commit_zero_in_eval :
  forall cw mse : R, lfq_commit_term false cw mse = 0 /\ lfq_commit_contribution false cw mse = 0.
Proof. exact (@LfqLossGlue.lfq_commit_zero_in_eval). Qed.
Print Assumptions C17_lfq_commit_zero_in_eval.

Theorem C17_tie_lfq_commit_guard :
  forall weight_pos training : bool,
       g_lfq_commit.g_lfq_commit weight_pos training = training && weight_pos.
Proof. exact (@LfqLossGlue.glue_lfq_commit_guard). Qed.
Print Assumptions C17_tie_lfq_commit_guard.

Theorem C17_tie_lfq_commit_guard_atoms :
  g_lfq_commit.g_lfq_commit_atoms = ["self_commitment_loss_weight_gt_0_0"; "self_training"].
Proof. exact (@LfqLossGlue.glue_lfq_commit_guard_atoms). Qed.
Print Assumptions C17_tie_lfq_commit_guard_atoms.

Theorem C17_inplace_step_vectors_of_final_codebook :
  forall (step : list (list R) -> list (list R) -> list nat -> list (list R)) 
         (cb xs : list (list R)) (d : nat) (r : result),
       forward_from_bindings step o_vq_codebook_calls.o_vq_codebook_calls cb xs = Some r ->
       r_cb r <> [] ->
       CoreNearest.shaped d (r_cb r) ->
       Forall (fun x : list R => Datatypes.length x = d) xs -> consistent xs r CoreNearest.nearest_rel.
Proof. exact (@RequantGlue.source_forward_consistent). Qed.
Print Assumptions C17_inplace_step_vectors_of_final_codebook.

Theorem C17_stale_equals_only_when_winners_stable :
  forall (step : list (list R) -> list (list R) -> list nat -> list (list R)) (cb xs : list (list R)),
       pass (step cb xs (pass cb xs)) xs = pass cb xs ->
       stale_forward step cb xs = inplace_forward step cb xs.
Proof. exact (@RequantProofs.stale_equals_when_winners_stable). Qed.
Print Assumptions C17_stale_equals_only_when_winners_stable.
(* The full chain  0 <= mean_i H(p_i) <= H(mean_i p_i) <= ln K  for ANY token distributions, including entries below the clamp eps
   and exact zeros, is C17_entropy_chain_full above (Proofs/StretchEntropyFull.v: t |-> - t ln (max t eps) is the minimum of a linear
   and a concave function; supporting-line Jensen).  The earlier partial statements (entries >= eps; two tokens) are kept as corollaries.
   The statement below is the same proposition written against the bare definitions, proved from it. *)
Definition C17_entropy_chain_full_statement : Prop :=
  forall (eps : R) (ps : list (list R)), 0 < eps <= 1 -> ps <> [] -> Forall is_dist ps -> same_length ps ->
    0 <= rmean (map (centropy eps) ps) /\ rmean (map (centropy eps) ps) <= centropy eps (mean_dist ps) /\
    centropy eps (mean_dist ps) <= ln (INR (Datatypes.length (mean_dist ps))).
Theorem C17_entropy_chain_full_statement_holds : C17_entropy_chain_full_statement.
Proof. exact C17_entropy_chain_full. Qed.
Print Assumptions C17_entropy_chain_full_statement_holds.

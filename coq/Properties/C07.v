(* C07 -- gradient contract: straight-through or rotation trick, commitment, no leak
   Only statements here: every theorem is closed by `exact <lemma proved in Proofs/ or Glue/>` and followed by
   Print Assumptions.  GENERATED skeleton (tools/mkprops.py), statements are the ones Coq prints for the lemmas. *)
From Coq Require Import ZArith Reals List Bool String.
From Coquelicot Require Import Coquelicot.
From VQ Require Import Num Model.Vec Model.Core Model.Grad Model.Scalar Proofs.GradProofs Glue.GradGlue Glue.Pin_p_grad.
From VQ Require Import Proofs.StretchRotation.
From VQ Require Import Glue.SteGlue.
From VQ Require Import Glue.Pin_fp_C07.
Import ListNotations.
Open Scope R_scope.

Theorem C07_ste_value_is_code :
  forall x q : Rv, Datatypes.length x = Datatypes.length q -> ste_value R_ops x q = q.
Proof. exact (@ste_value_is_code). Qed.
Print Assumptions C07_ste_value_is_code.

Theorem C07_ste_jacobian_is_identity :
  forall dx : Rv, ste_tangent dx = dx.
Proof. exact (@ste_jacobian_is_identity). Qed.
Print Assumptions C07_ste_jacobian_is_identity.

Theorem C07_rotation_value_is_code :
  forall (eps : R) (x q : Rv) (d : nat),
       Datatypes.length x = d ->
       Datatypes.length q = d ->
       0 < eps ->
       eps <= sqrt (sqnorm R_ops x) ->
       eps <= sqrt (sqnorm R_ops q) ->
       let u := vdivs R_ops x (sqrt (sqnorm R_ops x)) in
       let qh := vdivs R_ops q (sqrt (sqnorm R_ops q)) in
       eps <= sqrt (sqnorm R_ops (vadd R_ops u qh)) -> rotate_value R_ops sqrt eps x q = q.
Proof. exact (@rotation_value_is_code). Qed.
Print Assumptions C07_rotation_value_is_code.

Theorem C07_rotation_jacobian :
  forall (eps : R) (x q dx : Rv),
       rotate_tangent R_ops sqrt eps x q dx =
       (let '(u, qh, w, lam) := rot_parts R_ops sqrt eps x q in rot_apply R_ops u qh w lam dx).
Proof. exact (@rotation_tangent_formula). Qed.
Print Assumptions C07_rotation_jacobian.

Theorem C07_rotation_is_linear_in_direction :
  forall (u qh w : Rv) (lam a : R) (e1 e2 : Rv) (d : nat),
       Datatypes.length u = d ->
       Datatypes.length qh = d ->
       Datatypes.length w = d ->
       Datatypes.length e1 = d ->
       Datatypes.length e2 = d ->
       rot_apply R_ops u qh w lam (vadd R_ops (vscale R_ops a e1) e2) =
       vadd R_ops (vscale R_ops a (rot_apply R_ops u qh w lam e1)) (rot_apply R_ops u qh w lam e2).
Proof. exact (@rot_apply_linear). Qed.
Print Assumptions C07_rotation_is_linear_in_direction.

Theorem C07_rotation_carries_input_direction_onto_code_direction :
  forall (u qh : Rv) (d : nat),
       Datatypes.length u = d ->
       Datatypes.length qh = d ->
       sqnorm R_ops u = 1 ->
       sqnorm R_ops qh = 1 ->
       0 < sqnorm R_ops (vadd R_ops u qh) ->
       let w := vdivs R_ops (vadd R_ops u qh) (sqrt (sqnorm R_ops (vadd R_ops u qh))) in
       rot_apply R_ops u qh w 1 u = qh.
Proof. exact (@rotation_maps_input_direction_to_code_direction). Qed.
Print Assumptions C07_rotation_carries_input_direction_onto_code_direction.

Theorem C07_eval_output_has_no_input_gradient :
  forall (eps v : R) (rg rot : bool) (x q dx : Rv),
       vq_out_tangent R_ops sqrt eps false rg rot v x q dx = map (fun _ : R => 0) dx.
Proof. exact (@eval_output_has_no_input_gradient). Qed.
Print Assumptions C07_eval_output_has_no_input_gradient.

Theorem C07_training_ste_identity :
  forall (eps : R) (x q dx : Rv), vq_out_tangent R_ops sqrt eps true true false 0 x q dx = dx.
Proof. exact (@training_ste_identity). Qed.
Print Assumptions C07_training_ste_identity.

Theorem C07_sync_update_scales_gradient :
  forall (eps v : R) (x q dx : Rv),
       vq_out_tangent R_ops sqrt eps true true false v x q dx = vscale R_ops (1 + v) dx.
Proof. exact (@sync_update_scales_gradient). Qed.
Print Assumptions C07_sync_update_scales_gradient.

Theorem C07_commit_loss_pulls_input :
  forall (weight : R) (x q dx : Rv),
       R ->
       forall d : nat,
       Datatypes.length x = d ->
       Datatypes.length q = d ->
       Datatypes.length dx = d ->
       (0 < d)%nat ->
       is_derive (fun t0 : R_AbsRing => weight * mse R_ops q (vadd R_ops x (vscale R_ops t0 dx))) 0
         (dot R_ops (commit_grad_x R_ops weight x q) dx).
Proof. exact (@commit_loss_gradient_wrt_input). Qed.
Print Assumptions C07_commit_loss_pulls_input.

Theorem C07_ema_or_frozen_codebook_gets_no_gradient :
  forall (weight : R) (learnable freeze : bool) (x q : Rv),
       learnable = false \/ freeze = true ->
       commit_grad_q R_ops weight learnable freeze x q = map (fun _ : R => 0) q.
Proof. exact (@ema_or_frozen_codebook_gets_no_commit_gradient). Qed.
Print Assumptions C07_ema_or_frozen_codebook_gets_no_gradient.

Theorem C07_learnable_codebook_gradient :
  forall (weight : R) (x q : Rv),
       commit_grad_q R_ops weight true false x q =
       vscale R_ops (weight * 2 / INR (Datatypes.length x)) (vsub R_ops q x).
Proof. exact (@learnable_codebook_commit_gradient). Qed.
Print Assumptions C07_learnable_codebook_gradient.

Theorem C07_fsq_gradient_is_derivative_of_bound :
  forall (eps : R) (L : Z) (z : R),
       (2 <= L)%Z ->
       0 < eps ->
       is_derive (fun z0 : R_AbsRing => fsq_bound eps L z0 / IZR (L / 2)) z
         (fsq_half_l eps L * (1 - th (z + fsq_shift eps L) ^ 2) / IZR (L / 2)).
Proof. exact (@fsq_gradient). Qed.
Print Assumptions C07_fsq_gradient_is_derivative_of_bound.

(* implicit *)
Theorem C07_no_gradient_between_positions :
  forall (A B : Type) (f : A -> B) (xs : list A) (p : nat) (a0 : A) (b0 : B),
       (p < @Datatypes.length A xs)%nat -> @nth B p (@map A B f xs) b0 = f (@nth A p xs a0).
Proof. exact (@no_cross_position). Qed.
Print Assumptions C07_no_gradient_between_positions.

(* implicit *)
Theorem C07_changing_another_position_changes_nothing_here :
  forall (A B : Type) (f : A -> B) (xs : list A) (p p' : nat) (x' : A),
       A ->
       forall b0 : B,
       p <> p' ->
       (p < @Datatypes.length A xs)%nat ->
       @nth B p (@map A B f (@firstn A p' xs ++ x' :: @skipn A (S p') xs)) b0 = @nth B p (@map A B f xs) b0.
Proof. exact (@no_cross_position_update). Qed.
Print Assumptions C07_changing_another_position_changes_nothing_here.

Theorem C07_tie_maybe_detach :
  forall freeze learnable : bool,
       g_vq_maybe_detach.g_vq_maybe_detach freeze learnable = negb learnable || freeze.
Proof. exact (@glue_maybe_detach). Qed.
Print Assumptions C07_tie_maybe_detach.

Theorem C07_tie_maybe_detach_atoms :
  g_vq_maybe_detach.g_vq_maybe_detach_atoms = ["freeze_codebook"; "self_learnable_codebook"].
Proof. exact (@glue_maybe_detach_atoms). Qed.
Print Assumptions C07_tie_maybe_detach_atoms.

Theorem C07_tie_rotate_guard :
  forall rg rot training : bool, g_vq_rotate.g_vq_rotate rg rot training = training && rg && rot.
Proof. exact (@glue_rotate_guard). Qed.
Print Assumptions C07_tie_rotate_guard.

Theorem C07_tie_rotate_guard_atoms :
  g_vq_rotate.g_vq_rotate_atoms = ["input_requires_grad"; "self_rotation_trick"; "self_training"].
Proof. exact (@glue_rotate_guard_atoms). Qed.
Print Assumptions C07_tie_rotate_guard_atoms.

Theorem C07_tie_safe_div :
  forall num den eps : R, k_safe_div.k_safe_div R_ops num den eps = num / Rmax den eps.
Proof. exact (@glue_safe_div_grad). Qed.
Print Assumptions C07_tie_safe_div.

Theorem C07_tie_detach_sites :
  p_grad.p_grad = pinned_p_grad.
Proof. exact (@pin_p_grad). Qed.
Print Assumptions C07_tie_detach_sites.

Theorem C07_rotation_is_an_isometry :
  forall (u qh e : Rv) (d : nat),
       Datatypes.length u = d ->
       Datatypes.length qh = d ->
       Datatypes.length e = d ->
       sqnorm R_ops u = 1 ->
       sqnorm R_ops qh = 1 ->
       0 < sqnorm R_ops (vadd R_ops u qh) ->
       let w := vdivs R_ops (vadd R_ops u qh) (sqrt (sqnorm R_ops (vadd R_ops u qh))) in
       sqnorm R_ops (rot_apply R_ops u qh w 1 e) = sqnorm R_ops e.
Proof. exact (@rotation_is_isometry). Qed.
Print Assumptions C07_rotation_is_an_isometry.

Theorem C07_src_vq_ste_value :
  forall x q : R, k_vq_ste.k_vq_ste R_ops (fun v : R => v) x q = q.
Proof. exact (@SteGlue.glue_vq_ste_value). Qed.
Print Assumptions C07_src_vq_ste_value.

Theorem C07_src_vq_ste_identity_jacobian :
  forall x q d : R, k_vq_ste.k_vq_ste R_ops (fun _ : R => d) x q = x + d.
Proof. exact (@SteGlue.glue_vq_ste_slope). Qed.
Print Assumptions C07_src_vq_ste_identity_jacobian.

Theorem C07_src_vq_sync_update_value :
  forall q v : R, k_vq_sync_update.k_vq_sync_update R_ops (fun t : R => t) q v = q.
Proof. exact (@SteGlue.glue_vq_sync_value). Qed.
Print Assumptions C07_src_vq_sync_update_value.

Theorem C07_src_vq_sync_update_slope :
  forall q v c : R, k_vq_sync_update.k_vq_sync_update R_ops (fun _ : R => c) q v = (1 + v) * q - v * c.
Proof. exact (@SteGlue.glue_vq_sync_slope). Qed.
Print Assumptions C07_src_vq_sync_update_slope.

Theorem C07_src_fsq_round_ste_value :
  forall (rnd : R -> R) (z : R), k_fsq_round_ste.k_fsq_round_ste R_ops rnd (fun v : R => v) z = rnd z.
Proof. exact (@SteGlue.glue_fsq_round_ste_value). Qed.
Print Assumptions C07_src_fsq_round_ste_value.

Theorem C07_src_fsq_round_ste_identity :
  forall (rnd : R -> R) (z d : R), k_fsq_round_ste.k_fsq_round_ste R_ops rnd (fun _ : R => d) z = z + d.
Proof. exact (@SteGlue.glue_fsq_round_ste_slope). Qed.
Print Assumptions C07_src_fsq_round_ste_identity.

Theorem C07_src_simvq_ste_value :
  forall x q : R, k_simvq_ste.k_simvq_ste R_ops (fun v : R => v) x q = q.
Proof. exact (@SteGlue.glue_simvq_ste_value). Qed.
Print Assumptions C07_src_simvq_ste_value.

Theorem C07_src_simvq_ste_identity :
  forall x q d : R, k_simvq_ste.k_simvq_ste R_ops (fun _ : R => d) x q = x + d.
Proof. exact (@SteGlue.glue_simvq_ste_slope). Qed.
Print Assumptions C07_src_simvq_ste_identity.

Theorem C07_src_latent_ste_value :
  forall x q : R, k_lq_ste.k_lq_ste R_ops (fun v : R => v) x q = q.
Proof. exact (@SteGlue.glue_lq_ste_value). Qed.
Print Assumptions C07_src_latent_ste_value.

Theorem C07_src_latent_ste_identity :
  forall x q d : R, k_lq_ste.k_lq_ste R_ops (fun _ : R => d) x q = x + d.
Proof. exact (@SteGlue.glue_lq_ste_slope). Qed.
Print Assumptions C07_src_latent_ste_identity.

Theorem C07_src_lfq_ste_identity :
  forall a q d : R, k_lfq_ste.k_lfq_ste R_ops (fun _ : R => d) a q = a + d.
Proof. exact (@SteGlue.glue_lfq_ste_slope). Qed.
Print Assumptions C07_src_lfq_ste_identity.

Theorem C07_src_gumbel_straight_through_value :
  forall h p : R, k_gumbel_st.k_gumbel_st R_ops (fun v : R => v) h p = h.
Proof. exact (@SteGlue.glue_gumbel_st_value). Qed.
Print Assumptions C07_src_gumbel_straight_through_value.

Theorem C07_src_gumbel_straight_through_slope :
  forall h p c : R, k_gumbel_st.k_gumbel_st R_ops (fun _ : R => c) h p = p + (h - c).
Proof. exact (@SteGlue.glue_gumbel_st_slope). Qed.
Print Assumptions C07_src_gumbel_straight_through_slope.

Theorem C07_tie_source_footprint :
  fp_C07.fp_C07 = pinned_fp_C07.
Proof. exact (@Pin_fp_C07.pin_fp_C07). Qed.
Print Assumptions C07_tie_source_footprint.

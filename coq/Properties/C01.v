(* C01 -- every vector is assigned its nearest code
   Only statements here: every theorem is closed by `exact <lemma proved in Proofs/ or Glue/>` and followed by
   Print Assumptions.  GENERATED skeleton (tools/mkprops.py), statements are the ones Coq prints for the lemmas. *)
From Coq Require Import ZArith List Bool String Reals.
From VQ Require Import Num Model.Vec Model.Core Proofs.CoreNearest Glue.CoreGlue.
From VQ Require Import Model.Einops Model.Layout Glue.EinopsGlueBase Glue.EinopsGlueHeads.
From VQ Require Import Model.Machine Model.History Proofs.HistoryProofs.
From VQ Require Import Glue.Pin_fp_C01.
From VQ Require Import Model.Memo Proofs.MemoProofs Glue.Pin_p_simvq_codebook.
From VQ Require Import Model.Requant Proofs.RequantProofs Glue.RequantGlue.
Import ListNotations.
Open Scope R_scope.

Theorem C01_euclid_nearest :
  forall (cb : list Rv) (x : Rv),
       cb <> [] ->
       shaped (Datatypes.length x) cb -> nearest_rel cb x (select R_ops (negcdist R_ops sqrt) cb x).
Proof. exact (@select_euclid_nearest). Qed.
Print Assumptions C01_euclid_nearest.

Theorem C01_euclid_first_among_ties :
  forall (cb : list Rv) (x : Rv) (j : nat),
       shaped (Datatypes.length x) cb ->
       (j < select R_ops (negcdist R_ops sqrt) cb x)%nat ->
       sqdist R_ops x (nth (select R_ops (negcdist R_ops sqrt) cb x) cb []) < sqdist R_ops x (nth j cb []).
Proof. exact (@select_euclid_first). Qed.
Print Assumptions C01_euclid_first_among_ties.

Theorem C01_any_tiebreak :
  forall (cb : list Rv) (x : Rv) (i : nat),
       shaped (Datatypes.length x) cb ->
       (i < Datatypes.length cb)%nat ->
       (forall j : nat,
        (j < Datatypes.length cb)%nat ->
        negcdist R_ops sqrt x (nth j cb []) <= negcdist R_ops sqrt x (nth i cb [])) -> 
       nearest_rel cb x i.
Proof. exact (@any_maximal_score_is_nearest). Qed.
Print Assumptions C01_any_tiebreak.

Theorem C01_clamp_sqrt_do_not_change_winner :
  forall x c c' : Rv,
       Datatypes.length x = Datatypes.length c ->
       Datatypes.length x = Datatypes.length c' ->
       negcdist R_ops sqrt x c < negcdist R_ops sqrt x c' <-> sqdist R_ops x c' < sqdist R_ops x c.
Proof. exact (@negcdist_order). Qed.
Print Assumptions C01_clamp_sqrt_do_not_change_winner.

Theorem C01_distance_expansion :
  forall x c : Rv,
       Datatypes.length x = Datatypes.length c ->
       sqnorm R_ops x + sqnorm R_ops c + dot R_ops x c * -2 = sqdist R_ops x c.
Proof. exact (@cdist_expansion). Qed.
Print Assumptions C01_distance_expansion.

Theorem C01_executed_score_selects_same :
  forall (cb : list Rv) (x : Rv),
       shaped (Datatypes.length x) cb ->
       select R_ops (negcdist R_ops sqrt) cb x = select R_ops (negsqdist R_ops) cb x.
Proof. exact (@select_negcdist_negsqdist). Qed.
Print Assumptions C01_executed_score_selects_same.

Theorem C01_cosine_max :
  forall (cb : list Rv) (x : Rv), cb <> [] -> cos_nearest_rel cb x (select R_ops (cosscore R_ops) cb x).
Proof. exact (@select_cosine_max). Qed.
Print Assumptions C01_cosine_max.

Theorem C01_cosine_scale_invariant :
  forall (cb : list Rv) (x : Rv) (a : R),
       0 < a -> select R_ops (cosscore R_ops) cb (vscale R_ops a x) = select R_ops (cosscore R_ops) cb x.
Proof. exact (@select_cosine_scale_invariant). Qed.
Print Assumptions C01_cosine_scale_invariant.

Theorem C01_cosine_on_sphere_is_nearest :
  forall (cb : list Rv) (x : Rv) (i : nat),
       shaped (Datatypes.length x) cb ->
       sqnorm R_ops x = 1 ->
       Forall (fun c : vec R => sqnorm R_ops c = 1) cb -> cos_nearest_rel cb x i -> nearest_rel cb x i.
Proof. exact (@cosine_max_is_nearest_on_sphere). Qed.
Print Assumptions C01_cosine_on_sphere_is_nearest.

Theorem C01_uses_codebook_at_call_start :
  forall (cfg : ccfg R) (training freeze temp_pos : bool) (s : cstate R) (xs : list Rv)
         (mask : option (list bool)) (w : oracle R),
       initted s = true ->
       g_gumbel_noise.g_gumbel_noise (c_stochastic cfg) temp_pos training = false ->
       snd (cb_forward R_ops sqrt cfg training freeze temp_pos s xs mask w) =
       map (select R_ops (score_of R_ops sqrt cfg) (embed s)) xs.
Proof. exact (@forward_uses_pre_state). Qed.
Print Assumptions C01_uses_codebook_at_call_start.

Theorem C01_latent_nearest_value :
  forall (values : Rv) (z : R) (j : nat),
       values <> [] ->
       (j < Datatypes.length values)%nat ->
       (lq_pick values z < Datatypes.length values)%nat /\
       Rabs (z - nth (lq_pick values z) values 0) <= Rabs (z - nth j values 0).
Proof. exact (@lq_pick_nearest). Qed.
Print Assumptions C01_latent_nearest_value.

Theorem C01_argmax_is_max :
  forall (l : Rv) (j : nat), (j < Datatypes.length l)%nat -> nth j l 0 <= nth (argmax_first R_ops l) l 0.
Proof. exact (@argmax_first_max). Qed.
Print Assumptions C01_argmax_is_max.

Theorem C01_argmax_in_range :
  forall l : Rv, l <> [] -> (argmax_first R_ops l < Datatypes.length l)%nat.
Proof. exact (@argmax_first_lt). Qed.
Print Assumptions C01_argmax_in_range.

Theorem C01_dropped_norm_term_refuted :
  exists (cb : list Rv) (x : Rv),
         shaped (Datatypes.length x) cb /\
         cb <> [] /\
         ~
         nearest_rel cb x
           (argmax_first R_ops (map (fun c : vec R => - (sqnorm R_ops x + dot R_ops x c * -2)) cb)).
Proof. exact (@dropped_norm_term_refuted). Qed.
Print Assumptions C01_dropped_norm_term_refuted.

Theorem C01_tie_cdist_kernel :
  forall x2 y2 xy : R, k_cdist.k_cdist R_ops sqrt x2 y2 xy = sqrt (Rmax 0 (x2 + y2 - 2 * xy)).
Proof. exact (@glue_cdist). Qed.
Print Assumptions C01_tie_cdist_kernel.

Theorem C01_tie_gumbel_guard :
  forall stochastic temp_pos training : bool,
       g_gumbel_noise.g_gumbel_noise stochastic temp_pos training = training && stochastic && temp_pos.
Proof. exact (@glue_gumbel_guard). Qed.
Print Assumptions C01_tie_gumbel_guard.

Theorem C01_tie_gumbel_guard_atoms :
  g_gumbel_noise.g_gumbel_noise_atoms = ["stochastic"; "temperature_gt_0"; "training"].
Proof. exact (@glue_gumbel_guard_atoms). Qed.
Print Assumptions C01_tie_gumbel_guard_atoms.

Theorem C01_tie_step_order :
  map fst o_euclid_collectives.o_euclid_collectives = step_order /\
       map fst o_cosine_collectives.o_cosine_collectives = step_order.
Proof. exact (@glue_step_order). Qed.
Print Assumptions C01_tie_step_order.

Theorem C01_tie_selection_dataflow :
  p_select.p_select =
       ["gumbel.ind=sampling_logits.argmax(dim=dim)";
        "gumbel.sampling_logits=logits / temperature + gumbel_noise(logits)";
        "gumbel.sampling_logits=logits";
        "EuclideanCodebook.embed=self.embed if self.learnable_codebook else self.embed.detach()";
        "EuclideanCodebook.embed=(embed - self.codebook_mean) * (batch_std / codebook_std) + self.batch_mean";
        "EuclideanCodebook.dist=unpack_one(dist, 'h * d')";
        "EuclideanCodebook.dist=-F.pairwise_distance(broadcastable_input, transformed_embed)";
        "EuclideanCodebook.dist=-cdist(flatten, embed)";
        "EuclideanCodebook.quantize=einsum('h b n c, h b n c d -> h b n d', unpacked_onehot, transformed_embed)";
        "EuclideanCodebook.quantize=einsum('h b n c, h c d -> h b n d', unpacked_onehot, embed)";
        "EuclideanCodebook.quantize=einx.get_at('h b n [c] d, h b n -> h b n d', transformed_embed, embed_ind)";
        "EuclideanCodebook.quantize=einx.get_at('h [c] d, h b n -> h b n d', embed, embed_ind)";
        "EuclideanCodebook.select=self.gumbel_sample(dist, dim=-1, temperature=sample_codebook_temp, training=self.training)";
        "CosineSimCodebook.embed=self.embed if self.learnable_codebook else self.embed.detach()";
        "CosineSimCodebook.dist=unpack_one(dist, 'h * d')";
        "CosineSimCodebook.dist=einsum('h n d, h n c d -> h n c', flatten, transformed_embed)";
        "CosineSimCodebook.dist=einsum('h n d, h c d -> h n c', flatten, embed)";
        "CosineSimCodebook.quantize=einsum('h b n c, h b n c d -> h b n d', unpacked_onehot, transformed_embed)";
        "CosineSimCodebook.quantize=einsum('h b n c, h c d -> h b n d', unpacked_onehot, embed)";
        "CosineSimCodebook.quantize=einx.get_at('h b n [c] d, h b n -> h b n d', transformed_embed, embed_ind)";
        "CosineSimCodebook.quantize=einx.get_at('h [c] d, h b n -> h b n d', embed, embed_ind)";
        "CosineSimCodebook.select=self.gumbel_sample(dist, dim=-1, temperature=sample_codebook_temp, training=self.training)";
        "cosine.transform_input=l2norm"; "euclid.transform_input=identity";
        "simvq.dist=torch.cdist(x, implicit_codebook)"; "simvq.indices=dist.argmin(dim=-1)";
        "simvq.indices=inverse_pack(indices, 'b *')";
        "simvq.quantized=get_at('[c] d, b n -> b n d', implicit_codebook, indices)";
        "latent.index=torch.stack([torch.argmin(distance(z[..., i, None], self.values_per_latent[i]), dim=-1) for i in range(self.codebook_dim)], dim=-1)";
        "latent.quantize=torch.stack([self.values_per_latent[i][index[..., i]] for i in range(self.codebook_dim)], dim=-1)";
        "latent.distance=torch.abs(x - y)"].
Proof. exact (@glue_select_pinned). Qed.
Print Assumptions C01_tie_selection_dataflow.

Theorem C01_tie_rpq_forces_eval :
  map fst o_rpq_eval.o_rpq_eval = ["self.vq.eval"; "self.vq"].
Proof. exact (@glue_rpq_forces_eval). Qed.
Print Assumptions C01_tie_rpq_forces_eval.

(* implicit *)
Theorem C01_src_heads_shared_in :
  forall A : Type,
       exists p : pattern,
         role_pattern pr_vq.pr_vq
           "VectorQuantize.maybe_split_heads_from_input:return@not (self.separate_codebook_per_head)"
           "rearrange" 0 = @Some pattern p /\
         wf_rearrange p = true /\
         (forall (e : env) (X : nat -> nat -> nat -> A) (bh n d : nat),
          (bh < e "b" * e "h")%nat ->
          (n < e "n")%nat ->
          (d < e "d")%nat ->
          @rearr A p e (@of3 A X) [0%nat; bh; n; d] = @heads_shared_in A (e "h") (e "d") X bh n d).
Proof. exact (@EinopsGlueHeads.einops_heads_shared_in). Qed.
Print Assumptions C01_src_heads_shared_in.

(* implicit *)
Theorem C01_src_heads_sep_in :
  forall A : Type,
       exists p : pattern,
         role_pattern pr_vq.pr_vq
           "VectorQuantize.maybe_split_heads_from_input:return@self.separate_codebook_per_head" "rearrange" 0 =
         @Some pattern p /\
         wf_rearrange p = true /\
         (forall (e : env) (X : nat -> nat -> nat -> A) (h b n d : nat),
          (h < e "h")%nat ->
          (b < e "b")%nat ->
          (n < e "n")%nat ->
          (d < e "d")%nat -> @rearr A p e (@of3 A X) [h; b; n; d] = @heads_sep_in A (e "d") X h b n d).
Proof. exact (@EinopsGlueHeads.einops_heads_sep_in). Qed.
Print Assumptions C01_src_heads_sep_in.

(* implicit *)
Theorem C01_src_heads_shared_idx :
  forall A : Type,
       exists p : pattern,
         role_pattern pr_vq.pr_vq "VectorQuantize.forward:embed_ind" "rearrange" 1 = @Some pattern p /\
         wf_rearrange p = true /\
         (forall (e : env) (J : nat -> nat -> A) (b n h : nat),
          (b < e "b")%nat ->
          (n < e "n")%nat ->
          (h < e "h")%nat -> @rearr A p e (@of1_2 A J) [b; n; h] = @heads_shared_idx A (e "h") J b n h).
Proof. exact (@EinopsGlueHeads.einops_heads_shared_idx). Qed.
Print Assumptions C01_src_heads_shared_idx.

(* implicit *)
Theorem C01_src_heads_sep_idx :
  forall A : Type,
       exists p : pattern,
         role_pattern pr_vq.pr_vq "VectorQuantize.forward:embed_ind" "rearrange" 0 = @Some pattern p /\
         wf_rearrange p = true /\
         (forall (e : env) (J : nat -> nat -> nat -> A) (b n h : nat),
          (b < e "b")%nat ->
          (n < e "n")%nat -> (h < e "h")%nat -> @rearr A p e (@of3 A J) [b; n; h] = @heads_sep_idx A J b n h).
Proof. exact (@EinopsGlueHeads.einops_heads_sep_idx). Qed.
Print Assumptions C01_src_heads_sep_idx.

(* implicit *)
Theorem C01_history_call_reads_current_codebook :
  forall (F : Type) (o : ops F) (fsqrt : F -> F) (cfg : ccfg F) (s : cstate F) 
         (hs : list (hop F)) (s0 : cstate F) (training freeze temp_pos : bool) (xs : list (vec F))
         (mask : option (list bool)) (w : oracle F) (idx : list nat),
       @In (cstate F * op F * out F) (s0, @Call F training freeze temp_pos xs mask w, @Indices F idx)
         (@htrace F o fsqrt cfg s hs) ->
       @initted F s0 = true ->
       g_gumbel_noise.g_gumbel_noise (@c_stochastic F cfg) temp_pos training = false ->
       idx = @map (vec F) nat (@select F o (@score_of F o fsqrt cfg) (@embed F s0)) xs.
Proof. exact (@HistoryProofs.history_call_reads_current_codebook). Qed.
Print Assumptions C01_history_call_reads_current_codebook.

(* implicit *)
Theorem C01_history_euclid_nearest :
  forall (cfg : ccfg R) (s : cstate R) (hs : list (hop R)) (s0 : cstate R)
         (training freeze temp_pos : bool) (xs : list (vec R)) (mask : option (list bool)) 
         (w : oracle R) (idx : list nat) (t : nat) (x : Rv) (i : nat),
       @c_cosine R cfg = false ->
       @In (cstate R * op R * out R) (s0, @Call R training freeze temp_pos xs mask w, @Indices R idx)
         (@htrace R R_ops sqrt cfg s hs) ->
       @initted R s0 = true ->
       g_gumbel_noise.g_gumbel_noise (@c_stochastic R cfg) temp_pos training = false ->
       @embed R s0 <> [] ->
       @nth_error (vec R) xs t = @Some Rv x ->
       shaped (@Datatypes.length R x) (@embed R s0) ->
       (i < @Datatypes.length (vec R) (@embed R s0))%nat ->
       @sqdist R R_ops x (@nth (vec R) (@nth nat t idx 0%nat) (@embed R s0) []) <=
       @sqdist R R_ops x (@nth (vec R) i (@embed R s0) []).
Proof. exact (@HistoryProofs.history_euclid_nearest). Qed.
Print Assumptions C01_history_euclid_nearest.

(* implicit *)
Theorem C01_history_write_forgets :
  forall (F : Type) (o : ops F) (fsqrt : F -> F) (cfg : ccfg F) (s s' snew : cstate F)
         (pre pre' post : list (hop F)),
       @htrace F o fsqrt cfg (@hrun F o fsqrt cfg s (pre ++ [@HWrite F snew])) post =
       @htrace F o fsqrt cfg (@hrun F o fsqrt cfg s' (pre' ++ [@HWrite F snew])) post.
Proof. exact (@HistoryProofs.history_write_forgets). Qed.
Print Assumptions C01_history_write_forgets.

Theorem C01_tie_source_footprint :
  fp_C01.fp_C01 = pinned_fp_C01.
Proof. exact (@Pin_fp_C01.pin_fp_C01). Qed.
Print Assumptions C01_tie_source_footprint.

Theorem C01_derived_codebook_calls_use_current_parameters :
  forall (P C : Type) (f : P -> C) (h : list (mop P)) (s : mstate P C),
       Forall (fun pc : P * C => snd pc = f (fst pc)) (run P C (step_plain P C f) s h).
Proof. exact (@MemoProofs.plain_calls_use_current). Qed.
Print Assumptions C01_derived_codebook_calls_use_current_parameters.

Theorem C01_memoised_derived_codebook_refuted :
  forall (P C : Type) (f : P -> C) (p p' : P),
       f p <> f p' ->
       exists (h : list (mop P)) (s : mstate P C),
         ~ Forall (fun pc : P * C => snd pc = f (fst pc)) (run P C (step_memo P C f) s h).
Proof. exact (@MemoProofs.memo_refuted). Qed.
Print Assumptions C01_memoised_derived_codebook_refuted.

Theorem C01_tie_simvq_codebook_derivation_pinned :
  p_simvq_codebook.p_simvq_codebook = pinned_p_simvq_codebook.
Proof. exact (@Pin_p_simvq_codebook.pin_p_simvq_codebook). Qed.
Print Assumptions C01_tie_simvq_codebook_derivation_pinned.

Theorem C01_inplace_step_requantizes_everything :
  forall (step : list Rv -> list Rv -> list nat -> list Rv) (cb xs : list Rv),
       forward_from_bindings step o_vq_codebook_calls.o_vq_codebook_calls cb xs =
       Some (inplace_forward step cb xs).
Proof. exact (@RequantGlue.source_requantizes_everything). Qed.
Print Assumptions C01_inplace_step_requantizes_everything.

Theorem C01_inplace_step_consistent :
  forall (step : list Rv -> list Rv -> list nat -> list Rv) (cb xs : list Rv) (d : nat) (r : result),
       forward_from_bindings step o_vq_codebook_calls.o_vq_codebook_calls cb xs = Some r ->
       r_cb r <> [] ->
       shaped d (r_cb r) -> Forall (fun x : Rv => Datatypes.length x = d) xs -> consistent xs r nearest_rel.
Proof. exact (@RequantGlue.source_forward_consistent). Qed.
Print Assumptions C01_inplace_step_consistent.

Theorem C01_stale_indices_refuted :
  exists (step : list Rv -> list Rv -> list nat -> list Rv) (cb xs : list Rv),
         shaped 1 (r_cb (stale_forward step cb xs)) /\
         Forall (fun x : Rv => Datatypes.length x = 1%nat) xs /\
         ~ consistent xs (stale_forward step cb xs) nearest_rel.
Proof. exact (@RequantProofs.stale_forward_refuted). Qed.
Print Assumptions C01_stale_indices_refuted.

Theorem C01_dropped_index_binding_is_stale :
  forall (step : list Rv -> list Rv -> list nat -> list Rv) (cb xs : list Rv),
       forward_from_bindings step ["quantize, embed_ind, distances"; "quantize, _, distances"] cb xs =
       Some (stale_forward step cb xs).
Proof. exact (@RequantProofs.bindings_index_dropped). Qed.
Print Assumptions C01_dropped_index_binding_is_stale.

(* C10 -- quantization is position-wise; layouts are equivalent
   Only statements here: every theorem is closed by `exact <lemma proved in Proofs/ or Glue/>` and followed by
   Print Assumptions.  GENERATED skeleton (tools/mkprops.py), statements are the ones Coq prints for the lemmas. *)
From Coq Require Import Arith List Bool String.
From VQ Require Import Model.Layout Proofs.LayoutProofs.
From VQ Require Import Glue.Pin_pat_vq_forward Glue.Pin_pat_vq_split Glue.Pin_pat_vq_decode Glue.Pin_pat_euclid_forward Glue.Pin_pat_cosine_forward Glue.Pin_pat_fsq_forward Glue.Pin_pat_fsq_decode Glue.Pin_pat_lfq_forward Glue.Pin_pat_lfq_decode Glue.Pin_pat_rvq_decode Glue.Pin_pat_simvq_forward.
From VQ Require Import Model.Einops Glue.EinopsGlueBase Glue.EinopsGlueHeads Glue.EinopsGlueLayout Glue.EinopsGlueScalar.
From VQ Require Import Proofs.EinopsProofs.
From VQ Require Import Glue.EinopsGlueMore.
From VQ Require Import Glue.Pin_fp_C10.
From VQ Require Import Proofs.EinopsRepeat.
From VQ Require Import Model.Strides Proofs.StridesProofs Glue.Pin_inv_view_writes.
From VQ Require Import Proofs.StridesGeneral.
Import ListNotations.

(* implicit *)

(* implicit *)

(* implicit *)

(* implicit *)

(* implicit *)

(* implicit *)

(* implicit *)

(* implicit *)

(* implicit *)
Theorem C10_image_pointwise :
  forall (A B : Type) (W : nat) (f : tvec A -> tvec B) (X : nat -> nat -> nat -> nat -> A)
         (b c h w : nat),
       w < W -> @img_out B W (@tok_map A B f (@img_in A W X)) b c h w = f (fun c' : nat => X b c' h w) c.
Proof. exact (@image_pointwise). Qed.
Print Assumptions C10_image_pointwise.

(* implicit *)
Theorem C10_image_indices_pointwise :
  forall (A I : Type) (W : nat) (g : tvec A -> I) (X : nat -> nat -> nat -> nat -> A) (b h w : nat),
       w < W -> @img_idx_out I W (@tok_map_idx A I g (@img_in A W X)) b h w = g (fun c' : nat => X b c' h w).
Proof. exact (@image_indices_pointwise). Qed.
Print Assumptions C10_image_indices_pointwise.

(* implicit *)
Theorem C10_image_is_flattened_sequence :
  forall (A B : Type) (W : nat) (f : tvec A -> tvec B) (X : nat -> nat -> nat -> nat -> A) (b t c : nat),
       0 < W ->
       @tok_map A B f (@img_in A W X) b t c =
       @img_out B W (@tok_map A B f (@img_in A W X)) b c (t / W) (t mod W).
Proof. exact (@image_is_flattened_sequence). Qed.
Print Assumptions C10_image_is_flattened_sequence.

(* implicit *)
Theorem C10_channel_first_pointwise :
  forall (A B : Type) (f : tvec A -> tvec B) (X : nat -> nat -> nat -> A) (b d n : nat),
       @cfirst_out B (@tok_map A B f (@cfirst_in A X)) b d n = f (fun d' : nat => X b d' n) d.
Proof. exact (@cfirst_pointwise). Qed.
Print Assumptions C10_channel_first_pointwise.

(* implicit *)
Theorem C10_heads_separate_pointwise :
  forall (A B : Type) (D : nat) (f : nat -> tvec A -> tvec B) (X : nat -> nat -> nat -> A)
         (b n h d : nat),
       d < D ->
       @heads_sep_out B D (@head_map A B f (@heads_sep_in A D X)) b n (h * D + d) =
       f h (fun d' : nat => X b n (h * D + d')) d.
Proof. exact (@heads_sep_pointwise). Qed.
Print Assumptions C10_heads_separate_pointwise.

(* implicit *)
Theorem C10_heads_separate_indices :
  forall (A I : Type) (D : nat) (g : nat -> tvec A -> I) (X : nat -> nat -> nat -> A) (b n h : nat),
       @heads_sep_idx I (@head_map_idx A I g (@heads_sep_in A D X)) b n h =
       g h (fun d' : nat => X b n (h * D + d')).
Proof. exact (@heads_sep_indices). Qed.
Print Assumptions C10_heads_separate_indices.

(* implicit *)
Theorem C10_heads_shared_pointwise :
  forall (A B : Type) (H D : nat) (f : tvec A -> tvec B) (X : nat -> nat -> nat -> A) (b n h d : nat),
       h < H ->
       d < D ->
       @heads_shared_out B H D (@tok_map A B f (@heads_shared_in A H D X)) b n (h * D + d) =
       f (fun d' : nat => X b n (h * D + d')) d.
Proof. exact (@heads_shared_pointwise). Qed.
Print Assumptions C10_heads_shared_pointwise.

(* implicit *)
Theorem C10_heads_shared_indices :
  forall (A I : Type) (H D : nat) (g : tvec A -> I) (X : nat -> nat -> nat -> A) (b n h : nat),
       h < H ->
       @heads_shared_idx I H (@tok_map_idx A I g (@heads_shared_in A H D X)) b n h =
       g (fun d' : nat => X b n (h * D + d')).
Proof. exact (@heads_shared_indices). Qed.
Print Assumptions C10_heads_shared_indices.

(* implicit *)
Theorem C10_multiple_codebooks_pointwise :
  forall (A B : Type) (D : nat) (f : nat -> tvec A -> tvec B) (X : nat -> nat -> nat -> A)
         (b n c d : nat),
       d < D ->
       @cb_merge B D (@cbk_map A B f (@cb_split A D X)) b n (c * D + d) =
       f c (fun d' : nat => X b n (c * D + d')) d.
Proof. exact (@codebooks_pointwise). Qed.
Print Assumptions C10_multiple_codebooks_pointwise.

(* implicit *)
Theorem C10_permute_split_concat_rebatch :
  forall (A B : Type) (f : tvec A -> tvec B) (T : nat -> nat -> nat -> A) (p : nat -> nat -> nat * nat)
         (b n d : nat),
       @tok_map A B f (fun b' n' d' : nat => T (@fst nat nat (p b' n')) (@snd nat nat (p b' n')) d') b n d =
       @tok_map A B f T (@fst nat nat (p b n)) (@snd nat nat (p b n)) d.
Proof. exact (@tok_map_reindex). Qed.
Print Assumptions C10_permute_split_concat_rebatch.

(* implicit *)
Theorem C10_indices_permute_split_concat_rebatch :
  forall (A I : Type) (g : tvec A -> I) (T : nat -> nat -> nat -> A) (p : nat -> nat -> nat * nat)
         (b n : nat),
       @tok_map_idx A I g (fun b' n' d' : nat => T (@fst nat nat (p b' n')) (@snd nat nat (p b' n')) d') b n =
       @tok_map_idx A I g T (@fst nat nat (p b n)) (@snd nat nat (p b n)).
Proof. exact (@tok_map_idx_reindex). Qed.
Print Assumptions C10_indices_permute_split_concat_rebatch.

(* implicit *)
Theorem C10_single_vector_vs_batch :
  forall (A B : Type) (f : tvec A -> tvec B) (T : nat -> nat -> nat -> A) (b n d : nat),
       @tok_map A B f (fun _ _ d' : nat => T b n d') 0 0 d = @tok_map A B f T b n d.
Proof. exact (@single_vs_batch). Qed.
Print Assumptions C10_single_vector_vs_batch.

(* implicit *)
Theorem C10_result_depends_on_own_vector_only :
  forall (A B : Type) (f : tvec A -> tvec B) (T T' : nat -> nat -> nat -> A) (b n d : nat),
       (forall d' : nat, T b n d' = T' b n d') ->
       (forall u v : nat -> A, (forall k : nat, u k = v k) -> forall k : nat, f u k = f v k) ->
       @tok_map A B f T b n d = @tok_map A B f T' b n d.
Proof. exact (@tok_map_local). Qed.
Print Assumptions C10_result_depends_on_own_vector_only.

Theorem C10_grouped_axes_split :
  forall n2 i1 i2 : nat, i2 < n2 -> (i1 * n2 + i2) / n2 = i1 /\ (i1 * n2 + i2) mod n2 = i2.
Proof. exact (@group_split). Qed.
Print Assumptions C10_grouped_axes_split.

Theorem C10_grouped_axes_merge :
  forall n2 i : nat, 0 < n2 -> i / n2 * n2 + i mod n2 = i.
Proof. exact (@group_merge). Qed.
Print Assumptions C10_grouped_axes_merge.

Theorem C10_patterns_vq_forward :
  pat_vq_forward.pat_vq_forward = pinned_pat_vq_forward.
Proof. exact (@pin_pat_vq_forward). Qed.
Print Assumptions C10_patterns_vq_forward.

Theorem C10_patterns_vq_split :
  pat_vq_split.pat_vq_split = pinned_pat_vq_split.
Proof. exact (@pin_pat_vq_split). Qed.
Print Assumptions C10_patterns_vq_split.

Theorem C10_patterns_vq_decode :
  pat_vq_decode.pat_vq_decode = pinned_pat_vq_decode.
Proof. exact (@pin_pat_vq_decode). Qed.
Print Assumptions C10_patterns_vq_decode.

Theorem C10_patterns_euclid :
  pat_euclid_forward.pat_euclid_forward = pinned_pat_euclid_forward.
Proof. exact (@pin_pat_euclid_forward). Qed.
Print Assumptions C10_patterns_euclid.

Theorem C10_patterns_cosine :
  pat_cosine_forward.pat_cosine_forward = pinned_pat_cosine_forward.
Proof. exact (@pin_pat_cosine_forward). Qed.
Print Assumptions C10_patterns_cosine.

Theorem C10_patterns_fsq :
  pat_fsq_forward.pat_fsq_forward = pinned_pat_fsq_forward.
Proof. exact (@pin_pat_fsq_forward). Qed.
Print Assumptions C10_patterns_fsq.

Theorem C10_patterns_fsq_decode :
  pat_fsq_decode.pat_fsq_decode = pinned_pat_fsq_decode.
Proof. exact (@pin_pat_fsq_decode). Qed.
Print Assumptions C10_patterns_fsq_decode.

Theorem C10_patterns_lfq :
  pat_lfq_forward.pat_lfq_forward = pinned_pat_lfq_forward.
Proof. exact (@pin_pat_lfq_forward). Qed.
Print Assumptions C10_patterns_lfq.

Theorem C10_patterns_lfq_decode :
  pat_lfq_decode.pat_lfq_decode = pinned_pat_lfq_decode.
Proof. exact (@pin_pat_lfq_decode). Qed.
Print Assumptions C10_patterns_lfq_decode.

Theorem C10_patterns_rvq_decode :
  pat_rvq_decode.pat_rvq_decode = pinned_pat_rvq_decode.
Proof. exact (@pin_pat_rvq_decode). Qed.
Print Assumptions C10_patterns_rvq_decode.

Theorem C10_patterns_simvq :
  pat_simvq_forward.pat_simvq_forward = pinned_pat_simvq_forward.
Proof. exact (@pin_pat_simvq_forward). Qed.
Print Assumptions C10_patterns_simvq.

(* implicit *)
Theorem C10_src_img_in :
  forall A : Type,
       exists p : pattern,
         role_pattern pr_vq.pr_vq "VectorQuantize.forward:x" "rearrange" 1 = @Some pattern p /\
         wf_rearrange p = true /\
         (forall (e : env) (X : nat -> nat -> nat -> nat -> A) (b t c : nat),
          b < e "b" ->
          t < e "h" * e "w" -> c < e "c" -> @rearr A p e (@of4 A X) [b; t; c] = @img_in A (e "w") X b t c).
Proof. exact (@EinopsGlueLayout.einops_img_in). Qed.
Print Assumptions C10_src_img_in.

(* implicit *)
Theorem C10_src_cfirst_in :
  forall A : Type,
       exists p : pattern,
         role_pattern pr_vq.pr_vq "VectorQuantize.forward:x" "rearrange" 2 = @Some pattern p /\
         wf_rearrange p = true /\
         (forall (e : env) (X : nat -> nat -> nat -> A) (b n d : nat),
          b < e "b" -> n < e "n" -> d < e "d" -> @rearr A p e (@of3 A X) [b; n; d] = @cfirst_in A X b n d).
Proof. exact (@EinopsGlueLayout.einops_cfirst_in). Qed.
Print Assumptions C10_src_cfirst_in.

(* implicit *)
Theorem C10_src_heads_shared_in :
  forall A : Type,
       exists p : pattern,
         role_pattern pr_vq.pr_vq
           "VectorQuantize.maybe_split_heads_from_input:return@not (self.separate_codebook_per_head)"
           "rearrange" 0 = @Some pattern p /\
         wf_rearrange p = true /\
         (forall (e : env) (X : nat -> nat -> nat -> A) (bh n d : nat),
          bh < e "b" * e "h" ->
          n < e "n" ->
          d < e "d" -> @rearr A p e (@of3 A X) [0; bh; n; d] = @heads_shared_in A (e "h") (e "d") X bh n d).
Proof. exact (@EinopsGlueHeads.einops_heads_shared_in). Qed.
Print Assumptions C10_src_heads_shared_in.

(* implicit *)
Theorem C10_src_heads_sep_in :
  forall A : Type,
       exists p : pattern,
         role_pattern pr_vq.pr_vq
           "VectorQuantize.maybe_split_heads_from_input:return@self.separate_codebook_per_head" "rearrange" 0 =
         @Some pattern p /\
         wf_rearrange p = true /\
         (forall (e : env) (X : nat -> nat -> nat -> A) (h b n d : nat),
          h < e "h" ->
          b < e "b" ->
          n < e "n" -> d < e "d" -> @rearr A p e (@of3 A X) [h; b; n; d] = @heads_sep_in A (e "d") X h b n d).
Proof. exact (@EinopsGlueHeads.einops_heads_sep_in). Qed.
Print Assumptions C10_src_heads_sep_in.

(* implicit *)
Theorem C10_src_heads_sep_idx :
  forall A : Type,
       exists p : pattern,
         role_pattern pr_vq.pr_vq "VectorQuantize.forward:embed_ind" "rearrange" 0 = @Some pattern p /\
         wf_rearrange p = true /\
         (forall (e : env) (J : nat -> nat -> nat -> A) (b n h : nat),
          b < e "b" -> n < e "n" -> h < e "h" -> @rearr A p e (@of3 A J) [b; n; h] = @heads_sep_idx A J b n h).
Proof. exact (@EinopsGlueHeads.einops_heads_sep_idx). Qed.
Print Assumptions C10_src_heads_sep_idx.

(* implicit *)
Theorem C10_src_heads_shared_idx :
  forall A : Type,
       exists p : pattern,
         role_pattern pr_vq.pr_vq "VectorQuantize.forward:embed_ind" "rearrange" 1 = @Some pattern p /\
         wf_rearrange p = true /\
         (forall (e : env) (J : nat -> nat -> A) (b n h : nat),
          b < e "b" ->
          n < e "n" -> h < e "h" -> @rearr A p e (@of1_2 A J) [b; n; h] = @heads_shared_idx A (e "h") J b n h).
Proof. exact (@EinopsGlueHeads.einops_heads_shared_idx). Qed.
Print Assumptions C10_src_heads_shared_idx.

(* implicit *)
Theorem C10_src_img_idx_out :
  forall A : Type,
       exists p : pattern,
         role_pattern pr_vq.pr_vq "VectorQuantize.forward:embed_ind" "rearrange" 2 = @Some pattern p /\
         wf_rearrange p = true /\
         (forall (e : env) (J : nat -> nat -> A) (b h w : nat),
          e "..." = 1 ->
          b < e "b" ->
          h < e "h" -> w < e "w" -> @rearr A p e (@of2 A J) [b; h; w; 0] = @img_idx_out A (e "w") J b h w).
Proof. exact (@EinopsGlueLayout.einops_img_idx_out). Qed.
Print Assumptions C10_src_img_idx_out.

(* implicit *)
Theorem C10_src_heads_sep_out :
  forall A : Type,
       exists p : pattern,
         role_pattern pr_vq.pr_vq "VectorQuantize.forward:quantize" "rearrange" 0 = @Some pattern p /\
         wf_rearrange p = true /\
         (forall (e : env) (Q : nat -> nat -> nat -> nat -> A) (b n x : nat),
          b < e "b" ->
          n < e "n" ->
          x < e "h" * e "d" -> @rearr A p e (@of4 A Q) [b; n; x] = @heads_sep_out A (e "d") Q b n x).
Proof. exact (@EinopsGlueHeads.einops_heads_sep_out). Qed.
Print Assumptions C10_src_heads_sep_out.

(* implicit *)
Theorem C10_src_heads_shared_out :
  forall A : Type,
       exists p : pattern,
         role_pattern pr_vq.pr_vq "VectorQuantize.forward:quantize" "rearrange" 1 = @Some pattern p /\
         wf_rearrange p = true /\
         (forall (e : env) (Q : nat -> nat -> nat -> A) (b n x : nat),
          b < e "b" ->
          n < e "n" ->
          x < e "h" * e "d" ->
          @rearr A p e (@of1_3 A Q) [b; n; x] = @heads_shared_out A (e "h") (e "d") Q b n x).
Proof. exact (@EinopsGlueHeads.einops_heads_shared_out). Qed.
Print Assumptions C10_src_heads_shared_out.

(* implicit *)
Theorem C10_src_cfirst_out :
  forall A : Type,
       exists p : pattern,
         role_pattern pr_vq.pr_vq "VectorQuantize.forward:quantize" "rearrange" 2 = @Some pattern p /\
         wf_rearrange p = true /\
         (forall (e : env) (Q : nat -> nat -> nat -> A) (b d n : nat),
          b < e "b" -> d < e "d" -> n < e "n" -> @rearr A p e (@of3 A Q) [b; d; n] = @cfirst_out A Q b d n).
Proof. exact (@EinopsGlueLayout.einops_cfirst_out). Qed.
Print Assumptions C10_src_cfirst_out.

(* implicit *)
Theorem C10_src_img_out :
  forall A : Type,
       exists p : pattern,
         role_pattern pr_vq.pr_vq "VectorQuantize.forward:quantize" "rearrange" 3 = @Some pattern p /\
         wf_rearrange p = true /\
         (forall (e : env) (Q : nat -> nat -> nat -> A) (b c h w : nat),
          b < e "b" ->
          c < e "c" ->
          h < e "h" -> w < e "w" -> @rearr A p e (@of3 A Q) [b; c; h; w] = @img_out A (e "w") Q b c h w).
Proof. exact (@EinopsGlueLayout.einops_img_out). Qed.
Print Assumptions C10_src_img_out.

(* implicit *)
Theorem C10_src_fsq_split :
  forall A : Type,
       exists p : pattern,
         role_pattern pr_scalar.pr_scalar "FSQ.forward:z" "rearrange" 1 = @Some pattern p /\
         wf_rearrange p = true /\
         (forall (e : env) (X : nat -> nat -> nat -> A) (b n c d : nat),
          b < e "b" ->
          n < e "n" ->
          c < e "c" -> d < e "d" -> @rearr A p e (@of3 A X) [b; n; c; d] = @cb_split A (e "d") X b n c d).
Proof. exact (@EinopsGlueScalar.einops_fsq_split). Qed.
Print Assumptions C10_src_fsq_split.

(* implicit *)
Theorem C10_src_fsq_merge :
  forall A : Type,
       exists p : pattern,
         role_pattern pr_scalar.pr_scalar "FSQ.forward:codes" "rearrange" 0 = @Some pattern p /\
         wf_rearrange p = true /\
         (forall (e : env) (Q : nat -> nat -> nat -> nat -> A) (b n x : nat),
          b < e "b" ->
          n < e "n" -> x < e "c" * e "d" -> @rearr A p e (@of4 A Q) [b; n; x] = @cb_merge A (e "d") Q b n x).
Proof. exact (@EinopsGlueScalar.einops_fsq_merge). Qed.
Print Assumptions C10_src_fsq_merge.

(* implicit *)
Theorem C10_src_lfq_split :
  forall A : Type,
       exists p : pattern,
         role_pattern pr_scalar.pr_scalar "LFQ.forward:x" "rearrange" 1 = @Some pattern p /\
         wf_rearrange p = true /\
         (forall (e : env) (X : nat -> nat -> nat -> A) (b n c d : nat),
          b < e "b" ->
          n < e "n" ->
          c < e "c" -> d < e "d" -> @rearr A p e (@of3 A X) [b; n; c; d] = @cb_split A (e "d") X b n c d).
Proof. exact (@EinopsGlueScalar.einops_lfq_split). Qed.
Print Assumptions C10_src_lfq_split.

(* implicit *)
Theorem C10_src_lfq_merge :
  forall A : Type,
       exists p : pattern,
         role_pattern pr_scalar.pr_scalar "LFQ.forward:x" "rearrange" 2 = @Some pattern p /\
         wf_rearrange p = true /\
         (forall (e : env) (Q : nat -> nat -> nat -> nat -> A) (b n x : nat),
          b < e "b" ->
          n < e "n" -> x < e "c" * e "d" -> @rearr A p e (@of4 A Q) [b; n; x] = @cb_merge A (e "d") Q b n x).
Proof. exact (@EinopsGlueScalar.einops_lfq_merge). Qed.
Print Assumptions C10_src_lfq_merge.

(* implicit *)
Theorem C10_rearrange_swap_inverse :
  forall (p : pattern) (e : env) (A : Type) (X : list nat -> A) (i : list nat),
       wf_rearrange p = true ->
       env_pos e (lhs p) -> in_range e (lhs p) i -> @rearr A (swap p) e (@rearr A p e X) i = X i.
Proof. exact (@EinopsProofs.rearrange_swap_inverse). Qed.
Print Assumptions C10_rearrange_swap_inverse.

Theorem C10_rearrange_in_range :
  forall (p : pattern) (e : env) (o : list nat),
       wf_rearrange p = true ->
       env_pos e (rhs p) -> in_range e (rhs p) o -> in_range e (lhs p) (index_map p e o).
Proof. exact (@EinopsProofs.rearrange_in_range). Qed.
Print Assumptions C10_rearrange_in_range.

Theorem C10_rearrange_injective :
  forall (p : pattern) (e : env) (o1 o2 : list nat),
       wf_rearrange p = true ->
       env_pos e (rhs p) ->
       in_range e (rhs p) o1 -> in_range e (rhs p) o2 -> index_map p e o1 = index_map p e o2 -> o1 = o2.
Proof. exact (@EinopsProofs.rearrange_injective). Qed.
Print Assumptions C10_rearrange_injective.

(* implicit *)
Theorem C10_src_rfsq_in :
  forall A : Type, @is_cfirst_in A pr_more.pr_more "ResidualFSQ.forward:x" 0.
Proof. exact (@EinopsGlueMore.einops_rfsq_in). Qed.
Print Assumptions C10_src_rfsq_in.

(* implicit *)
Theorem C10_src_simvq_in :
  forall A : Type, @is_cfirst_in A pr_more.pr_more "SimVQ.forward:x" 0.
Proof. exact (@EinopsGlueMore.einops_simvq_in). Qed.
Print Assumptions C10_src_simvq_in.

(* implicit *)
Theorem C10_src_lq_in :
  forall A : Type, @is_cfirst_in A pr_more.pr_more "LatentQuantize.forward:z" 0.
Proof. exact (@EinopsGlueMore.einops_lq_in). Qed.
Print Assumptions C10_src_lq_in.

(* implicit *)
Theorem C10_src_fsq_in :
  forall A : Type, @is_cfirst_in A pr_scalar.pr_scalar "FSQ.forward:z" 0.
Proof. exact (@EinopsGlueMore.einops_fsq_in). Qed.
Print Assumptions C10_src_fsq_in.

(* implicit *)
Theorem C10_src_lfq_in :
  forall A : Type, @is_cfirst_in A pr_scalar.pr_scalar "LFQ.forward:x" 0.
Proof. exact (@EinopsGlueMore.einops_lfq_in). Qed.
Print Assumptions C10_src_lfq_in.

(* implicit *)
Theorem C10_src_rfsq_out :
  forall A : Type, @is_cfirst_out A pr_more.pr_more "ResidualFSQ.forward:quantized_out" 0.
Proof. exact (@EinopsGlueMore.einops_rfsq_out). Qed.
Print Assumptions C10_src_rfsq_out.

(* implicit *)
Theorem C10_src_rfsq_idx_out :
  forall A : Type, @is_cfirst_out A pr_more.pr_more "ResidualFSQ.forward:all_indices" 0.
Proof. exact (@EinopsGlueMore.einops_rfsq_idx_out). Qed.
Print Assumptions C10_src_rfsq_idx_out.

(* implicit *)
Theorem C10_src_simvq_out :
  forall A : Type, @is_cfirst_out A pr_more.pr_more "SimVQ.forward:quantized" 0.
Proof. exact (@EinopsGlueMore.einops_simvq_out). Qed.
Print Assumptions C10_src_simvq_out.

(* implicit *)
Theorem C10_src_lq_out :
  forall A : Type, @is_cfirst_out A pr_more.pr_more "LatentQuantize.forward:out" 0.
Proof. exact (@EinopsGlueMore.einops_lq_out). Qed.
Print Assumptions C10_src_lq_out.

(* implicit *)
Theorem C10_src_lq_out2 :
  forall A : Type, @is_cfirst_out A pr_more.pr_more "LatentQuantize.forward:out" 1.
Proof. exact (@EinopsGlueMore.einops_lq_out2). Qed.
Print Assumptions C10_src_lq_out2.

(* implicit *)
Theorem C10_src_fsq_out :
  forall A : Type, @is_cfirst_out A pr_scalar.pr_scalar "FSQ.forward:out" 0.
Proof. exact (@EinopsGlueMore.einops_fsq_out). Qed.
Print Assumptions C10_src_fsq_out.

(* implicit *)
Theorem C10_src_lfq_out :
  forall A : Type, @is_cfirst_out A pr_scalar.pr_scalar "LFQ.forward:x" 3.
Proof. exact (@EinopsGlueMore.einops_lfq_out). Qed.
Print Assumptions C10_src_lfq_out.

(* implicit *)
Theorem C10_src_lq_split :
  forall A : Type,
       exists p : pattern,
         role_pattern pr_more.pr_more "LatentQuantize.forward:z" "rearrange" 1 = @Some pattern p /\
         wf_rearrange p = true /\
         (forall (e : env) (X : nat -> nat -> nat -> A) (b n c d : nat),
          b < e "b" ->
          n < e "n" ->
          c < e "c" -> d < e "d" -> @rearr A p e (@of3 A X) [b; n; c; d] = @cb_split A (e "d") X b n c d).
Proof. exact (@EinopsGlueMore.einops_lq_split). Qed.
Print Assumptions C10_src_lq_split.

(* implicit *)
Theorem C10_src_lq_merge :
  forall A : Type,
       exists p : pattern,
         role_pattern pr_more.pr_more "LatentQuantize.forward:codes" "rearrange" 0 = @Some pattern p /\
         wf_rearrange p = true /\
         (forall (e : env) (Q : nat -> nat -> nat -> nat -> A) (b n x : nat),
          b < e "b" ->
          n < e "n" -> x < e "c" * e "d" -> @rearr A p e (@of4 A Q) [b; n; x] = @cb_merge A (e "d") Q b n x).
Proof. exact (@EinopsGlueMore.einops_lq_merge). Qed.
Print Assumptions C10_src_lq_merge.

Theorem C10_src_lq_merge_both_sites :
  find_role pr_more.pr_more "LatentQuantize.forward:codes" "rearrange" 0 =
       find_role pr_more.pr_more "LatentQuantize.forward:codes" "rearrange" 1.
Proof. exact (@EinopsGlueMore.einops_lq_merge2). Qed.
Print Assumptions C10_src_lq_merge_both_sites.

Theorem C10_tie_source_footprint :
  fp_C10.fp_C10 = pinned_fp_C10.
Proof. exact (@Pin_fp_C10.pin_fp_C10). Qed.
Print Assumptions C10_tie_source_footprint.

(* implicit *)
Theorem C10_repeat_broadcasts :
  forall (p : pattern) (e : env) (A : Type) (X : list nat -> A) (o1 o2 : list nat),
       wf_repeat p = true ->
       (forall n : string,
        @In string n (names_of (lhs p)) -> lookup (sdecode e (rhs p) o1) n = lookup (sdecode e (rhs p) o2) n) ->
       @rearr A p e X o1 = @rearr A p e X o2.
Proof. exact (@EinopsRepeat.repeat_broadcasts). Qed.
Print Assumptions C10_repeat_broadcasts.

Theorem C10_repeat_in_range :
  forall (p : pattern) (e : env) (o : list nat),
       wf_repeat p = true ->
       env_pos e (rhs p) -> in_range e (rhs p) o -> in_range e (lhs p) (index_map p e o).
Proof. exact (@EinopsRepeat.repeat_in_range). Qed.
Print Assumptions C10_repeat_in_range.

Theorem C10_repeat_covers_input :
  forall (p : pattern) (e : env) (i : list nat),
       wf_repeat p = true ->
       env_pos e (rhs p) ->
       in_range e (lhs p) i -> exists o : list nat, in_range e (rhs p) o /\ index_map p e o = i.
Proof. exact (@EinopsRepeat.repeat_covers_input). Qed.
Print Assumptions C10_repeat_covers_input.

Theorem C10_reshape_write_lands_when_contiguous :
  forall (A : Type) (zero : A) (b n d : nat) (m : storage A) (rows : nat -> bool) (i j k : nat),
       i < b ->
       j < n ->
       k < d ->
       get A (write_through_reshape A zero m (contiguous b n d) rows) (contiguous b n d) i j k =
       where_rows A zero m (contiguous b n d) rows i j k.
Proof. exact (@StridesProofs.contiguous_write_lands). Qed.
Print Assumptions C10_reshape_write_lands_when_contiguous.

Theorem C10_reshape_write_lost_on_permuted_view :
  forall (A : Type) (zero : A) (b n d : nat) (m : storage A) (rows : nat -> bool),
       2 <= b -> 2 <= n -> 1 <= d -> write_through_reshape A zero m (batch_permuted b n d) rows = m.
Proof. exact (@StridesProofs.permuted_write_is_lost). Qed.
Print Assumptions C10_reshape_write_lost_on_permuted_view.

Theorem C10_write_through_reshape_refuted :
  forall (A : Type) (zero one : A),
       one <> zero ->
       exists (t : t3) (m : storage A) (rows : nat -> bool) (i j k : nat),
         i < nb t /\
         j < nn t /\
         k < nd t /\
         get A (write_through_reshape A zero m t rows) t i j k <> where_rows A zero m t rows i j k.
Proof. exact (@StridesProofs.write_through_reshape_refuted). Qed.
Print Assumptions C10_write_through_reshape_refuted.

Theorem C10_tie_no_new_write_through_view_handles :
  inv_view_writes.inv_view_writes = pinned_inv_view_writes.
Proof. exact (@Pin_inv_view_writes.pin_inv_view_writes). Qed.
Print Assumptions C10_tie_no_new_write_through_view_handles.

Theorem C10_mergeable_write_lands :
  forall (A : Type) (zero : A) (t : t3) (m : storage A) (rows : nat -> bool) (i j k : nat),
       sb t = nn t * sn t ->
       injective_addressing t ->
       i < nb t ->
       j < nn t ->
       k < nd t -> get A (write_through_reshape A zero m t rows) t i j k = where_rows A zero m t rows i j k.
Proof. exact (@StridesGeneral.mergeable_write_lands). Qed.
Print Assumptions C10_mergeable_write_lands.

Theorem C10_feature_permuted_write_lands :
  forall (A : Type) (zero : A) (b n d : nat) (m : storage A) (rows : nat -> bool) (i j k : nat),
       i < b ->
       j < n ->
       k < d ->
       get A (write_through_reshape A zero m (feature_permuted b n d) rows) (feature_permuted b n d) i j k =
       where_rows A zero m (feature_permuted b n d) rows i j k.
Proof. exact (@StridesGeneral.feature_permuted_write_lands). Qed.
Print Assumptions C10_feature_permuted_write_lands.

Theorem C10_expanded_write_aliases :
  forall (A : Type) (zero one : A),
       one <> zero ->
       exists (t : t3) (m : storage A) (rows : nat -> bool) (i j k : nat),
         sb t = nn t * sn t /\
         i < nb t /\
         j < nn t /\
         k < nd t /\
         get A (write_through_reshape A zero m t rows) t i j k <> where_rows A zero m t rows i j k.
Proof. exact (@StridesGeneral.expanded_write_aliases). Qed.
Print Assumptions C10_expanded_write_aliases.

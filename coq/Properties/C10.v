(* C10 -- quantization is position-wise; layouts are equivalent
   Only statements here: every theorem is closed by `exact <lemma proved in Proofs/ or Glue/>` and followed by
   Print Assumptions.  GENERATED skeleton (tools/mkprops.py), statements are the ones Coq prints for the lemmas. *)
From Coq Require Import Arith List Bool String.
From VQ Require Import Model.Layout Proofs.LayoutProofs.
From VQ Require Import Glue.Pin_pat_vq_forward Glue.Pin_pat_vq_split Glue.Pin_pat_vq_decode Glue.Pin_pat_euclid_forward Glue.Pin_pat_cosine_forward Glue.Pin_pat_fsq_forward Glue.Pin_pat_fsq_decode Glue.Pin_pat_lfq_forward Glue.Pin_pat_lfq_decode Glue.Pin_pat_rvq_decode Glue.Pin_pat_simvq_forward.
Import ListNotations.

(* implicit *)
Theorem C10_image_pointwise :
  forall (A B : Type) (W : nat) (f : tvec A -> tvec B) (X : nat -> nat -> nat -> nat -> A)
         (b c h w : nat),
       w < W -> @img_out B W (@tok_map A B f (@img_in A W X)) b c h w = f (fun c' : nat => X b c' h w) c.
Proof. exact (@image_pointwise). Qed.
Print Assumptions C10_image_pointwise.

(* implicit *)
Theorem C10_image_indices_pointwise :
  forall (A I : Type) (W : nat) (g : tvec A -> I) (X : nat -> nat -> nat -> nat -> A) (b h w : nat),
       w < W -> @img_idx_out I W (@tok_map_idx A I g (@img_in A W X)) b h w = g (fun c' : nat => X b c' h w).
Proof. exact (@image_indices_pointwise). Qed.
Print Assumptions C10_image_indices_pointwise.

(* implicit *)
Theorem C10_image_is_flattened_sequence :
  forall (A B : Type) (W : nat) (f : tvec A -> tvec B) (X : nat -> nat -> nat -> nat -> A) (b t c : nat),
       0 < W ->
       @tok_map A B f (@img_in A W X) b t c =
       @img_out B W (@tok_map A B f (@img_in A W X)) b c (t / W) (t mod W).
Proof. exact (@image_is_flattened_sequence). Qed.
Print Assumptions C10_image_is_flattened_sequence.

(* implicit *)
Theorem C10_channel_first_pointwise :
  forall (A B : Type) (f : tvec A -> tvec B) (X : nat -> nat -> nat -> A) (b d n : nat),
       @cfirst_out B (@tok_map A B f (@cfirst_in A X)) b d n = f (fun d' : nat => X b d' n) d.
Proof. exact (@cfirst_pointwise). Qed.
Print Assumptions C10_channel_first_pointwise.

(* implicit *)
Theorem C10_heads_separate_pointwise :
  forall (A B : Type) (D : nat) (f : nat -> tvec A -> tvec B) (X : nat -> nat -> nat -> A)
         (b n h d : nat),
       d < D ->
       @heads_sep_out B D (@head_map A B f (@heads_sep_in A D X)) b n (h * D + d) =
       f h (fun d' : nat => X b n (h * D + d')) d.
Proof. exact (@heads_sep_pointwise). Qed.
Print Assumptions C10_heads_separate_pointwise.

(* implicit *)
Theorem C10_heads_separate_indices :
  forall (A I : Type) (D : nat) (g : nat -> tvec A -> I) (X : nat -> nat -> nat -> A) (b n h : nat),
       @heads_sep_idx I (@head_map_idx A I g (@heads_sep_in A D X)) b n h =
       g h (fun d' : nat => X b n (h * D + d')).
Proof. exact (@heads_sep_indices). Qed.
Print Assumptions C10_heads_separate_indices.

(* implicit *)
Theorem C10_heads_shared_pointwise :
  forall (A B : Type) (H D : nat) (f : tvec A -> tvec B) (X : nat -> nat -> nat -> A) (b n h d : nat),
       h < H ->
       d < D ->
       @heads_shared_out B H D (@tok_map A B f (@heads_shared_in A H D X)) b n (h * D + d) =
       f (fun d' : nat => X b n (h * D + d')) d.
Proof. exact (@heads_shared_pointwise). Qed.
Print Assumptions C10_heads_shared_pointwise.

(* implicit *)
Theorem C10_heads_shared_indices :
  forall (A I : Type) (H D : nat) (g : tvec A -> I) (X : nat -> nat -> nat -> A) (b n h : nat),
       h < H ->
       @heads_shared_idx I H (@tok_map_idx A I g (@heads_shared_in A H D X)) b n h =
       g (fun d' : nat => X b n (h * D + d')).
Proof. exact (@heads_shared_indices). Qed.
Print Assumptions C10_heads_shared_indices.

(* implicit *)
Theorem C10_multiple_codebooks_pointwise :
  forall (A B : Type) (D : nat) (f : nat -> tvec A -> tvec B) (X : nat -> nat -> nat -> A)
         (b n c d : nat),
       d < D ->
       @cb_merge B D (@cbk_map A B f (@cb_split A D X)) b n (c * D + d) =
       f c (fun d' : nat => X b n (c * D + d')) d.
Proof. exact (@codebooks_pointwise). Qed.
Print Assumptions C10_multiple_codebooks_pointwise.

(* implicit *)
Theorem C10_permute_split_concat_rebatch :
  forall (A B : Type) (f : tvec A -> tvec B) (T : nat -> nat -> nat -> A) (p : nat -> nat -> nat * nat)
         (b n d : nat),
       @tok_map A B f (fun b' n' d' : nat => T (@fst nat nat (p b' n')) (@snd nat nat (p b' n')) d') b n d =
       @tok_map A B f T (@fst nat nat (p b n)) (@snd nat nat (p b n)) d.
Proof. exact (@tok_map_reindex). Qed.
Print Assumptions C10_permute_split_concat_rebatch.

(* implicit *)
Theorem C10_indices_permute_split_concat_rebatch :
  forall (A I : Type) (g : tvec A -> I) (T : nat -> nat -> nat -> A) (p : nat -> nat -> nat * nat)
         (b n : nat),
       @tok_map_idx A I g (fun b' n' d' : nat => T (@fst nat nat (p b' n')) (@snd nat nat (p b' n')) d') b n =
       @tok_map_idx A I g T (@fst nat nat (p b n)) (@snd nat nat (p b n)).
Proof. exact (@tok_map_idx_reindex). Qed.
Print Assumptions C10_indices_permute_split_concat_rebatch.

(* implicit *)
Theorem C10_single_vector_vs_batch :
  forall (A B : Type) (f : tvec A -> tvec B) (T : nat -> nat -> nat -> A) (b n d : nat),
       @tok_map A B f (fun _ _ d' : nat => T b n d') 0 0 d = @tok_map A B f T b n d.
Proof. exact (@single_vs_batch). Qed.
Print Assumptions C10_single_vector_vs_batch.

(* implicit *)
Theorem C10_result_depends_on_own_vector_only :
  forall (A B : Type) (f : tvec A -> tvec B) (T T' : nat -> nat -> nat -> A) (b n d : nat),
       (forall d' : nat, T b n d' = T' b n d') ->
       (forall u v : nat -> A, (forall k : nat, u k = v k) -> forall k : nat, f u k = f v k) ->
       @tok_map A B f T b n d = @tok_map A B f T' b n d.
Proof. exact (@tok_map_local). Qed.
Print Assumptions C10_result_depends_on_own_vector_only.

Theorem C10_grouped_axes_split :
  forall n2 i1 i2 : nat, i2 < n2 -> (i1 * n2 + i2) / n2 = i1 /\ (i1 * n2 + i2) mod n2 = i2.
Proof. exact (@group_split). Qed.
Print Assumptions C10_grouped_axes_split.

Theorem C10_grouped_axes_merge :
  forall n2 i : nat, 0 < n2 -> i / n2 * n2 + i mod n2 = i.
Proof. exact (@group_merge). Qed.
Print Assumptions C10_grouped_axes_merge.

Theorem C10_patterns_vq_forward :
  pat_vq_forward.pat_vq_forward = pinned_pat_vq_forward.
Proof. exact (@pin_pat_vq_forward). Qed.
Print Assumptions C10_patterns_vq_forward.

Theorem C10_patterns_vq_split :
  pat_vq_split.pat_vq_split = pinned_pat_vq_split.
Proof. exact (@pin_pat_vq_split). Qed.
Print Assumptions C10_patterns_vq_split.

Theorem C10_patterns_vq_decode :
  pat_vq_decode.pat_vq_decode = pinned_pat_vq_decode.
Proof. exact (@pin_pat_vq_decode). Qed.
Print Assumptions C10_patterns_vq_decode.

Theorem C10_patterns_euclid :
  pat_euclid_forward.pat_euclid_forward = pinned_pat_euclid_forward.
Proof. exact (@pin_pat_euclid_forward). Qed.
Print Assumptions C10_patterns_euclid.

Theorem C10_patterns_cosine :
  pat_cosine_forward.pat_cosine_forward = pinned_pat_cosine_forward.
Proof. exact (@pin_pat_cosine_forward). Qed.
Print Assumptions C10_patterns_cosine.

Theorem C10_patterns_fsq :
  pat_fsq_forward.pat_fsq_forward = pinned_pat_fsq_forward.
Proof. exact (@pin_pat_fsq_forward). Qed.
Print Assumptions C10_patterns_fsq.

Theorem C10_patterns_fsq_decode :
  pat_fsq_decode.pat_fsq_decode = pinned_pat_fsq_decode.
Proof. exact (@pin_pat_fsq_decode). Qed.
Print Assumptions C10_patterns_fsq_decode.

Theorem C10_patterns_lfq :
  pat_lfq_forward.pat_lfq_forward = pinned_pat_lfq_forward.
Proof. exact (@pin_pat_lfq_forward). Qed.
Print Assumptions C10_patterns_lfq.

Theorem C10_patterns_lfq_decode :
  pat_lfq_decode.pat_lfq_decode = pinned_pat_lfq_decode.
Proof. exact (@pin_pat_lfq_decode). Qed.
Print Assumptions C10_patterns_lfq_decode.

Theorem C10_patterns_rvq_decode :
  pat_rvq_decode.pat_rvq_decode = pinned_pat_rvq_decode.
Proof. exact (@pin_pat_rvq_decode). Qed.
Print Assumptions C10_patterns_rvq_decode.

Theorem C10_patterns_simvq :
  pat_simvq_forward.pat_simvq_forward = pinned_pat_simvq_forward.
Proof. exact (@pin_pat_simvq_forward). Qed.
Print Assumptions C10_patterns_simvq.

(* Module state as a named store: parameters (written by optimisers), persistent buffers (saved in state_dict),
   non-persistent buffers (rebuilt by the constructor).  Used by C15 (checkpoint round trip) and C20 (non-learned
   codebooks stay fixed).  Generic in the value type.  No proofs in this file. *)
From Coq Require Import String List Bool.
From VQ Require Import Model.Inventory.
Import ListNotations.

Section Store.
Context {V : Type}.

Definition store := string -> option V.
Definition sempty : store := fun _ => None.
Definition supd (s : store) (n : string) (v : V) : store := fun m => if String.eqb m n then Some v else s m.

(* classification of a name by the inventory regenerated from the source *)
Definition is_persistent (inv : list entry) (n : string) : bool := mem n (persistent_names inv).
Definition is_param (inv : list entry) (n : string) : bool := mem n (param_names inv).
Definition is_buffer (inv : list entry) (n : string) : bool := mem n (buffer_names inv) && negb (mem n (param_names inv)).

(* state_dict(): the persistent entries only *)
Definition persist (inv : list entry) (s : store) : store := fun n => if is_persistent inv n then s n else None.
(* fresh module built by the constructor, then load_state_dict: persistent entries overwritten, the rest as constructed *)
Definition rebuild (inv : list entry) (ctor : store) (p : store) : store :=
  fun n => if is_persistent inv n then p n else ctor n.

(* operations on a module as far as the store is concerned *)
Inductive sop :=
| SFwd (writes : list (string * V))      (* a forward / decode call: writes exactly what its write-sites write *)
| SOpt (newp : list (string * V)).       (* an optimiser step over module.parameters(): arbitrary new values *)

Definition apply_writes (allowed : string -> bool) (s : store) (ws : list (string * V)) : store :=
  fold_left (fun s w => if allowed (fst w) then supd s (fst w) (snd w) else s) ws s.

(* [fwd_writable]: names the forward/decode methods may write (from the write-site inventory) *)
Definition sstep (inv : list entry) (fwd_writable : string -> bool) (s : store) (p : sop) : store :=
  match p with
  | SFwd ws => apply_writes fwd_writable s ws
  | SOpt ws => apply_writes (is_param inv) s ws
  end.
Definition srun (inv : list entry) (fwd_writable : string -> bool) (s : store) (ps : list sop) : store :=
  fold_left (sstep inv fwd_writable) ps s.

End Store.

(* Quantize dropout: a residual stack run with dropout depth r executes layers 0..r and, for every later layer, appends the null index and the null
   loss WITHOUT running the layer.  The layers are arbitrary: P = whatever a layer owns (codebook, projections, MLP ...), S = what flows from layer to
   layer (residual, running sum), I / L = what a layer reports.  What the dropped branch of the source reads is regenerated into Gen/o_dropped_branch
   ("<tag>.names:" = the identifiers it mentions); [branch_pure] demands that these are the two output lists and the two null constants only.
   [forward_leaky] is the shape of seed C12-j: the dropped entry is computed from the dropped layer's parameters ("null_loss + codebook.sum() * 0.").
   No proofs in this file. *)
From Coq Require Import List Bool Arith String.
From VQ Require Import Model.GroupCat.
Import ListNotations.

Section DropIndep.
Context {P St I L : Type}.
Variable run : P -> St -> St * I * L.
Variable null_i : I.
Variable null_l : L.

(* layers from position k on; r = index of the last layer that runs *)
Fixpoint forward_from (k r : nat) (ps : list P) (s : St) : St * list I * list L :=
  match ps with
  | [] => (s, [], [])
  | p :: ps' =>
      if Nat.ltb r k then
        let '(s', is_, ls) := forward_from (S k) r ps' s in (s', null_i :: is_, null_l :: ls)
      else
        let '(s1, i, l) := run p s in
        let '(s', is_, ls) := forward_from (S k) r ps' s1 in (s', i :: is_, l :: ls)
  end.
Definition forward (r : nat) (ps : list P) (s : St) := forward_from 0 r ps s.

(* the leaky variant: the dropped entry is a function of the dropped layer's parameters *)
Variable leak : P -> L.
Fixpoint forward_leaky_from (k r : nat) (ps : list P) (s : St) : St * list I * list L :=
  match ps with
  | [] => (s, [], [])
  | p :: ps' =>
      if Nat.ltb r k then
        let '(s', is_, ls) := forward_leaky_from (S k) r ps' s in (s', null_i :: is_, leak p :: ls)
      else
        let '(s1, i, l) := run p s in
        let '(s', is_, ls) := forward_leaky_from (S k) r ps' s1 in (s', i :: is_, l :: ls)
  end.
Definition forward_leaky (r : nat) (ps : list P) (s : St) := forward_leaky_from 0 r ps s.
End DropIndep.

(* ---- what the source's dropped branch reads *)
Fixpoint find_pre (pre : string) (rows : list string) : option string :=
  match rows with
  | [] => None
  | r :: rs => if prefix pre r then Some r else find_pre pre rs
  end.
Definition branch_pure (tag : string) (with_loss : bool) (rows : list string) : bool :=
  match find_pre (tag ++ ".names:") rows, find_pre (tag ++ ".last:") rows with
  | Some n, Some l =>
      String.eqb n (tag ++ ".names:" ++ (if with_loss then "all_indices all_losses null_indices null_loss" else "all_indices null_indices"))
      && String.eqb l (tag ++ ".last:Continue")
  | _, _ => false
  end.

(* Boolean checkers evaluated by vm_compute on the implementation's exact float32 values (as rationals).
   Used by the correspondence runs of C01 / C03 / C08 / C09 / C11 / C14.  No proofs here. *)
From Coq Require Import ZArith QArith Qround List Bool.
From VQ Require Import Num Model.Vec Model.Core.
From VQ.Gen Require Import k_expire_cmp.
Import ListNotations.

Definition Qv := list Q.

(* rational square root, absolute error <= 2^-40 (only ever compared under a tolerance >= 1e-6) *)
Definition Qsqrt (x : Q) : Q :=
  if Qle_bool x 0 then 0%Q
  else Qred (Z.sqrt ((Qnum x * 2 ^ 80) / Zpos (Qden x)) # (2 ^ 40)).

Fixpoint all2 {A B} (f : A -> B -> bool) (l1 : list A) (l2 : list B) : bool :=
  match l1, l2 with
  | [], [] => true
  | a :: l1', b :: l2' => f a b && all2 f l1' l2'
  | _, _ => false
  end.
Definition vclose (tol : Q) : Qv -> Qv -> bool := all2 (Qclose_rel tol).
Definition mclose (tol : Q) : list Qv -> list Qv -> bool := all2 (vclose tol).
Definition st_close (tolE tolS : Q) (a b : cstate Q) : bool :=
  mclose tolE (embed a) (embed b) && mclose tolS (embed_avg a) (embed_avg b)
  && vclose tolS (cluster_size a) (cluster_size b) && Bool.eqb (initted a) (initted b).
(* which component differs first: 0 = none, 1 embed, 2 embed_avg, 3 cluster_size, 4 initted *)
Definition st_diff (tolE tolS : Q) (a b : cstate Q) : nat :=
  if negb (mclose tolE (embed a) (embed b)) then 1
  else if negb (mclose tolS (embed_avg a) (embed_avg b)) then 2
  else if negb (vclose tolS (cluster_size a) (cluster_size b)) then 3
  else if negb (Bool.eqb (initted a) (initted b)) then 4 else 0.

Definition qsqdist : Qv -> Qv -> Q := sqdist Q_ops.
Definition qdot : Qv -> Qv -> Q := dot Q_ops.
Definition qsqnorm : Qv -> Q := sqnorm Q_ops.

(* C01: index i is a nearest code of x (Euclid: squared distance; cosine: largest dot with the normalised input),
   inside the near-tie band tol * (1 + |x|^2 + |c|^2 + |c_i|^2)  (tol = 0: exact, ties either way) *)
Definition nearest_okb (cosine : bool) (tol : Q) (cb : list Qv) (x : Qv) (i : nat) : bool :=
  Nat.ltb i (length cb) &&
  let ci := nth i cb [] in
  forallb (fun c =>
     let band := Qred (tol * (1 + qsqnorm x + qsqnorm c + qsqnorm ci)) in
     if cosine then Qle_bool (qdot x c) (qdot x ci + band)
     else Qle_bool (qsqdist x ci) (qsqdist x c + band)) cb.
Definition nearest_all_okb (cosine : bool) (tol : Q) (cb : list Qv) (xs : list Qv) (idx : list nat) : bool :=
  all2 (nearest_okb cosine tol cb) xs idx.
(* the quantized vector returned for a token is the selected entry *)
Definition quant_okb (tol : Q) (cb : list Qv) (idx : list nat) (quant : list Qv) : bool :=
  all2 (fun i q => vclose tol (nth i cb []) q) idx quant.

(* C03 / C11: one recorded call.  The expiry replacements are read off the implementation's post-state at the
   positions the model says are expired; they must come from the pool, and the model's step with exactly those
   picks must reproduce the whole post-state. *)
Definition set_thr (cfg : ccfg Q) (thr : Q) : ccfg Q :=
  mkcfg (c_cosine cfg) (c_decay cfg) (c_eps cfg) thr (c_reset cfg) (c_ema_update cfg) (c_manual cfg)
        (c_kmeans_iters cfg) (c_stochastic cfg) (c_l2eps cfg).
Definition veqb_q (a b : Qv) : bool := all2 Qeq_bool a b.
Definition picks_from (thr : Q) (sn after : cstate Q) : list Qv :=
  map snd (filter (fun p => k_expire_cmp Q_ops (fst p) thr) (combine (cluster_size sn) (embed after))).
Definition update_model (cfg : ccfg Q) (training freeze has_mask : bool) (s1 : cstate Q)
  (xs : list Qv) (valid : list bool) (idx : list nat) (after : cstate Q) : cstate Q * list Qv :=
  let sn := cb_update Q_ops Qsqrt (set_thr cfg 0) training freeze has_mask s1 xs valid idx [] in
  let picks := if g_expire cfg training freeze then picks_from (c_thr cfg) sn after else [] in
  (cb_update Q_ops Qsqrt cfg training freeze has_mask s1 xs valid idx picks, picks).
(* pool membership: exact for Euclid, up to normalisation tolerance for cosine (pool given already normalised) *)
Definition in_pool (tol : Q) (pool : list Qv) (p : Qv) : bool := existsb (fun q => vclose tol q p) pool.
(* result code: 0 ok, 1..4 = first differing state component, 5 = a replacement is not from the pool *)
Definition update_check (tolE tolS tolP : Q) (cfg : ccfg Q) (training freeze has_mask : bool) (s1 : cstate Q)
  (xs : list Qv) (valid : list bool) (idx : list nat) (pool : list Qv) (after : cstate Q) : nat :=
  let '(m, picks) := update_model cfg training freeze has_mask s1 xs valid idx after in
  match st_diff tolE tolS m after with
  | O => if forallb (in_pool tolP pool) picks then 0 else 5
  | n => n
  end.
Definition expired_count (cfg : ccfg Q) (training freeze has_mask : bool) (s1 : cstate Q)
  (xs : list Qv) (valid : list bool) (idx : list nat) (after : cstate Q) : nat :=
  length (snd (update_model cfg training freeze has_mask s1 xs valid idx after)).

(* C14: one k-means iteration from given means (Euclid: sqrt-free score; cosine: dot) *)
Definition kmeans_iter_q (cosine : bool) (l2eps : Q) (data means : list Qv) : list Qv * list Q :=
  kmeans_iter Q_ops (if cosine then cosscore Q_ops else negsqdist Q_ops)
              (if cosine then l2n Q_ops Qsqrt l2eps else (fun v => v)) data means.
Definition kmeans_iter_check (cosine : bool) (tol l2eps : Q) (data means new_means : list Qv) (bins : list Q) : nat :=
  let '(m, b) := kmeans_iter_q cosine l2eps data means in
  if negb (vclose 0 b bins) then 1 else if negb (mclose tol m new_means) then 2 else 0.

(* shared-codebook ResidualVQ: every layer accumulates into the one codebook (manual_ema_update = true, so no
   per-layer normalisation), then a single update_ema at the end of the forward *)
Definition shared_model (cfg : ccfg Q) (s0 : cstate Q) (layers : list (list Qv * list nat)) : cstate Q :=
  let sa := fold_left (fun s l => cb_update Q_ops Qsqrt cfg true false false s (fst l) (map (fun _ => true) (fst l)) (snd l) [])
                      layers s0 in
  normalise Q_ops (c_eps cfg) (post_of Q_ops Qsqrt cfg) sa.
Definition shared_check (tolE tolS : Q) (cfg : ccfg Q) (s0 : cstate Q) (layers : list (list Qv * list nat)) (after : cstate Q) : nat :=
  st_diff tolE tolS (shared_model cfg s0 layers) after.

(* LatentQuantize: level k of a latent dimension is a value nearest to z in absolute distance *)
Definition lq_okb (tol : Q) (values : Qv) (z : Q) (k : nat) : bool :=
  Nat.ltb k (length values) &&
  forallb (fun v => Qle_bool (Qabsq (Qred (z - nth k values 0))) (Qred (Qabsq (Qred (z - v)) + tol))) values.

(* shared-codebook ResidualVQ with expiry: accumulate over the layers, one normalisation, then expiry whose
   replacements come from the concatenation of all layers' residuals *)
Definition shared_expire_check (tolE tolS : Q) (cfg : ccfg Q) (s0 : cstate Q) (layers : list (list Qv * list nat))
  (pool : list Qv) (after : cstate Q) : nat :=
  let sn := shared_model cfg s0 layers in
  let picks := picks_from (c_thr cfg) sn after in
  match st_diff tolE tolS (expire Q_ops false (c_thr cfg) (c_reset cfg) picks sn) after with
  | O => if forallb (in_pool tolE pool) picks then 0 else 5
  | n => n
  end.

(* C14: invariants of the state right after k-means initialisation (evaluated on the implementation's state) :
   1 = counts do not add up to the number of valid tokens, 2 = running sums <> code * count,
   3 = count-weighted sum of codes <> sum of the data (Euclid; per coordinate, in a band relative to the sum of the ABSOLUTE values of the
   data: the two cluster sums may cancel, so the float32 rounding is relative to the summands and not to the result), 4 = a seed is not a data row, 5 = flag not set,
   6 = a count is negative or not an integer *)
Definition is_nat_q (q : Q) : bool := Qle_bool 0 q && Qeq_bool (inject_Z (Qfloor q)) q.
Definition kmeans_state_check (cosine : bool) (tol : Q) (data seeds : list Qv) (after : cstate Q) : nat :=
  let d := dim_of data in
  let cs := cluster_size after in
  if negb (initted after) then 5
  else if negb (forallb is_nat_q cs) then 6
  else if negb (Qeq_bool (fsum Q_ops cs) (inject_Z (Z.of_nat (length data)))) then 1
  else if negb (mclose tol (map2 (fun m b => vscale Q_ops b m) (embed after) cs) (embed_avg after)) then 2
  else if negb cosine && negb (all2 (fun ab mag => Qclose (Qred (tol * (1 + mag))) (fst ab) (snd ab))
                                    (combine (vsum Q_ops d (map2 (fun m b => vscale Q_ops b m) (embed after) cs)) (vsum Q_ops d data))
                                    (vsum Q_ops d (map (map Qabsq) data))) then 3
  else if negb (forallb (fun s => existsb (veqb_q s) data) seeds) then 4
  else 0.
(* every code lies in the coordinate-wise bounding box of the data (necessary for being in the convex hull) *)
Definition in_box (tol : Q) (data : list Qv) (v : Qv) : bool :=
  forallb (fun i => let col := map (fun x => nth i x 0) data in
                    let lo := fold_right (fun a b => if Qle_bool a b then a else b) (nth 0 col 0) col in
                    let hi := fold_right (fun a b => if Qle_bool a b then b else a) (nth 0 col 0) col in
                    Qle_bool (lo - tol) (nth i v 0) && Qle_bool (nth i v 0) (hi + tol)) (seq 0 (length v)).
Definition kmeans_box_check (tol : Q) (data : list Qv) (after : cstate Q) : nat :=
  if forallb (in_box tol data) (embed after) then 0 else 7.

(* C16: multi-process training as a list of ranks.  all_reduce = componentwise sum replicated to every rank; broadcast =
   copy from rank 0.  [rc] / [rs] say whether the count / sum statistics are all-reduced (both are, in the source:
   Gen/o_*_collectives); with a flag off a rank would use its local statistic.  No proofs in this file. *)
From Coq Require Import ZArith List Bool.
From VQ Require Import Num Model.Vec Model.Core.
Import ListNotations.

Section Dist.
Context {F : Type} (o : ops F).

Definition rank_batch := (list (vec F) * list (nat * bool))%type.

Definition vsum_all (n : nat) (vs : list (vec F)) : vec F := fold_right (vadd o) (vzero o n) vs.
Definition msum_all (K d : nat) (ms : list (list (vec F))) : list (vec F) :=
  fold_right (fun a b => map2 (vadd o) a b) (repeat (vzero o d) K) ms.

(* the EMA statistics update as rank [r] performs it *)
Definition dist_accumulate (decay : F) (d : nat) (rc rs : bool) (s : cstate F) (ranks : list rank_batch) (r : nat) : cstate F :=
  let K := length (cluster_size s) in
  let cnts := map (fun b : rank_batch => counts o K (snd b)) ranks in
  let sms := map (fun b : rank_batch => sums o K d (fst b) (snd b)) ranks in
  let c := if rc then vsum_all K cnts else nth r cnts (vzero o K) in
  let sm := if rs then msum_all K d sms else nth r sms (repeat (vzero o d) K) in
  mkst (embed s) (map2 (fun a b => ema_vec o a b decay) (embed_avg s) sm) (ema_vec o (cluster_size s) c decay) (initted s).

(* what a single process computes on the concatenation of all ranks' batches *)
Definition concat_batch (ranks : list rank_batch) : rank_batch :=
  (concat (map fst ranks), concat (map snd ranks)).

(* one distributed k-means iteration as rank r performs it: local assignment, bins all-reduced, local sums divided by the
   GLOBAL (clamped) bins, then all-reduced *)
Definition dist_kmeans_means (score : vec F -> vec F -> F) (means : list (vec F)) (datas : list (list (vec F))) : list (vec F) * list F :=
  let K := length means in
  let d := dim_of (concat datas) in
  let imss := map (fun data => map (fun x => (select o score means x, true)) data) datas in
  let bins := vsum_all K (map (counts o K) imss) in
  let locals := map (fun p : list (vec F) * list (nat * bool) =>
                       map2 (fun s b => vdivs o s (if eqb o b (zero o) then one o else b)) (sums o K d (fst p) (snd p)) bins)
                    (combine datas imss) in
  let new := msum_all K d locals in
  (map2 (fun bm nm => if eqb o (fst bm) (zero o) then snd bm else nm) (combine bins means) new, bins).

(* LFQ: batch entropy is taken of the rank-averaged code distribution *)
Definition rank_mean (n : nat) (ps : list (vec F)) : vec F := vdivs o (vsum_all n ps) (ofnat o (length ps)).

End Dist.

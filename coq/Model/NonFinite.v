(* Non-finite arithmetic (IEEE special values over an exact scalar) and the backward pass of a linear layer under a mask.
   C09 says that ARBITRARY values in the padded region never change anything observable - gradients of the parameters included.  Real
   arithmetic cannot express the failure mode (0 * inf = nan in the backward pass of the input projection: defects D22 / D26, seed C09-e), so
   this file extends the scalar with +inf, -inf and nan, with the IEEE rules for them and exact arithmetic on finite values (no overflow:
   that is a float32 matter, see DESIGN section 8).  The two possible orders "zero the padded rows, then project" and "project, then zero the
   padded outputs" are both modelled; which one the source uses is read off the regenerated call sequences (Gen/o_*_mask_proj).
   No proofs in this file. *)
From Coq Require Import ZArith List Bool String.
From VQ Require Import Num Model.Vec.
Import ListNotations.

Section XR.
Context {F : Type} (o : ops F).

Inductive xr := Fin (r : F) | PInf | NInf | NaN.

Definition xzero : xr := Fin (zero o).
Definition is_fin (a : xr) : bool := match a with Fin _ => true | _ => false end.
Definition is_nan (a : xr) : bool := match a with NaN => true | _ => false end.

(* finite * infinity: nan for 0, otherwise the sign rule *)
Definition fin_times_inf (x : F) (positive_inf : bool) : xr :=
  if eqb o x (zero o) then NaN
  else if Bool.eqb (ltb o (zero o) x) positive_inf then PInf else NInf.

Definition xmul (a b : xr) : xr :=
  match a, b with
  | NaN, _ | _, NaN => NaN
  | Fin x, Fin y => Fin (mul o x y)
  | Fin x, PInf | PInf, Fin x => fin_times_inf x true
  | Fin x, NInf | NInf, Fin x => fin_times_inf x false
  | PInf, PInf | NInf, NInf => PInf
  | PInf, NInf | NInf, PInf => NInf
  end.

Definition xadd (a b : xr) : xr :=
  match a, b with
  | NaN, _ | _, NaN => NaN
  | Fin x, Fin y => Fin (add o x y)
  | PInf, NInf | NInf, PInf => NaN
  | PInf, _ | _, PInf => PInf
  | NInf, _ | _, NInf => NInf
  end.

Definition xvec := list xr.
Definition xmat := list xvec.
Definition xsum (l : xvec) : xr := fold_right xadd xzero l.
Definition xdot (a b : xvec) : xr := xsum (map2 xmul a b).
Definition xvadd (a b : xvec) : xvec := map2 xadd a b.
Definition xmadd (a b : xmat) : xmat := map2 xvadd a b.
Definition xvzero (n : nat) : xvec := repeat xzero n.
Definition xmzero (r c : nat) : xmat := repeat (xvzero c) r.
Definition vfin (v : xvec) : bool := forallb is_fin v.
Definition mfin (m : xmat) : bool := forallb vfin m.

(* y = W x + b  (W: one row per output feature, as torch.nn.Linear stores it) *)
Definition lin_fwd (W : xmat) (b : xvec) (x : xvec) : xvec := xvadd (map (fun row => xdot row x) W) b.
(* dL/dW = sum over positions of  g (x) x ;  dL/db = sum of g ; dL/dx = W^T g *)
Definition outer (g x : xvec) : xmat := map (fun gj => map (fun xk => xmul gj xk) x) g.
Definition wgrad (dout din : nat) (gs xs : list xvec) : xmat := fold_right xmadd (xmzero dout din) (map2 outer gs xs).
Definition bgrad (dout : nat) (gs : list xvec) : xvec := fold_right xvadd (xvzero dout) gs.
Definition col (W : xmat) (k : nat) : xvec := map (fun row => nth k row xzero) W.
Definition xgrad (din : nat) (W : xmat) (g : xvec) : xvec := map (fun k => xdot (col W k) g) (seq 0 din).

(* zeroing rows at padded positions (torch.where(mask, x, 0.) / masked_fill(~mask, 0.)) *)
Definition zero_rows (valid : list bool) (xs : list xvec) : list xvec :=
  map2 (fun (v : bool) x => if v then x else map (fun _ => xzero) x) valid xs.

(* the input projection under a mask, in the two possible orders.
   zero_first = true : rows are zeroed, then projected; the layer's saved input is the zeroed batch, its upstream gradient is gs.
   zero_first = false: raw rows are projected, the OUTPUT rows are zeroed; the layer's saved input is the raw batch and the upstream gradient
                       of a zeroed output row is zero. *)
Definition proj_out (zero_first : bool) (W : xmat) (b : xvec) (valid : list bool) (xs : list xvec) : list xvec :=
  if zero_first then map (lin_fwd W b) (zero_rows valid xs)
  else zero_rows valid (map (lin_fwd W b) xs).
Definition proj_wgrad (zero_first : bool) (dout din : nat) (valid : list bool) (xs gs : list xvec) : xmat :=
  if zero_first then wgrad dout din gs (zero_rows valid xs)
  else wgrad dout din (zero_rows valid gs) xs.
End XR.

Arguments Fin {F}. Arguments PInf {F}. Arguments NInf {F}. Arguments NaN {F}.
Arguments xr : clear implicits.

(* which order does the source use?  position of the zeroing call vs the projection call in the regenerated call sequence *)
Open Scope string_scope.
Fixpoint first_pos (names : list string) (calls : list (string * string)) (k : nat) : option nat :=
  match calls with
  | [] => None
  | (c, _) :: r => if existsb (String.eqb c) names then Some k else first_pos names r (S k)
  end.
Definition zero_first_of (calls : list (string * string)) : bool :=
  match first_pos ["einx.where"; "x.masked_fill"; "torch.where"] calls 0, first_pos ["self.project_in"] calls 0 with
  | Some a, Some b => Nat.ltb a b
  | _, _ => false
  end.

(* correspondence: the weight gradient torch computed vs the model's, entry by entry: same special value, or finite and close *)
From Coq Require Import QArith.
Definition xclose (tol : Q) (a b : xr Q) : bool :=
  match a, b with
  | Fin x, Fin y => Qclose_rel tol x y
  | PInf, PInf | NInf, NInf | NaN, NaN => true
  | _, _ => false
  end.
Fixpoint all2b {A B} (f : A -> B -> bool) (l1 : list A) (l2 : list B) : bool :=
  match l1, l2 with
  | [], [] => true
  | a :: l1', b :: l2' => f a b && all2b f l1' l2'
  | _, _ => false
  end.
(* 0 ok, 1 = weight gradient differs, 2 = the layer's output rows differ (obs_out: what the Linear module returned, i.e. before any later zeroing) *)
Definition proj_check (tol : Q) (zero_first : bool) (dout din : nat) (W : list (list (xr Q))) (b : list (xr Q)) (valid : list bool)
  (xs gs : list (list (xr Q))) (obs_out : list (list (xr Q))) (obs_wgrad : list (list (xr Q))) : nat :=
  let layer_in := if zero_first then zero_rows Q_ops valid xs else xs in
  if negb (all2b (all2b (xclose tol)) (map (lin_fwd Q_ops W b) layer_in) obs_out) then 2
  else if negb (all2b (all2b (xclose tol)) (proj_wgrad Q_ops zero_first dout din valid xs gs) obs_wgrad) then 1
  else 0.

(* Failure atomicity of the k-means initialisation (seed C14-e): init_embed_ is a sequence of calls, some of which only COMPUTE (masking, kmeans,
   sampling inside it - these may raise: an all-padding first batch gives k-means nothing to sample from) and some of which WRITE a persistent tensor.
   A call that raises aborts the sequence.  The model runs a prefix of the regenerated call sequence (Gen/o_euclid_init, Gen/o_cosine_init) and
   records which tensors have been written.  No proofs in this file. *)
From Coq Require Import List Bool String Arith.
Import ListNotations.
Open Scope string_scope.

Definition write_names : list string :=
  ["self.embed.data.copy_"; "self.embed_avg.data.copy_"; "self.cluster_size.data.copy_"; "self.initted.data.copy_";
   "self.initted.copy_"; "self.initted.fill_"; "self.initted.data.fill_"].
Definition flag_names : list string := ["self.initted.data.copy_"; "self.initted.copy_"; "self.initted.fill_"; "self.initted.data.fill_"].

Definition is_write (c : string * string) : bool := existsb (String.eqb (fst c)) write_names.
Definition is_flag (c : string * string) : bool := existsb (String.eqb (fst c)) flag_names.

(* the tensors written when the sequence is aborted after its first k calls *)
Definition written (k : nat) (calls : list (string * string)) : list string := map fst (filter is_write (firstn k calls)).
Definition flag_set (k : nat) (calls : list (string * string)) : bool := existsb is_flag (firstn k calls).

(* every computing call precedes every writing call *)
Fixpoint computes_before_writes (calls : list (string * string)) : bool :=
  match calls with
  | [] => true
  | c :: r => if is_write c then forallb is_write r else computes_before_writes r
  end.
(* the flag is the last call of the sequence and is written exactly once *)
Definition flag_last (calls : list (string * string)) : bool :=
  match rev calls with
  | c :: r => is_flag c && negb (existsb is_flag r)
  | [] => false
  end.
(* all four tensors are written by the complete sequence *)
Definition writes_all (calls : list (string * string)) : bool :=
  forallb (fun n => existsb (fun c => String.eqb (fst c) n) calls) ["self.embed.data.copy_"; "self.embed_avg.data.copy_"; "self.cluster_size.data.copy_"]
  && existsb is_flag calls.

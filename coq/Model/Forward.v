(* End-to-end executable model of VectorQuantize's evaluation-mode forward (no projection): public layout in,
   public layout out, composed from the index maps of Model/Layout.v and the assignment of Model/Core.v.
   Evaluated over Q by the C10 correspondence on the implementation's own inputs and codebooks. *)
From Coq Require Import ZArith QArith Arith List Bool.
From VQ Require Import Num Model.Vec Model.Core Model.CoreCheck Model.Layout.
Import ListNotations.

Definition t3 (l : list (list (list Q))) : nat -> nat -> nat -> Q := fun i j k => nth k (nth j (nth i l []) []) 0%Q.
Definition t4 (l : list (list (list (list Q)))) : nat -> nat -> nat -> nat -> Q := fun i j k m => nth m (nth k (nth j (nth i l []) []) []) 0%Q.

(* per-token functions: index of the selected code / the selected code itself (Euclidean or cosine score on the given vector) *)
Definition pick (cosine : bool) (cb : list Qv) (D : nat) (v : tvec Q) : nat :=
  select Q_ops (if cosine then cosscore Q_ops else negsqdist Q_ops) cb (tab1 D v).
Definition code_of (cosine : bool) (cb : list Qv) (D : nat) (v : tvec Q) : tvec Q :=
  fun d => nth d (nth (pick cosine cb D v) cb []) 0%Q.

Inductive hmode := OneHead | SharedHeads | SeparateHeads.

(* sequence layout 'b n (h d)' : indices 'b n h' (h = 1 for one head) and quantized 'b n (h d)' *)
Definition seq_indices (cosine : bool) (m : hmode) (H D : nat) (cbs : list (list Qv)) (X : nat -> nat -> nat -> Q) : nat -> nat -> nat -> nat :=
  match m with
  | OneHead => fun b n _ => tok_map_idx (pick cosine (nth 0 cbs []) D) X b n
  | SharedHeads => heads_shared_idx H (tok_map_idx (pick cosine (nth 0 cbs []) D) (heads_shared_in H D X))
  | SeparateHeads => heads_sep_idx (head_map_idx (fun h => pick cosine (nth h cbs []) D) (heads_sep_in D X))
  end.
Definition seq_quantized (cosine : bool) (m : hmode) (H D : nat) (cbs : list (list Qv)) (X : nat -> nat -> nat -> Q) : nat -> nat -> nat -> Q :=
  match m with
  | OneHead => tok_map (code_of cosine (nth 0 cbs []) D) X
  | SharedHeads => heads_shared_out H D (tok_map (code_of cosine (nth 0 cbs []) D) (heads_shared_in H D X))
  | SeparateHeads => heads_sep_out D (head_map (fun h => code_of cosine (nth h cbs []) D) (heads_sep_in D X))
  end.

(* the three public layouts *)
Definition fwd_seq_indices cosine m (B N H D : nat) cbs (x : list (list (list Q))) : list nat :=
  tab3 B N H (seq_indices cosine m H D cbs (t3 x)).
Definition fwd_seq_quantized cosine m (B N H D : nat) cbs (x : list (list (list Q))) : list Q :=
  tab3 B N (H * D) (seq_quantized cosine m H D cbs (t3 x)).
Definition fwd_cfirst_indices cosine m (B N H D : nat) cbs (x : list (list (list Q))) : list nat :=
  tab3 B N H (seq_indices cosine m H D cbs (cfirst_in (t3 x))).
Definition fwd_cfirst_quantized cosine m (B N H D : nat) cbs (x : list (list (list Q))) : list Q :=
  tab3 B (H * D) N (cfirst_out (seq_quantized cosine m H D cbs (cfirst_in (t3 x)))).
Definition fwd_image_indices cosine m (B Hh W H D : nat) cbs (x : list (list (list (list Q)))) : list nat :=
  tab4 B Hh W H (fun b hh w h => seq_indices cosine m H D cbs (img_in W (t4 x)) b (hh * W + w) h).
Definition fwd_image_quantized cosine m (B Hh W H D : nat) cbs (x : list (list (list (list Q)))) : list Q :=
  tab4 B (H * D) Hh W (img_out W (seq_quantized cosine m H D cbs (img_in W (t4 x)))).

(* comparison with the implementation: equal lists (indices exactly, values within tol) -> 0 ; else 1 (indices) / 2 (values) *)
Definition nat_list_eqb (a b : list nat) : bool := Nat.eqb (length a) (length b) && forallb (fun p => Nat.eqb (fst p) (snd p)) (combine a b).
Definition fwd_check (tol : Q) (mi : list nat) (ii : list nat) (mq iq : list Q) : nat :=
  if negb (nat_list_eqb mi ii) then 1 else if negb (vclose tol mq iq) then 2 else 0.

(* C13: shape calculus of the quantizer pipelines (torch semantics of the shape-changing primitives used at the
   anchored sites): rearrange with grouped axes, squeeze() of ALL unit axes vs squeeze(dim), right-aligned
   broadcasting, stacking a trailing axis.  Shapes are lists of extents.  No proofs in this file. *)
From Coq Require Import Arith List Bool.
Import ListNotations.

Definition shape := list nat.
Definition prod (s : shape) : nat := fold_right Nat.mul 1 s.

(* torch.squeeze(): removes every axis of extent 1 ; torch.squeeze(dim): removes that axis only if its extent is 1 *)
Definition squeeze_all (s : shape) : shape := filter (fun n => negb (Nat.eqb n 1)) s.
Fixpoint squeeze_at (k : nat) (s : shape) : shape :=
  match k, s with
  | O, n :: t => if Nat.eqb n 1 then t else n :: t
  | S k', n :: t => n :: squeeze_at k' t
  | _, [] => []
  end.

(* right-aligned broadcasting of two shapes (None = not broadcastable) *)
Fixpoint bcast_rev (a b : shape) : option shape :=
  match a, b with
  | [], r => Some r
  | r, [] => Some r
  | x :: a', y :: b' =>
      match bcast_rev a' b' with
      | None => None
      | Some t => if Nat.eqb x y then Some (x :: t) else if Nat.eqb x 1 then Some (y :: t) else if Nat.eqb y 1 then Some (x :: t) else None
      end
  end.
Definition broadcast (a b : shape) : option shape := option_map (@rev nat) (bcast_rev (rev a) (rev b)).

(* rotate_to: pack '* d' -> [m; d]; e:[m;1;d] -> transform keeps [m;1;d] -> SQUEEZE -> times the norm ratio [m;1] -> unpack.
   [sq] is the squeeze the source uses (regenerated). *)
Definition rotate_to_shape (sq : shape -> shape) (m d : nat) : option shape := broadcast (sq [m; 1; d]) [m; 1].

(* ---- layouts accepted by VectorQuantize-like classes *)
Inductive layout := Seq | CFirst | Image | Single.
(* input shape -> (batch, tokens, feature) of the internal channel-last sequence *)
Definition to_seq (l : layout) (s : shape) : option (nat * nat * nat) :=
  match l, s with
  | Seq, [b; n; d] => Some (b, n, d)
  | CFirst, [b; d; n] => Some (b, n, d)
  | Image, [b; d; h; w] => Some (b, h * w, d)
  | Single, [b; d] => Some (b, 1, d)
  | _, _ => None
  end.
(* internal (b, n, d) -> output shape, given the spatial extents remembered from the input *)
Definition from_seq (l : layout) (s : shape) (bnd : nat * nat * nat) : shape :=
  let '(b, n, d) := bnd in
  match l, s with
  | Seq, _ => [b; n; d]
  | CFirst, _ => [b; d; n]
  | Image, [_; _; h; w] => [b; d; h; w]
  | Single, _ => squeeze_at 1 [b; n; d]
  | _, _ => []
  end.
(* documented index shape: the input without its feature axis, plus a trailing heads axis when heads > 1 *)
Definition drop_feature (l : layout) (s : shape) : shape :=
  match l, s with
  | Seq, [b; n; _] => [b; n]
  | CFirst, [b; _; n] => [b; n]
  | Image, [b; _; h; w] => [b; h; w]
  | Single, [b; _] => [b]
  | _, _ => []
  end.
Definition trailing (k : nat) (s : shape) : shape := if Nat.ltb 1 k then s ++ [k] else s.
(* the code's path: indices come out of the codebook as [b; n] (+ heads), then 'b (h w) ... -> b h w ...' / 'b 1 ... -> b ...' *)
Definition idx_from_seq (l : layout) (s : shape) (heads : nat) (bn : nat * nat) : shape :=
  let '(b, n) := bn in
  match l, s with
  | Image, [_; _; h; w] => trailing heads [b; h; w]
  | Single, _ => trailing heads [b]
  | _, _ => trailing heads [b; n]
  end.
(* residual stacks append a trailing layers axis; grouped forms a leading groups axis *)
Definition residual_idx (layers : nat) (s : shape) : shape := s ++ [layers].
Definition grouped_idx (groups : nat) (s : shape) : shape := groups :: s.

(* C19: stochastic code sampling.  gumbel_noise(t) = -log(-log(u)) with log(t) = ln(clamp(t, min = 1e-20)); the
   sampling logits are logits / temperature + noise under the guard regenerated from the source.  Over the reals. *)
From Coq Require Import ZArith Reals List Bool.
From VQ Require Import Num Model.Vec.
From VQ.Gen Require Import g_gumbel_noise.
Import ListNotations.
Open Scope R_scope.

Definition clog (eps t : R) : R := ln (Rmax t eps).                  (* log(t, eps) *)
Definition gnoise (eps u : R) : R := - clog eps (- clog eps u).      (* gumbel_noise *)
Definition sampling_logits (eps T : R) (ls us : list R) : list R := map2 (fun l u => l / T + gnoise eps u) ls us.
Definition gselect (eps : R) (stochastic temp_pos training : bool) (T : R) (ls us : list R) : nat :=
  if g_gumbel_noise stochastic temp_pos training then argmax_first R_ops (sampling_logits eps T ls us)
  else argmax_first R_ops ls.
(* softmax weights *)
Definition sweight (T l : R) : R := exp (l / T).

(* Executable comparison of the einops model with einops itself: the harness labels the entries of an input tensor by their flat (row-major)
   position, applies the REAL einops.rearrange / repeat with the pattern string, and hands the flattened result to `einops_check`, which
   recomputes the same table from the parsed pattern. *)
From Coq Require Import String List Arith Bool.
From VQ Require Import Model.Einops.
Import ListNotations.

Fixpoint all_indices (sh : list nat) : list (list nat) :=
  match sh with
  | [] => [[]]
  | n :: r => flat_map (fun i => map (cons i) (all_indices r)) (seq 0 n)
  end.
Fixpoint flat_pos (sh idx : list nat) (acc : nat) : nat :=
  match sh, idx with
  | n :: sh', i :: idx' => flat_pos sh' idx' (acc * n + i)
  | _, _ => acc
  end.
Definition einops_table (p : pattern) (e : env) : list nat :=
  map (fun o => flat_pos (shape e (lhs p)) (index_map p e o) 0) (all_indices (shape e (rhs p))).
Fixpoint natlist_eqb (a b : list nat) : bool :=
  match a, b with
  | [], [] => true
  | x :: a', y :: b' => Nat.eqb x y && natlist_eqb a' b'
  | _, _ => false
  end.
(* 0 = agrees, 1 = differs, 2 = pattern does not parse, 3 = pattern is not well-formed *)
Definition einops_check (is_repeat : bool) (s : string) (envl : list (string * nat)) (want : list nat) : nat :=
  match parse s with
  | None => 2
  | Some p =>
      if negb (if is_repeat then wf_repeat p else wf_rearrange p) then 3
      else if natlist_eqb (einops_table p (env_of envl)) want then 0 else 1
  end.

(* C07 correspondence checkers: the model's directional derivatives evaluated over Q (sqrt by Qsqrt, error 2^-40)
   against torch autograd Jacobian columns / gradients.  No proofs here. *)
From Coq Require Import ZArith QArith List Bool.
From VQ Require Import Num Model.Vec Model.Core Model.CoreCheck Model.Grad.
Import ListNotations.

Definition qeps : Q := 1 # 1000000.
(* one Jacobian column of the quantized output of a token w.r.t. its own input, in direction dx *)
Definition tangent_check (tol : Q) (training rg rot : bool) (v : Q) (x q dx observed : Qv) : nat :=
  if vclose tol (vq_out_tangent Q_ops Qsqrt qeps training rg rot v x q dx) observed then 0 else 1.
(* forward value of the estimator: the selected code *)
Definition value_check (tol : Q) (rot : bool) (x q observed : Qv) : nat :=
  if vclose tol (if rot then rotate_value Q_ops Qsqrt qeps x q else ste_value Q_ops x q) observed then 0 else 1.
(* gradient of the commitment term w.r.t. the (flattened) input and w.r.t. the (flattened) selected codes *)
Definition commit_x_check (tol weight : Q) (x q observed : Qv) : nat :=
  if vclose tol (commit_grad_x Q_ops weight x q) observed then 0 else 1.
Definition commit_q_check (tol weight : Q) (learnable freeze : bool) (x q observed : Qv) : nat :=
  if vclose tol (commit_grad_q Q_ops weight learnable freeze x q) observed then 0 else 1.

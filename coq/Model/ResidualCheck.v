(* Boolean checkers for C06 / C02 evaluated on the implementation's values (exact rationals).  No proofs here. *)
From Coq Require Import ZArith QArith List Bool.
From VQ Require Import Num Model.Vec Model.Core Model.CoreCheck Model.Residual.
Import ListNotations.

(* one token through a residual stack of nearest-code layers, from PUBLIC outputs only:
   x = projected input, idx / codes = per-layer public indices and codes (return_all_codes), out = summed output
   result: 0 ok | 10+k : layer k's index is not a nearest code OF THE RESIDUAL x - sum_{i<k} code_i
          | 30+k : layer k's code is not the selected entry (or a dropped layer's code is not zero)
          | 1 : output is not the sum of the codes | 2 : list lengths differ *)
Fixpoint residual_layers_check (cosine : bool) (tolN tolC : Q) (k : nat) (cbs : list (list Qv)) (r : Qv) (idx : list Z) (codes : list Qv) : nat :=
  match cbs, idx, codes with
  | [], [], [] => 0
  | cb :: cbs', i :: idx', c :: codes' =>
      if (i =? -1)%Z then
        if forallb (fun v => Qeq_bool v 0) c then residual_layers_check cosine tolN tolC (S k) cbs' r idx' codes' else (30 + k)%nat
      else if negb (nearest_okb cosine tolN cb r (Z.to_nat i)) then (10 + k)%nat
      else if negb (vclose tolC (nth (Z.to_nat i) cb []) c) then (30 + k)%nat
      else residual_layers_check cosine tolN tolC (S k) cbs' (vsub Q_ops r c) idx' codes'
  | _, _, _ => 2
  end.
Definition residual_token_check (cosine : bool) (tolN tolC tolO : Q) (cbs : list (list Qv)) (x : Qv) (idx : list Z) (codes : list Qv) (out : Qv) : nat :=
  match residual_layers_check cosine tolN tolC 0 cbs x idx codes with
  | O => if vclose tolO (vsum Q_ops (length x) codes) out then 0 else 1
  | n => n
  end.
Fixpoint first_nonzero (l : list nat) : nat := match l with [] => 0 | O :: t => first_nonzero t | n :: _ => n end.
Definition residual_batch_check (cosine : bool) (tolN tolC tolO : Q) (cbs : list (list Qv))
  (toks : list (Qv * list Z * list Qv * Qv)) : nat :=
  first_nonzero (map (fun t => match t with (x, idx, codes, out) => residual_token_check cosine tolN tolC tolO cbs x idx codes out end) toks).

(* C02: the model's decoder on the implementation's indices equals the implementation's decoder output *)
Definition decode_token_check (tol : Q) (cbs : list (list Qv)) (d : nat) (idx : list Z) (decoded : Qv) : nat :=
  if vclose tol (rdecode Q_ops d (map (vq_table) cbs) idx) decoded then 0 else 1.
Definition decode_batch_check (tol : Q) (cbs : list (list Qv)) (d : nat) (toks : list (list Z * Qv)) : nat :=
  first_nonzero (map (fun t => decode_token_check tol cbs d (fst t) (snd t)) toks).

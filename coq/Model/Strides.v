(* Strided tensors and writes through reshape(): the five round-6 seeds C04-f / C05-f / C06-f / C09-f / C10-f all wrote IN PLACE into
   `t.reshape(-1, d)` (or `t.flatten()`) of a tensor that kept the caller's strides.  torch.reshape returns a VIEW when the leading axes can be
   merged (stride_b = n * stride_n) and a COPY otherwise; a write into the copy is lost.  Storage is a function from addresses to values; a
   three-axis tensor (b, n, d) is an offset and three strides.  No proofs in this file. *)
From Coq Require Import Arith List Bool.
Import ListNotations.

Section Strides.
Variable A : Type.
Variable zero : A.

Definition storage := nat -> A.
Record t3 := mk3 { off : nat; sb : nat; sn : nat; sd : nat; nb : nat; nn : nat; nd : nat }.

Definition addr (t : t3) (i j k : nat) : nat := off t + i * sb t + j * sn t + k * sd t.
Definition get (m : storage) (t : t3) (i j k : nat) : A := m (addr t i j k).

(* reshape(-1, d): the (b, n) axes merge into one axis of extent b * n with the stride of n, exactly when sb = nn * sn (torch's view rule;
   extents 1 impose nothing) *)
Definition mergeable (t : t3) : bool := Nat.eqb (sb t) (nn t * sn t) || Nat.leb (nb t) 1 || Nat.leb (nn t) 1.

(* addresses of row r = i * nn + j of the merged view *)
Definition row_addr (t : t3) (r k : nat) : nat := off t + r * sn t + k * sd t.

(* "t.reshape(-1, d)[rows] = 0" : zero the selected rows through the reshape handle.  A view writes into the storage of t; a copy is written and
   then dropped, the storage of t is untouched *)
Definition update (m : storage) (a : nat) (v : A) : storage := fun x => if Nat.eqb x a then v else m x.
Fixpoint zero_cols (m : storage) (t : t3) (r k : nat) : storage :=
  match k with O => m | S k' => update (zero_cols m t r k') (row_addr t r k') zero end.
Fixpoint zero_rows_view (m : storage) (t : t3) (rows : nat -> bool) (r : nat) : storage :=
  match r with
  | O => m
  | S r' => let m' := zero_rows_view m t rows r' in if rows r' then zero_cols m' t r' (nd t) else m'
  end.
Definition write_through_reshape (m : storage) (t : t3) (rows : nat -> bool) : storage :=
  if mergeable t then zero_rows_view m t rows (nb t * nn t) else m.

(* the functional form (torch.where / einx.where): a NEW tensor, entry by entry *)
Definition where_rows (m : storage) (t : t3) (rows : nat -> bool) (i j k : nat) : A :=
  if rows (i * nn t + j) then zero else get m t i j k.

(* layouts *)
Definition contiguous (b n d : nat) : t3 := mk3 0 (n * d) d 1 b n d.
(* x.transpose(0, 1).contiguous().transpose(0, 1): stored time-major, viewed batch-first *)
Definition batch_permuted (b n d : nat) : t3 := mk3 0 d (b * d) 1 b n d.
(* x.permute(2, 0, 1).contiguous().permute(1, 2, 0): stored feature-major, viewed channel-last - its (b, n) axes still merge (sb = n = nn * sn),
   so reshape(-1, d) is a view there; only the batch-permuted layout forces a copy *)
Definition feature_permuted (b n d : nat) : t3 := mk3 0 n 1 (b * n) b n d.
End Strides.

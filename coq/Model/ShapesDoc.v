(* C13: the documented index shape, for any rank: the input without its feature axis, plus trailing axes for heads /
   codebooks / residual layers, plus a leading groups axis. *)
From Coq Require Import Arith List Bool.
From VQ Require Import Model.Shapes.
Import ListNotations.

Fixpoint drop_axis (k : nat) (s : shape) : shape :=
  match k, s with
  | O, _ :: t => t
  | S k', a :: t => a :: drop_axis k' t
  | _, [] => []
  end.
Definition idx_shape_doc (feature_axis : nat) (in_shape : shape) (trailing_axes : list nat) (groups : option nat) : shape :=
  let core := drop_axis feature_axis in_shape ++ trailing_axes in
  match groups with Some g => g :: core | None => core end.

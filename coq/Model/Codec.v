(* Index codecs of the scalar quantizers (FSQ / LatentQuantize mixed radix, LFQ bits).
   Integer parts over Z.  No proofs here. *)
From Coq Require Import ZArith List Bool.
From VQ Require Import Num Model.Vec.
Import ListNotations.
Open Scope Z_scope.

(* ---- mixed radix, written the way the code computes it ---- *)
(* _basis = cumprod([1] + levels[:-1]) *)
Fixpoint cumprod_from (acc : Z) (l : list Z) : list Z :=
  match l with
  | [] => []
  | x :: t => (acc * x) :: cumprod_from (acc * x) t
  end.
Definition cumprod (l : list Z) : list Z := cumprod_from 1 l.
Definition basis (levels : list Z) : list Z := cumprod (1 :: removelast levels).

(* indices_to_level_indices: (indices // basis) % levels, elementwise *)
Definition dec (levels : list Z) (i : Z) : list Z :=
  map2 (fun b l => (i / b) mod l) (basis levels) levels.
(* integer form of codes_to_indices: sum(level_index * basis) *)
Definition zsum (l : list Z) : Z := fold_right Z.add 0 l.
Definition enc (levels : list Z) (ds : list Z) : Z :=
  zsum (map2 Z.mul ds (basis levels)).

Definition prod (l : list Z) : Z := fold_right Z.mul 1 l.
Fixpoint in_range (levels ds : list Z) : Prop :=
  match levels, ds with
  | [], [] => True
  | l :: ls, d :: ds' => 0 <= d < l /\ in_range ls ds'
  | _, _ => False
  end.
Fixpoint in_rangeb (levels ds : list Z) : bool :=
  match levels, ds with
  | [], [] => true
  | l :: ls, d :: ds' => (0 <=? d) && (d <? l) && in_rangeb ls ds'
  | _, _ => false
  end.

(* recursive reference (least-significant level first) used by the proofs *)
Fixpoint dec_rec (levels : list Z) (i : Z) : list Z :=
  match levels with
  | [] => []
  | l :: t => (i mod l) :: dec_rec t (i / l)
  end.
Fixpoint enc_rec (levels ds : list Z) : Z :=
  match levels, ds with
  | l :: t, d :: ds' => d + l * enc_rec t ds'
  | _, _ => 0
  end.

(* ---- FSQ level <-> code value (exact rationals / generic scalar) ---- *)
Section FsqVals.
Context {F : Type} (o : ops F).
Definition half_width (L : Z) : Z := L / 2.
(* _scale_and_shift_inverse: (k - half_width) / half_width *)
Definition fsq_level_value (L k : Z) : F :=
  div o (sub o (ofZ o k) (ofZ o (half_width L))) (ofZ o (half_width L)).
(* LatentQuantize: (k - hw) / hw / 2 *)
Definition lq_level_value (L k : Z) : F :=
  div o (div o (sub o (ofZ o k) (ofZ o (half_width L))) (ofZ o (half_width L))) (ofZ o 2).
Definition fsq_code (levels : list Z) (i : Z) : list F :=
  map2 fsq_level_value levels (dec levels i).
(* preserve_symmetry: k * (2 / (L - 1)) - 1 *)
Definition fsq_sym_level_value (L k : Z) : F :=
  sub o (mul o (ofZ o k) (div o (ofZ o 2) (sub o (ofZ o L) (one o)))) (one o).
Definition fsq_sym_code (levels : list Z) (i : Z) : list F :=
  map2 fsq_sym_level_value levels (dec levels i).
End FsqVals.

(* ---- LFQ: mask = 2 ** arange(d-1, -1, -1), most significant bit first ---- *)
Definition lfq_mask (d : nat) : list Z := map (fun k => 2 ^ Z.of_nat k) (rev (seq 0 d)).
Definition bits_of (d : nat) (i : Z) : list bool :=
  map (fun m => negb (Z.land i m =? 0)) (lfq_mask d).
Definition index_of (bits : list bool) : Z :=
  zsum (map2 (fun (b : bool) m => if b then m else 0) bits (lfq_mask (length bits))).
Section LfqVals.
Context {F : Type} (o : ops F).
(* bits_to_codes: bits * scale * 2 - scale *)
Definition lfq_code_of_bit (scale : F) (b : bool) : F :=
  sub o (mul o (mul o (if b then one o else zero o) scale) (ofZ o 2)) scale.
Definition lfq_code (scale : F) (d : nat) (i : Z) : list F :=
  map (lfq_code_of_bit scale) (bits_of d i).
(* forward: where(x > 0, s, -s) ; index = sum((q > 0) * mask) *)
Definition lfq_quant (scale : F) (x : F) : F := if ltb o (zero o) x then scale else opp o scale.
Definition lfq_bits_of_input (xs : list F) : list bool := map (fun x => ltb o (zero o) x) xs.
End LfqVals.

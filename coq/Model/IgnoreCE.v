(* Cross entropy to target indices with ignored entries (VectorQuantize(x, indices = ...) and the cross-entropy commitment loss): torch's
   F.cross_entropy(logits, codes, ignore_index = -1) with the default 'mean' reduction is the mean of the per-target negative log-likelihoods over the
   NON-IGNORED targets - undefined (nan) exactly when there is none.  A target is a pair (valid?, nll); nll is a real number (finite by type).
   [ce_joint]: ONE call over all heads (what the source does: Gen/p_losses row "vq.ce:").  [ce_per_head]: one call per head, averaged over the heads
   (seed C18-j): undefined as soon as ONE head has no valid target.  No proofs in this file. *)
From Coq Require Import List Bool Arith Reals String.
From VQ Require Import Model.GroupCat.
Import ListNotations.
Open Scope R_scope.

Definition target := (bool * R)%type.
Fixpoint nvalid (l : list target) : nat := match l with [] => O | (v, _) :: r => (if v then 1 else 0) + nvalid r end.
Fixpoint svalid (l : list target) : R := match l with [] => 0 | (v, x) :: r => (if v then x else 0) + svalid r end.
(* None = nan *)
Definition mean_valid (l : list target) : option R := if Nat.eqb (nvalid l) 0 then None else Some (svalid l / INR (nvalid l)).
Definition ce_joint (heads : list (list target)) : option R := mean_valid (List.concat heads).
Fixpoint sum_opt (l : list (option R)) : option R :=
  match l with
  | [] => Some 0
  | None :: _ => None
  | Some x :: r => match sum_opt r with Some s => Some (x + s) | None => None end
  end.
Definition ce_per_head (heads : list (list target)) : option R :=
  match sum_opt (map mean_valid heads) with Some s => Some (s / INR (List.length heads)) | None => None end.

(* ---- which of the two the source computes: exactly one row "vq.ce:...F.cross_entropy(..., ignore_index=-1)" and no per-head unbinding in the rows of
   calculate_ce_loss *)
Inductive ce_mode := Joint | PerHead | Unknown.
Definition ce_rows (rows : list string) : list string := filter (fun r => prefix "vq.ce:" r) rows.
Definition ce_mode_of (rows : list string) : ce_mode :=
  let rs := ce_rows rows in
  let calls := filter (has "F.cross_entropy(") rs in
  if existsb (fun r => has "unbind" r || has " for " r) rs then PerHead
  else match calls with
       | [r] => if has "ignore_index=-1" r && has "rearrange(distances, dist_einops_eq" r then Joint else Unknown
       | _ => Unknown
       end.
Definition ce_of_mode (m : ce_mode) (heads : list (list target)) : option R :=
  match m with Joint => ce_joint heads | PerHead => ce_per_head heads | Unknown => None end.

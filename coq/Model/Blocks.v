(* Run-length ("block") form of one EMA codebook update: a batch in which a token x with index i and validity v occurs n times in a row
   is summarised by the block (x, i, v, n).  The one-hot statistics of the expanded batch are  count_j = sum of the multiplicities of the
   blocks selected by j  and  sum_j = sum of multiplicity * x ; theorems in Proofs/BlockProofs.v show that the codebook model on the expanded
   batch equals the block formula for every multiplicity, so a call with 2^24 and more tokens per code (where float32 accumulation of ones
   saturates) is decided by evaluating the block formula - the expanded list never exists.  No proofs in this file. *)
From Coq Require Import ZArith QArith List Bool.
From VQ Require Import Num Model.Vec Model.Core Model.CoreCheck.
Import ListNotations.

Section Blocks.
Context {F : Type} (o : ops F).
Variable fsqrt : F -> F.

(* multiplicity as a scalar (INR n at R, n # 1 at Q) *)
Record block := mkblock { b_x : vec F; b_idx : nat; b_valid : bool; b_mult : F }.

Definition bcount_j (bs : list block) (j : nat) : F :=
  fsum o (map (fun b => if sel j (b_idx b, b_valid b) then b_mult b else zero o) bs).
Definition bcounts (K : nat) (bs : list block) : list F := map (bcount_j bs) (seq 0 K).
Definition bsum_j (d : nat) (bs : list block) (j : nat) : vec F :=
  vsum o d (map (fun b => if sel j (b_idx b, b_valid b) then vscale o (b_mult b) (b_x b) else vzero o d) bs).
Definition bsums (K d : nat) (bs : list block) : list (vec F) := map (bsum_j d bs) (seq 0 K).

Definition ema_accumulate_stats (decay : F) (s : cstate F) (sm : list (vec F)) (cn : list F) : cstate F :=
  mkst (embed s)
       (map2 (fun a b => ema_vec o a b decay) (embed_avg s) sm)
       (ema_vec o (cluster_size s) cn decay)
       (initted s).

(* a training, non-frozen, unmasked EMA call without expiry, in block form *)
Definition block_update (cfg : ccfg F) (d : nat) (s : cstate F) (bs : list block) : cstate F :=
  let K := length (cluster_size s) in
  normalise o (c_eps cfg) (post_of o fsqrt cfg) (ema_accumulate_stats (c_decay cfg) s (bsums K d bs) (bcounts K bs)).
End Blocks.

Arguments mkblock {F}. Arguments b_x {F}. Arguments b_idx {F}. Arguments b_valid {F}. Arguments b_mult {F}.
Arguments block : clear implicits.

(* expansion: multiplicities as naturals *)
Definition nblock (F : Type) := (list F * nat * bool * nat)%type.
Definition expand_xs {F} (bs : list (nblock F)) : list (list F) := flat_map (fun b => match b with (x, _, _, n) => repeat x n end) bs.
Definition expand_idx {F} (bs : list (nblock F)) : list nat := flat_map (fun b => match b with (_, i, _, n) => repeat i n end) bs.
Definition expand_valid {F} (bs : list (nblock F)) : list bool := flat_map (fun b => match b with (_, _, v, n) => repeat v n end) bs.

(* the correspondence check: result code as st_diff (0 ok, 1 embed, 2 embed_avg, 3 cluster_size, 4 initted) *)
Definition block_check (tolE tolS : Q) (cfg : ccfg Q) (d : nat) (s : cstate Q) (bs : list (block Q)) (after : cstate Q) : nat :=
  st_diff tolE tolS (block_update Q_ops Qsqrt cfg d s bs) after.

(* Residual quantizers (ResidualVQ / ResidualFSQ / ResidualLFQ / ResidualSimVQ and grouped forms) for ONE token:
   the greedy loop, its decoder, quantize-dropout as a truncation of the layer list, groups as chunks of the
   feature axis.  Generic in the per-layer quantizer, so one induction serves all variants.  No proofs here. *)
From Coq Require Import ZArith List Bool.
From VQ Require Import Num Model.Vec Model.Core.
Import ListNotations.

Section Residual.
Context {F : Type} (o : ops F).

(* a layer receives (residual, sum of the codes emitted so far) and returns (index, emitted code);
   the running sum is only read by implicit-neural codebooks (their MLP is conditioned on it) *)
Definition layerq := vec F -> vec F -> Z * vec F.

(* residual = residual - quantized ; quantized_out = quantized_out + quantized, in layer order *)
Fixpoint rloop (qs : list layerq) (r acc : vec F) : list (vec F * (Z * vec F)) :=
  match qs with
  | [] => []
  | q :: qs' => let ic := q r acc in (r, ic) :: rloop qs' (vsub o r (snd ic)) (vadd o acc (snd ic))
  end.
Definition residuals_of (l : list (vec F * (Z * vec F))) : list (vec F) := map fst l.
Definition indices_of (l : list (vec F * (Z * vec F))) : list Z := map (fun e => fst (snd e)) l.
Definition codes_of (l : list (vec F * (Z * vec F))) : list (vec F) := map (fun e => snd (snd e)) l.

(* forward with quantize-dropout: only the first [kept] layers run; every dropped layer reports index -1
   and contributes nothing *)
Definition rforward (d : nat) (qs : list layerq) (kept : nat) (x : vec F) : vec F * list Z * list (vec F) :=
  let l := rloop (firstn kept qs) x (vzero o d) in
  let ndrop := length qs - length (firstn kept qs) in
  (vsum o d (codes_of l), indices_of l ++ repeat (-1)%Z ndrop, codes_of l ++ repeat (vzero o d) ndrop).

(* ---- nearest-code layers (VQ / SimVQ): table lookup of the selected entry *)
Definition vq_layer (score : vec F -> vec F -> F) (cb : list (vec F)) : layerq :=
  fun r _ => let i := select o score cb r in (Z.of_nat i, lookup cb i).
(* ---- scalar layers (FSQ / LFQ): code = s_k * q (r / s_k) with a per-layer scale *)
Definition scaled_layer (q : vec F -> Z * vec F) (s : F) : layerq :=
  fun r _ => let ic := q (vdivs o r s) in (fst ic, vscale o s (snd ic)).

(* ---- decoding: index -1 decodes to a zero contribution; a coarse prefix is padded with -1 *)
Definition decode_entry (d : nat) (table : Z -> vec F) (i : Z) : vec F :=
  if (i =? -1)%Z then vzero o d else table i.
Definition rdecode_codes (d : nat) (tables : list (Z -> vec F)) (idx : list Z) : list (vec F) :=
  map2 (decode_entry d) tables (idx ++ repeat (-1)%Z (length tables - length idx)).
Definition rdecode (d : nat) (tables : list (Z -> vec F)) (idx : list Z) : vec F :=
  vsum o d (rdecode_codes d tables idx).
Definition vq_table (cb : list (vec F)) : Z -> vec F := fun i => lookup cb (Z.to_nat i).

(* ---- groups: independent residual quantizers on consecutive equal chunks of the feature axis *)
Fixpoint chunks (n : nat) (g : nat) (x : vec F) : list (vec F) :=
  match g with
  | O => []
  | S g' => firstn n x :: chunks n g' (skipn n x)
  end.
Definition grouped {A} (n : nat) (fs : list (vec F -> vec F * A)) (x : vec F) : vec F * list A :=
  let rs := map2 (fun f c => f c) fs (chunks n (length fs) x) in
  (concat (map fst rs), map snd rs).

End Residual.

(* Vectors / batches as lists, generic in the scalar.  No proofs in Model files. *)
From Coq Require Import ZArith List Bool.
From VQ Require Import Num.
Import ListNotations.

Section Vec.
Context {F : Type} (o : ops F).

Definition vec := list F.

Fixpoint map2 {A B C} (f : A -> B -> C) (a : list A) (b : list B) : list C :=
  match a, b with
  | x :: a', y :: b' => f x y :: map2 f a' b'
  | _, _ => []
  end.

Definition vadd (a b : vec) : vec := map2 (add o) a b.
Definition vsub (a b : vec) : vec := map2 (sub o) a b.
Definition vscale (c : F) (a : vec) : vec := map (mul o c) a.
Definition vdivs (a : vec) (c : F) : vec := map (fun x => div o x c) a.
Definition fsum (l : list F) : F := fold_right (add o) (zero o) l.
Definition dot (a b : vec) : F := fsum (map2 (mul o) a b).
Definition sqnorm (a : vec) : F := dot a a.
Definition sqdist (a b : vec) : F := sqnorm (vsub a b).
Definition vzero (n : nat) : vec := repeat (zero o) n.
Definition vsum (n : nat) (vs : list vec) : vec := fold_right vadd (vzero n) vs.
Definition fmax (a b : F) : F := if leb o a b then b else a.
Definition fmin (a b : F) : F := if leb o a b then a else b.

(* first maximal element: torch.argmax returns the first maximal index on CPU *)
Fixpoint argmax_first (l : list F) : nat :=
  match l with
  | [] => 0
  | x :: t =>
      match t with
      | [] => 0
      | _ => let j := argmax_first t in
             if ltb o x (nth j t (zero o)) then S j else 0
      end
  end.

Fixpoint argmin_first (l : list F) : nat :=
  match l with
  | [] => 0
  | x :: t =>
      match t with
      | [] => 0
      | _ => let j := argmin_first t in
             if ltb o (nth j t (zero o)) x then S j else 0
      end
  end.

(* one-hot statistics.  A token is (index, valid?) *)
Definition sel (j : nat) (im : nat * bool) : bool := snd im && Nat.eqb (fst im) j.
Definition count_j (ims : list (nat * bool)) (j : nat) : F :=
  fsum (map (fun im => if sel j im then one o else zero o) ims).
Definition counts (K : nat) (ims : list (nat * bool)) : list F :=
  map (count_j ims) (seq 0 K).
Definition sum_j (d : nat) (xs : list vec) (ims : list (nat * bool)) (j : nat) : vec :=
  vsum d (map2 (fun x im => if sel j im then x else vzero d) xs ims).
Definition sums (K d : nat) (xs : list vec) (ims : list (nat * bool)) : list vec :=
  map (sum_j d xs ims) (seq 0 K).

Definition lerp (a b w : F) : F := add o a (mul o w (sub o b a)).
Definition vlerp (a b : vec) (w : F) : vec := map2 (fun x y => lerp x y w) a b.

Definition veqb (a b : vec) : bool :=
  Nat.eqb (length a) (length b) && forallb (fun p => eqb o (fst p) (snd p)) (combine a b).
Definition mateqb (a b : list vec) : bool :=
  Nat.eqb (length a) (length b) && forallb (fun p => veqb (fst p) (snd p)) (combine a b).

End Vec.

Arguments vec : clear implicits.

(* Two forwards, each "seed a generator with my seed, then draw my dropout depth", interleaved arbitrarily (threads, DataParallel replicas).
   With a PRIVATE generator per call (random.Random(seed)) the depth of a call is a function of its own seed under every schedule; with the
   process-global generator (random.seed(seed); random.randrange(..)) it is not (seed C12-e).  The generator is abstract: any state type, any
   seeding function, any draw function.  Which kind the source uses is read off regenerated call sequences (Gen/o_*_rng).  No proofs here. *)
From Coq Require Import ZArith List Bool String.
Import ListNotations.

Section Rng.
Variables (St : Type) (seedf : Z -> St) (draw : St -> Z * St).

Inductive op := OSeed (second : bool) (s : Z) | ODraw (second : bool).

(* every interleaving of two programs that keeps each program's own order *)
Fixpoint merge (l1 : list op) : list op -> list (list op) :=
  match l1 with
  | [] => fun l2 => [l2]
  | a :: r1 =>
      fix aux (l2 : list op) : list (list op) :=
        match l2 with
        | [] => [l1]
        | b :: r2 => (map (cons a) (merge r1 l2) ++ map (cons b) (aux r2))%list
        end
  end.

Definition prog (second : bool) (s : Z) : list op := [OSeed second s; ODraw second].

Record world := mkw { cell1 : option St; cell2 : option St; res1 : option Z; res2 : option Z }.
Definition w0 : world := mkw None None None None.

(* private generators: call i uses cell i *)
Definition step_private (w : world) (o : op) : world :=
  match o with
  | OSeed false s => mkw (Some (seedf s)) (cell2 w) (res1 w) (res2 w)
  | OSeed true s => mkw (cell1 w) (Some (seedf s)) (res1 w) (res2 w)
  | ODraw false => match cell1 w with Some g => let '(v, g') := draw g in mkw (Some g') (cell2 w) (Some v) (res2 w) | None => w end
  | ODraw true => match cell2 w with Some g => let '(v, g') := draw g in mkw (cell1 w) (Some g') (res1 w) (Some v) | None => w end
  end.
(* one process-global generator: both calls use cell 1 *)
Definition step_shared (w : world) (o : op) : world :=
  match o with
  | OSeed _ s => mkw (Some (seedf s)) (cell2 w) (res1 w) (res2 w)
  | ODraw second => match cell1 w with
                    | Some g => let '(v, g') := draw g in
                                if second then mkw (Some g') (cell2 w) (res1 w) (Some v) else mkw (Some g') (cell2 w) (Some v) (res2 w)
                    | None => w
                    end
  end.
Definition run (step : world -> op -> world) (sched : list op) : world := fold_left step sched w0.
Definition depth_of (s : Z) : Z := fst (draw (seedf s)).
End Rng.

(* which generator does a forward use?  private iff it constructs random.Random(..) and never calls the module-level functions *)
Open Scope string_scope.
Definition global_rng_names : list string := ["random.seed"; "random.randrange"; "random.randint"; "random.random"; "random.choice"; "random.getrandbits"; "random.uniform"].
Definition uses_private_rng (calls : list (string * string)) : bool :=
  existsb (fun c => String.eqb (fst c) "random.Random") calls && negb (existsb (fun c => existsb (String.eqb (fst c)) global_rng_names) calls).

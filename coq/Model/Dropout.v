(* C12: quantize-dropout arithmetic (all four residual classes share it). *)
From Coq Require Import ZArith List Bool.
Import ListNotations.
Open Scope Z_scope.

(* round_up_multiple(num, mult) = ceil(num / mult) * mult *)
Definition cdiv (a b : Z) : Z := - ((- a) / b).
Definition round_up_multiple (num mult : Z) : Z := cdiv num mult * mult.
(* rand_quantize_dropout_index after the optional rounding *)
Definition drop_index (m r : Z) : Z :=
  if negb (m =? 1) then round_up_multiple (r + 1) m - 1 else r.
(* a layer is skipped iff quantizer_index > rand_quantize_dropout_index *)
Definition skipped (qi idx : Z) : bool := idx <? qi.
(* number of layers that run *)
Definition kept (n m r : Z) : Z := Z.min n (drop_index m r + 1).
Definition should_dropout (training enabled return_loss : bool) : bool :=
  training && enabled && negb return_loss.
Definition dropout_enabled (flag : bool) (n : Z) : bool := flag && (1 <? n).

(* the pattern of dropped layers predicted for (n, m, r) *)
Definition zrange (n : Z) : list Z := map Z.of_nat (seq 0 (Z.to_nat n)).
Definition drop_pattern (n m r : Z) : list bool := map (fun qi => skipped qi (drop_index m r)) (zrange n).
Definition bools_eqb (a b : list bool) : bool :=
  Nat.eqb (length a) (length b) && forallb (fun p => Bool.eqb (fst p) (snd p)) (combine a b).

(* correspondence predicate: observed per-layer "all -1" flags vs. the model, oracle r within contract *)
Definition dropout_case_ok (n cutoff m r : Z) (observed : list bool) : bool :=
  (cutoff <=? r) && (r <? n) && bools_eqb observed (drop_pattern n m r).
(* no dropout expected *)
Definition nodrop_case_ok (n : Z) (observed : list bool) : bool :=
  bools_eqb observed (map (fun _ => false) (zrange n)).
(* randrange table row: the distinct values hit over all seeds are exactly cutoff..n-1 *)
Definition randrange_row_ok (cutoff n : Z) (hit : list Z) : bool :=
  forallb (fun r => existsb (Z.eqb r) hit) (map (Z.add cutoff) (zrange (n - cutoff)))
  && forallb (fun r => (cutoff <=? r) && (r <? n)) hit.

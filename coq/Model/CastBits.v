(* LFQ under a precision cast (force_quantization_f32: x = x.float() before the sign is taken).  The cast is ANY function c : R -> R (rounding to float32
   flushes 0 < x < 7e-46 to zero; overflow aside it is monotone, but nothing of that is needed).  Per coordinate the emitted code is +s where the CAST
   value is positive and -s elsewhere; the index bit must be read off the emitted code (what the source does: Gen/p_lfq_codec row 0,
   "(quantized > 0)"), not off the input before the cast (seed C04-j).  No proofs in this file. *)
From Coq Require Import List Bool Reals String.
From VQ Require Import Model.GroupCat.
Import ListNotations.
Open Scope R_scope.

Definition Rpos (x : R) : bool := if Rlt_dec 0 x then true else false.
Definition code_of (c : R -> R) (s x : R) : R := if Rpos (c x) then s else - s.
Definition bit_from_code (q : R) : bool := Rpos q.
Definition bit_from_input (x : R) : bool := Rpos x.
Definition decode_bit (s : R) (b : bool) : R := if b then s else - s.

(* vectors: bits most significant first, index = sum of bit * 2^(d-1-k) *)
Fixpoint bits_to_index (bs : list bool) : nat := match bs with [] => 0 | b :: r => (if b then 2 ^ List.length r else 0) + bits_to_index r end.
Fixpoint index_to_bits (d n : nat) : list bool :=
  match d with O => [] | S d' => Nat.leb (2 ^ d') n :: index_to_bits d' (if Nat.leb (2 ^ d') n then n - 2 ^ d' else n) end.
Definition lfq_forward (c : R -> R) (s : R) (xs : list R) : list R * nat :=
  let q := map (code_of c s) xs in (q, bits_to_index (map bit_from_code q)).
Definition lfq_forward_bits_from_input (c : R -> R) (s : R) (xs : list R) : list R * nat :=
  (map (code_of c s) xs, bits_to_index (map bit_from_input xs)).
Definition lfq_decode (s : R) (d n : nat) : list R := map (decode_bit s) (index_to_bits d n).

(* which value the source takes the bits from *)
Inductive bit_source := FromCode | FromInput | UnknownSource.
Definition bit_source_of (rows : list string) : bit_source :=
  match rows with
  | r :: _ => if has "reduce((quantized > 0).int() * self.mask.int()" r then FromCode
              else if has "bits.int()" r || has "(x > 0)" r then FromInput else UnknownSource
  | [] => UnknownSource
  end.
Definition forward_of (b : bit_source) (c : R -> R) (s : R) (xs : list R) : option (list R * nat) :=
  match b with FromCode => Some (lfq_forward c s xs) | FromInput => Some (lfq_forward_bits_from_input c s xs) | UnknownSource => None end.

(* A derived codebook (SimVQ: code_transform(frozen_codebook)) under external writes of what it is derived from, with and without memoisation while
   the parameters are frozen (round-6 seeds C01-f / C02-f).  P = what the codebook is derived from, C = the derived codebook, f = the derivation.
   No proofs in this file. *)
From Coq Require Import List Bool.
Import ListNotations.

Section Memo.
Variables (P C : Type) (f : P -> C).

Inductive mop := MCall | MWrite (p : P) | MFreeze (b : bool).
Record mstate := mkm { par : P; frozen : bool; cache : option C }.

(* the library as it is: every call derives the codebook from the parameters in force *)
Definition step_plain (s : mstate) (o : mop) : mstate * option C :=
  match o with
  | MCall => (s, Some (f (par s)))
  | MWrite p => (mkm p (frozen s) (cache s), None)
  | MFreeze b => (mkm (par s) b (cache s), None)
  end.
(* memoised while frozen: a call reuses the codebook kept by an earlier frozen call; an unfrozen call drops it *)
Definition step_memo (s : mstate) (o : mop) : mstate * option C :=
  match o with
  | MCall => if frozen s then
               match cache s with
               | Some c => (s, Some c)
               | None => (mkm (par s) true (Some (f (par s))), Some (f (par s)))
               end
             else (mkm (par s) false None, Some (f (par s)))
  | MWrite p => (mkm p (frozen s) (cache s), None)
  | MFreeze b => (mkm (par s) b (cache s), None)
  end.

(* run a history; collect, for every call, the codebook it used together with the parameters in force at that moment *)
Fixpoint run (step : mstate -> mop -> mstate * option C) (s : mstate) (h : list mop) : list (P * C) :=
  match h with
  | [] => []
  | o :: r => let '(s', out) := step s o in
              match out with Some c => (par s, c) :: run step s' r | None => run step s' r end
  end.
End Memo.

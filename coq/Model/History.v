(* Histories with external writes: besides calls and decodes, the state of a codebook can be REPLACED from outside between calls
   (load_state_dict, the `codebook` setter, a direct write to `embed`, an optimiser step on a Parameter codebook).  The model has no
   other memory than the state itself, so whatever a call computes is a function of the state in force at that call; the
   correspondence (C01 history cases, C02 / C06 instance histories) checks that the implementation has no hidden memory either
   (a cached norm, a cached stacked codebook ...).  No proofs in this file. *)
From Coq Require Import ZArith List Bool.
From VQ Require Import Num Model.Vec Model.Core Model.Machine.
Import ListNotations.

Section History.
Context {F : Type} (o : ops F).
Variable fsqrt : F -> F.

Inductive hop :=
| HStep (p : op F)
| HWrite (s : cstate F).        (* the whole state is replaced by ANY state *)

Definition hstep (cfg : ccfg F) (s : cstate F) (h : hop) : cstate F :=
  match h with
  | HStep p => fst (step o fsqrt cfg s p)
  | HWrite s' => s'
  end.
Definition hrun (cfg : ccfg F) (s : cstate F) (hs : list hop) : cstate F := fold_left (hstep cfg) hs s.

(* the observable trace: for every call / decode, the state in force when it was made, the operation and what it returned *)
Fixpoint htrace (cfg : ccfg F) (s : cstate F) (hs : list hop) : list (cstate F * op F * out F) :=
  match hs with
  | [] => []
  | HStep p :: r => (s, p, snd (step o fsqrt cfg s p)) :: htrace cfg (fst (step o fsqrt cfg s p)) r
  | HWrite s' :: r => htrace cfg s' r
  end.

Definition hop_pure (h : hop) : bool := match h with HStep p => is_pure p | HWrite _ => false end.

End History.
Arguments HStep {F}. Arguments HWrite {F}. Arguments hop : clear implicits.

(* The quantizers as state machines: operations, step, run.  One codebook (head) at a time; heads / layers with
   separate codebooks are independent copies (lists), a shared codebook is one state threaded through the layers.
   No proofs in this file. *)
From Coq Require Import ZArith List Bool.
From VQ Require Import Num Model.Vec Model.Core.
From VQ.Gen Require Import g_rvq_shared_update g_rvq_shared_expire g_rvq_shared_opt g_vq_inplace_opt g_vq_inplace_step.
Import ListNotations.

Section Machine.
Context {F : Type} (o : ops F).
Variable fsqrt : F -> F.

(* ---------------------------------------------------------------- one codebook *)
Inductive op :=
| Call (training freeze temp_pos : bool) (xs : list (vec F)) (mask : option (list bool)) (w : oracle F)
| Decode (idx : list nat).

Inductive out := Indices (idx : list nat) | Codes (cs : list (vec F)).

(* calls that must leave the state alone: evaluation mode, frozen codebook, decoding *)
Definition is_pure (p : op) : bool :=
  match p with
  | Call training freeze _ _ _ _ => negb training || freeze
  | Decode _ => true
  end.

Definition step (cfg : ccfg F) (s : cstate F) (p : op) : cstate F * out :=
  match p with
  | Call training freeze temp_pos xs mask w =>
      let '(s', idx) := cb_forward o fsqrt cfg training freeze temp_pos s xs mask w in (s', Indices idx)
  | Decode idx => (s, Codes (decode s idx))
  end.

Definition run (cfg : ccfg F) (s : cstate F) (ps : list op) : cstate F :=
  fold_left (fun s p => fst (step cfg s p)) ps s.

(* ---------------------------------------------------------------- learnable codebook + in-place optimiser *)
(* VectorQuantize.forward with in_place_codebook_optimizer: one optimiser step on the codebook parameter, guarded;
   [newp] is whatever the optimiser writes (any value: universally quantified in the theorems) *)
Definition inplace_opt (should training freeze manual : bool) (embed newp : list (vec F)) : list (vec F) :=
  if g_vq_inplace_opt freeze training should && g_vq_inplace_step freeze manual training should then newp else embed.

(* ---------------------------------------------------------------- shared-codebook ResidualVQ *)
(* every layer runs the codebook forward on the one shared state (manual_ema_update = true, so only statistics are
   accumulated); the end-of-forward block normalises, steps the optimiser and expires -- under the guards of the source *)
Definition shared_layers (cfg : ccfg F) (training freeze temp_pos : bool) (s : cstate F)
  (layers : list (list (vec F) * option (list bool) * oracle F)) : cstate F :=
  fold_left (fun s l => fst (cb_forward o fsqrt cfg training freeze temp_pos s (fst (fst l)) (snd (fst l)) (snd l))) layers s.

Definition shared_end (cfg : ccfg F) (training shared freeze : bool) (picks : list (vec F)) (s : cstate F) : cstate F :=
  let s1 := if g_rvq_shared_update freeze shared training then normalise o (c_eps cfg) (post_of o fsqrt cfg) s else s in
  if g_rvq_shared_expire freeze shared training then expire o (c_cosine cfg) (c_thr cfg) (c_reset cfg) picks s1 else s1.

Definition shared_forward (cfg : ccfg F) (training freeze temp_pos : bool) (s : cstate F)
  (layers : list (list (vec F) * option (list bool) * oracle F)) (picks : list (vec F)) : cstate F :=
  shared_end cfg training true freeze picks (shared_layers cfg training freeze temp_pos s layers).

End Machine.

Arguments Call {F}. Arguments Decode {F}. Arguments op : clear implicits. Arguments out : clear implicits.

(* An executable model of einops `rearrange` / `repeat` patterns, so that the layout theorems can be stated about the pattern STRINGS that
   the translator regenerates from /repo on every run (Gen/pr_*.v) instead of about hand-copied index maps.

   A pattern such as "1 (b h) n d -> b n (h d)" is parsed (inside Coq) into two sides; a side is a list of groups; a group is a list of
   atoms (named axes or the literal 1).  Tensors are functions from multi-indices (one coordinate per group, `list nat`) to values.
   `rearr p e X` is the tensor produced by rearrange / repeat: its entry at output index o is the entry of X at the input index obtained by
   decoding o along the right-hand side (mixed radix, row-major inside a group) and re-encoding along the left-hand side.
   An ellipsis "..." is treated as ONE axis (the row-major flattening of the axes it stands for), which is exact for the patterns used in
   the library (the ellipsis occurs once per side, as a whole group). *)
From Coq Require Import String Ascii List Arith Bool.
Import ListNotations.
Open Scope string_scope.

Inductive atom := Ax (name : string) | One.
Definition group := list atom.
Definition side := list group.
Record pattern := mkpat { lhs : side; rhs : side }.

(* ---------- lexer / parser *)
Inductive tok := TWord (s : string) | TOpen | TClose | TComma.

Definition flush (cur : string) : list tok := if String.eqb cur "" then [] else [TWord cur].

Fixpoint lex (s cur : string) : list tok :=
  match s with
  | EmptyString => flush cur
  | String c r =>
      if Ascii.eqb c " " then (flush cur ++ lex r "")%list
      else if Ascii.eqb c "(" then (flush cur ++ TOpen :: lex r "")%list
      else if Ascii.eqb c ")" then (flush cur ++ TClose :: lex r "")%list
      else if Ascii.eqb c "," then (flush cur ++ TComma :: lex r "")%list
      else lex r (cur ++ String c "")
  end.

Fixpoint parse_side (ts : list tok) (ing : option (list atom)) (acc : list group) : option side :=
  match ts with
  | [] => match ing with None => Some (rev acc) | Some _ => None end
  | TWord w :: r =>
      let a := if String.eqb w "1" then One else Ax w in
      match ing with
      | None => parse_side r None ([a] :: acc)
      | Some g => parse_side r (Some (g ++ [a])%list) acc
      end
  | TOpen :: r => match ing with None => parse_side r (Some []) acc | Some _ => None end
  | TClose :: r => match ing with Some g => parse_side r None (g :: acc) | None => None end
  | TComma :: _ => None
  end.

Definition is_arrow (t : tok) : bool := match t with TWord w => String.eqb w "->" | _ => false end.

Fixpoint split_arrow (ts acc : list tok) : option (list tok * list tok) :=
  match ts with
  | [] => None
  | t :: r => if is_arrow t then Some (rev acc, r) else split_arrow r (t :: acc)
  end.

(* einops accepts "d->" without blanks around the arrow: put them in before lexing *)
Fixpoint space_arrow (s : string) : string :=
  match s with
  | EmptyString => EmptyString
  | String c r =>
      match r with
      | String c2 r2 =>
          if Ascii.eqb c "-" && Ascii.eqb c2 ">" then String " " (String "-" (String ">" (String " " (space_arrow r2))))
          else String c (space_arrow r)
      | EmptyString => String c EmptyString
      end
  end.

Definition parse (s : string) : option pattern :=
  match split_arrow (lex (space_arrow s) "") [] with
  | None => None
  | Some (l, r) =>
      match parse_side l None [], parse_side r None [] with
      | Some a, Some b => Some (mkpat a b)
      | _, _ => None
      end
  end.

(* ---------- semantics *)
Definition env := string -> nat.
Definition asize (e : env) (a : atom) : nat := match a with One => 1 | Ax s => e s end.
Definition gsize (e : env) (g : group) : nat := fold_left (fun acc a => acc * asize e a) g 1.
Definition shape (e : env) (s : side) : list nat := map (gsize e) s.

Definition assignment := list (string * nat).
Fixpoint lookup (asg : assignment) (s : string) : nat :=
  match asg with
  | [] => 0
  | (k, v) :: r => if String.eqb k s then v else lookup r s
  end.
Definition aval (asg : assignment) (a : atom) : nat := match a with One => 0 | Ax s => lookup asg s end.

(* row-major inside a group: the LAST atom varies fastest *)
Definition gencode (e : env) (g : group) (asg : assignment) : nat := fold_left (fun acc a => acc * asize e a + aval asg a) g 0.
Fixpoint gdecode_rev (e : env) (g_rev : list atom) (c : nat) : assignment :=
  match g_rev with
  | [] => []
  | a :: r =>
      match a with
      | One => gdecode_rev e r c
      | Ax s => (s, c mod e s) :: gdecode_rev e r (c / e s)
      end
  end.
Definition gdecode (e : env) (g : group) (c : nat) : assignment := gdecode_rev e (rev g) c.

Fixpoint sdecode (e : env) (s : side) (o : list nat) : assignment :=
  match s, o with
  | g :: s', c :: o' => (gdecode e g c ++ sdecode e s' o')%list
  | _, _ => []
  end.
Definition sencode (e : env) (s : side) (asg : assignment) : list nat := map (fun g => gencode e g asg) s.

Definition index_map (p : pattern) (e : env) (o : list nat) : list nat := sencode e (lhs p) (sdecode e (rhs p) o).
Definition rearr {A} (p : pattern) (e : env) (X : list nat -> A) : list nat -> A := fun o => X (index_map p e o).

Definition in_range (e : env) (s : side) (o : list nat) : Prop := Forall2 (fun c g => c < gsize e g) o s.

(* ---------- well-formedness (decidable): every named axis occurs once per side; rearrange: the same axes on both sides;
   repeat: the left axes are a subset of the right axes *)
Definition names_of (s : side) : list string := flat_map (fun g => flat_map (fun a => match a with Ax n => [n] | One => [] end) g) s.
Fixpoint nodupb (l : list string) : bool :=
  match l with [] => true | x :: r => negb (existsb (String.eqb x) r) && nodupb r end.
Definition subsetb (a b : list string) : bool := forallb (fun x => existsb (String.eqb x) b) a.
Definition wf_rearrange (p : pattern) : bool :=
  nodupb (names_of (lhs p)) && nodupb (names_of (rhs p)) && subsetb (names_of (lhs p)) (names_of (rhs p)) && subsetb (names_of (rhs p)) (names_of (lhs p)).
Definition wf_repeat (p : pattern) : bool :=
  nodupb (names_of (lhs p)) && nodupb (names_of (rhs p)) && subsetb (names_of (lhs p)) (names_of (rhs p)).
Definition swap (p : pattern) : pattern := mkpat (rhs p) (lhs p).

(* the role table the translator emits: (assigned variable, call, pattern string) in source order *)
Definition role := (string * string * string)%type.
Fixpoint find_role (rs : list role) (target call : string) (k : nat) : option string :=
  match rs with
  | [] => None
  | (t, c, p) :: r =>
      if String.eqb t target && String.eqb c call then
        match k with O => Some p | S k' => find_role r target call k' end
      else find_role r target call k
  end.
Definition role_pattern (rs : list role) (target call : string) (k : nat) : option pattern :=
  match find_role rs target call k with Some s => parse s | None => None end.

(* environments as association lists *)
Definition env_of (l : list (string * nat)) : env := fun s => lookup l s.

(* state inventory vocabulary (register_buffer / nn.Parameter) *)
From Coq Require Import String List Bool.
Import ListNotations.
Inductive kind := Buffer | Param.
Definition kind_eqb (a b : kind) : bool :=
  match a, b with Buffer, Buffer | Param, Param => true | _, _ => false end.
Definition entry := (string * kind * bool)%type.
Definition has (inv : list entry) (n : string) (k : kind) (p : bool) : bool :=
  existsb (fun e => match e with (n', k', p') => String.eqb n n' && kind_eqb k k' && Bool.eqb p p' end) inv.
Definition names (inv : list entry) : list string := map (fun e => fst (fst e)) inv.
Definition persistent_names (inv : list entry) : list string :=
  map (fun e => fst (fst e)) (filter (fun e => snd e) inv).
Definition param_names (inv : list entry) : list string :=
  map (fun e => fst (fst e)) (filter (fun e => match snd (fst e) with Param => true | _ => false end) inv).
Definition buffer_names (inv : list entry) : list string :=
  map (fun e => fst (fst e)) (filter (fun e => match snd (fst e) with Buffer => true | _ => false end) inv).
Definition mem (n : string) (l : list string) : bool := existsb (String.eqb n) l.

(* correspondence: the runtime module's own registries (named_buffers / named_parameters / state_dict keys, own
   entries only, optional entries allowed to be absent) agree with the inventory regenerated from the source *)
Definition subset (a b : list string) : bool := forallb (fun n => mem n b) a.
Definition inv_runtime_ok (inv : list entry) (optional persistent_buffers nonpersistent_buffers params : list string) : bool :=
  subset persistent_buffers (map (fun e => fst (fst e)) (filter (fun e => match e with (_, Buffer, true) => true | _ => false end) inv)) &&
  subset nonpersistent_buffers (map (fun e => fst (fst e)) (filter (fun e => match e with (_, Buffer, false) => true | _ => false end) inv)) &&
  subset params (param_names inv) &&
  (* every inventory name is present at runtime in exactly the role(s) the inventory allows *)
  forallb (fun n => mem n optional || mem n persistent_buffers || mem n nonpersistent_buffers || mem n params) (names inv).

(* Executable correspondence predicates for C04 (evaluated by vm_compute on the
   implementation's tables / forward results). *)
From Coq Require Import ZArith QArith List Bool SpecFloat.
From VQ Require Import Num Model.Vec Model.Codec Model.B32.
Import ListNotations.
Open Scope Z_scope.

Fixpoint list_sf_eqb (a b : list spec_float) : bool :=
  match a, b with
  | [], [] => true
  | x :: a', y :: b' => sf_eqb x y && list_sf_eqb a' b'
  | _, _ => false
  end.

(* -0.0 == 0.0 numerically; tables are compared numerically (sign of zero is not observable through ==) *)
Definition sf_num_eqb (a b : spec_float) : bool :=
  match a, b with
  | S754_zero _, S754_zero _ => true
  | _, _ => sf_eqb a b
  end.
Fixpoint list_sf_num_eqb (a b : list spec_float) : bool :=
  match a, b with
  | [], [] => true
  | x :: a', y :: b' => sf_num_eqb x y && list_sf_num_eqb a' b'
  | _, _ => false
  end.

Fixpoint zip3 {A B C} (a : list A) (b : list B) (c : list C) : list (A * B * C) :=
  match a, b, c with
  | x :: a', y :: b', z :: c' => (x, y, z) :: zip3 a' b' c'
  | _, _, _ => []
  end.

(* whole-codebook table: implementation's implicit_codebook rows and codes_to_indices of them.
   kind: 0 = FSQ, 1 = FSQ preserve_symmetry, 2 = LatentQuantize *)
Definition model_code (kind : nat) (ls : list Z) (i : Z) : list spec_float :=
  match kind with
  | O => fsq_index_to_code_b32 ls i
  | S O => fsq_sym_index_to_code_b32 ls i
  | _ => lq_index_to_code_b32 ls i
  end.
Definition model_index (kind : nat) (ls : list Z) (c : list spec_float) : Z :=
  match kind with
  | O => fsq_codes_to_index_intsum ConvRound ls c
  | S O => fsq_sym_codes_to_index ConvRound ls c
  | _ => lq_codes_to_index_intsum ConvRound ls c
  end.

Definition table_ok (kind : nat) (ls : list Z) (codes : list (list spec_float)) (back : list Z) : bool :=
  let n := prod ls in
  (Z.of_nat (length codes) =? n) && (Z.of_nat (length back) =? n) &&
  forallb (fun p => match p with (i, c, b) =>
      list_sf_num_eqb c (model_code kind ls i) && (b =? i) && (model_index kind ls c =? i) end)
    (zip3 (zrange n) codes back).

(* forward results: index in range and decodes (model) to exactly the emitted vector *)
Definition forward_ok (kind : nat) (ls : list Z) (outs : list (list spec_float)) (idxs : list Z) : bool :=
  (Nat.eqb (length outs) (length idxs)) &&
  forallb (fun p => let i := snd p in
      (0 <=? i) && (i <? prod ls) && list_sf_num_eqb (fst p) (model_code kind ls i))
    (combine outs idxs).

(* reachability as observed: every level of every dimension occurs among the returned indices *)
Definition levels_covered (ls : list Z) (idxs : list Z) : bool :=
  let digs := map (dec ls) idxs in
  forallb (fun d => forallb (fun k => existsb (fun ds => nth d ds (-1) =? k) digs) (zrange (nth d ls 0)))
          (seq 0 (length ls)).

(* ---- LFQ ---- *)
Definition qlist_eqb (a b : list Q) : bool :=
  Nat.eqb (length a) (length b) && forallb (fun p => Qeq_bool (fst p) (snd p)) (combine a b).
Definition bool_list_eqb (a b : list bool) : bool :=
  Nat.eqb (length a) (length b) && forallb (fun p => Bool.eqb (fst p) (snd p)) (combine a b).

Definition lfq_table_ok (scale : Q) (d : nat) (codes : list (list Q)) : bool :=
  (Z.of_nat (length codes) =? 2 ^ Z.of_nat d) &&
  forallb (fun p => qlist_eqb (snd p) (lfq_code Q_ops scale d (fst p)))
          (combine (zrange (2 ^ Z.of_nat d)) codes).

(* spherical: sign pattern = bits, and c_j^2 * d = scale^2 up to tol *)
Definition lfq_table_spherical_ok (tol scale : Q) (d : nat) (codes : list (list Q)) : bool :=
  (Z.of_nat (length codes) =? 2 ^ Z.of_nat d) &&
  forallb (fun p => bool_list_eqb (map (fun c => Qltb 0 c) (snd p)) (bits_of d (fst p))
                    && forallb (fun c => Qclose tol (c * c * inject_Z (Z.of_nat d)) (scale * scale)) (snd p))
          (combine (zrange (2 ^ Z.of_nat d)) codes).

(* forward: per position xs (after projection), emitted vector and index *)
Definition lfq_forward_ok (scale : Q) (cases : list (list Q * list Q * Z)) : bool :=
  forallb (fun p => match p with (xs, out, idx) =>
      (idx =? index_of (lfq_bits_of_input Q_ops xs))
      && qlist_eqb out (map (lfq_quant Q_ops scale) xs)
      && qlist_eqb out (lfq_code Q_ops scale (length xs) idx) end) cases.
Definition lfq_forward_spherical_ok (cases : list (list Q * list Q * Z)) : bool :=
  forallb (fun p => match p with (xs, out, idx) =>
      (idx =? index_of (lfq_bits_of_input Q_ops xs))
      && bool_list_eqb (map (fun c => Qltb 0 c) out) (lfq_bits_of_input Q_ops xs) end) cases.

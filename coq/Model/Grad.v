(* C07: the gradient contract.  Autograd is modelled by directional derivatives: every sub-expression the source wraps
   in .detach() (or computes under no_grad) is a CONSTANT of the differentiated map.  The differentiable maps of the
   straight-through estimator, the rotation trick, sync_update_v and the commitment losses are then affine in the
   input, so their derivative in direction dx is their linear part applied to dx.  Generic in the scalar (run at Q in
   the correspondence, proved at R).  No proofs here. *)
From Coq Require Import ZArith List Bool.
From VQ Require Import Num Model.Vec Model.Core.
From VQ.Gen Require Import k_safe_div g_vq_maybe_detach g_vq_rotate.
Import ListNotations.

Section Grad.
Context {F : Type} (o : ops F).
Variable fsqrt : F -> F.

Definition two : F := ofZ o 2.
Definition vnorm (x : vec F) : F := fsqrt (sqnorm o x).

(* ---- straight-through: quantize = x + (quantize - x).detach()   ->   value q, derivative dx *)
Definition ste_value (x q : vec F) : vec F := vadd o x (vsub o q x).
Definition ste_tangent (dx : vec F) : vec F := dx.

(* ---- rotation trick.  Constants of the differentiated map (all detached in the source): u = x/|x|, qh = q/|q|,
   w = l2norm(u + qh), lam = |q| / |x|  (every norm clamped from below by eps, as safe_div / l2norm do) *)
Definition rot_parts (eps : F) (x q : vec F) : vec F * vec F * vec F * F :=
  let nx := vnorm x in let nq := vnorm q in
  let u := map (fun a => k_safe_div o a nx eps) x in
  let qh := map (fun a => k_safe_div o a nq eps) q in
  let s := vadd o u qh in
  let w := vdivs o s (fmax o (vnorm s) eps) in
  (u, qh, w, k_safe_div o nq nx eps).
(* e - 2 (e.w) w + 2 (e.u) qh, then times lam : linear in e *)
Definition rot_apply (u qh w : vec F) (lam : F) (e : vec F) : vec F :=
  vscale o lam (vadd o (vsub o e (vscale o (mul o two (dot o e w)) w)) (vscale o (mul o two (dot o e u)) qh)).
Definition rotate_value (eps : F) (x q : vec F) : vec F :=
  let '(u, qh, w, lam) := rot_parts eps x q in rot_apply u qh w lam x.
Definition rotate_tangent (eps : F) (x q dx : vec F) : vec F :=
  let '(u, qh, w, lam) := rot_parts eps x q in rot_apply u qh w lam dx.

(* ---- which estimator VectorQuantize.forward applies (guards from the source) *)
Definition vq_out_tangent (eps : F) (training requires_grad rotation : bool) (v : F) (x q dx : vec F) : vec F :=
  let t := if g_vq_rotate requires_grad rotation training then rotate_tangent eps x q dx
           else if training && requires_grad then ste_tangent dx
           else map (fun _ => zero o) dx in           (* no path from the input to the output *)
  (* sync_update_v: quantize + v * (quantize - quantize.detach()) : value unchanged, derivative scaled by (1 + v) *)
  if training then vscale o (add o (one o) v) t else t.

(* ---- commitment loss  weight * mse(maybe_detach(q), x)  over N = (number of entries) ; derivative w.r.t. x and w.r.t. q *)
Definition mse (a b : vec F) : F := div o (sqdist o a b) (ofnat o (length a)).
Definition commit_grad_x (weight : F) (x q : vec F) : vec F :=
  vscale o (div o (mul o weight two) (ofnat o (length x))) (vsub o x q).
Definition commit_grad_q (weight : F) (learnable freeze : bool) (x q : vec F) : vec F :=
  if g_vq_maybe_detach freeze learnable then map (fun _ => zero o) q
  else vscale o (div o (mul o weight two) (ofnat o (length x))) (vsub o q x).
(* SimVQ: mse(x.detach(), q) + w * mse(x, q.detach()) *)
Definition simvq_grad_x (weight w : F) (x q : vec F) : vec F := commit_grad_x (mul o weight w) x q.
Definition simvq_grad_q (weight : F) (x q : vec F) : vec F :=
  vscale o (div o (mul o weight two) (ofnat o (length x))) (vsub o q x).

End Grad.

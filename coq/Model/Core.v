(* Executable model of one codebook (EuclideanCodebook / CosineSimCodebook, one head):
   assignment, EMA statistics, Laplace normalisation, dead-code expiry, k-means initialisation and the
   forward step as a state machine.  Written once over [ops F]; theorems are proved at [R_ops], the
   correspondence runs it at [Q_ops] on the implementation's exact float32 values.
   Scalar kernels and every guard on a state write come from Gen (regenerated from /repo).
   No proofs in this file. *)
From Coq Require Import ZArith List Bool.
From VQ Require Import Num Model.Vec.
From VQ.Gen Require Import k_cdist k_ema_inplace k_laplace k_expire_cmp
  g_euclid_ema g_euclid_update_ema g_euclid_expire g_euclid_replace g_euclid_kmeans g_euclid_mask_onehot
  g_cosine_ema g_cosine_update_ema g_cosine_expire g_cosine_replace g_cosine_kmeans g_cosine_mask_onehot
  g_gumbel_noise.
Import ListNotations.

Section Core.
Context {F : Type} (o : ops F).
(* abstract unary functions: real sqrt at R; never evaluated at Q (relational checkers are used instead) *)
Variable fsqrt : F -> F.

Definition ofnat (n : nat) : F := ofZ o (Z.of_nat n).

(* ------------------------------------------------------------------ assignment *)
(* the code's score: -cdist(x, c) = -sqrt(max(0, x.x + c.c - 2 x.c)) *)
Definition negcdist (x c : vec F) : F := opp o (k_cdist o fsqrt (sqnorm o x) (sqnorm o c) (dot o x c)).
(* sqrt-free, order-equivalent score (used for execution at Q) *)
Definition negsqdist (x c : vec F) : F := opp o (sqdist o x c).
Definition cosscore (x c : vec F) : F := dot o x c.
Definition select (score : vec F -> vec F -> F) (cb : list (vec F)) (x : vec F) : nat :=
  argmax_first o (map (score x) cb).
Definition lookup (cb : list (vec F)) (i : nat) : vec F := nth i cb [].
(* l2norm: x / max(|x|, eps) *)
Definition l2n (eps : F) (x : vec F) : vec F := vdivs o x (fmax o (fsqrt (sqnorm o x)) eps).

(* ------------------------------------------------------------------ state *)
Record cstate := mkst { embed : list (vec F); embed_avg : list (vec F); cluster_size : list F; initted : bool }.

Definition ema_vec (old new : vec F) (decay : F) : vec F := map2 (fun a b => k_ema_inplace o a b decay) old new.

(* one-hot statistics of the batch; a token is (index, valid?) : padded tokens are zeroed before the sums *)
Definition ema_accumulate (decay : F) (d : nat) (s : cstate) (xs : list (vec F)) (ims : list (nat * bool)) : cstate :=
  let K := length (cluster_size s) in
  mkst (embed s)
       (map2 (fun a b => ema_vec a b decay) (embed_avg s) (sums o K d xs ims))
       (ema_vec (cluster_size s) (counts o K ims) decay)
       (initted s).

(* laplace_smoothing(cs, K, eps) * cs.sum() *)
Definition smoothed (eps : F) (cs : list F) : list F :=
  let tot := fsum o cs in
  map (fun c => mul o (k_laplace o c (ofnat (length cs)) eps tot) tot) cs.

(* update_ema: embed := post (embed_avg / smoothed) ; post = id (Euclid) or l2norm (cosine) *)
Definition normalise (eps : F) (post : vec F -> vec F) (s : cstate) : cstate :=
  mkst (map2 (fun a c => post (vdivs o a c)) (embed_avg s) (smoothed eps (cluster_size s)))
       (embed_avg s) (cluster_size s) (initted s).

(* ------------------------------------------------------------------ expiry *)
(* codes whose count is below the threshold take the next sampled vector, in code order *)
Fixpoint expire_rows (thr reset : F) (picks : list (vec F)) (es eas : list (vec F)) (cs : list F)
  : list (vec F) * list (vec F) * list F :=
  match es, eas, cs with
  | e :: es', a :: eas', c :: cs' =>
      if k_expire_cmp o c thr then
        match picks with
        | p :: picks' =>
            let '(E, A, C) := expire_rows thr reset picks' es' eas' cs' in
            (p :: E, vscale o reset p :: A, reset :: C)
        | [] =>
            let '(E, A, C) := expire_rows thr reset [] es' eas' cs' in (e :: E, a :: A, c :: C)
        end
      else
        let '(E, A, C) := expire_rows thr reset picks es' eas' cs' in (e :: E, a :: A, c :: C)
  | _, _, _ => ([], [], [])
  end.

Definition any_expired (thr : F) (cs : list F) : bool := existsb (fun c => k_expire_cmp o c thr) cs.

Definition expire (cosine : bool) (thr reset : F) (picks : list (vec F)) (s : cstate) : cstate :=
  let go := if cosine then g_cosine_replace (eqb o thr (zero o)) (any_expired thr (cluster_size s))
            else g_euclid_replace (eqb o thr (zero o)) (any_expired thr (cluster_size s)) in
  if go then
    let '(E, A, C) := expire_rows thr reset picks (embed s) (embed_avg s) (cluster_size s) in
    mkst E A C (initted s)
  else s.

(* ------------------------------------------------------------------ k-means *)
Definition dim_of (xs : list (vec F)) : nat := match xs with x :: _ => length x | [] => 0 end.

Definition kmeans_iter (score : vec F -> vec F -> F) (post : vec F -> vec F)
  (data means : list (vec F)) : list (vec F) * list F :=
  let K := length means in
  let d := dim_of data in
  let ims := map (fun x => (select score means x, true)) data in
  let bins := counts o K ims in
  let sm := sums o K d data ims in
  let new := map2 (fun s b => post (vdivs o s (if eqb o b (zero o) then one o else b))) sm bins in
  (map2 (fun bm nm => if eqb o (fst bm) (zero o) then snd bm else nm) (combine bins means) new, bins).

Fixpoint kmeans (score : vec F -> vec F -> F) (post : vec F -> vec F) (iters : nat)
  (data means : list (vec F)) (bins : list F) : list (vec F) * list F :=
  match iters with
  | O => (means, bins)
  | S n => let '(m', b') := kmeans_iter score post data means in kmeans score post n data m' b'
  end.

Definition init_embed (score : vec F -> vec F -> F) (post : vec F -> vec F) (iters : nat)
  (data seeds : list (vec F)) (s : cstate) : cstate :=
  let '(means, bins) := kmeans score post iters data seeds (map (fun _ => zero o) seeds) in
  mkst means (map2 (fun m b => vscale o b m) means bins) bins true.

(* ------------------------------------------------------------------ the forward step *)
Record ccfg := mkcfg {
  c_cosine : bool; c_decay : F; c_eps : F; c_thr : F; c_reset : F;
  c_ema_update : bool; c_manual : bool; c_kmeans_iters : nat; c_stochastic : bool; c_l2eps : F }.

(* every external choice of one call: k-means seeds, expiry replacements, sampled indices (stochastic mode) *)
Record oracle := mkor { w_seeds : list (vec F); w_picks : list (vec F); w_sample : option (list nat) }.

Definition keep {A} (mask : list bool) (xs : list A) : list A :=
  map snd (filter (fun p => fst p) (combine mask xs)).

Definition g_ema (cfg : ccfg) (training freeze : bool) : bool :=
  if c_cosine cfg then g_cosine_ema freeze (c_ema_update cfg) training
  else g_euclid_ema freeze (c_ema_update cfg) training.
Definition g_update (cfg : ccfg) (training freeze : bool) : bool :=
  if c_cosine cfg then g_cosine_update_ema freeze (c_ema_update cfg) (c_manual cfg) training
  else g_euclid_update_ema freeze (c_ema_update cfg) (c_manual cfg) training.
Definition g_expire (cfg : ccfg) (training freeze : bool) : bool :=
  if c_cosine cfg then g_cosine_expire freeze (c_ema_update cfg) (c_manual cfg) training
  else g_euclid_expire freeze (c_ema_update cfg) (c_manual cfg) training.
Definition g_kmeans (cfg : ccfg) (init : bool) : bool :=
  if c_cosine cfg then g_cosine_kmeans init else g_euclid_kmeans init.
Definition g_maskhot (cfg : ccfg) (has_mask training freeze : bool) : bool :=
  if c_cosine cfg then g_cosine_mask_onehot has_mask freeze (c_ema_update cfg) training
  else g_euclid_mask_onehot has_mask freeze (c_ema_update cfg) training.

Definition score_of (cfg : ccfg) : vec F -> vec F -> F := if c_cosine cfg then cosscore else negcdist.
Definition post_of (cfg : ccfg) : vec F -> vec F := if c_cosine cfg then l2n (c_l2eps cfg) else (fun v => v).

(* the state update of one call, given the assignment [idx] actually used by the call *)
Definition cb_update (cfg : ccfg) (training freeze has_mask : bool) (s1 : cstate)
  (xs : list (vec F)) (valid : list bool) (idx : list nat) (picks : list (vec F)) : cstate :=
  if g_ema cfg training freeze then
    let ims := combine idx (if g_maskhot cfg has_mask training freeze then valid else map (fun _ => true) xs) in
    let sa := ema_accumulate (c_decay cfg) (dim_of xs) s1 xs ims in
    let sn := if g_update cfg training freeze then normalise (c_eps cfg) (post_of cfg) sa else sa in
    if g_expire cfg training freeze then expire (c_cosine cfg) (c_thr cfg) (c_reset cfg) picks sn else sn
  else s1.

(* xs: the tokens of this head after projection / normalisation; mask: None = no mask given *)
Definition cb_forward (cfg : ccfg) (training freeze : bool) (temp_pos : bool) (s : cstate)
  (xs : list (vec F)) (mask : option (list bool)) (w : oracle) : cstate * list nat :=
  let valid := match mask with Some m => m | None => map (fun _ => true) xs end in
  let has_mask := match mask with Some _ => true | None => false end in
  let s1 := if g_kmeans cfg (initted s)
            then init_embed (score_of cfg) (post_of cfg) (c_kmeans_iters cfg) (keep valid xs) (w_seeds w) s
            else s in
  let idx := match (if g_gumbel_noise (c_stochastic cfg) temp_pos training then w_sample w else None) with
             | Some i => i
             | None => map (select (score_of cfg) (embed s1)) xs
             end in
  (cb_update cfg training freeze has_mask s1 xs valid idx (w_picks w), idx).

(* public decode of one head: table lookup *)
Definition decode (s : cstate) (idx : list nat) : list (vec F) := map (lookup (embed s)) idx.

End Core.

Arguments mkst {F}. Arguments embed {F}. Arguments embed_avg {F}. Arguments cluster_size {F}. Arguments initted {F}.
Arguments mkcfg {F}. Arguments mkor {F}.
Arguments cstate : clear implicits. Arguments ccfg : clear implicits. Arguments oracle : clear implicits.

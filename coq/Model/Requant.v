(* VectorQuantize.forward with `in_place_codebook_optimizer`: the codebook is quantized, the optimiser moves the codebook INSIDE the call, and the
   input is quantized AGAIN.  Which pass each of the three results (quantized vectors, indices, distances) comes from is decided by the names the
   second `self._codebook(...)` call binds its results to: Gen/o_vq_codebook_calls lists them, in source order, regenerated from /repo on every run.
   [forward_from_bindings] reads that list; the theorems are about the function it yields for the CURRENT source.  No proofs in this file. *)
From Coq Require Import List Bool String Ascii Reals.
From VQ Require Import Num Model.Vec Model.Core.
Import ListNotations.
Open Scope string_scope.
Local Notation Rv := (list R).

Section Requant.
(* the in-place optimiser step: ANY function of the old codebook, the batch and the first pass's indices (SGD, Adam with its moments, ...) *)
Variable step : list Rv -> list Rv -> list nat -> list Rv.

Definition sel (cb : list Rv) (x : Rv) : nat := select R_ops (negcdist R_ops sqrt) cb x.
Definition pass (cb : list Rv) (xs : list Rv) : list nat := map (sel cb) xs.

Record result := mkres { r_idx : list nat; r_vec : list Rv; r_cb : list Rv }.

(* what the library does: everything of the second pass *)
Definition inplace_forward (cb : list Rv) (xs : list Rv) : result :=
  let i1 := pass cb xs in
  let cb' := step cb xs i1 in
  let i2 := pass cb' xs in
  mkres i2 (map (lookup cb') i2) cb'.

(* the regression of seeds C01-i / C17-i: vectors of the second pass, indices of the first *)
Definition stale_forward (cb : list Rv) (xs : list Rv) : result :=
  let i1 := pass cb xs in
  let cb' := step cb xs i1 in
  let i2 := pass cb' xs in
  mkres i1 (map (lookup cb') i2) cb'.

(* ---- the forward as the SOURCE binds it: row k of [rows] = comma-separated names that call k of self._codebook binds *)
Fixpoint split_commas (s cur : string) : list string :=
  match s with
  | EmptyString => [cur]
  | String c r =>
      if Ascii.eqb c ","%char then cur :: split_commas r EmptyString
      else if Ascii.eqb c " "%char then split_commas r cur
      else split_commas r (cur ++ String c EmptyString)
  end.
Definition names (row : string) : list string := split_commas row EmptyString.
(* position of the result (0 = vectors, 1 = indices, 2 = distances) that a row binds to the variable [v] *)
Definition binds (row : string) (pos : nat) (v : string) : bool := String.eqb (nth pos (names row) EmptyString) v.

Definition forward_from_bindings (rows : list string) (cb : list Rv) (xs : list Rv) : option result :=
  match rows with
  | [r1; r2] =>
      if binds r1 0 "quantize" && binds r1 1 "embed_ind" then
        let i1 := pass cb xs in
        let cb' := step cb xs i1 in
        let i2 := pass cb' xs in
        let idx := if binds r2 1 "embed_ind" then i2 else i1 in
        let vec := if binds r2 0 "quantize" then map (lookup cb') i2 else map (lookup cb) i1 in
        Some (mkres idx vec cb')
      else None
  | _ => None
  end.

(* the call's contract: index k is a nearest code of token k IN THE CODEBOOK THE CALL LEAVES BEHIND, and vector k is that code *)
Definition consistent (xs : list Rv) (r : result) (nearest : list Rv -> Rv -> nat -> Prop) : Prop :=
  List.length (r_idx r) = List.length xs /\
  (forall k, (k < List.length xs)%nat -> nearest (r_cb r) (nth k xs []) (nth k (r_idx r) O)) /\
  r_vec r = map (lookup (r_cb r)) (r_idx r).
End Requant.

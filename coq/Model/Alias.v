(* Two observers of one store (tied buffers between two modules, the caller's dict under torch.func.functional_call): a statistic updated IN PLACE is
   seen by both, a statistic REBOUND to a fresh tensor is seen by the writer only (round-8 seeds C03-h, C08-h).  Cells hold values; a module maps
   field names to cells.  No proofs in this file. *)
From Coq Require Import Arith Bool.

Section Alias.
Variable V : Type.
Definition store := nat -> V.
Definition binding := nat -> nat.          (* field -> cell *)

Definition read (st : store) (m : binding) (f : nat) : V := st (m f).
Definition upd {A} (g : nat -> A) (k : nat) (v : A) : nat -> A := fun x => if Nat.eqb x k then v else g x.

(* buffer.data.copy_(v) / lerp_ : the cell the field points to gets the new content *)
Definition write_in_place (st : store) (m : binding) (f : nat) (v : V) : store * binding := (upd st (m f) v, m).
(* self.field = new_tensor : a fresh cell, only the writer's binding moves *)
Definition rebind (st : store) (m : binding) (f : nat) (fresh : nat) (v : V) : store * binding := (upd st fresh v, upd m f fresh).
End Alias.

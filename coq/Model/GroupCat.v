(* Grouped residual quantizers (GroupedResidualVQ / FSQ / LFQ): the feature axis is cut into G chunks of dg channels, every chunk goes through its own
   residual stack, the outputs are concatenated again.  Tensors are total functions of three indices; channel-first is (b, c, p) with p the flattened
   positions (h w / t h w), channel-last is (b, p, c).  The decoders of the stacks return channel-LAST tensors for every layout.
   Which axis the source concatenates on is read off the regenerated rows of Gen/p_residual ("<tag>.decode:torch.cat(outputs, dim=...)",
   "<tag>.fwd:quantized = torch.cat(quantized, dim=split_dim)").  No proofs in this file. *)
From Coq Require Import Arith List Bool String.
Import ListNotations.
Open Scope string_scope.

Section GroupCat.
Context {A : Type}.
Definition T3 := nat -> nat -> nat -> A.

(* chunk g of a channel-first tensor (axis 1) / of a channel-last tensor (last axis) *)
Definition chunk_ax1 (dg : nat) (X : T3) (g : nat) : T3 := fun b c p => X b (g * dg + c) p.
Definition chunk_last (dg : nat) (X : T3) (g : nat) : T3 := fun b p c => X b p (g * dg + c).
(* concatenation of the per-group tensors on axis 1 / on the last axis *)
Definition cat_ax1 (dg : nat) (Ys : nat -> T3) : T3 := fun b c p => Ys (c / dg) b (c mod dg) p.
Definition cat_last (dg : nat) (Ys : nat -> T3) : T3 := fun b p c => Ys (c / dg) b p (c mod dg).
(* channel-first -> channel-last *)
Definition to_last (X : T3) : T3 := fun b p c => X b c p.
End GroupCat.

(* shapes: concatenating G tensors of one shape on axis k multiplies extent k by G *)
Definition shape3 := (nat * nat * nat)%type.
Inductive axis := Ax1 | AxLast.
Definition cat_shape (k : axis) (G : nat) (s : shape3) : shape3 :=
  let '(e0, e1, e2) := s in match k with Ax1 => (e0, G * e1, e2) | AxLast => (e0, e1, G * e2) end.

(* ---- reading the axis off the source rows *)
Definition has (needle hay : string) : bool := match index 0 needle hay with Some _ => true | None => false end.
Fixpoint find_row (pre : string) (rows : list string) : option string :=
  match rows with
  | [] => None
  | r :: rs => if prefix pre r then Some r else find_row pre rs
  end.
(* the row that assigns `quantized = torch.cat(...)` inside <tag>.fwd *)
Fixpoint find_row2 (pre needle : string) (rows : list string) : option string :=
  match rows with
  | [] => None
  | r :: rs => if prefix pre r && has needle r then Some r else find_row2 pre needle rs
  end.
(* image = accept_image_fmap: split_dim is 1 for channel-first inputs, -1 otherwise *)
Definition axis_of_row (image : bool) (row : string) : option axis :=
  if has "dim=-1" row then Some AxLast
  else if has "dim=split_dim" row || has "dim=self.split_dim" row then Some (if image then Ax1 else AxLast)
  else None.
Definition decode_axis (tag : string) (image : bool) (rows : list string) : option axis :=
  match find_row (tag ++ ".decode:") rows with Some r => axis_of_row image r | None => None end.
Definition forward_axis (tag : string) (image : bool) (rows : list string) : option axis :=
  match find_row2 (tag ++ ".fwd:") "quantized = torch.cat(" rows with Some r => axis_of_row image r | None => None end.
Definition split_dim_ok (tag : string) (rows : list string) : bool :=
  match find_row (tag ++ ".split_dim:") rows with Some r => String.eqb r (tag ++ ".split_dim:1 if self.accept_image_fmap else -1") | None => false end.

(* Layouts as index maps (C10 / C13).  A tensor is a total function from its indices to values; an einops
   rearrange is pre-composition with an index map; grouped axes `(a b)` are row-major: index = ia * nb + ib.
   Every definition is generic in all extents.  The patterns below are the ones at the anchored sites of the source
   (pinned as text by Gen/pat_*; their permutation semantics is compared with einops itself on index-labelled
   tensors by the C10 correspondence).  No proofs in this file. *)
From Coq Require Import Arith List Bool.
Import ListNotations.

Section Layout.
Context {A B : Type}.

(* token vector: feature index -> value *)
Definition tvec (T : Type) := nat -> T.

(* ---- sequence layout 'b n d' is the canonical one: T b n d *)
(* channel-first 'b d n -> b n d' and back *)
Definition cfirst_in (X : nat -> nat -> nat -> A) : nat -> nat -> nat -> A := fun b n d => X b d n.
Definition cfirst_out (Q : nat -> nat -> nat -> B) : nat -> nat -> nat -> B := fun b d n => Q b n d.
(* image 'b c h w -> b (h w) c' and 'b (h w) c -> b c h w' *)
Definition img_in (W : nat) (X : nat -> nat -> nat -> nat -> A) : nat -> nat -> nat -> A :=
  fun b t c => X b c (t / W) (t mod W).
Definition img_out (W : nat) (Q : nat -> nat -> nat -> B) : nat -> nat -> nat -> nat -> B :=
  fun b c h w => Q b (h * W + w) c.
(* image indices 'b (h w) -> b h w' *)
Definition img_idx_out {I} (W : nat) (J : nat -> nat -> I) : nat -> nat -> nat -> I := fun b h w => J b (h * W + w).

(* ---- heads: 'b n (h d) -> h b n d' (separate codebooks) and back 'h b n d -> b n (h d)' *)
Definition heads_sep_in (D : nat) (X : nat -> nat -> nat -> A) : nat -> nat -> nat -> nat -> A :=
  fun h b n d => X b n (h * D + d).
Definition heads_sep_out (D : nat) (Q : nat -> nat -> nat -> nat -> B) : nat -> nat -> nat -> B :=
  fun b n e => Q (e / D) b n (e mod D).
Definition heads_sep_idx {I} (J : nat -> nat -> nat -> I) : nat -> nat -> nat -> I := fun b n h => J h b n.
(* shared codebook: 'b n (h d) -> 1 (b h) n d' and back '1 (b h) n d -> b n (h d)' ; indices '1 (b h) n -> b n h' *)
Definition heads_shared_in (H D : nat) (X : nat -> nat -> nat -> A) : nat -> nat -> nat -> A :=
  fun bh n d => X (bh / H) n ((bh mod H) * D + d).
Definition heads_shared_out (H D : nat) (Q : nat -> nat -> nat -> B) : nat -> nat -> nat -> B :=
  fun b n e => Q (b * H + e / D) n (e mod D).
Definition heads_shared_idx {I} (H : nat) (J : nat -> nat -> I) : nat -> nat -> nat -> I := fun b n h => J (b * H + h) n.

(* ---- multiple codebooks of FSQ / LFQ / LatentQuantize: 'b n (c d) -> b n c d' and back *)
Definition cb_split (D : nat) (X : nat -> nat -> nat -> A) : nat -> nat -> nat -> nat -> A :=
  fun b n c d => X b n (c * D + d).
Definition cb_merge (D : nat) (Q : nat -> nat -> nat -> nat -> B) : nat -> nat -> nat -> B :=
  fun b n e => Q b n (e / D) (e mod D).

(* ---- position-wise application of a per-token function (fixed codebook) *)
Definition tok_map (f : tvec A -> tvec B) (T : nat -> nat -> nat -> A) : nat -> nat -> nat -> B :=
  fun b n d => f (fun d' => T b n d') d.
Definition tok_map_idx {I} (g : tvec A -> I) (T : nat -> nat -> nat -> A) : nat -> nat -> I :=
  fun b n => g (fun d' => T b n d').
(* per head (4 axes, head first) with a per-head function *)
Definition head_map (f : nat -> tvec A -> tvec B) (T : nat -> nat -> nat -> nat -> A) : nat -> nat -> nat -> nat -> B :=
  fun h b n d => f h (fun d' => T h b n d') d.
Definition head_map_idx {I} (g : nat -> tvec A -> I) (T : nat -> nat -> nat -> nat -> A) : nat -> nat -> nat -> I :=
  fun h b n => g h (fun d' => T h b n d').
(* per codebook slice (4 axes, codebook third) *)
Definition cbk_map (f : nat -> tvec A -> tvec B) (T : nat -> nat -> nat -> nat -> A) : nat -> nat -> nat -> nat -> B :=
  fun b n c d => f c (fun d' => T b n c d') d.

End Layout.

(* ---- tabulation (row-major) for the correspondence with einops on index-labelled tensors *)
Definition tab1 {A} (n : nat) (f : nat -> A) : list A := map f (seq 0 n).
Definition tab2 {A} (n1 n2 : nat) (f : nat -> nat -> A) : list A := concat (tab1 n1 (fun i => tab1 n2 (f i))).
Definition tab3 {A} (n1 n2 n3 : nat) (f : nat -> nat -> nat -> A) : list A := concat (tab1 n1 (fun i => tab2 n2 n3 (f i))).
Definition tab4 {A} (n1 n2 n3 n4 : nat) (f : nat -> nat -> nat -> nat -> A) : list A := concat (tab1 n1 (fun i => tab3 n2 n3 n4 (f i))).
(* the index-labelled input tensors: value = row-major flat index *)
Definition lab3 (n2 n3 : nat) : nat -> nat -> nat -> nat := fun i j k => (i * n2 + j) * n3 + k.
Definition lab4 (n2 n3 n4 : nat) : nat -> nat -> nat -> nat -> nat := fun i j k l => ((i * n2 + j) * n3 + k) * n4 + l.
Definition lab2 (n2 : nat) : nat -> nat -> nat := fun i j => i * n2 + j.
